//! Galois maps on PLAINTEXTS (`Evaluator::apply_galois_plain{,_inplace,_new}`), `GaloisTool::get_elts_from_steps`, the multi-component wrappers
//! `GaloisTool::apply_p / apply_ps / apply_ntt_p / apply_ntt_ps`, and the in-place form of `apply_keyswitching`.
//!  * batched BFV / BGV plaintexts (C11): every element of the default set (steps 0 = row swap, +-2^i) and sampled others, random and structured slot
//!    vectors; the image is compared with the Lean model / the substitution X -> X^g (`galois_apply` line over Z_t) and must DECODE to the permuted
//!    matrix; the three API forms agree; the NTT-form plaintext at every level commutes with the transform (`galois_apply_ntt` lines per component);
//!  * CKKS plaintexts (C04): decode = rotated / conjugated slots within the encoding bound derived below.
use crate::ctx::*;
use crate::c11::{rot_rows, slot_vec, swap_rows};
use crate::rng::Rng;
use crate::util::*;
use heathcliff::*;
use heathcliff::util as hu;

const DIRTY: u64 = 0xDEAD_BEEF_0BAD_F00D;

fn default_steps(row: usize) -> Vec<isize> { let mut v = vec![0isize]; let mut p = 1usize; while p < row { v.push(p as isize); v.push(-(p as isize)); p *= 2; } v }

/// `get_elts_from_steps` = `get_elt_from_step` element by element (judged by the `elt_from_step` line of the Lean driver), and the elements of the
/// default steps are exactly `get_elts_all`
fn elts_from_steps(out: &mut Out, k: usize, tool: &hu::GaloisTool, steps: &[isize], cls: &str) -> Vec<usize> {
    let elts = match std::panic::catch_unwind(std::panic::AssertUnwindSafe(|| tool.get_elts_from_steps(steps))) { Ok(e) => e, Err(_) => { out.raw(&format!("!FAIL elts_from_steps {} {} :: refused valid steps # {}", k, fli(&steps.iter().map(|&x| x as i64).collect::<Vec<_>>()), cls)); return vec![]; } };
    for (i, &st) in steps.iter().enumerate() { let e = elts.get(i).copied(); out.case(&format!("elt_from_step {} {}", k, st), &format!("from-steps-{}", cls), || e.map(|x| x.to_string()).unwrap_or("ERR:other".into())); }
    elts
}

pub fn run_batched(out: &mut Out, r: &mut Rng, thorough: bool) {
    for k in 2..=(if thorough { 7 } else { 5 }) {
        let n = 1usize << k; let row = n / 2;
        for scheme in [SchemeType::BFV, SchemeType::BGV] {
            let tb = (k + 2).max(*r.pick(&[8usize, 17, 20, 33]));
            let t = match std::panic::catch_unwind(|| hu::get_primes(2 * n as u64, tb, 1)[0].value()) { Ok(t) => t, Err(_) => continue };
            let qs = match pick_primes(r, n, &[50, 40, 59]) { Some(v) => v, None => continue };
            if qs.contains(&t) { continue; }
            let s = match make(scheme, n, &qs, t, true, None) { Some(s) => s, None => continue };
            let enc = BatchEncoder::new(s.ctx.clone());
            if !enc.simd_encoding_supported() { continue; }
            let ev = &s.evaluator;
            let tool = hu::GaloisTool::new(k);
            let cls = format!("{}-k{}", scheme_name(scheme), k);
            let dsteps = default_steps(row);
            let delts = elts_from_steps(out, k, &tool, &dsteps, &cls);
            if delts.len() != dsteps.len() { continue; }
            { let mut a = delts.clone(); a.sort(); let mut b = tool.get_elts_all(); b.sort();
              if a == b { out.raw(&format!("!OK elts_default_set {} # {}", k, cls)); } else { out.raw(&format!("!FAIL elts_default_set {} :: get_elts_from_steps(0, +-2^i) = {:?} is not get_elts_all = {:?} # {}", k, a, b, cls)); } }
            // (step, element): the default set, then every other step for small rows / sampled ones
            let mut pairs: Vec<(isize, usize)> = dsteps.iter().copied().zip(delts.iter().copied()).collect();
            let others: Vec<isize> = (-(row as isize) + 1..row as isize).filter(|s| !dsteps.contains(s)).collect();
            for &st in &others { if row <= 8 || thorough || r.chance(1, 4) { pairs.push((st, tool.get_elt_from_step(st))); } }
            let mut vecs: Vec<(String, Vec<u64>)> = vec![("random".into(), slot_vec(r, n, t, 4)), ("const".into(), vec![1 + r.below(t - 1); n]),
                ("rowconst".into(), { let (a, b) = (r.below(t), r.below(t)); (0..n).map(|i| if i < row { a } else { b }).collect() })];
            for kind in [0u64, 1, 3, 5, 6, 7] { vecs.push((format!("kind{}", kind), { let mut x = slot_vec(r, n, t, kind); x.resize(n, 0); x })); }
            let other_plain = enc.encode_new(&slot_vec(r, n, t, 0));
            for (vi, (nm, v)) in vecs.iter().enumerate() {
                let p = enc.encode_new(v);
                for &(st, g) in &pairs {
                    if vi > 0 && !dsteps.contains(&st) && !r.chance(1, 3) { continue; }
                    let c = format!("{}-{}", nm, cls);
                    let res = match std::panic::catch_unwind(std::panic::AssertUnwindSafe(|| ev.apply_galois_plain_new(&p, g))) { Ok(x) => x,
                        Err(_) => { let m = LAST_PANIC.with(|p| p.borrow().clone()); out.raw(&format!("!FAIL galois_plain {} {} {} step={} elt={} {} :: apply_galois_plain on a batched plaintext refused: {} # {}", scheme_name(scheme), k, t, st, g, fl(v), m.replace('\n', " "), c)); continue } };
                    // the image against the model of GaloisTool::apply and the substitution X -> X^g over Z_t
                    if n <= 16 || vi == 0 { out.case(&format!("galois_apply {} {} {} {}", k, t, g, fl(p.data())), &format!("plain-{}", c), || fl(res.data())); }
                    // three forms, operand untouched
                    let before = p.data().clone();
                    let mut dest = other_plain.clone(); ev.apply_galois_plain(&p, g, &mut dest);
                    let mut ip = p.clone(); ev.apply_galois_plain_inplace(&mut ip, g);
                    let forms = dest.data() == res.data() && ip.data() == res.data() && dest.parms_id() == res.parms_id() && ip.parms_id() == res.parms_id() && *p.data() == before
                        && dest.coeff_count() == res.coeff_count() && ip.coeff_count() == res.coeff_count();
                    // decoded: rows rotated left by the step (0: rows swapped)
                    let want = if st == 0 { swap_rows(v) } else { rot_rows(v, st) };
                    let in_range = res.data().iter().all(|&x| x < t);
                    let d = if in_range { std::panic::catch_unwind(std::panic::AssertUnwindSafe(|| enc.decode_new(&res))).ok() } else { None };
                    if forms && d.as_ref() == Some(&want) { out.raw(&format!("!OK galois_plain_slots {} k={} {} step={} # plain-slots-{}", scheme_name(scheme), k, nm, st, c)); }
                    else { out.raw(&format!("!FAIL galois_plain_slots {} {} {} step={} elt={} {} :: {} # plain-slots-{}", scheme_name(scheme), k, t, st, g, fl(v),
                        if !forms { "the destination / in-place / value-returning forms differ (or the operand was modified)" } else if !in_range { "the image has a coefficient >= t" } else { "the image does not decode to the matrix with rows rotated left by step (0 = row swap)" }, c)); }
                    // NTT-form plaintext at every level: sigma_g commutes with the transform
                    if vi <= 1 || st == 0 {
                        for (li, pid) in s.levels().iter().enumerate() {
                            let lq = s.level_qs(pid);
                            let got = std::panic::catch_unwind(std::panic::AssertUnwindSafe(|| { let pn = ev.transform_plain_to_ntt_new(&p, pid); let gn = ev.apply_galois_plain_new(&pn, g); let want = ev.transform_plain_to_ntt_new(&res, pid); (pn, gn, want) }));
                            match got {
                                Err(_) => { let m = LAST_PANIC.with(|p| p.borrow().clone()); out.raw(&format!("!FAIL galois_plain_ntt {} {} {} level={} elt={} :: refused: {} # plain-ntt-{}", scheme_name(scheme), k, t, li, g, m.replace('\n', " "), c)); }
                                Ok((pn, gn, want)) => {
                                    if gn.data() == want.data() && gn.parms_id() == want.parms_id() && gn.is_ntt_form() { out.raw(&format!("!OK galois_plain_ntt {} k={} {} step={} level={} # plain-ntt-{}", scheme_name(scheme), k, nm, st, li, c)); }
                                    else { out.raw(&format!("!FAIL galois_plain_ntt {} {} {} step={} elt={} level={} {} :: sigma_g of the NTT-form plaintext is not the NTT form of sigma_g of the plaintext # plain-ntt-{}", scheme_name(scheme), k, t, st, g, li, fl(v), c)); }
                                    if vi == 0 && n <= 16 { for (j, &q) in lq.iter().enumerate() {
                                        out.case(&format!("galois_apply_ntt {} {} {} {}", k, q, g, fl(&pn.data()[j * n..(j + 1) * n])), &format!("plain-nttcomp-{}", c), || fl(&gn.data()[j * n..(j + 1) * n])); } }
                                }
                            }
                        }
                    }
                }
            }
        }
    }
}

/// CKKS plaintexts (always NTT form): sigma_{3^s} rotates the slot vector left by s, sigma_{2N-1} conjugates.
/// Bound: the encoder rounds scale * (inverse embedding) to integers, error <= 1/2 per coefficient (+ the f64 error of the embedding, <= 2^-40 of a
/// coefficient magnitude scale*max|v|*... which is below 1/2 here: scale*max|v| < 2^37); the automorphism permutes / negates the integer coefficients
/// exactly; decoding sums N coefficients times unit roots and divides by the scale: |error| <= N * (1/2 + 1/2) / scale + 2^-40 * max|v| per slot.
pub fn run_ckks(out: &mut Out, r: &mut Rng, thorough: bool) {
    for k in 2..=(if thorough { 8 } else { 6 }) {
        let n = 1usize << k; let row = n / 2;
        let qs = match pick_primes(r, n, &[50, 40, 40, 59]) { Some(v) => v, None => continue };
        let s = match make(SchemeType::CKKS, n, &qs, 0, true, None) { Some(s) => s, None => continue };
        let enc = CKKSEncoder::new(s.ctx.clone()); let ev = &s.evaluator; let tool = hu::GaloisTool::new(k);
        let scale = 2f64.powi(30);
        let kinds: Vec<(&str, Vec<num_complex::Complex64>)> = vec![
            ("random", (0..row).map(|_| num_complex::Complex64::new((r.below(2001) as f64 - 1000.0) / 16.0, (r.below(2001) as f64 - 1000.0) / 16.0)).collect()),
            ("real-ramp", (0..row).map(|i| num_complex::Complex64::new(i as f64 - 2.5, 0.0)).collect()),
            ("unit", (0..row).map(|i| num_complex::Complex64::new(if i == 1 % row { 1.0 } else { 0.0 }, 0.0)).collect()),
            ("imag-const", vec![num_complex::Complex64::new(0.0, 3.0); row])];
        for (nm, vals) in &kinds {
            let maxv = vals.iter().map(|v| v.norm()).fold(0.0, f64::max);
            let tol = n as f64 / scale + 2f64.powi(-40) * (1.0 + maxv);
            for (li, pid) in s.levels().iter().enumerate() {
                let p = enc.encode_c64_array_new(vals, Some(*pid), scale);
                let other = enc.encode_c64_array_new(&kinds[0].1, None, 2f64.powi(20));
                let mut steps: Vec<isize> = default_steps(row); for st in -(row as isize) + 1..row as isize { if !steps.contains(&st) && (row <= 8 || r.chance(1, 4)) { steps.push(st); } }
                for st in steps {
                    let g = tool.get_elt_from_step(st);
                    let c = format!("ckks-{}-k{}-l{}", nm, k, li);
                    let got = std::panic::catch_unwind(std::panic::AssertUnwindSafe(|| { let res = ev.apply_galois_plain_new(&p, g); let mut dest = other.clone(); ev.apply_galois_plain(&p, g, &mut dest); let mut ip = p.clone(); ev.apply_galois_plain_inplace(&mut ip, g); (res, dest, ip) }));
                    let (res, dest, ip) = match got { Ok(x) => x, Err(_) => { let m = LAST_PANIC.with(|p| p.borrow().clone()); out.raw(&format!("!FAIL galois_plain_ckks k={} step={} elt={} level={} {} :: refused: {} # {}", k, st, g, li, nm, m.replace('\n', " "), c)); continue } };
                    let forms = dest.data() == res.data() && ip.data() == res.data() && dest.parms_id() == res.parms_id() && dest.scale().to_bits() == res.scale().to_bits() && ip.scale().to_bits() == res.scale().to_bits() && res.scale().to_bits() == p.scale().to_bits() && res.parms_id() == p.parms_id();
                    let d = enc.decode_new(&res);
                    let sh = ((st % row as isize) + row as isize) as usize % row;
                    let want = |i: usize| if st == 0 { vals[i].conj() } else { vals[(i + sh) % row] };
                    let worst = (0..row).map(|i| (d[i] - want(i)).norm()).fold(0.0, f64::max);
                    if forms && worst <= tol { out.raw(&format!("!OK galois_plain_ckks k={} {} step={} level={} err={:.3e} bound={:.3e} # {}", k, nm, st, li, worst, tol, c)); }
                    else { out.raw(&format!("!FAIL galois_plain_ckks k={} qs={} scale=2^30 {} step={} elt={} level={} :: {} (error {:.3e}, bound {:.3e}) # {}", k, fl(&qs), nm, st, g, li,
                        if !forms { "the three API forms differ or level / scale metadata changed" } else { "decoded slots are not the input rotated left by step (0 = conjugated)" }, worst, tol, c)); }
                    if n <= 16 && *nm == "random" { let lq = s.level_qs(pid); for (j, &q) in lq.iter().enumerate() {
                        out.case(&format!("galois_apply_ntt {} {} {} {}", k, q, g, fl(&p.data()[j * n..(j + 1) * n])), &format!("nttcomp-{}", c), || fl(&res.data()[j * n..(j + 1) * n])); } }
                }
            }
        }
    }
}

/// `apply_p / apply_ps / apply_ntt_p / apply_ntt_ps` = `apply` / `apply_ntt` block by block (1..3 components, 1..3 polynomials, dirty destinations)
pub fn run_tool_wrappers(out: &mut Out, r: &mut Rng, reps: usize) {
    for rep in 0..reps {
        let lg = r.range(1, 5) as usize; let n = 1usize << lg;
        let kc = 1 + rep % 3; let pc = 1 + (rep / 3) % 3;
        let bitsv: Vec<usize> = (0..kc).map(|_| *r.pick(&[20usize, 30, 45, 59, 60])).collect();
        let qs = crate::c10::ntt_primes(r, n, &bitsv);
        if qs.len() != kc { continue; }
        let ms: Vec<Modulus> = qs.iter().map(|&q| Modulus::new(q)).collect();
        let d = n * kc; let len = d * pc;
        let a: Vec<u64> = (0..len).map(|i| { let q = qs[(i / n) % kc]; match r.below(6) { 0 => 0, 1 => q - 1, _ => r.below(q) } }).collect();
        let g = 2 * r.below(n as u64) as usize + 1;
        let tool = hu::GaloisTool::new(lg);
        let cls = format!("galois-wrap-n{}k{}p{}", n, kc, pc);
        let mut bad: Vec<String> = vec![];
        let want = { let mut res = vec![DIRTY; len]; for p in 0..pc { for c in 0..kc { let o = p * d + c * n; tool.apply(&a[o..o + n], g, &ms[c], &mut res[o..o + n]); } } res };
        let want_ntt = { let mut res = vec![DIRTY; len]; for p in 0..pc { for c in 0..kc { let o = p * d + c * n; tool.apply_ntt(&a[o..o + n], g, &mut res[o..o + n]); } } res };
        macro_rules! chk { ($name:expr, $want:expr, $got:expr) => {{
            let g = std::panic::catch_unwind(std::panic::AssertUnwindSafe(|| $got));
            match g { Ok(g) => if g != $want { bad.push(format!("{} differs from the kernel applied block by block", $name)); }, Err(_) => bad.push(format!("{} panicked on well-shaped operands", $name)) } }} }
        chk!("apply_ps", want, { let mut res = vec![DIRTY; len]; tool.apply_ps(&a, pc, g, &ms, &mut res); res });
        chk!("apply_p", want, { let mut res = vec![DIRTY; len]; for p in 0..pc { let o = p * d; tool.apply_p(&a[o..o + d], g, &ms, &mut res[o..o + d]); } res });
        chk!("apply_ntt_ps", want_ntt, { let mut res = vec![DIRTY; len]; tool.apply_ntt_ps(&a, pc, kc, g, &mut res); res });
        chk!("apply_ntt_p", want_ntt, { let mut res = vec![DIRTY; len]; for p in 0..pc { let o = p * d; tool.apply_ntt_p(&a[o..o + d], kc, g, &mut res[o..o + d]); } res });
        if bad.is_empty() { out.raw(&format!("!OK galois_wrappers {} {} # {}", fl(&qs), g, cls)); }
        else { out.raw(&format!("!FAIL galois_wrappers n={} k={} polys={} {} elt={} :: {} # {}", n, kc, pc, fl(&qs), g, bad.join("; "), cls)); }
    }
}
