//! C08: word-level modular primitives and multi-word helpers, real code vs model/spec.
use crate::rng::Rng;
/// destinations are handed over DIRTY: every helper must define all the words of its result (a scratch buffer is reused after a wider value)
const DIRTY: u64 = 0xDEAD_BEEF_0BAD_F00D;
use crate::util::*;
use heathcliff::util as hu;
use heathcliff::Modulus;

fn modulus(r: &mut Rng) -> u64 {
    // every bit length 2..61, prime or not, plus edge moduli
    match r.below(10) {
        0 => *r.pick(&[2u64, 3, 4, 5, 7, 8, 255, 256, 257, (1 << 61) - 1, 1 << 60, (1 << 60) + 1, 0x1fffffffffe00001]),
        1 => { let b = r.range(2, 61) as u32; (1u64 << b) - 1 }
        2 => { let b = r.range(2, 60) as u32; 1u64 << b }
        _ => { let b = r.range(2, 61) as u32; let v = r.bits(b); if v < 2 {2} else {v} }
    }
}

fn operand(r: &mut Rng, q: u64) -> u64 {
    match r.below(10) {
        0 => 0, 1 => 1, 2 => q - 1, 3 => q / 2, 4 => q / 2 + 1, 5 => q.saturating_sub(2),
        _ => r.below(q),
    }
}

fn anyword(r: &mut Rng, q: u64) -> u64 {
    match r.below(12) {
        0 => q, 1 => 2 * q - 1, 2 => 2 * q - 2, 3 => q + 1, 4 => q.wrapping_mul(r.below(8)),
        5 => operand(r, q),
        _ => r.word(),
    }
}

fn limbs(r: &mut Rng, n: usize) -> Vec<u64> {
    let style = r.below(6);
    (0..n).map(|_| match style { 0 => u64::MAX, 1 => 0, 2 => if r.chance(1, 2) {u64::MAX} else {0}, _ => r.word() }).collect()
}

pub fn run(out: &mut Out, thorough: bool, seed: u64, extra: &[String]) {
    let mut r = Rng::new(seed);
    if extra.first().map(|s| s == "exhaustive").unwrap_or(false) { exhaustive(out); return; }
    let reps = if thorough { 4000 } else { 250 };
    for _ in 0..reps {
        let q = modulus(&mut r);
        let bits = 64 - q.leading_zeros();
        let cls = format!("q{}b", bits);
        out.case(&format!("modulus_new {}", q), &cls, || {
            let m = Modulus::new(q); let c = m.const_ratio();
            format!("{},{},{},{}", c[0], c[1], c[2], m.bit_count()) });
        let m = Modulus::new(q);
        let (x, y, z) = (operand(&mut r, q), operand(&mut r, q), operand(&mut r, q));
        let w = anyword(&mut r, q);
        let w2 = r.word();
        let inc = if r.chance(1, 3) { 2 * q - 2 } else { x };
        out.case(&format!("increment_u64_mod {} {}", inc, q), &cls, || hu::increment_u64_mod(inc, &m).to_string());
        out.case(&format!("decrement_u64_mod {} {}", x, q), &cls, || hu::decrement_u64_mod(x, &m).to_string());
        out.case(&format!("negate_u64_mod {} {}", x, q), &cls, || hu::negate_u64_mod(x, &m).to_string());
        out.case(&format!("div2_u64_mod {} {}", x, q), &cls, || hu::div2_u64_mod(x, &m).to_string());
        out.case(&format!("add_u64_mod {} {} {}", x, y, q), &cls, || hu::add_u64_mod(x, y, &m).to_string());
        out.case(&format!("sub_u64_mod {} {} {}", x, y, q), &cls, || hu::sub_u64_mod(x, y, &m).to_string());
        let (x0, x1) = (r.word(), r.word());
        out.case(&format!("barrett_reduce_u128 {} {} {}", x0, x1, q), &cls, || hu::barrett_reduce_u128(&[x0, x1], &m).to_string());
        // multiples of q around the 2^64 / 2^128 boundaries
        let j = r.below(3) as u128; let k = (u128::MAX / q as u128 - j) * q as u128 + if j > 0 { r.below(2) as u128 * (q as u128 - 1) } else { 0 };
        let (k0, k1) = (k as u64, (k >> 64) as u64);
        out.case(&format!("barrett_reduce_u128 {} {} {}", k0, k1, q), "kq-top", || hu::barrett_reduce_u128(&[k0, k1], &m).to_string());
        out.case(&format!("barrett_reduce_u64 {} {}", w, q), &cls, || hu::barrett_reduce_u64(w, &m).to_string());
        let j = r.below(3); let kk = (u64::MAX / q - j) * q + if j > 0 { r.below(2) * (q - 1) } else { 0 };
        out.case(&format!("barrett_reduce_u64 {} {}", kk, q), "kq-top", || hu::barrett_reduce_u64(kk, &m).to_string());
        // the methods of `Modulus` and the in-place multi-word reduction (same lines as the free functions)
        out.case(&format!("barrett_reduce_u64 {} {}", w, q), &format!("method-{}", cls), || m.reduce(w).to_string());
        out.case(&format!("barrett_reduce_u128 {} {} {}", x0, x1, q), &format!("method-{}", cls), || m.reduce_u128(((x1 as u128) << 64) | x0 as u128).to_string());
        out.case(&format!("barrett_reduce_u128 {} {} {}", k0, k1, q), "method-kq-top", || m.reduce_u128(k).to_string());
        out.case(&format!("multiply_u64_mod {} {} {}", w, w2, q), &cls, || hu::multiply_u64_mod(w, w2, &m).to_string());
        out.case(&format!("multiply_u64_mod {} {} {}", x, y, q), &cls, || hu::multiply_u64_mod(x, y, &m).to_string());
        out.case(&format!("mulop_new {} {}", y, q), &cls, || hu::MultiplyU64ModOperand::new(y, &m).quotient.to_string());
        out.case(&format!("multiply_u64operand_mod {} {} {}", w, y, q), &cls, || {
            let o = hu::MultiplyU64ModOperand::new(y, &m); hu::multiply_u64operand_mod(w, &o, &m).to_string() });
        out.case(&format!("multiply_u64operand_mod_lazy {} {} {}", w, y, q), &cls, || {
            let o = hu::MultiplyU64ModOperand::new(y, &m); let v = hu::multiply_u64operand_mod_lazy(w, &o, &m);
            format!("{},{}", v % q, (v < 2 * q) as u8) });
        out.case(&format!("multiply_add_u64_mod {} {} {} {}", w, w2, z, q), &cls, || hu::multiply_add_u64_mod(w, w2, z, &m).to_string());
        out.case(&format!("multiply_u64operand_add_u64_mod {} {} {} {}", w, y, w2, q), &cls, || {
            let o = hu::MultiplyU64ModOperand::new(y, &m); hu::multiply_u64operand_add_u64_mod(w, &o, w2, &m).to_string() });
        let e = match r.below(6) { 0 => 0, 1 => 1, 2 => 2, 3 => q - 1, 4 => r.word(), _ => r.below(1 << 20) };
        out.case(&format!("exponentiate_u64_mod {} {} {}", x, e, q), &cls, || hu::exponentiate_u64_mod(x, e, &m).to_string());
        // dot product: up to 64 summands of factors below q (<= 60/61 bits)
        let n = *r.pick(&[1usize, 2, 3, 8, 16, 63, 64]);
        let maxv = r.chance(1, 3);
        let xs: Vec<u64> = (0..n).map(|_| if maxv {q - 1} else {operand(&mut r, q)}).collect();
        let ys: Vec<u64> = (0..n).map(|_| if maxv {q - 1} else {operand(&mut r, q)}).collect();
        out.case(&format!("dot_product_mod {} {} {}", fl(&xs), fl(&ys), q), &format!("dot{}", n), || hu::dot_product_mod(&xs, &ys, &m).to_string());
        let nl = r.range(1, 8) as usize;
        let v = limbs(&mut r, nl);
        out.case(&format!("modulo_uint {} {}", fl(&v), q), &format!("limbs{}", nl), || hu::modulo_uint(&v, &m).to_string());
        out.case(&format!("modulo_uint {} {}", fl(&v), q), &format!("inplace-limbs{}", nl), || { let mut x = v.clone(); hu::modulo_uint_inplace(&mut x, &m);
            if x[1..].iter().all(|&h| h == 0) { x[0].to_string() } else { format!("high-words-left:{}", fl(&x)) } });
        let (g1, g2) = (r.word(), r.word());
        let (g1, g2) = if r.chance(1, 3) { let c = r.below(1 << 20) + 1; ((g1 >> 22).wrapping_mul(c), (g2 >> 22).wrapping_mul(c)) } else { (g1, g2) };
        out.case(&format!("gcd {} {}", g1, g2), "gcd", || hu::gcd(g1, g2).to_string());
        out.case(&format!("try_invert {} {}", x, q), &cls, || { let mut res = 0u64;
            if hu::try_invert_u64_mod_u64(x, q, &mut res) { format!("1,{}", res) } else { "0".to_string() } });
        let nv = match r.below(5) { 0 => r.range(0, 40) as i64 - 20, 1 => (1i64 << r.range(1, 30)) - 1, 2 => -((1i64 << r.range(1, 30)) + 1),
            _ => (r.below(1 << 31) as i64) - (1 << 30) };
        out.case(&format!("naf {}", nv), "naf", || { let v = hu::naf(nv as i32); fli(&v.iter().map(|&d| d as i64).collect::<Vec<_>>()) });

        // ---- carry primitives, directly: boundary words incl. operand1 + operand2 = 2^64 - 1 with an incoming carry
        {
            let bw = |r: &mut Rng| -> u64 { match r.below(8) { 0 => 0, 1 => 1, 2 => u64::MAX, 3 => u64::MAX - 1, 4 => 1u64 << 63, 5 => (1u64 << 63) - 1, _ => r.word() } };
            let a = bw(&mut r); let b = match r.below(4) { 0 => u64::MAX - a, 1 => (u64::MAX - a).wrapping_add(1), 2 => a, _ => bw(&mut r) }; let c = r.below(2) as u8;
            out.case(&format!("add_u64_carry {} {} {}", a, b, c), "carry-prim", || { let mut res = 0u64; let co = hu::add_u64_carry(a, b, c, &mut res); format!("{}/{}", res, co) });
            out.case(&format!("sub_u64_borrow {} {} {}", a, b, c), "carry-prim", || { let mut res = 0u64; let bo = hu::sub_u64_borrow(a, b, c, &mut res); format!("{}/{}", res, bo) });
            out.case(&format!("multiply_u64_u64 {} {}", a, b), "carry-prim", || { let mut res = [0u64; 2]; hu::multiply_u64_u64(a, b, &mut res); format!("{}/{}", res[0], res[1]) });
        }
        // ---- multi-word helpers ----
        let n = r.range(1, 8) as usize;
        let lc = format!("limbs{}", n);
        let a = limbs(&mut r, n); let b = limbs(&mut r, n);
        out.case(&format!("add_uint {} {} {}", fl(&a), fl(&b), n), &lc, || { let mut res = vec![DIRTY; n]; let c = hu::add_uint(&a, &b, &mut res); format!("{}/{}", fl(&res), c) });
        out.case(&format!("sub_uint {} {} {}", fl(&a), fl(&b), n), &lc, || { let mut res = vec![DIRTY; n]; let c = hu::sub_uint(&a, &b, &mut res); format!("{}/{}", fl(&res), c) });
        let w = r.word();
        out.case(&format!("add_uint_u64 {} {} {}", fl(&a), w, n), &lc, || { let mut res = vec![DIRTY; n]; let c = hu::add_uint_u64(&a, w, &mut res); format!("{}/{}", fl(&res), c) });
        out.case(&format!("sub_uint_u64 {} {} {}", fl(&a), w, n), &lc, || { let mut res = vec![DIRTY; n]; let c = hu::sub_uint_u64(&a, w, &mut res); format!("{}/{}", fl(&res), c) });
        out.case(&format!("negate_uint {} {}", fl(&a), n), &lc, || { let mut res = vec![DIRTY; n]; hu::negate_uint(&a, &mut res); fl(&res) });
        // products: result length from 1 to len(a)+len(b)
        let nb = r.range(1, 8) as usize; let b2 = limbs(&mut r, nb);
        let rn = r.range(1, (n + nb + 3) as u64) as usize;   // also longer than the full product
        out.case(&format!("multiply_uint {} {} {}", fl(&a), fl(&b2), rn), &format!("mul{}x{}to{}", n, nb, rn), || { let mut res = vec![DIRTY; rn]; hu::multiply_uint(&a, &b2, &mut res); fl(&res) });
        out.case(&format!("multiply_uint {} {} {}", fl(&a), fl(&b2), n + nb), &format!("mul{}x{}full", n, nb), || { let mut res = vec![DIRTY; n + nb]; hu::multiply_uint(&a, &b2, &mut res); fl(&res) });
        let rn2 = r.range(1, (n + 4) as u64) as usize;   // up to three words beyond the product: they must be CLEARED
        out.case(&format!("multiply_uint_u64 {} {} {}", fl(&a), w, rn2), &lc, || { let mut res = vec![DIRTY; rn2]; hu::multiply_uint_u64(&a, w, &mut res); fl(&res) });
        let s = r.below(64 * n as u64) as usize;
        out.case(&format!("left_shift_uint {} {} {}", fl(&a), s, n), &lc, || { let mut res = vec![DIRTY; n]; hu::left_shift_uint(&a, s, n, &mut res); fl(&res) });
        out.case(&format!("right_shift_uint {} {} {}", fl(&a), s, n), &lc, || { let mut res = vec![DIRTY; n]; hu::right_shift_uint(&a, s, n, &mut res); fl(&res) });
        let a3 = limbs(&mut r, 3); let s3 = r.below(192) as usize;
        // result buffers pre-filled with a poison pattern: a result must not depend on old content
        out.case(&format!("left_shift_u192 {} {}", fl(&a3), s3), "u192", || { let mut res = vec![0xDEADBEEFu64; 3]; hu::left_shift_u192(&a3, s3, &mut res); fl(&res) });
        out.case(&format!("right_shift_u192 {} {}", fl(&a3), s3), "u192", || { let mut res = vec![0xDEADBEEFu64; 3]; hu::right_shift_u192(&a3, s3, &mut res); fl(&res) });
        out.case(&format!("half_round_up_uint {} {}", fl(&a), n), &lc, || { let mut res = vec![DIRTY; n]; hu::half_round_up_uint(&a, &mut res); fl(&res) });
        let bc = if r.chance(1, 3) { a.clone() } else { let nn = r.range(1, 8) as usize; limbs(&mut r, nn) };
        out.case(&format!("compare_uint {} {}", fl(&a), fl(&bc)), &lc, || match hu::compare_uint(&a, &bc) { std::cmp::Ordering::Less => "-1", std::cmp::Ordering::Equal => "0", _ => "1" }.to_string());
        let ops: Vec<u64> = (0..n).map(|_| if r.chance(1, 4) { r.word() } else { modulus(&mut r) }).collect();
        out.case(&format!("multiply_many_u64 {} {}", fl(&ops), n), &lc, || { let mut res = vec![DIRTY; n]; hu::multiply_many_u64(&ops, &mut res); fl(&res) });
        // modular multi-word: modulus with top limb non-zero, operands below it
        let mut mm = limbs(&mut r, n); if mm[n - 1] == 0 { mm[n - 1] = r.next() | 1; }
        let red = |v: &Vec<u64>| -> Vec<u64> { let mut q = vec![0u64; n]; let mut rem = vec![0u64; n]; hu::divide_uint(v, &mm, &mut q, &mut rem); rem };
        let (am, bm) = (red(&a), red(&b));
        out.case(&format!("add_uint_mod {} {} {}", fl(&am), fl(&bm), fl(&mm)), &lc, || { let mut res = vec![DIRTY; n]; hu::add_uint_mod(&am, &bm, &mm, &mut res); fl(&res) });
        out.case(&format!("sub_uint_mod {} {} {}", fl(&am), fl(&bm), fl(&mm)), &lc, || { let mut res = vec![DIRTY; n]; hu::sub_uint_mod(&am, &bm, &mm, &mut res); fl(&res) });
        out.case(&format!("negate_uint_mod {} {}", fl(&am), fl(&mm)), &lc, || { let mut res = vec![DIRTY; n]; hu::negate_uint_mod(&am, &mm, &mut res); fl(&res) });
        // division: denominators of every significant length
        let dn = r.range(1, n as u64) as usize;
        let mut d = limbs(&mut r, dn); if d.iter().all(|&x| x == 0) { d[0] = 1 + r.below(1000); }
        d.resize(n, 0);
        out.case(&format!("divide_uint {} {} {}", fl(&a), fl(&d), n), &format!("div{}by{}", n, dn), || { let mut q = vec![0u64; n]; let mut rem = vec![0u64; n]; hu::divide_uint(&a, &d, &mut q, &mut rem); format!("{}/{}", fl(&rem), fl(&q)) });
        inplace_forms(out, &mut r);
    }
}

/// API-census round: the in-place / carry-in / fixed-width siblings of the helpers above, judged by the SAME driver lines as their
/// out-of-place forms (the in-place operand is the destination, so every word of it is "dirty" by construction; separate outputs are
/// handed over DIRTY).  Only helpers inside the enumerated scope of C08 (add, subtract, negate, multiply, divide with remainder, shifts,
/// comparison, rounding halves, modular add): the bitwise / bit-count helpers of basic.rs are not part of the statement.
#[allow(deprecated)]
fn inplace_forms(out: &mut Out, r: &mut Rng) {
    let n = r.range(1, 8) as usize;
    let lc = format!("inplace-limbs{}", n);
    let a = limbs(r, n); let b = limbs(r, n);
    let w = match r.below(4) { 0 => 1, 1 => u64::MAX, _ => r.word() };
    out.case(&format!("add_uint {} {} {}", fl(&a), fl(&b), n), &lc, || { let mut x = a.clone(); let c = hu::add_uint_inplace(&mut x, &b); format!("{}/{}", fl(&x), c) });
    out.case(&format!("sub_uint {} {} {}", fl(&a), fl(&b), n), &lc, || { let mut x = a.clone(); let c = hu::sub_uint_inplace(&mut x, &b); format!("{}/{}", fl(&x), c) });
    out.case(&format!("add_uint_u64 {} {} {}", fl(&a), w, n), &lc, || { let mut x = a.clone(); let c = hu::add_uint_u64_inplace(&mut x, w); format!("{}/{}", fl(&x), c) });
    out.case(&format!("sub_uint_u64 {} {} {}", fl(&a), w, n), &lc, || { let mut x = a.clone(); let c = hu::sub_uint_u64_inplace(&mut x, w); format!("{}/{}", fl(&x), c) });
    // increment / decrement: all-ones and all-zero operands carry / borrow through every word (style 0 / 1 of `limbs`)
    out.case(&format!("add_uint_u64 {} 1 {}", fl(&a), n), &lc, || { let mut res = vec![DIRTY; n]; let c = hu::increment_uint(&a, &mut res); format!("{}/{}", fl(&res), c) });
    out.case(&format!("add_uint_u64 {} 1 {}", fl(&a), n), &lc, || { let mut x = a.clone(); let c = hu::increment_uint_inplace(&mut x); format!("{}/{}", fl(&x), c) });
    out.case(&format!("sub_uint_u64 {} 1 {}", fl(&a), n), &lc, || { let mut res = vec![DIRTY; n]; let c = hu::decrement_uint(&a, &mut res); format!("{}/{}", fl(&res), c) });
    out.case(&format!("sub_uint_u64 {} 1 {}", fl(&a), n), &lc, || { let mut x = a.clone(); let c = hu::decrement_uint_inplace(&mut x); format!("{}/{}", fl(&x), c) });
    out.case(&format!("negate_uint {} {}", fl(&a), n), &lc, || { let mut x = a.clone(); hu::negate_uint_inplace(&mut x); fl(&x) });
    // carry-in forms: operands SHORTER than the result read as zero-extended; carry-in 0 and 1; a + b = 2^(64 n) - 1 with carry-in 1
    {
        let rn = r.range(1, 8) as usize;
        let (la, lb) = (r.range(1, rn as u64) as usize, r.range(1, rn as u64) as usize);
        let x = limbs(r, la);
        let y: Vec<u64> = if r.chance(1, 3) { (0..lb).map(|i| !x.get(i).copied().unwrap_or(0)).collect() } else { limbs(r, lb) };
        let c = r.below(2) as u8;
        let cc = format!("carry-in{}", rn);
        out.case(&format!("add_uint_carry {} {} {} {}", fl(&x), fl(&y), c, rn), &cc, || { let mut res = vec![DIRTY; rn]; let co = hu::add_uint_carry(&x, &y, c, &mut res); format!("{}/{}", fl(&res), co) });
        out.case(&format!("sub_uint_borrow {} {} {} {}", fl(&x), fl(&y), c, rn), &cc, || { let mut res = vec![DIRTY; rn]; let bo = hu::sub_uint_borrow(&x, &y, c, &mut res); format!("{}/{}", fl(&res), bo) });
        // in place: the result has the length of operand 1
        out.case(&format!("add_uint_carry {} {} {} {}", fl(&x), fl(&y), c, la), &cc, || { let mut res = x.clone(); let co = hu::add_uint_carry_inplace(&mut res, &y, c); format!("{}/{}", fl(&res), co) });
        out.case(&format!("sub_uint_borrow {} {} {} {}", fl(&x), fl(&y), c, la), &cc, || { let mut res = x.clone(); let bo = hu::sub_uint_borrow_inplace(&mut res, &y, c); format!("{}/{}", fl(&res), bo) });
        let (a2, b2) = (limbs(r, 2), limbs(r, 2));
        out.case(&format!("add_uint {} {} 2", fl(&a2), fl(&b2)), "u128", || { let mut res = vec![DIRTY; 2]; let c = hu::add_u128(&a2, &b2, &mut res); format!("{}/{}", fl(&res), c) });
        out.case(&format!("add_uint {} {} 2", fl(&a2), fl(&b2)), "u128", || { let mut x = a2.clone(); let c = hu::add_u128_inplace(&mut x, &b2); format!("{}/{}", fl(&x), c) });
    }
    // shifts in place: every word / bit boundary (multiples of 64, 63, 1, 0)
    let s = match r.below(4) { 0 => 64 * r.below(n as u64) as usize, 1 => (64 * r.below(n as u64) as usize + 63).min(64 * n - 1), 2 => 0, _ => r.below(64 * n as u64) as usize };
    out.case(&format!("left_shift_uint {} {} {}", fl(&a), s, n), &lc, || { let mut x = a.clone(); hu::left_shift_uint_inplace(&mut x, s, n); fl(&x) });
    out.case(&format!("right_shift_uint {} {} {}", fl(&a), s, n), &lc, || { let mut x = a.clone(); hu::right_shift_uint_inplace(&mut x, s, n); fl(&x) });
    let a3 = limbs(r, 3); let s3 = match r.below(4) { 0 => 64 * r.below(3) as usize, 1 => 64 * r.below(3) as usize + 63, _ => r.below(192) as usize };
    out.case(&format!("left_shift_u192 {} {}", fl(&a3), s3), "u192", || { let mut x = a3.clone(); hu::left_shift_u192_inplace(&mut x, s3); fl(&x) });
    out.case(&format!("right_shift_u192 {} {}", fl(&a3), s3), "u192", || { let mut x = a3.clone(); hu::right_shift_u192_inplace(&mut x, s3); fl(&x) });
    let a2 = limbs(r, 2); let s2 = match r.below(4) { 0 => 64 * r.below(2) as usize, 1 => 64 * r.below(2) as usize + 63, _ => r.below(128) as usize };
    out.case(&format!("left_shift_uint {} {} 2", fl(&a2), s2), "u128", || { let mut res = vec![DIRTY; 2]; hu::left_shift_u128(&a2, s2, &mut res); fl(&res) });
    out.case(&format!("left_shift_uint {} {} 2", fl(&a2), s2), "u128", || { let mut x = a2.clone(); hu::left_shift_u128_inplace(&mut x, s2); fl(&x) });
    out.case(&format!("right_shift_uint {} {} 2", fl(&a2), s2), "u128", || { let mut res = vec![DIRTY; 2]; hu::right_shift_u128(&a2, s2, &mut res); fl(&res) });
    out.case(&format!("right_shift_uint {} {} 2", fl(&a2), s2), "u128", || { let mut x = a2.clone(); hu::right_shift_u128_inplace(&mut x, s2); fl(&x) });
    out.case(&format!("half_round_up_uint {} {}", fl(&a), n), &lc, || { let mut x = a.clone(); hu::half_round_up_uint_inplace(&mut x); fl(&x) });
    // `multiply_uint_u64_inplace`: every operand length (the pinned tree cleared the operand before reading it for two or more words:
    // [1,0] * 3 -> [0,0]; repaired by a `fix:` commit, see known_findings.json)
    out.case(&format!("multiply_uint_u64 {} {} {}", fl(&a), w, n), &lc, || { let mut x = a.clone(); hu::multiply_uint_u64_inplace(&mut x, w); fl(&x) });
    // division in place: the numerator becomes the remainder, the quotient buffer is dirty
    let dn = r.range(1, n as u64) as usize;
    let mut d = limbs(r, dn); if d.iter().all(|&x| x == 0) { d[0] = 1 + r.below(1000); }
    d.resize(n, 0);
    out.case(&format!("divide_uint {} {} {}", fl(&a), fl(&d), n), &format!("inplace-div{}by{}", n, dn), || { let mut num = a.clone(); let mut q = vec![DIRTY; n]; hu::divide_uint_inplace(&mut num, &d, &mut q); format!("{}/{}", fl(&num), fl(&q)) });
    // fixed-width divisions by one word: numerators of every significant length, divisors of every bit length
    let dw = match r.below(5) { 0 => 1, 1 => u64::MAX, 2 => 1u64 << r.below(64), _ => { let b = r.range(1, 64) as u32; r.bits(b).max(1) } };
    // numerators of one, TWO and three significant words (with exactly two the pinned tree indexed out of bounds: witness [1,1,0] / 12012631411972;
    // repaired by a `fix:` commit, see known_findings.json)
    let mut n3 = limbs(r, 3); match r.below(3) { 0 => { n3[1] = 0; n3[2] = 0; } 1 => { n3[2] = 0; if n3[1] == 0 { n3[1] = 1 + r.below(3); } } _ => { if n3[2] == 0 { n3[2] = 1 + r.below(3); } } }
    out.case(&format!("divide_uint {} {},0,0 3", fl(&n3), dw), "u192-div", || { let mut num = n3.clone(); let mut q = vec![DIRTY; 3]; hu::divide_u192_u64_inplace(&mut num, dw, &mut q); format!("{}/{}", fl(&num), fl(&q)) });
    let mut n2 = limbs(r, 2); if r.chance(1, 3) { n2[1] = 0; }
    out.case(&format!("divide_uint {} {},0 2", fl(&n2), dw), "u128-div", || { let mut num = n2.clone(); let mut q = vec![DIRTY; 2]; hu::divide_u128_u64_inplace(&mut num, dw, &mut q); format!("{}/{}", fl(&num), fl(&q)) });
    out.case(&format!("divide_uint {} {},0 2", fl(&n2), dw), "u128-div-deprecated", || { let mut num = n2.clone(); let mut q = vec![DIRTY; 2]; hu::divide_u128_u64_inplace_deprecated(&mut num, dw, &mut q); format!("{}/{}", fl(&num), fl(&q)) });
    // comparison predicates: equal operands, operands differing in one word only, different lengths (shorter = zero-extended)
    let bc = match r.below(4) { 0 => a.clone(), 1 => { let mut v = a.clone(); let i = r.below(n as u64) as usize; v[i] = v[i].wrapping_add(if r.chance(1, 2) { 1 } else { u64::MAX }); v }
        2 => { let mut v = a.clone(); v.push(0); if r.chance(1, 2) { v.push(r.below(2)); } v }, _ => { let nn = r.range(1, 8) as usize; limbs(r, nn) } };
    let pc = format!("pred{}", n);
    out.case(&format!("uint_pred lt {} {}", fl(&a), fl(&bc)), &pc, || (hu::is_less_than_uint(&a, &bc) as u8).to_string());
    out.case(&format!("uint_pred le {} {}", fl(&a), fl(&bc)), &pc, || (hu::is_less_than_or_equal_uint(&a, &bc) as u8).to_string());
    out.case(&format!("uint_pred gt {} {}", fl(&a), fl(&bc)), &pc, || (hu::is_greater_than_uint(&a, &bc) as u8).to_string());
    out.case(&format!("uint_pred ge {} {}", fl(&a), fl(&bc)), &pc, || (hu::is_greater_than_or_equal_uint(&a, &bc) as u8).to_string());
    out.case(&format!("uint_pred eq {} {}", fl(&a), fl(&bc)), &pc, || (hu::is_equal_uint(&a, &bc) as u8).to_string());
    // modular increment / decrement = modular add / subtract of 1 (modulus with a non-zero top word, operand below it)
    let mut mm = limbs(r, n); if mm[n - 1] == 0 { mm[n - 1] = r.next() | 1; } if n == 1 && mm[0] < 2 { mm[0] = 2; }
    let am = match r.below(4) { 0 => vec![0u64; n], 1 => { let mut v = vec![0u64; n]; hu::sub_uint_u64(&mm, 1, &mut v); v }
        _ => { let mut q = vec![0u64; n]; let mut rem = vec![0u64; n]; hu::divide_uint(&a, &mm, &mut q, &mut rem); rem } };
    let mut one = vec![0u64; n]; one[0] = 1;
    out.case(&format!("add_uint_mod {} {} {}", fl(&am), fl(&one), fl(&mm)), &lc, || { let mut res = vec![DIRTY; n]; hu::increment_uint_mod(&am, &mm, &mut res); fl(&res) });
    out.case(&format!("sub_uint_mod {} {} {}", fl(&am), fl(&one), fl(&mm)), &lc, || { let mut res = vec![DIRTY; n]; hu::decrement_uint_mod(&am, &mm, &mut res); fl(&res) });
    let bm = { let mut q = vec![0u64; n]; let mut rem = vec![0u64; n]; hu::divide_uint(&b, &mm, &mut q, &mut rem); rem };
    out.case(&format!("add_uint_mod {} {} {}", fl(&am), fl(&bm), fl(&mm)), &lc, || { let mut x = am.clone(); hu::add_uint_mod_inplace(&mut x, &bm, &mm); fl(&x) });
}

/// all moduli below 2^7 with all operand pairs (the sub-universe named by C08)
fn exhaustive(out: &mut Out) {
    for q in 2u64..128 {
        let m = Modulus::new(q);
        for x in 0..q {
            out.case(&format!("negate_u64_mod {} {}", x, q), "ex", || hu::negate_u64_mod(x, &m).to_string());
            out.case(&format!("increment_u64_mod {} {}", x, q), "ex", || hu::increment_u64_mod(x, &m).to_string());
            out.case(&format!("decrement_u64_mod {} {}", x, q), "ex", || hu::decrement_u64_mod(x, &m).to_string());
            out.case(&format!("div2_u64_mod {} {}", x, q), "ex", || hu::div2_u64_mod(x, &m).to_string());
            out.case(&format!("try_invert {} {}", x, q), "ex", || { let mut res = 0u64;
                if hu::try_invert_u64_mod_u64(x, q, &mut res) { format!("1,{}", res) } else { "0".to_string() } });
            let o = hu::MultiplyU64ModOperand::new(x, &m);
            for y in 0..q {
                out.case(&format!("add_u64_mod {} {} {}", x, y, q), "ex", || hu::add_u64_mod(x, y, &m).to_string());
                out.case(&format!("sub_u64_mod {} {} {}", x, y, q), "ex", || hu::sub_u64_mod(x, y, &m).to_string());
                out.case(&format!("multiply_u64_mod {} {} {}", x, y, q), "ex", || hu::multiply_u64_mod(x, y, &m).to_string());
                out.case(&format!("multiply_u64operand_mod {} {} {}", y, x, q), "ex", || hu::multiply_u64operand_mod(y, &o, &m).to_string());
                out.case(&format!("gcd {} {}", x, y), "ex", || hu::gcd(x, y).to_string());
            }
        }
    }
}
