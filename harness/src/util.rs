use std::panic::{catch_unwind, AssertUnwindSafe};
use std::io::Write;

pub fn fl(v: &[u64]) -> String {
    if v.is_empty() { "-".to_string() } else { v.iter().map(|x| x.to_string()).collect::<Vec<_>>().join(",") }
}
pub fn fli(v: &[i64]) -> String {
    if v.is_empty() { "-".to_string() } else { v.iter().map(|x| x.to_string()).collect::<Vec<_>>().join(",") }
}
pub fn fl2(v: &[Vec<u64>]) -> String {
    if v.is_empty() { "-".to_string() } else {
        v.iter().map(|x| if x.is_empty() {"_".to_string()} else {fl(x)}).collect::<Vec<_>>().join(";") }
}

thread_local! { pub static LAST_PANIC: std::cell::RefCell<String> = std::cell::RefCell::new(String::new()); }

pub fn install_panic_hook() {
    std::panic::set_hook(Box::new(|info| {
        let msg = if let Some(s) = info.payload().downcast_ref::<&str>() { s.to_string() }
            else if let Some(s) = info.payload().downcast_ref::<String>() { s.clone() } else { "?".to_string() };
        if std::env::var("HC_DEBUG").is_ok() { eprintln!("panic: {} at {:?}", msg, info.location()); }
        LAST_PANIC.with(|p| *p.borrow_mut() = msg);
    }));
}

/// error enum of DESIGN.md §3.3
pub fn classify(msg: &str) -> &'static str {
    if msg.contains("overflow") { "overflow" }
    else if msg.contains("out of bounds") || msg.contains("out of range") || msg.contains("range end index")
        || msg.contains("range start index") || msg.contains("slice index") || msg.contains("is out of") { "oob" }
    else if msg.contains("[Invalid argument]") || msg.contains("[Logic error]") || msg.contains("[Out of range]") { "refused" }
    else { "other" }
}

/// run one case of the real code; a panic is the library's refusal
pub fn guard<F: FnOnce() -> String>(f: F) -> String {
    match catch_unwind(AssertUnwindSafe(f)) {
        Ok(s) => s,
        Err(_) => { let m = LAST_PANIC.with(|p| p.borrow().clone()); format!("ERR:{}", classify(&m)) }
    }
}

/// the case currently being executed and when it started (watched by `start_watchdog`)
pub static CURRENT: std::sync::Mutex<Option<(String, std::time::Instant)>> = std::sync::Mutex::new(None);

/// a call of the real code that does not return within `secs` seconds is reported as a failed case (non-termination) and the
/// harness stops (the stuck thread cannot be cancelled)
pub fn start_watchdog(secs: u64) {
    std::thread::spawn(move || loop {
        std::thread::sleep(std::time::Duration::from_millis(500));
        let cur = CURRENT.lock().unwrap().clone();
        if let Some((lhs, t0)) = cur {
            if t0.elapsed().as_secs() >= secs {
                println!("!FAIL {} :: the call did not return within {} s (non-termination) # timeout", lhs, secs);
                let _ = std::io::stdout().flush();
                std::process::exit(0);
            }
        }
    });
}

pub struct Out { w: std::io::LineWriter<std::io::Stdout>, pub n: usize }
impl Out {
    pub fn new() -> Self { Out { w: std::io::LineWriter::new(std::io::stdout()), n: 0 } }
    /// one case: `fn args => impl-output [# class]`
    pub fn case(&mut self, lhs: &str, class: &str, f: impl FnOnce() -> String) {
        *CURRENT.lock().unwrap() = Some((lhs.chars().take(2000).collect(), std::time::Instant::now()));
        let r = guard(f);
        *CURRENT.lock().unwrap() = None;
        writeln!(self.w, "{} => {} # {}", lhs, r, class).unwrap();
        self.n += 1;
    }
    pub fn raw(&mut self, line: &str) { writeln!(self.w, "{}", line).unwrap(); }
    pub fn flush(&mut self) { self.w.flush().unwrap(); }
}
