use std::panic::{catch_unwind, AssertUnwindSafe};
use std::io::Write;

pub fn fl(v: &[u64]) -> String {
    if v.is_empty() { "-".to_string() } else { v.iter().map(|x| x.to_string()).collect::<Vec<_>>().join(",") }
}
pub fn fli(v: &[i64]) -> String {
    if v.is_empty() { "-".to_string() } else { v.iter().map(|x| x.to_string()).collect::<Vec<_>>().join(",") }
}
pub fn fl2(v: &[Vec<u64>]) -> String {
    if v.is_empty() { "-".to_string() } else {
        v.iter().map(|x| if x.is_empty() {"_".to_string()} else {fl(x)}).collect::<Vec<_>>().join(";") }
}

thread_local! { pub static LAST_PANIC: std::cell::RefCell<String> = std::cell::RefCell::new(String::new()); }

pub fn install_panic_hook() {
    std::panic::set_hook(Box::new(|info| {
        let msg = if let Some(s) = info.payload().downcast_ref::<&str>() { s.to_string() }
            else if let Some(s) = info.payload().downcast_ref::<String>() { s.clone() } else { "?".to_string() };
        if std::env::var("HC_DEBUG").is_ok() { eprintln!("panic: {} at {:?}", msg, info.location()); }
        LAST_PANIC.with(|p| *p.borrow_mut() = msg);
    }));
}

/// error enum of DESIGN.md §3.3
pub fn classify(msg: &str) -> &'static str {
    if msg.contains("overflow") { "overflow" }
    else if msg.contains("out of bounds") || msg.contains("out of range") || msg.contains("range end index")
        || msg.contains("range start index") || msg.contains("slice index") || msg.contains("is out of") { "oob" }
    else if msg.contains("[Invalid argument]") || msg.contains("[Logic error]") || msg.contains("[Out of range]") { "refused" }
    else { "other" }
}

/// run one case of the real code; a panic is the library's refusal
pub fn guard<F: FnOnce() -> String>(f: F) -> String {
    match catch_unwind(AssertUnwindSafe(f)) {
        Ok(s) => s,
        Err(_) => { let m = LAST_PANIC.with(|p| p.borrow().clone()); format!("ERR:{}", classify(&m)) }
    }
}

pub struct Out { w: std::io::BufWriter<std::io::Stdout>, pub n: usize }
impl Out {
    pub fn new() -> Self { Out { w: std::io::BufWriter::new(std::io::stdout()), n: 0 } }
    /// one case: `fn args => impl-output [# class]`
    pub fn case(&mut self, lhs: &str, class: &str, f: impl FnOnce() -> String) {
        let r = guard(f);
        writeln!(self.w, "{} => {} # {}", lhs, r, class).unwrap();
        self.n += 1;
    }
    pub fn raw(&mut self, line: &str) { writeln!(self.w, "{}", line).unwrap(); }
    pub fn flush(&mut self) { self.w.flush().unwrap(); }
}
