//! C18: multiparty protocols (src/multiparty/participant.rs, utils.rs) — whole-protocol runs of 2..6 parties on hand-built
//! contexts under the entropy override (replayable), every delivery order for n <= 3 (sampled above), BFV / BGV / CKKS.
//!
//! Lines:
//!  * `mp_finish qs count id own deliveries => result`   model = `Reveal.receiveAll` + `finish` in the given delivery order,
//!                                                        spec = order-free integer sum of own + one message per sender
//!  * `mp_share kind …  => message polynomial(s)`        model = the round function of the protocol on (secret, tape polynomial, drawn noise)
//!  * `mp_decode scheme n qs t ntt cf phase => plain`    model = `decrypt_polynomial`; spec = exact-integer decoding of the summed phase
//!  * `prog <ct_case under the summed / target key> pred expected => decryption`   (handler of C02: exact-integer decryption)
//!  * `!OK/!FAIL` verdicts: all parties agree, every delivery order gives the same outputs, incomplete delivery refuses,
//!    share sums, CKKS value checks (labelled `empirical-test`).
use crate::c02::{plain_of, rand_msg, shadow_add, shadow_mul, trim};
use crate::ctx::*;
use crate::rng::Rng;
use crate::util::*;
use heathcliff::multiparty::participant::*;
use heathcliff::multiparty::utils::*;
use heathcliff::util::{BlakeRNG, PRNGSeed};
use heathcliff::verif::rng_hooks as hk;
use heathcliff::*;
use num_complex::Complex64;
use rand::SeedableRng;
use std::collections::HashSet;
use std::panic::{catch_unwind, AssertUnwindSafe};

#[derive(Clone)]
pub struct Cfg { scheme: SchemeType, n: usize, qs: Vec<u64>, t: u64, parties: usize, wseed: u64 }
impl Cfg {
    /// the configuration as it appears on verdict lines (complete: a verdict line can be replayed from it)
    fn id(&self) -> String { self.spec() }
    fn spec(&self) -> String { format!("{},{},{},{},{},{}", scheme_name(self.scheme), self.n, self.qs.iter().map(|q| q.to_string()).collect::<Vec<_>>().join("+"), self.t, self.parties, self.wseed) }
    fn parse(s: &str) -> Option<Cfg> {
        let p: Vec<&str> = s.split(',').collect(); if p.len() != 6 { return None; }
        let scheme = match p[0] { "bfv" => SchemeType::BFV, "bgv" => SchemeType::BGV, "ckks" => SchemeType::CKKS, _ => return None };
        Some(Cfg { scheme, n: p[1].parse().ok()?, qs: p[2].split('+').map(|x| x.parse().unwrap_or(0)).collect(), t: p[3].parse().ok()?, parties: p[4].parse().ok()?, wseed: p[5].parse().ok()? })
    }
}

/// rounds of one world (index into the delivery plan)
const R_PK: usize = 0; const R_SK: usize = 1; const R_RLK1: usize = 2; const R_RLK2: usize = 3; const R_KS: usize = 4;
const R_DEC: usize = 5; const R_PKS: usize = 6; const R_C2S: usize = 7; const R_S2C: usize = 8; const ROUNDS: usize = 9;
const RNAME: [&str; ROUNDS] = ["pk", "sk", "rlk1", "rlk2", "ks", "dec", "pks", "c2s", "s2c"];

/// delivery plan: for every round the order of the (sender, receiver) messages; `drop` = one message that is never delivered
pub struct Plan { orders: Vec<Vec<(usize, usize)>>, drop: Option<(usize, usize, usize)>, tag: String }

fn all_pairs(n: usize, only_to_zero: bool) -> Vec<(usize, usize)> {
    let mut v = vec![];
    for r in 0..n { for s in 0..n { if s != r && (!only_to_zero || r == 0) { v.push((s, r)); } } }
    v
}
fn fact(k: usize) -> u64 { (1..=k as u64).product() }
fn perm_nth<T: Clone>(items: &[T], mut k: u64) -> Vec<T> {
    let mut pool: Vec<T> = items.to_vec(); let mut out = vec![];
    while !pool.is_empty() { let f = fact(pool.len() - 1); let i = (k / f) as usize % pool.len(); k %= f; out.push(pool.remove(i)); }
    out
}
fn shuffle<T>(r: &mut Rng, v: &mut Vec<T>) { for i in (1..v.len()).rev() { let j = r.below(i as u64 + 1) as usize; v.swap(i, j); } }
fn plan_identity(n: usize) -> Plan { Plan { orders: (0..ROUNDS).map(|k| all_pairs(n, k >= R_C2S)).collect(), drop: None, tag: "id".into() } }
fn plan_random(n: usize, r: &mut Rng, tag: &str) -> Plan {
    Plan { orders: (0..ROUNDS).map(|k| { let mut v = all_pairs(n, k >= R_C2S); shuffle(r, &mut v); v }).collect(), drop: None, tag: tag.into() }
}
/// the k-th global order applied to every round
fn plan_nth(n: usize, k: u64) -> Plan {
    Plan { orders: (0..ROUNDS).map(|rd| { let v = all_pairs(n, rd >= R_C2S); let f = fact(v.len()); perm_nth(&v, k % f) }).collect(), drop: None, tag: format!("perm{}", k) }
}

fn rp(n: usize, d: &[u64]) -> String { if d.is_empty() { "-".into() } else { d.chunks(n).map(|c| fl(c)).collect::<Vec<_>>().join(";") } }
fn decode_msg(ctx: &HeContext, bytes: &[u8]) -> Vec<Vec<u64>> {
    let mut sl = bytes; let mut v = vec![];
    while !sl.is_empty() { match PolynomialSerializer::deserialize_polynomial(ctx, &mut sl) { Ok(p) => v.push(p), Err(_) => break } }
    v
}
fn arm(seed: u64) {
    let mut r = Rng::new(seed ^ 0xC18C18);
    let seeds: Vec<[u8; 64]> = (0..1500).map(|_| { let mut s = [0u8; 64]; for c in s.chunks_mut(8) { c.copy_from_slice(&r.next().to_le_bytes()); } s }).collect();
    hk::set_entropy_override(seeds);
}
fn centred_sk(ctx: &HeContext, n: usize, data: &[u64]) -> Vec<i64> {
    let kd = ctx.key_context_data().unwrap(); let q0 = kd.parms().coeff_modulus()[0].value();
    let mut s0 = data[..n].to_vec(); kd.small_ntt_tables()[0].inverse_ntt_negacyclic_harvey(&mut s0);
    s0.iter().map(|&x| if x > q0 / 2 { x as i64 - q0 as i64 } else { x as i64 }).collect()
}
fn add_mod_rns(a: &[u64], b: &[u64], n: usize, qs: &[u64]) -> Vec<u64> {
    (0..a.len().min(qs.len() * n)).map(|i| ((a[i] as u128 + b[i] as u128) % qs[i / n] as u128) as u64).collect()
}
/// boundary plaintexts: zero, all t-1, top-coefficient monomial, floor/ceil t/2 alternating, constant, full random
fn pick_msg(r: &mut Rng, n: usize, t: u64, kind: usize) -> Vec<u64> {
    match kind % 7 {
        0 => vec![0u64; n],
        1 => vec![t - 1; n],
        2 => { let mut v = vec![0u64; n]; v[n - 1] = t - 1; v }
        3 => (0..n).map(|i| if i % 2 == 0 { t / 2 } else { (t + 1) / 2 }).collect(),
        4 => { let mut v = vec![0u64; n]; v[0] = 1 + r.below(t - 1); v }
        _ => rand_msg(r, n, t),
    }
}
fn log2f(x: f64) -> f64 { x.ln() / std::f64::consts::LN_2 }
fn verdict(out: &mut Out, ok: bool, lhs: &str, cls: &str, why: &str) {
    if ok { out.raw(&format!("!OK {} # {}", lhs, cls)); } else { out.raw(&format!("!FAIL {} :: {} # {}", lhs, why, cls)); }
}
fn pt_str(p: &Plaintext) -> String { fl(&p.data()[..p.coeff_count()]) }

struct Emit<'a> { out: &'a mut Out, on: bool, seen: &'a mut HashSet<String> }
impl<'a> Emit<'a> {
    fn case(&mut self, lhs: String, cls: &str, val: String) { if self.on && self.seen.insert(lhs.clone()) { self.out.raw(&format!("{} => {} # {}", lhs, val, cls)); } }
    /// failures are reported once per (check, configuration), whatever the delivery plan
    fn verdict(&mut self, ok: bool, lhs: &str, cls: &str, why: &str) {
        if !self.on { return; }
        let key = if ok { format!("{}#ok", lhs) } else { format!("{}#fail", lhs.split(' ').take(3).collect::<Vec<_>>().join(" ")) };
        if self.seen.insert(key) { verdict(self.out, ok, lhs, cls, why); }
    }
}

/// `mp_finish` lines of one round for polynomial `pi` of every message: own share, deliveries in the order of the plan, observed result
fn finish_lines(e: &mut Emit, cfg: &Cfg, round: usize, plan: &Plan, qs: &[u64], polys: &[Vec<Vec<u64>>], pi: usize, results: &[Option<Vec<u64>>]) {
    let n = cfg.n; let cnt = cfg.parties;
    for r in 0..cnt {
        let del: Vec<String> = plan.orders[round].iter().filter(|&&(s, rr)| rr == r && Some((round, s, rr)) != plan.drop).map(|&(s, _)| format!("{}:{}", s, rp(n, &polys[s][pi]))).collect();
        let lhs = format!("mp_finish {} {} {} {} {}", fl(qs), cnt, r, rp(n, &polys[r][pi]), if del.is_empty() { "-".to_string() } else { del.join("/") });
        let val = match &results[r] { Some(v) => rp(n, v), None => "ERR:refused".to_string() };
        e.case(lhs, &format!("finish-{}-P{}-{}", RNAME[round], cnt, if results[r].is_none() { "incomplete" } else { "complete" }), val);
    }
}

/// outcome of the finishes of one round when a message was dropped: the receiver must refuse, everybody else must succeed
fn incomplete_verdict(e: &mut Emit, cfg: &Cfg, round: usize, plan: &Plan, ok: &[bool]) {
    if let Some((rd, s, r)) = plan.drop { if rd == round {
        let good = ok.iter().enumerate().all(|(i, &o)| if i == r { !o } else { o });
        e.verdict(good, &format!("mp_incomplete {} {} drop={}->{}", RNAME[round], cfg.id(), s, r), &format!("incomplete-{}", RNAME[round]),
            &format!("finish outcomes (true = produced a result) {:?}; only party {} may refuse", ok, r));
    } }
}

macro_rules! deliver { ($protos:expr, $msgs:expr, $plan:expr, $round:expr, $recv:ident) => {
    for &(s, r) in $plan.orders[$round].iter() { if Some(($round, s, r)) == $plan.drop { continue; } $protos[r].$recv(s, &mut $msgs[s].as_slice()).unwrap(); }
} }
/// A party's outgoing message must not depend on what it has received so far (then every interleaving of sends and receives — a party that
/// receives before it sends, or sends to its peers one at a time — is equivalent to "everybody sends first"): re-emit after delivery and compare.
macro_rules! resend_check { ($e:expr, $protos:expr, $msgs:expr, $send:ident, $what:expr, $id:expr, $tag:expr, $cls:expr) => {
    { let mut same = true;
      for (i, p) in $protos.iter().enumerate() { if $msgs[i].is_empty() { continue; }
          let again = catch_unwind(AssertUnwindSafe(|| { let mut m = vec![]; p.$send(&mut m).unwrap(); m }));
          if again.as_ref().map(|m| m != &$msgs[i]).unwrap_or(true) { same = false; } }
      $e.verdict(same, &format!("mp_send_stable {} {} {}", $what, $id, $tag), &$cls, "a party's message changed after it had received its peers' messages (outgoing message depends on the delivery history)"); }
} }
macro_rules! finish_all { ($protos:expr, $f:expr) => {
    $protos.into_iter().map(|p| catch_unwind(AssertUnwindSafe(|| $f(p))).ok()).collect::<Vec<_>>()
} }

/// One world: contexts, parties and every protocol in sequence under the plan.  Returns the digest of all API-visible outputs
/// (None when the configuration is not usable).  `emit` switches case lines on (verdict failures are always printed).
pub fn world(out: &mut Out, cfg: &Cfg, plan: &Plan, emit: bool, seen: &mut HashSet<String>) -> Option<Vec<String>> {
    let mut e = Emit { out, on: emit, seen };
    arm(cfg.wseed);
    let res = world_inner(&mut e, cfg, plan);
    hk::clear_entropy_override();
    res
}

fn world_inner(e: &mut Emit, cfg: &Cfg, plan: &Plan) -> Option<Vec<String>> {
    let mut r = Rng::new(cfg.wseed.wrapping_mul(77) + 5);
    let s = make(cfg.scheme, cfg.n, &cfg.qs, cfg.t, true, None)?;
    let (n, t, cnt) = (cfg.n, s.t, cfg.parties);
    let ctx = s.ctx.clone();
    let ckks = cfg.scheme == SchemeType::CKKS; let bfv = cfg.scheme == SchemeType::BFV;
    let key_qs: Vec<u64> = ctx.key_context_data().unwrap().parms().coeff_modulus().iter().map(|m| m.value()).collect();
    let first_pid = *ctx.first_parms_id();
    let lqs = s.level_qs(&first_pid);
    let level_bits: f64 = lqs.iter().map(|&q| log2f(q as f64)).sum();
    let (ln, lp, lt) = (log2f(n as f64), log2f(cnt as f64), if ckks { 0.0 } else { log2f(t as f64) });
    // conservative predicted budgets (only decide where the exact-decryption claim is made)
    let pred_fresh = (level_bits - lt - ln - lp - 20.0).floor() as i64;
    let pred_proto = pred_fresh - 3;
    let mut common = [0u8; 64]; for c in common.chunks_mut(8) { c.copy_from_slice(&r.next().to_le_bytes()); }
    let mut parties: Vec<Participant> = (0..cnt).map(|i| Participant::new(cnt, i, ctx.clone(), BlakeRNG::from_seed(PRNGSeed(common)))).collect();
    let mut digest: Vec<String> = vec![];
    let id = cfg.id();
    let cls = |x: &str| format!("{}-{}-P{}-k{}", x, scheme_name(cfg.scheme), cnt, cfg.qs.len());

    // ---- collective public key
    let pk = {
        hk::arm_tape();
        let mut protos: Vec<_> = parties.iter_mut().map(|p| p.generate_public_key()).collect();
        let tape = hk::take_tape();
        let msgs: Vec<Vec<u8>> = protos.iter().map(|p| { let mut m = vec![]; p.send(&mut m).unwrap(); m }).collect();
        deliver!(protos, msgs, plan, R_PK, receive);
        if plan.drop.is_none() { resend_check!(e, protos, msgs, send, "pk", id, plan.tag, cls("send-stable")); }
        let polys: Vec<Vec<Vec<u64>>> = msgs.iter().map(|m| decode_msg(&ctx, m)).collect();
        let pks = finish_all!(protos, |p: PublicKeyGenerationProtocol| p.finish());
        let results: Vec<Option<Vec<u64>>> = pks.iter().map(|p| p.as_ref().map(|k| k.as_ciphertext().poly(0).to_vec())).collect();
        finish_lines(e, cfg, R_PK, plan, &key_qs, &polys, 0, &results);
        if plan.drop.map(|d| d.0) == Some(R_PK) { incomplete_verdict(e, cfg, R_PK, plan, &pks.iter().map(|p| p.is_some()).collect::<Vec<_>>()); return Some(digest); }
        let pks: Vec<PublicKey> = pks.into_iter().map(|p| p.unwrap()).collect();
        e.verdict(pks.iter().all(|k| k.data() == pks[0].data() && k.parms_id() == pks[0].parms_id()), &format!("mp_agree pk {} {}", id, plan.tag), &cls("agree-pk"), "parties hold different collective public keys");
        // round function: p0_i = -(a s_i + e_i)   (noise of party i = the i-th centred-binomial sample on the tape)
        let noises: Vec<Vec<u64>> = tape.iter().filter_map(|x| match x { hk::Rec::Sample { kind, data, .. } if *kind == "centered_binomial" => Some(data.clone()), _ => None }).collect();
        if noises.len() == cnt { for i in 0..cnt {
            e.case(format!("mp_share pk {} {} {} {} 1 {} {} {}", scheme_name(cfg.scheme), n, fl(&key_qs), t, rp(n, parties[i].secret_key().data()), rp(n, pks[0].as_ciphertext().poly(1)), rp(n, &noises[i])),
                &cls("share-pk"), rp(n, &polys[i][0]));
        } }
        digest.push(format!("pk {}", fl(pks[0].data())));
        pks.into_iter().next().unwrap()
    };

    // ---- the summed secret key (through the library's own revelation protocol; compared with the harness's own sum)
    let sk_sum: SecretKey = {
        let mut protos: Vec<_> = parties.iter().map(|p| p.reveal_secret_key()).collect();
        let msgs: Vec<Vec<u8>> = protos.iter().map(|p| { let mut m = vec![]; p.send(&mut m).unwrap(); m }).collect();
        deliver!(protos, msgs, plan, R_SK, receive);
        if plan.drop.is_none() { resend_check!(e, protos, msgs, send, "sk", id, plan.tag, cls("send-stable")); }
        let polys: Vec<Vec<Vec<u64>>> = msgs.iter().map(|m| decode_msg(&ctx, m)).collect();
        let sks = finish_all!(protos, |p: SecretKeyRevelationProtocol| p.finish());
        let results: Vec<Option<Vec<u64>>> = sks.iter().map(|p| p.as_ref().map(|k| k.data().clone())).collect();
        finish_lines(e, cfg, R_SK, plan, &key_qs, &polys, 0, &results);
        if plan.drop.map(|d| d.0) == Some(R_SK) { incomplete_verdict(e, cfg, R_SK, plan, &sks.iter().map(|p| p.is_some()).collect::<Vec<_>>()); return Some(digest); }
        let sks: Vec<SecretKey> = sks.into_iter().map(|p| p.unwrap()).collect();
        let mut own = vec![0u64; key_qs.len() * n];
        for p in parties.iter() { own = add_mod_rns(&own, p.secret_key().data(), n, &key_qs); }
        e.verdict(sks.iter().all(|k| k.data() == &own), &format!("mp_agree sk {} {}", id, plan.tag), &cls("agree-sk"), "revealed key differs between parties or from the sum of the parties' keys");
        sks.into_iter().next().unwrap()
    };
    let sk_sum_c = centred_sk(&ctx, n, sk_sum.data());
    let dec_sum = Decryptor::new(ctx.clone(), sk_sum.clone());
    let enc_pk = Encryptor::new(ctx.clone()).set_public_key(pk.clone());
    let head = s.head(&first_pid);
    let ct_case = |sk: &[i64], ct: &Ciphertext| format!("{} {} {}", s.head(ct.parms_id()), fli(sk), s.ct_str(ct));
    let dec_pt = |d: &Decryptor, ct: &Ciphertext| -> String { guard(|| pt_str(&d.decrypt_new(ct))) };
    let _ = &head;

    // messages
    let ckks_enc = if ckks { Some(CKKSEncoder::new(ctx.clone())) } else { None };
    let scale = if level_bits >= 100.0 { 2f64.powi(30) } else { 2f64.powi(20) };
    let tol = 131072.0 / scale;
    let rand_vals = |r: &mut Rng| -> Vec<Complex64> { (0..n / 2).map(|_| Complex64::new((r.below(257) as f64 - 128.0) / 64.0, (r.below(257) as f64 - 128.0) / 64.0)).collect() };
    let close = |a: &[Complex64], b: &[Complex64], tol: f64| a.len() == b.len() && a.iter().zip(b).all(|(x, y)| (x - y).norm() < tol);
    let m1: Vec<u64> = if ckks { vec![] } else { pick_msg(&mut r, n, t, cfg.wseed as usize) };
    let m2: Vec<u64> = if ckks { vec![] } else { pick_msg(&mut r, n, t, cfg.wseed as usize / 7 + 3) };
    let v1 = if ckks { rand_vals(&mut r) } else { vec![] };
    let v2 = if ckks { rand_vals(&mut r) } else { vec![] };
    let (ct1, ct2) = if ckks { let en = ckks_enc.as_ref().unwrap(); (enc_pk.encrypt_new(&en.encode_c64_array_new(&v1, None, scale)), enc_pk.encrypt_new(&en.encode_c64_array_new(&v2, None, scale))) }
                     else { (enc_pk.encrypt_new(&plain_of(&m1)), enc_pk.encrypt_new(&plain_of(&m2))) };
    // encryption under the collective key decrypts under the summed key
    if ckks {
        let got = ckks_enc.as_ref().unwrap().decode_new(&dec_sum.decrypt_new(&ct1));
        e.verdict(close(&got, &v1, tol), &format!("mp_ckks_value pk-encrypt {} {}", id, plan.tag), "empirical-test-ckks-pk", "decryption under the summed key is not the encrypted vector");
        e.case(format!("dec {}", ct_case(&sk_sum_c, &ct1)), &cls("pk-encrypt-phase"), { let p = dec_sum.decrypt_new(&ct1); rp(n, p.data()) });
    } else {
        e.case(format!("prog {} {} {}", ct_case(&sk_sum_c, &ct1), pred_fresh, fl(&trim(&m1))), &cls("pk-encrypt"), dec_pt(&dec_sum, &ct1));
        e.case(format!("prog {} {} {}", ct_case(&sk_sum_c, &ct2), pred_fresh, fl(&trim(&m2))), &cls("pk-encrypt"), dec_pt(&dec_sum, &ct2));
    }
    digest.push(format!("ct1 {}", fl(ct1.data())));

    // ---- collective relinearisation key (two rounds)
    if ctx.using_keyswitching() {
        let kc = key_qs.len() - 1;
        hk::arm_tape();
        let mut protos: Vec<_> = parties.iter_mut().map(|p| p.generate_relin_keys()).collect();
        let tape1 = hk::take_tape();
        let msgs: Vec<Vec<u8>> = protos.iter().map(|p| { let mut m = vec![]; p.send_step1(&mut m).unwrap(); m }).collect();
        deliver!(protos, msgs, plan, R_RLK1, receive_step1);
        if plan.drop.is_none() { resend_check!(e, protos, msgs, send_step1, "rlk1", id, plan.tag, cls("send-stable")); }
        let polys1: Vec<Vec<Vec<u64>>> = msgs.iter().map(|m| decode_msg(&ctx, m)).collect();
        hk::arm_tape();
        let step2_ok: Vec<bool> = protos.iter_mut().map(|p| catch_unwind(AssertUnwindSafe(|| p.step2())).is_ok()).collect();
        let tape2 = hk::take_tape();
        if plan.drop.map(|d| d.0) == Some(R_RLK1) { incomplete_verdict(e, cfg, R_RLK1, plan, &step2_ok); return Some(digest); }
        let msgs2: Vec<Vec<u8>> = protos.iter().map(|p| { let mut m = vec![]; p.send_step2(&mut m).unwrap(); m }).collect();
        deliver!(protos, msgs2, plan, R_RLK2, receive_step2);
        if plan.drop.is_none() { resend_check!(e, protos, msgs2, send_step2, "rlk2", id, plan.tag, cls("send-stable")); }
        let polys2: Vec<Vec<Vec<u64>>> = msgs2.iter().map(|m| decode_msg(&ctx, m)).collect();
        let rlks = finish_all!(protos, |p: RelinKeysGenerationProtocol| p.finish());
        // rlk_j.poly(1) = finish of the round-1 h1_j messages
        for j in 0..kc {
            let results: Vec<Option<Vec<u64>>> = rlks.iter().map(|k| k.as_ref().map(|k| k.as_kswitch_keys().data()[0][j].as_ciphertext().poly(1).to_vec())).collect();
            if plan.drop.is_none() { finish_lines(e, cfg, R_RLK1, plan, &key_qs, &polys1, kc + j, &results); }
        }
        if plan.drop.map(|d| d.0) == Some(R_RLK2) { incomplete_verdict(e, cfg, R_RLK2, plan, &rlks.iter().map(|p| p.is_some()).collect::<Vec<_>>()); return Some(digest); }
        let rlks: Vec<RelinKeys> = rlks.into_iter().map(|p| p.unwrap()).collect();
        let flat = |k: &RelinKeys| -> Vec<u64> { k.as_kswitch_keys().data()[0].iter().flat_map(|p| p.data().iter().cloned()).collect() };
        let f0 = flat(&rlks[0]);
        e.verdict(rlks.iter().all(|k| flat(k) == f0), &format!("mp_agree rlk {} {}", id, plan.tag), &cls("agree-rlk"), "parties hold different relinearisation keys");
        // round functions and the assembled key on (s_i, a_j, u_ij, four noises per index), all taken from the tape
        // tape of `new` per party: kc uniform (common a_j) then per j: ternary u, cbd e0, cbd e1; tape of step2 per party: per j: cbd e2, cbd e3
        let samp = |tp: &[hk::Rec]| -> Vec<(String, Vec<u64>)> { tp.iter().filter_map(|x| match x { hk::Rec::Sample { kind, data, .. } => Some((kind.to_string(), data.clone())), _ => None }).collect() };
        let (s1, s2) = (samp(&tape1), samp(&tape2));
        if s1.len() == cnt * 4 * kc && s2.len() == cnt * 2 * kc {
            for i in 0..cnt { let b = i * 4 * kc; let b2 = i * 2 * kc; for j in 0..kc {
                let a = &s1[b + j].1; let u = &s1[b + kc + 3 * j].1; let e0 = &s1[b + kc + 3 * j + 1].1; let e1 = &s1[b + kc + 3 * j + 2].1;
                let (e2, e3) = (&s2[b2 + 2 * j].1, &s2[b2 + 2 * j + 1].1);
                let h0: Vec<u64> = (0..cnt).fold(vec![0u64; key_qs.len() * n], |acc, p| add_mod_rns(&acc, &polys1[p][j], n, &key_qs));
                let h1: Vec<u64> = (0..cnt).fold(vec![0u64; key_qs.len() * n], |acc, p| add_mod_rns(&acc, &polys1[p][kc + j], n, &key_qs));
                e.case(format!("mp_share rlk1 {} {} {} {} {} {} {} {} {} {}", scheme_name(cfg.scheme), n, fl(&key_qs), t, j, rp(n, parties[i].secret_key().data()), rp(n, a), rp(n, u), rp(n, e0), rp(n, e1)),
                    &cls("share-rlk1"), format!("{}|{}", rp(n, &polys1[i][j]), rp(n, &polys1[i][kc + j])));
                e.case(format!("mp_share rlk2 {} {} {} {} {} {} {} {} {} {} {}", scheme_name(cfg.scheme), n, fl(&key_qs), t, j, rp(n, parties[i].secret_key().data()), rp(n, u), rp(n, &h0), rp(n, &h1), rp(n, e2), rp(n, e3)),
                    &cls("share-rlk2"), format!("{}|{}", rp(n, &polys2[i][j]), rp(n, &polys2[i][kc + j])));
            } }
        }
        digest.push(format!("rlk {}", fl(&f0)));
        // use: relinearised product decrypts to the product under the summed key
        let prod = s.evaluator.relinearize_new(&s.evaluator.multiply_new(&ct1, &ct2), &rlks[0]);
        if ckks {
            {
                let got = ckks_enc.as_ref().unwrap().decode_new(&dec_sum.decrypt_new(&prod));
                let want: Vec<Complex64> = v1.iter().zip(&v2).map(|(a, b)| a * b).collect();
                e.verdict(close(&got, &want, 16.0 * tol), &format!("mp_ckks_value relinearize {} {}", id, plan.tag), "empirical-test-ckks-rlk", "relinearised product under the collective key is not the product of the vectors");
            }
            e.case(format!("dec {}", ct_case(&sk_sum_c, &prod)), &cls("rlk-phase"), { let p = dec_sum.decrypt_new(&prod); rp(n, p.data()) });
        } else {
            let pred_mul = if bfv { pred_fresh - (lt + 2.0 * ln + 13.0) as i64 } else { (2.0 * pred_fresh as f64 - level_bits - ln - 8.0) as i64 };
            let pred_rl = pred_mul.min((level_bits - lt - 2.0 * ln - 2.0 * lp - 26.0) as i64) - 1;
            e.case(format!("prog {} {} {}", ct_case(&sk_sum_c, &prod), pred_rl, fl(&trim(&shadow_mul(&m1, &m2, t)))), &cls("rlk-relinearize"), dec_pt(&dec_sum, &prod));
        }
    }

    // ---- collective key switch to fresh keys s'_i
    {
        let newk: Vec<SecretKey> = (0..cnt).map(|_| KeyGenerator::new(ctx.clone()).secret_key().clone()).collect();
        hk::arm_tape();
        let mut protos: Vec<_> = parties.iter().zip(&newk).map(|(p, k)| p.key_switch(&ct1, k)).collect();
        let tape = hk::take_tape();
        let msgs: Vec<Vec<u8>> = protos.iter().map(|p| { let mut m = vec![]; p.send(&mut m).unwrap(); m }).collect();
        deliver!(protos, msgs, plan, R_KS, receive);
        if plan.drop.is_none() { resend_check!(e, protos, msgs, send, "ks", id, plan.tag, cls("send-stable")); }
        let polys: Vec<Vec<Vec<u64>>> = msgs.iter().map(|m| decode_msg(&ctx, m)).collect();
        let cts = finish_all!(protos, |p: KeySwitchProtocol| p.finish());
        if plan.drop.map(|d| d.0) == Some(R_KS) { incomplete_verdict(e, cfg, R_KS, plan, &cts.iter().map(|p| p.is_some()).collect::<Vec<_>>()); return Some(digest); }
        let cts: Vec<Ciphertext> = cts.into_iter().map(|p| p.unwrap()).collect();
        e.verdict(cts.iter().all(|c| c.data() == cts[0].data()), &format!("mp_agree ks {} {}", id, plan.tag), &cls("agree-ks"), "parties hold different key-switched ciphertexts");
        let noises: Vec<Vec<u64>> = tape.iter().filter_map(|x| match x { hk::Rec::Sample { kind, data, .. } if *kind == "centered_binomial" => Some(data.clone()), _ => None }).collect();
        if noises.len() == cnt { for i in 0..cnt {
            e.case(format!("mp_share ks {} {} {} {} {} {} {} {} {}", scheme_name(cfg.scheme), n, fl(&lqs), t, ct1.is_ntt_form() as u8, rp(n, &parties[i].secret_key().data()[..lqs.len() * n]), rp(n, &newk[i].data()[..lqs.len() * n]), rp(n, ct1.poly(1)), rp(n, &noises[i])),
                &cls("share-ks"), rp(n, &polys[i][0]));
        } }
        let mut sum = vec![0u64; key_qs.len() * n];
        for k in newk.iter() { sum = add_mod_rns(&sum, k.data(), n, &key_qs); }
        let mut skn = sk_sum.clone(); skn.data_mut().copy_from_slice(&sum);
        let dn = Decryptor::new(ctx.clone(), skn);
        let skc = centred_sk(&ctx, n, &sum);
        if ckks {
            let got = ckks_enc.as_ref().unwrap().decode_new(&dn.decrypt_new(&cts[0]));
            e.verdict(close(&got, &v1, tol), &format!("mp_ckks_value key_switch {} {}", id, plan.tag), "empirical-test-ckks-ks", "key-switched ciphertext does not decrypt to the vector under the new summed key");
            e.case(format!("dec {}", ct_case(&skc, &cts[0])), &cls("ks-phase"), { let p = dn.decrypt_new(&cts[0]); rp(n, p.data()) });
        } else {
            e.case(format!("prog {} {} {}", ct_case(&skc, &cts[0]), pred_proto, fl(&trim(&m1))), &cls("key-switch"), dec_pt(&dn, &cts[0]));
        }
        digest.push(format!("ks {}", fl(cts[0].data())));
    }

    // ---- collective decryption
    {
        hk::arm_tape();
        let mut protos: Vec<_> = parties.iter().map(|p| p.decrypt(&ct2)).collect();
        let tape = hk::take_tape();
        let msgs: Vec<Vec<u8>> = protos.iter().map(|p| { let mut m = vec![]; p.send(&mut m).unwrap(); m }).collect();
        deliver!(protos, msgs, plan, R_DEC, receive);
        if plan.drop.is_none() { resend_check!(e, protos, msgs, send, "dec", id, plan.tag, cls("send-stable")); }
        let polys: Vec<Vec<Vec<u64>>> = msgs.iter().map(|m| decode_msg(&ctx, m)).collect();
        let pts = finish_all!(protos, |p: DecryptionProtocol| p.finish());
        if plan.drop.map(|d| d.0) == Some(R_DEC) { incomplete_verdict(e, cfg, R_DEC, plan, &pts.iter().map(|p| p.is_some()).collect::<Vec<_>>()); return Some(digest); }
        let pts: Vec<Plaintext> = pts.into_iter().map(|p| p.unwrap()).collect();
        e.verdict(pts.iter().all(|p| p.data() == pts[0].data()), &format!("mp_agree dec {} {}", id, plan.tag), &cls("agree-dec"), "parties obtain different plaintexts");
        let noises: Vec<Vec<u64>> = tape.iter().filter_map(|x| match x { hk::Rec::Sample { kind, data, .. } if *kind == "centered_binomial" => Some(data.clone()), _ => None }).collect();
        if noises.len() == cnt { for i in 0..cnt {
            e.case(format!("mp_share dec {} {} {} {} {} {} {} {}", scheme_name(cfg.scheme), n, fl(&lqs), t, ct2.is_ntt_form() as u8, rp(n, &parties[i].secret_key().data()[..lqs.len() * n]), rp(n, ct2.poly(1)), rp(n, &noises[i])),
                &cls("share-dec"), rp(n, &polys[i][0]));
        } }
        // summed phase c0 + sum h_i and its final decoding
        let phase = (0..cnt).fold(ct2.poly(0).to_vec(), |acc, p| add_mod_rns(&acc, &polys[p][0], n, &lqs));
        let ptxt = if ckks { rp(n, pts[0].data()) } else { pt_str(&pts[0]) };
        e.case(format!("mp_decode {} {} {} {} {} {} {}", scheme_name(cfg.scheme), n, fl(&lqs), t, ct2.is_ntt_form() as u8, ct2.correction_factor(), rp(n, &phase)), &cls("final-decode"), ptxt.clone());
        if ckks {
            let got = ckks_enc.as_ref().unwrap().decode_new(&pts[0]);
            e.verdict(close(&got, &v2, tol), &format!("mp_ckks_value decrypt {} {}", id, plan.tag), "empirical-test-ckks-dec", "collective decryption is not the encrypted vector");
        } else {
            // the collective plaintext against the exact decryption of the input ciphertext under the summed key
            e.case(format!("prog {} {} {}", ct_case(&sk_sum_c, &ct2), pred_proto, fl(&trim(&m2))), &cls("collective-decrypt"), ptxt.clone());
        }
        digest.push(format!("dec {}", ptxt));
    }

    // ---- public-key switch to the key pair of an outside receiver
    {
        let target_pk = s.keygen.create_public_key(false);
        hk::arm_tape();
        let mut protos: Vec<_> = parties.iter().map(|p| p.public_key_switch(&ct1, &target_pk)).collect();
        let tape = hk::take_tape();
        let msgs: Vec<Vec<u8>> = protos.iter().map(|p| { let mut m = vec![]; p.send(&mut m).unwrap(); m }).collect();
        deliver!(protos, msgs, plan, R_PKS, receive);
        if plan.drop.is_none() { resend_check!(e, protos, msgs, send, "pks", id, plan.tag, cls("send-stable")); }
        let polys: Vec<Vec<Vec<u64>>> = msgs.iter().map(|m| decode_msg(&ctx, m)).collect();
        let cts = finish_all!(protos, |p: PublicKeySwitchProtocol| p.finish());
        let results: Vec<Option<Vec<u64>>> = cts.iter().map(|c| c.as_ref().map(|c| c.poly(1).to_vec())).collect();
        finish_lines(e, cfg, R_PKS, plan, &lqs, &polys, 1, &results);
        if plan.drop.map(|d| d.0) == Some(R_PKS) { incomplete_verdict(e, cfg, R_PKS, plan, &cts.iter().map(|p| p.is_some()).collect::<Vec<_>>()); return Some(digest); }
        let cts: Vec<Ciphertext> = cts.into_iter().map(|p| p.unwrap()).collect();
        e.verdict(cts.iter().all(|c| c.data() == cts[0].data()), &format!("mp_agree pks {} {}", id, plan.tag), &cls("agree-pks"), "parties hold different re-encrypted ciphertexts");
        let samp: Vec<(String, Vec<u64>)> = tape.iter().filter_map(|x| match x { hk::Rec::Sample { kind, data, .. } => Some((kind.to_string(), data.clone())), _ => None }).collect();
        if samp.len() == 3 * cnt { for i in 0..cnt {
            let k = lqs.len() * n;
            e.case(format!("mp_share pks {} {} {} {} {} {} {} {} {} {} {} {}", scheme_name(cfg.scheme), n, fl(&lqs), t, ct1.is_ntt_form() as u8, rp(n, &parties[i].secret_key().data()[..k]), rp(n, ct1.poly(1)),
                    rp(n, &target_pk.as_ciphertext().poly(0)[..k]), rp(n, &target_pk.as_ciphertext().poly(1)[..k]), rp(n, &samp[3 * i].1), rp(n, &samp[3 * i + 1].1), rp(n, &samp[3 * i + 2].1)),
                &cls("share-pks"), format!("{}|{}", rp(n, &polys[i][0]), rp(n, &polys[i][1])));
        } }
        if ckks {
            let got = ckks_enc.as_ref().unwrap().decode_new(&s.decryptor.decrypt_new(&cts[0]));
            e.verdict(close(&got, &v1, tol), &format!("mp_ckks_value public_key_switch {} {}", id, plan.tag), "empirical-test-ckks-pks", "re-encrypted ciphertext does not decrypt to the vector under the receiver's key");
            e.case(format!("dec {}", s.ct_case(&cts[0])), &cls("pks-phase"), s.dec_str(&cts[0]));
        } else {
            e.case(format!("prog {} {} {}", s.ct_case(&cts[0]), pred_proto - ln as i64 - 1, fl(&trim(&m1))), &cls("public-key-switch"), guard(|| s.dec_str(&cts[0])));
        }
        digest.push(format!("pks {}", fl(cts[0].data())));
    }

    // ---- the ciphertext-consuming protocols once more on a ciphertext switched down one level (BGV: correction factor != 1)
    if !ckks && plan.drop.is_none() && s.levels().len() >= 2 {
        let low = s.evaluator.mod_switch_to_next_new(&ct1);
        let low_qs = s.level_qs(low.parms_id());
        let low_bits: f64 = low_qs.iter().map(|&q| log2f(q as f64)).sum();
        let pred_low = (low_bits - lt - ln - lp - 23.0).floor() as i64;
        if pred_low >= 3 {
            let lowcls = |x: &str| format!("{}-low-cf{}", cls(x), if low.correction_factor() != 1 { "x" } else { "1" });
            let all_to_all = |cnt: usize| -> Vec<(usize, usize)> { (0..cnt).flat_map(|a| (0..cnt).filter(move |&b| b != a).map(move |b| (a, b))).collect() };
            {
                let mut protos: Vec<_> = parties.iter().map(|p| p.decrypt(&low)).collect();
                let msgs: Vec<Vec<u8>> = protos.iter().map(|p| { let mut m = vec![]; p.send(&mut m).unwrap(); m }).collect();
                for (sd, rc) in all_to_all(cnt) { protos[rc].receive(sd, &mut msgs[sd].as_slice()).unwrap(); }
                let pts = finish_all!(protos, |p: DecryptionProtocol| p.finish());
                let ok = pts.iter().all(|p| p.as_ref().map(|p| pt_str(p) == fl(&trim(&m1))).unwrap_or(false));
                e.verdict(ok, &format!("mp_low_decrypt dec {} cf={}", id, low.correction_factor()), &lowcls("low-decrypt"), "collective decryption of a modulus-switched ciphertext is not the plaintext for every party");
                if let Some(Some(p0)) = pts.get(0) { e.case(format!("prog {} {} {}", ct_case(&sk_sum_c, &low), pred_low, fl(&trim(&m1))), &lowcls("low-collective-decrypt"), pt_str(p0)); }
            }
            // collective key switch and public-key switch of the modulus-switched ciphertext: the result must carry the plaintext (incl. the
            // correction-factor bookkeeping) under the new summed key / the receiver's key
            {
                let newk: Vec<SecretKey> = (0..cnt).map(|_| KeyGenerator::new(ctx.clone()).secret_key().clone()).collect();
                let mut protos: Vec<_> = parties.iter().zip(&newk).map(|(p, k)| p.key_switch(&low, k)).collect();
                let msgs: Vec<Vec<u8>> = protos.iter().map(|p| { let mut m = vec![]; p.send(&mut m).unwrap(); m }).collect();
                for (sd, rc) in all_to_all(cnt) { protos[rc].receive(sd, &mut msgs[sd].as_slice()).unwrap(); }
                let cts = finish_all!(protos, |p: KeySwitchProtocol| p.finish());
                let mut sum = vec![0u64; key_qs.len() * n];
                for k in newk.iter() { sum = add_mod_rns(&sum, k.data(), n, &key_qs); }
                let mut skn = sk_sum.clone(); skn.data_mut().copy_from_slice(&sum);
                let dn = Decryptor::new(ctx.clone(), skn);
                let skc = centred_sk(&ctx, n, &sum);
                let ok = cts.iter().all(|c| c.as_ref().map(|c| guard(|| dec_pt(&dn, c)) == fl(&trim(&m1))).unwrap_or(false));
                e.verdict(ok, &format!("mp_low_key_switch ks {} cf={}", id, low.correction_factor()), &lowcls("low-key-switch"), "collective key switch of a modulus-switched ciphertext does not decrypt to the plaintext under the new summed key");
                if let Some(Some(c0)) = cts.get(0) { e.case(format!("prog {} {} {}", ct_case(&skc, c0), pred_low, fl(&trim(&m1))), &lowcls("low-key-switch-phase"), guard(|| dec_pt(&dn, c0))); }
            }
            {
                let target_pk = s.keygen.create_public_key(false);
                let mut protos: Vec<_> = parties.iter().map(|p| p.public_key_switch(&low, &target_pk)).collect();
                let msgs: Vec<Vec<u8>> = protos.iter().map(|p| { let mut m = vec![]; p.send(&mut m).unwrap(); m }).collect();
                for (sd, rc) in all_to_all(cnt) { protos[rc].receive(sd, &mut msgs[sd].as_slice()).unwrap(); }
                let cts = finish_all!(protos, |p: PublicKeySwitchProtocol| p.finish());
                let ok = cts.iter().all(|c| c.as_ref().map(|c| guard(|| s.dec_str(c)) == fl(&trim(&m1))).unwrap_or(false));
                e.verdict(ok, &format!("mp_low_public_key_switch pks {} cf={}", id, low.correction_factor()), &lowcls("low-public-key-switch"), "public-key switch of a modulus-switched ciphertext does not decrypt to the plaintext under the receiver's key");
                if let Some(Some(c0)) = cts.get(0) { e.case(format!("prog {} {} {}", s.ct_case(c0), pred_low - ln as i64 - 1, fl(&trim(&m1))), &lowcls("low-public-key-switch-phase"), guard(|| s.dec_str(c0))); }
            }
            if ctx.first_context_data().unwrap().qualifiers().using_batching {
                let sampler = BFVShareSampler::new(ctx.clone());
                let enc = BFVSimdShareEncoder::new(ctx.clone());
                let be = BatchEncoder::new(ctx.clone());
                let want = { let mut v = be.decode_new(&plain_of(&m1)); v.resize(n, 0); v };
                let mut protos: Vec<_> = parties.iter().map(|p| p.cipher_to_shares(low.clone(), &sampler, &enc)).collect();
                let msgs: Vec<Vec<u8>> = protos.iter().enumerate().map(|(i, p)| { let mut m = vec![]; if i != 0 { p.send(&mut m).unwrap(); } m }).collect();
                for sd in 1..cnt { protos[0].receive(sd, &mut msgs[sd].as_slice()).unwrap(); }
                let shares = finish_all!(protos, |p: CipherToSharesProtocol<Vec<u64>>| p.finish(&enc));
                let ok = shares.iter().all(|x| x.is_some());
                let sum = shares.iter().flatten().fold(vec![0u64; n], |acc, sh| shadow_add(&acc, sh, t));
                e.verdict(ok && sum == want, &format!("mp_low_shares_sum c2s {} cf={}", id, low.correction_factor()), &lowcls("low-c2s-sum"), &format!("shares of a modulus-switched ciphertext sum to {:?}, plaintext slots are {:?}", &sum[..n.min(8)], &want[..n.min(8)]));
            }
        }
    }

    // ---- ciphertext -> additive shares -> ciphertext (schemes with a batching plain modulus)
    let batching = !ckks && ctx.first_context_data().unwrap().qualifiers().using_batching;
    if batching {
        let sampler = BFVShareSampler::new(ctx.clone());
        let enc = BFVSimdShareEncoder::new(ctx.clone());
        let be = BatchEncoder::new(ctx.clone());
        let want = { let mut v = be.decode_new(&plain_of(&m1)); v.resize(n, 0); v };
        let mut c2s_msgs: Vec<Vec<Vec<u64>>> = vec![]; let mut c2s_noise: Vec<Vec<u64>> = vec![];
        let shares: Vec<Option<Vec<u64>>> = {
            hk::arm_tape();
            let mut protos: Vec<_> = parties.iter().map(|p| p.cipher_to_shares(ct1.clone(), &sampler, &enc)).collect();
            c2s_noise = hk::take_tape().iter().filter_map(|x| match x { hk::Rec::Sample { kind, data, .. } if *kind == "centered_binomial" => Some(data.clone()), _ => None }).collect();
            // only party 0 receives, only the others send
            let wrong_send = catch_unwind(AssertUnwindSafe(|| { let mut m = vec![]; protos[0].send(&mut m).unwrap(); })).is_err();
            let msgs: Vec<Vec<u8>> = protos.iter().enumerate().map(|(i, p)| { let mut m = vec![]; if i != 0 { p.send(&mut m).unwrap(); } m }).collect();
            let wrong_recv = catch_unwind(AssertUnwindSafe(|| { let _ = protos[1].receive(0, &mut msgs[1].as_slice()); })).is_err();
            e.verdict(wrong_send && wrong_recv, &format!("mp_c2s_roles c2s {} {}", id, plan.tag), &cls("c2s-roles"), "party 0 could send or another party could receive");
            c2s_msgs = msgs.iter().map(|m| decode_msg(&ctx, m)).collect();
            deliver!(protos, msgs, plan, R_C2S, receive);
        if plan.drop.is_none() { resend_check!(e, protos, msgs, send, "c2s", id, plan.tag, cls("send-stable")); }
            finish_all!(protos, |p: CipherToSharesProtocol<Vec<u64>>| p.finish(&enc))
        };
        if plan.drop.map(|d| d.0) == Some(R_C2S) { incomplete_verdict(e, cfg, R_C2S, plan, &shares.iter().map(|p| p.is_some()).collect::<Vec<_>>()); return Some(digest); }
        let shares: Vec<Vec<u64>> = shares.into_iter().map(|p| p.unwrap()).collect();
        // round function of the senders: h_i = s_i c1 + e_i + (0 - plain(share_i)); the scaled plaintext is recomputed with the library's sub_plain
        if c2s_noise.len() == cnt { for i in 1..cnt { if c2s_msgs[i].len() == 1 {
            let mut z = ct1.clone(); z.poly_mut(0).iter_mut().for_each(|x| *x = 0);
            s.evaluator.sub_plain_inplace(&mut z, &enc.encode(&shares[i]));
            e.case(format!("mp_share c2s {} {} {} {} {} {} {} {} {} {}", scheme_name(cfg.scheme), n, fl(&lqs), t, ct1.is_ntt_form() as u8, i, rp(n, &parties[i].secret_key().data()[..lqs.len() * n]), rp(n, ct1.poly(1)), rp(n, &c2s_noise[i]), rp(n, z.poly(0))),
                &cls("share-c2s"), rp(n, &c2s_msgs[i][0]));
        } } }
        let sum = shares.iter().fold(vec![0u64; n], |acc, sh| shadow_add(&acc, sh, t));
        e.verdict(sum == want, &format!("mp_shares_sum c2s {} {} pred={}", id, plan.tag, pred_proto), &cls("c2s-sum"), &format!("sum of shares {:?} differs from the slots of the plaintext {:?}", &sum[..n.min(8)], &want[..n.min(8)]));
        digest.push(format!("c2s {}", shares.iter().map(|x| fl(x)).collect::<Vec<_>>().join("/")));
        // back: shares -> ciphertext (aggregated by party 0), exact decryption under the summed key gives the encoding of the sum
        let mut s2c_msgs: Vec<Vec<Vec<u64>>> = vec![]; let mut s2c_noise: Vec<Vec<u64>> = vec![];
        let back = {
            hk::arm_tape();
            let pm = &mut parties; let (shr, encr) = (&shares, &enc);
            let created = catch_unwind(AssertUnwindSafe(move || { let q = pm; q.iter_mut().zip(shr).map(|(p, sh)| p.shares_to_cipher(sh, encr)).collect::<Vec<_>>() }));
            let mut protos = match created { Ok(p) => p, Err(_) => {
                // the protocol does not accept this scheme (BGV: the fresh ciphertext is marked coefficient-form and add_plain refuses it)
                e.verdict(!bfv, &format!("mp_s2c_refused s2c {} {}", id, plan.tag), &cls("s2c-refused"), "shares_to_cipher refused a BFV context");
                return Some(digest); } };
            s2c_noise = hk::take_tape().iter().filter_map(|x| match x { hk::Rec::Sample { kind, data, .. } if *kind == "centered_binomial" => Some(data.clone()), _ => None }).collect();
            let msgs: Vec<Vec<u8>> = protos.iter().map(|p| { let mut m = vec![]; p.send(&mut m).unwrap(); m }).collect();
            s2c_msgs = msgs.iter().map(|m| decode_msg(&ctx, m)).collect();
            deliver!(protos, msgs, plan, R_S2C, receive);
        if plan.drop.is_none() { resend_check!(e, protos, msgs, send, "s2c", id, plan.tag, cls("send-stable")); }
            let p0 = protos.remove(0);
            catch_unwind(AssertUnwindSafe(|| p0.finish())).ok()
        };
        if plan.drop.map(|d| d.0) == Some(R_S2C) { incomplete_verdict(e, cfg, R_S2C, plan, &(0..cnt).map(|i| i != 0 || back.is_some()).collect::<Vec<_>>()); return Some(digest); }
        let back = back?;
        // round function: h_i = (-s_i) a + e_i (+ plain(share_i) for i != 0); the party's own c0 is recomputed with the library's add_plain
        if s2c_noise.len() == cnt { for i in 0..cnt { if s2c_msgs[i].len() == 1 {
            let mut z = Ciphertext::new(); z.resize(&ctx, &first_pid, 2); z.set_is_ntt_form(false);
            s.evaluator.add_plain_inplace(&mut z, &enc.encode(&shares[i]));
            e.case(format!("mp_share s2c {} {} {} {} {} {} {} {} {} {}", scheme_name(cfg.scheme), n, fl(&lqs), t, back.is_ntt_form() as u8, i, rp(n, &parties[i].secret_key().data()[..lqs.len() * n]), rp(n, back.poly(1)), rp(n, &s2c_noise[i]), rp(n, z.poly(0))),
                &cls("share-s2c"), rp(n, &s2c_msgs[i][0]));
        } } }
        e.case(format!("prog {} {} {}", ct_case(&sk_sum_c, &back), pred_proto, fl(&trim(&m1))), &cls("shares-roundtrip"), dec_pt(&dec_sum, &back));
        digest.push(format!("s2c {}", fl(back.data())));
    }
    Some(digest)
}

/// parameter families: 2..4 primes of 45..60 bits (the last one is the special prime), N = 8..32, t batching / 2^k / small odd
fn pick_cfg(r: &mut Rng, scheme: SchemeType, parties: usize, k: usize, thorough: bool, want_batching: bool) -> Option<Cfg> {
    let lg = r.range(3, 5) as usize; let n = 1usize << lg;
    let mut bits: Vec<usize> = (0..k - 1).map(|_| *r.pick(&[45usize, 50, 55, 59])).collect(); bits.push(60);
    // the family with a coefficient prime BELOW the plain modulus (BFV / BGV, at least two data primes): scalings by t must reduce t first
    if scheme != SchemeType::CKKS && k >= 3 && want_batching && parties % 2 == 1 {
        bits[0] = 22;
        let qs = pick_primes(r, n, &bits)?;
        let t = std::panic::catch_unwind(|| heathcliff::util::get_primes(2 * n as u64, 27, 1)[0].value()).ok()?;
        if qs.iter().any(|&q| gcd(q, t) != 1) { return None; }
        return Some(Cfg { scheme, n, qs, t, parties, wseed: r.next() >> 16 });
    }
    let qs = pick_primes(r, n, &bits)?;
    let t = if scheme == SchemeType::CKKS { 0 } else if want_batching || r.chance(1, 2) {
        let b = (lg + 2).max(r.range(5, if k == 2 { 10 } else { 18 }) as usize);
        std::panic::catch_unwind(|| heathcliff::util::get_primes(2 * n as u64, b, 1)[0].value()).ok()?
    } else if r.chance(1, 2) { 1u64 << r.range(2, if k == 2 { 8 } else { 16 }) } else { 3 + 2 * r.below(40) };
    if scheme != SchemeType::CKKS && qs.iter().any(|&q| gcd(q, t) != 1) { return None; }
    Some(Cfg { scheme, n, qs, t, parties, wseed: r.next() >> 16 })
}

/// a context whose FIRST data level has exactly the moduli `qs` (one more 60-bit prime is appended as the special prime),
/// or whose key level is `qs` (`key_level`)
fn replay_ctx(scheme: SchemeType, n: usize, qs: &[u64], t: u64, key_level: bool) -> Option<Setup> {
    let mut all = qs.to_vec();
    if !key_level {
        let cands = heathcliff::util::get_primes(2 * n as u64, 60, qs.len() + 1);
        all.push(cands.iter().map(|m| m.value()).find(|v| !qs.contains(v))?);
    }
    make(scheme, n, &all, t, true, if key_level && qs.len() > 1 { None } else if key_level { Some(false) } else { None })
}
fn parse_rp(s: &str) -> Vec<u64> { if s == "-" { vec![] } else { s.split(';').flat_map(|c| c.split(',').map(|x| x.parse::<u64>().unwrap_or(0)).collect::<Vec<_>>()).collect() } }
fn parse_scheme(s: &str) -> SchemeType { match s { "bfv" => SchemeType::BFV, "bgv" => SchemeType::BGV, _ => SchemeType::CKKS } }
/// secret key object holding the given signed coefficients (NTT form at key level)
fn sk_from_coeffs(s: &Setup, c: &[i64]) -> SecretKey {
    let kd = s.ctx.key_context_data().unwrap(); let ms = kd.parms().coeff_modulus(); let n = s.n;
    let mut sk = s.keygen.secret_key().clone();
    for (i, m) in ms.iter().enumerate() {
        let q = m.value();
        let mut comp: Vec<u64> = c.iter().map(|&x| if x < 0 { q - ((-x) as u64 % q) } else { x as u64 % q }).map(|x| x % q).collect();
        kd.small_ntt_tables()[i].ntt_negacyclic_harvey(&mut comp);
        sk.data_mut()[i * n..(i + 1) * n].copy_from_slice(&comp);
    }
    sk
}
/// collective decryption of `ct` by two parties holding (sk, 0)
fn collective_decrypt(s: &Setup, sk: &SecretKey, ct: &Ciphertext) -> Plaintext {
    let mut ps: Vec<Participant> = (0..2).map(|i| Participant::new(2, i, s.ctx.clone(), BlakeRNG::from_seed(PRNGSeed([7u8; 64])))).collect();
    let zero = sk_from_coeffs(s, &vec![0i64; s.n]);
    ps[0].update_secret_key(sk); ps[1].update_secret_key(&zero);
    let mut protos: Vec<_> = ps.iter().map(|p| p.decrypt(ct)).collect();
    let msgs: Vec<Vec<u8>> = protos.iter().map(|p| { let mut m = vec![]; p.send(&mut m).unwrap(); m }).collect();
    protos[0].receive(1, &mut msgs[1].as_slice()).unwrap();
    protos.remove(0).finish()
}
/// replay of one recorded case line through the real code (`./check C18 --replay`): `prog` (collective decryption of the recorded
/// ciphertext under the recorded key split as (s, 0)), `mp_decode` (collective decryption of (phase, 0): same decoding path, fresh
/// smudging noise), `mp_finish` (secret-key revelation among parties holding the recorded polynomials, recorded delivery order)
fn replay(out: &mut Out, lhs: &str) {
    let a: Vec<&str> = lhs.split(' ').collect();
    arm(12345);
    let res: String = guard(|| {
        match a[0] {
            "prog" if a.len() >= 11 => {
                let (scheme, n, qs, t) = (parse_scheme(a[1]), a[2].parse::<usize>().unwrap(), parse_rp(a[3]), a[4].parse::<u64>().unwrap());
                let s = replay_ctx(scheme, n, &qs, t, false).expect("context");
                let skc: Vec<i64> = a[5].split(',').map(|x| x.parse().unwrap_or(0)).collect();
                let polys: Vec<Vec<u64>> = a[8].split('|').map(parse_rp).collect();
                let mut ct = Ciphertext::new(); ct.resize(&s.ctx, s.ctx.first_parms_id(), polys.len());
                for (i, p) in polys.iter().enumerate() { ct.poly_mut(i).copy_from_slice(p); }
                ct.set_is_ntt_form(a[6] == "1"); ct.set_correction_factor(a[7].parse().unwrap_or(1));
                pt_str(&collective_decrypt(&s, &sk_from_coeffs(&s, &skc), &ct))
            }
            "mp_decode" if a.len() >= 8 && a[1] != "ckks" => {
                let (scheme, n, qs, t) = (parse_scheme(a[1]), a[2].parse::<usize>().unwrap(), parse_rp(a[3]), a[4].parse::<u64>().unwrap());
                let s = replay_ctx(scheme, n, &qs, t, false).expect("context");
                let mut ct = Ciphertext::new(); ct.resize(&s.ctx, s.ctx.first_parms_id(), 2);
                ct.poly_mut(0).copy_from_slice(&parse_rp(a[7]));
                ct.set_is_ntt_form(a[5] == "1"); ct.set_correction_factor(a[6].parse().unwrap_or(1));
                pt_str(&collective_decrypt(&s, &sk_from_coeffs(&s, &vec![0i64; n]), &ct))
            }
            "mp_finish" if a.len() >= 6 => {
                let qs = parse_rp(a[1]); let cnt: usize = a[2].parse().unwrap(); let id: usize = a[3].parse().unwrap();
                let own = parse_rp(a[4]); let n = own.len() / qs.len();
                let s = replay_ctx(SchemeType::CKKS, n, &qs, 0, true).expect("context");
                let mut ps: Vec<Participant> = (0..cnt).map(|i| Participant::new(cnt, i, s.ctx.clone(), BlakeRNG::from_seed(PRNGSeed([7u8; 64])))).collect();
                let mut sk = s.keygen.secret_key().clone(); sk.data_mut().copy_from_slice(&own);
                ps[id].update_secret_key(&sk);
                let mut proto = ps[id].reveal_secret_key();
                if a[5] != "-" { for d in a[5].split('/') {
                    let (sd, poly) = d.split_once(':').unwrap();
                    let mut m = vec![];
                    PolynomialSerializer::serialize_polynomial(&s.ctx, &mut m, &parse_rp(poly), *s.ctx.key_parms_id()).unwrap();
                    proto.receive(sd.parse().unwrap(), &mut m.as_slice()).unwrap();
                } }
                rp(n, proto.finish().data())
            }
            _ => "?".to_string(),
        }
    });
    // verdict lines carry their configuration: re-run that world (identity order, the recorded permutation, or the recorded drop)
    if a[0].starts_with("mp_") && a.len() >= 3 { if let Some(cfg) = Cfg::parse(a[2]) {
        if a[0].starts_with("mp_ewvp") { hk::clear_entropy_override(); let mut seen = HashSet::new(); ewvp_world(out, &cfg, &mut seen); return; }
        let mut plan = plan_identity(cfg.parties);
        for tok in a.iter().skip(3) {
            if let Some(k) = tok.strip_prefix("perm") { if let Ok(k) = k.parse::<u64>() { plan = plan_nth(cfg.parties, k); } }
        }
        if a[0] == "mp_incomplete" && a.len() >= 4 { if let (Some(rd), Some(d)) = (RNAME.iter().position(|x| *x == a[1]), a[3].strip_prefix("drop=")) {
            if let Some((sd, rc)) = d.split_once("->") { plan.drop = Some((rd, sd.parse().unwrap_or(0), rc.parse().unwrap_or(0))); plan.tag = "drop".into(); } } }
        let mut seen = HashSet::new();
        if a[0] == "mp_order" {
            let base = world(out, &cfg, &plan_identity(cfg.parties), false, &mut seen);
            let got = world(out, &cfg, &plan, false, &mut seen);
            verdict(out, base == got, lhs, "replay", "outputs differ from the identity order");
        } else { world(out, &cfg, &plan, true, &mut seen); }
        return;
    } }
    hk::clear_entropy_override();
    out.raw(&format!("{} => {}", lhs, res));
}

// ---------------------------------------------------------------------------------------------------------------------------------
// Participant::element_wise_vector_product (party 0 = aggregator ("cloud"), parties 1..n-1 = input parties; the library's own test
// multiplies the vectors of parties 1..n-1 and ignores the vector handed in by party 0)
//
// Lines:
//  * `prog <result ciphertext under the summed key> pred expected => Decryptor(summed key)`        (exact-integer decryption in Lean;
//     expected = negacyclic ring product mod t of the batch encodings of the input parties' vectors)
//  * `prog <same ciphertext> pred-3 expected => collective DecryptionProtocol plaintext`, `prog <re-encrypted under an outside key> ...`
//  * verdicts `mp_ewvp_*` (all inputs on the line; replay re-runs the world of the configuration):
//      slots  — for EVERY schedule the decrypted result batch-decodes to the slot-wise product mod t (zero beyond the shortest vector)
//      order  — every schedule yields the same decrypted plaintext
//      hold   — after step 2 every input party holds (re-sends) exactly the ciphertext the aggregator computed
//      tape   — afterwards the parties' common tapes are still in the same state and a fresh collective public key agrees
//    schedule = order in which the parties create their protocol objects (= order of their encryptions) x interleaving of the
//    step-1 sends / deliveries (a message is delivered after it was sent, otherwise any order) x the same for step 2.
const EW_KINDS: [&str; 11] = ["zeros", "ones", "tm1", "alt", "ramp", "rand", "len1", "partial", "onezero", "boundary", "empty"];

/// all interleavings of the events (send i, deliver i), i = 1..=m, in which every message is sent before it is delivered
fn interleavings(m: usize) -> Vec<Vec<(usize, bool)>> {
    fn go(m: usize, st: &mut Vec<u8>, cur: &mut Vec<(usize, bool)>, out: &mut Vec<Vec<(usize, bool)>>) {
        if cur.len() == 2 * m { out.push(cur.clone()); return; }
        for i in 1..=m { if st[i] < 2 { cur.push((i, st[i] == 1)); st[i] += 1; go(m, st, cur, out); st[i] -= 1; cur.pop(); } }
    }
    let mut out = vec![]; go(m, &mut vec![0u8; m + 1], &mut vec![], &mut out); out
}
fn sched_str(ev: &[(usize, bool)]) -> String { ev.iter().map(|&(i, d)| format!("{}{}", if d { "R" } else { "S" }, i)).collect::<Vec<_>>().join(".") }

fn ew_vectors(r: &mut Rng, kind: usize, cnt: usize, n: usize, t: u64) -> Vec<Vec<u64>> {
    (0..cnt).map(|i| -> Vec<u64> { match kind {
        0 => vec![0; n],
        1 => vec![1; n],
        2 => vec![t - 1; n],
        3 => (0..n).map(|j| if (i + j) % 2 == 0 { t - 1 } else { t / 2 + (i as u64 % 2) }).collect(),
        4 => (0..n).map(|j| ((j as u64 + 1) * (i as u64 + 1)) % t).collect(),
        5 => (0..n).map(|_| r.below(t)).collect(),
        6 => vec![1 + r.below(t - 1)],
        7 => { let len = 1 + (n / 2 + 3 * i + r.below(3) as usize) % (n - 1); (0..len).map(|_| 1 + r.below(t - 1)).collect() }
        8 => if i == cnt - 1 { vec![0; n] } else { (0..n).map(|_| r.below(t)).collect() },
        9 => (0..n).map(|_| *r.pick(&[0, 1, 2, t - 2, t - 1, t / 2, (t + 1) / 2])).collect(),
        _ => if i == 1 { vec![] } else { (0..n).map(|_| r.below(t)).collect() },
    } }).collect()
}

/// one run of the protocol under a schedule; returns the aggregator's result and whether every input party ends up holding it
fn ew_run(parties: &mut [Participant], ctx: &std::sync::Arc<HeContext>, pk: &PublicKey, rlk: &RelinKeys, xs: &[Vec<u64>],
          create: &[usize], s1: &[(usize, bool)], s2: &[(usize, bool)]) -> (Ciphertext, bool) {
    let cnt = parties.len();
    let mut refs: Vec<Option<&mut Participant>> = parties.iter_mut().map(Some).collect();
    let mut slots: Vec<Option<ElementWiseVectorProductProtocol>> = (0..cnt).map(|_| None).collect();
    for &i in create { let p = refs[i].take().unwrap(); slots[i] = Some(p.element_wise_vector_product(ctx.clone(), pk.clone(), &xs[i])); }
    let mut protos: Vec<ElementWiseVectorProductProtocol> = slots.into_iter().map(|p| p.unwrap()).collect();
    let mut msgs: Vec<Vec<u8>> = vec![vec![]; cnt];
    for &(i, deliver) in s1 {
        if !deliver { protos[i].send_step1(&mut msgs[i]).unwrap(); }
        else { let m = msgs[i].clone(); protos[0].receive_step1(i, &m).unwrap(); }
    }
    let y = protos[0].step2(rlk.clone());
    let mut msgs2: Vec<Vec<u8>> = vec![vec![]; cnt];
    for &(i, deliver) in s2 {
        if !deliver { protos[0].send_step2(&mut msgs2[i]).unwrap(); }
        else { let m = msgs2[i].clone(); protos[i].receive_step2(&m).unwrap(); }
    }
    // what a party holds after step 2 is observable only through send_step2
    let mut m0 = vec![]; protos[0].send_step2(&mut m0).unwrap();
    let mut held = true;
    for i in 1..cnt { let mut mi = vec![]; protos[i].send_step2(&mut mi).unwrap(); if mi != m0 { held = false; } }
    match Ciphertext::deserialize(ctx, &mut m0.as_slice()) {
        Ok(c) => if c.data() != y.data() || c.parms_id() != y.parms_id() || c.size() != y.size() || c.is_ntt_form() != y.is_ntt_form() { held = false; },
        Err(_) => held = false,
    }
    (y, held)
}

fn ew_cfg(r: &mut Rng, scheme: SchemeType, parties: usize, k: usize) -> Option<Cfg> {
    let lg = r.range(3, 5) as usize; let n = 1usize << lg;
    // four parties = two consecutive products without modulus switching: large data primes only (otherwise BGV leaves no budget to claim anything)
    let pool: &[usize] = if parties >= 4 { &[55, 59] } else { &[45, 50, 55, 59] };
    let mut bits: Vec<usize> = (0..k - 1).map(|_| *r.pick(pool)).collect(); bits.push(60);
    let qs = pick_primes(r, n, &bits)?;
    let b = r.range(lg as u64 + 2, 12) as usize;
    let t = std::panic::catch_unwind(|| heathcliff::util::get_primes(2 * n as u64, b, 1)[0].value()).ok()?;
    if qs.iter().any(|&q| gcd(q, t) != 1) { return None; }
    Some(Cfg { scheme, n, qs, t, parties, wseed: r.next() >> 16 })
}

pub fn ewvp_world(out: &mut Out, cfg: &Cfg, seen: &mut HashSet<String>) -> Option<(usize, usize, usize)> {
    arm(cfg.wseed);
    let res = catch_unwind(AssertUnwindSafe(|| ewvp_inner(out, cfg, seen)));
    hk::clear_entropy_override();
    match res { Ok(x) => x, Err(_) => {
        let m = crate::util::LAST_PANIC.with(|p| p.borrow().clone());
        out.raw(&format!("!FAIL mp_ewvp_panic ewvp {} :: the protocol world panicked on legal input: {} # ewvp-panic", cfg.id(), m.replace('\n', " ")));
        None } }
}

fn ewvp_inner(out: &mut Out, cfg: &Cfg, seen: &mut HashSet<String>) -> Option<(usize, usize, usize)> {
    use rand::RngCore;
    let mut r = Rng::new(cfg.wseed.wrapping_mul(131) + 9);
    let s = make(cfg.scheme, cfg.n, &cfg.qs, cfg.t, true, None)?;
    let (n, t, cnt) = (cfg.n, s.t, cfg.parties);
    let ctx = s.ctx.clone();
    if cfg.scheme == SchemeType::CKKS || cnt < 2 || !ctx.using_keyswitching() || !ctx.first_context_data().unwrap().qualifiers().using_batching { return None; }
    let bfv = cfg.scheme == SchemeType::BFV;
    let key_qs: Vec<u64> = ctx.key_context_data().unwrap().parms().coeff_modulus().iter().map(|m| m.value()).collect();
    let first_pid = *ctx.first_parms_id();
    let lqs = s.level_qs(&first_pid);
    let level_bits: f64 = lqs.iter().map(|&q| log2f(q as f64)).sum();
    let (ln, lp, lt) = (log2f(n as f64), log2f(cnt as f64), log2f(t as f64));
    // conservative predicted budgets of the result (same estimates as the worlds above; one more product for four parties)
    let pred_fresh = (level_bits - lt - ln - lp - 20.0).floor() as i64;
    let pred_mul = if bfv { pred_fresh - (lt + 2.0 * ln + 13.0) as i64 } else { (2.0 * pred_fresh as f64 - level_bits - ln - 8.0) as i64 };
    let pred_rl = pred_mul.min((level_bits - lt - 2.0 * ln - 2.0 * lp - 26.0) as i64) - 1;
    let pred_mul2 = if bfv { pred_rl - (lt + 2.0 * ln + 2.0 * lp + 16.0) as i64 } else { ((pred_rl + pred_fresh) as f64 - level_bits - ln - 2.0 * lp - 10.0) as i64 };
    let pred_rl2 = pred_mul2.min((level_bits - lt - 2.0 * ln - 2.0 * lp - 26.0) as i64) - 1;
    let pred = match cnt { 2 => pred_fresh, 3 => pred_rl, 4 => pred_rl2, _ => -1 };
    let claim = pred - 3 - ln as i64 - 1 >= 4;          // every line of this world claims or none does
    let id = cfg.id();
    let cls = |x: &str, kind: &str| format!("ewvp-{}-{}-P{}-k{}-{}", x, scheme_name(cfg.scheme), cnt, cfg.qs.len(), kind);
    let mut common = [0u8; 64]; for c in common.chunks_mut(8) { c.copy_from_slice(&r.next().to_le_bytes()); }
    let mut parties: Vec<Participant> = (0..cnt).map(|i| Participant::new(cnt, i, ctx.clone(), BlakeRNG::from_seed(PRNGSeed(common)))).collect();
    let rand_pairs = |r: &mut Rng| { let mut v = all_pairs(cnt, false); shuffle(r, &mut v); v };

    // ---- set-up: collective public key, relinearisation key, summed secret key (random delivery order; agreement is re-checked)
    let gen_pk = |parties: &mut Vec<Participant>, order: &[(usize, usize)]| -> Vec<PublicKey> {
        let mut protos: Vec<_> = parties.iter_mut().map(|p| p.generate_public_key()).collect();
        let msgs: Vec<Vec<u8>> = protos.iter().map(|p| { let mut m = vec![]; p.send(&mut m).unwrap(); m }).collect();
        for &(sd, rc) in order { protos[rc].receive(sd, &mut msgs[sd].as_slice()).unwrap(); }
        protos.into_iter().map(|p| p.finish()).collect()
    };
    let order = rand_pairs(&mut r);
    let pks = gen_pk(&mut parties, &order);
    let rlks: Vec<RelinKeys> = {
        let (o1, o2) = (rand_pairs(&mut r), rand_pairs(&mut r));
        let mut protos: Vec<_> = parties.iter_mut().map(|p| p.generate_relin_keys()).collect();
        let msgs: Vec<Vec<u8>> = protos.iter().map(|p| { let mut m = vec![]; p.send_step1(&mut m).unwrap(); m }).collect();
        for &(sd, rc) in o1.iter() { protos[rc].receive_step1(sd, &mut msgs[sd].as_slice()).unwrap(); }
        for p in protos.iter_mut() { p.step2(); }
        let msgs2: Vec<Vec<u8>> = protos.iter().map(|p| { let mut m = vec![]; p.send_step2(&mut m).unwrap(); m }).collect();
        for &(sd, rc) in o2.iter() { protos[rc].receive_step2(sd, &mut msgs2[sd].as_slice()).unwrap(); }
        protos.into_iter().map(|p| p.finish()).collect()
    };
    let sk_sum: SecretKey = {
        let order = rand_pairs(&mut r);
        let mut protos: Vec<_> = parties.iter().map(|p| p.reveal_secret_key()).collect();
        let msgs: Vec<Vec<u8>> = protos.iter().map(|p| { let mut m = vec![]; p.send(&mut m).unwrap(); m }).collect();
        for &(sd, rc) in order.iter() { protos[rc].receive(sd, &mut msgs[sd].as_slice()).unwrap(); }
        protos.into_iter().next().unwrap().finish()
    };
    let flat = |k: &RelinKeys| -> Vec<u64> { k.as_kswitch_keys().data()[0].iter().flat_map(|p| p.data().iter().cloned()).collect() };
    let mut own = vec![0u64; key_qs.len() * n];
    for p in parties.iter() { own = add_mod_rns(&own, p.secret_key().data(), n, &key_qs); }
    let setup_ok = pks.iter().all(|k| k.data() == pks[0].data()) && rlks.iter().all(|k| flat(k) == flat(&rlks[0])) && sk_sum.data() == &own;
    verdict(out, setup_ok, &format!("mp_ewvp_setup ewvp {}", id), &cls("setup", "keys"), "collective keys differ between parties or the revealed key is not the sum of the parties' keys");
    if !setup_ok { return None; }
    let (pk, rlk) = (pks[0].clone(), rlks[0].clone());
    let sk_sum_c = centred_sk(&ctx, n, sk_sum.data());
    let dec_sum = Decryptor::new(ctx.clone(), sk_sum.clone());
    let be = BatchEncoder::new(ctx.clone());
    let target_pk = s.keygen.create_public_key(false);
    let ct_case = |sk: &[i64], ct: &Ciphertext| format!("{} {} {}", s.head(ct.parms_id()), fli(sk), s.ct_str(ct));

    // ---- schedules
    let inter = interleavings(cnt - 1);
    let nperm = fact(cnt);
    let ids: Vec<usize> = (0..cnt).collect();
    let scheds: Vec<(Vec<usize>, usize, usize)> = if cnt <= 3 {
        (0..(inter.len() * inter.len()).max(nperm as usize)).map(|i| (perm_nth(&ids, (i as u64) % nperm), (i / inter.len()) % inter.len(), i % inter.len())).collect()
    } else {
        (0..inter.len().max(nperm as usize)).map(|i| (perm_nth(&ids, (i as u64) % nperm), i % inter.len(), (i * 7 + 3) % inter.len())).collect()
    };
    let (mut runs, mut claims) = (0usize, 0usize);

    for (ki, kname) in EW_KINDS.iter().enumerate() {
        let xs = ew_vectors(&mut r, ki, cnt, n, t);
        let xstr = xs.iter().map(|x| fl(x)).collect::<Vec<_>>().join("/");
        let pad = |x: &[u64]| { let mut v = x.to_vec(); v.resize(n, 0); v };
        let want_slots: Vec<u64> = (1..cnt).fold(vec![1u64; n], |acc, i| { let x = pad(&xs[i]); (0..n).map(|j| ((acc[j] as u128 * x[j] as u128) % t as u128) as u64).collect() });
        let encs: Vec<Vec<u64>> = xs.iter().map(|x| pad(be.encode_new(x).data())).collect();
        let want_poly = (2..cnt).fold(encs[1].clone(), |acc, i| shadow_mul(&acc, &encs[i], t));
        // the two forms of the oracle (ring product of the encodings / slot-wise product) must describe the same plaintext
        let dec_want = pad(&be.decode_new(&plain_of(&want_poly)));
        verdict(out, dec_want == want_slots, &format!("mp_ewvp_oracle ewvp {} {} x={}", id, kname, xstr), "trivial-ewvp-oracle", "the ring product of the batch encodings does not decode to the slot-wise product (batch encoder is not multiplicative: C13)");
        let arm_k = |sd: u64| arm(cfg.wseed ^ ((ki as u64 + 1) << 40) ^ (sd << 52));

        let mut first: Option<(String, Ciphertext)> = None;
        let mut distinct: Vec<Vec<u64>> = vec![];
        let (mut bad_slots, mut bad_order, mut bad_hold, mut refused): (Vec<String>, Vec<String>, Vec<String>, Vec<String>) = (vec![], vec![], vec![], vec![]);
        for (create, i1, i2) in scheds.iter() {
            let tag = format!("create={}:s1={}:s2={}", create.iter().map(|c| c.to_string()).collect::<Vec<_>>().join("."), sched_str(&inter[*i1]), sched_str(&inter[*i2]));
            arm_k(0);
            let res = catch_unwind(AssertUnwindSafe(|| ew_run(&mut parties, &ctx, &pk, &rlk, &xs, create, &inter[*i1], &inter[*i2])));
            runs += 1;
            let (y, held) = match res { Ok(x) => x, Err(_) => { refused.push(format!("{} ({})", tag, crate::util::LAST_PANIC.with(|p| p.borrow().clone()).replace('\n', " "))); continue } };
            if !held { bad_hold.push(tag.clone()); }
            let plain = catch_unwind(AssertUnwindSafe(|| dec_sum.decrypt_new(&y)));
            let (dstr, slots) = match &plain { Ok(p) => (pt_str(p), pad(&be.decode_new(p))), Err(_) => ("ERR".to_string(), vec![]) };
            if !distinct.iter().any(|d| d.as_slice() == y.data().as_slice()) {
                if distinct.len() < 2 {
                    let lhs = format!("prog {} {} {}", ct_case(&sk_sum_c, &y), pred, fl(&trim(&want_poly)));
                    if seen.insert(lhs.clone()) { out.raw(&format!("{} => {} # {}", lhs, dstr, cls("result", kname))); }
                }
                distinct.push(y.data().to_vec());
            }
            if claim && slots != want_slots { bad_slots.push(format!("{} got {}", tag, fl(&slots))); }
            match &first { None => first = Some((dstr.clone(), y.clone())), Some((d0, _)) => if claim && &dstr != d0 { bad_order.push(tag.clone()); } }
        }
        let total = scheds.len();
        verdict(out, refused.is_empty(), &format!("mp_ewvp_runs ewvp {} {} x={} schedules={}", id, kname, xstr, total), &cls("runs", kname),
            &format!("{} schedules panicked on legal input; first: {}", refused.len(), refused.first().cloned().unwrap_or_default()));
        verdict(out, bad_hold.is_empty(), &format!("mp_ewvp_hold ewvp {} {} x={} schedules={}", id, kname, xstr, total), &cls("hold", kname),
            &format!("after step 2 an input party does not hold the aggregator's result in {} schedules; first: {}", bad_hold.len(), bad_hold.first().cloned().unwrap_or_default()));
        if claim {
            claims += 1;
            verdict(out, bad_slots.is_empty(), &format!("mp_ewvp_slots ewvp {} {} x={} want={} pred={} schedules={}", id, kname, xstr, fl(&want_slots), pred, total), &cls("slots", kname),
                &format!("the result does not decrypt to the slot-wise product of the input parties' vectors in {} schedules; first: {}", bad_slots.len(), bad_slots.first().cloned().unwrap_or_default()));
            verdict(out, bad_order.is_empty(), &format!("mp_ewvp_order ewvp {} {} x={} schedules={} distinct_ct={}", id, kname, xstr, total, distinct.len()), &cls("order", kname),
                &format!("{} schedules decrypt to a plaintext different from the first schedule's; first: {}", bad_order.len(), bad_order.first().cloned().unwrap_or_default()));
        } else {
            out.raw(&format!("!NOTE ewvp no exact-decryption claim for {} {} (predicted budget {})", id, kname, pred));
        }

        // ---- Out: the parties decrypt the result collectively / re-encrypt it for an outside receiver (as the library's test does)
        if let Some((_, y0)) = first {
            arm_k(1);
            let order = perm_nth(&all_pairs(cnt, false), r.next() % fact(cnt * (cnt - 1)));
            let pts: Vec<Option<Plaintext>> = {
                let mut protos: Vec<_> = parties.iter().map(|p| p.decrypt(&y0)).collect();
                let msgs: Vec<Vec<u8>> = protos.iter().map(|p| { let mut m = vec![]; p.send(&mut m).unwrap(); m }).collect();
                for &(sd, rc) in order.iter() { protos[rc].receive(sd, &mut msgs[sd].as_slice()).unwrap(); }
                finish_all!(protos, |p: DecryptionProtocol| p.finish())
            };
            let ok = pts.iter().all(|p| p.as_ref().map(|p| pad(&be.decode_new(p)) == want_slots).unwrap_or(false));
            if claim { verdict(out, ok, &format!("mp_ewvp_out_decrypt ewvp {} {} x={} want={}", id, kname, xstr, fl(&want_slots)), &cls("out-decrypt", kname), "collective decryption of the result is not the slot-wise product for every party"); }
            if let Some(Some(p0)) = pts.get(0) {
                let lhs = format!("prog {} {} {}", ct_case(&sk_sum_c, &y0), pred - 3, fl(&trim(&want_poly)));
                if seen.insert(lhs.clone()) { out.raw(&format!("{} => {} # {}", lhs, pt_str(p0), cls("collective-decrypt", kname))); }
            }
            let order = perm_nth(&all_pairs(cnt, false), r.next() % fact(cnt * (cnt - 1)));
            let cts: Vec<Option<Ciphertext>> = {
                let mut protos: Vec<_> = parties.iter().map(|p| p.public_key_switch(&y0, &target_pk)).collect();
                let msgs: Vec<Vec<u8>> = protos.iter().map(|p| { let mut m = vec![]; p.send(&mut m).unwrap(); m }).collect();
                for &(sd, rc) in order.iter() { protos[rc].receive(sd, &mut msgs[sd].as_slice()).unwrap(); }
                finish_all!(protos, |p: PublicKeySwitchProtocol| p.finish())
            };
            let ok = cts.iter().all(|c| c.as_ref().map(|c| catch_unwind(AssertUnwindSafe(|| pad(&be.decode_new(&s.decryptor.decrypt_new(c))))).map(|v| v == want_slots).unwrap_or(false)).unwrap_or(false));
            if claim { verdict(out, ok, &format!("mp_ewvp_out_pks ewvp {} {} x={} want={}", id, kname, xstr, fl(&want_slots)), &cls("out-pks", kname), "the result re-encrypted for the receiver does not decrypt to the slot-wise product for every party"); }
            if let Some(Some(c0)) = cts.get(0) {
                let lhs = format!("prog {} {} {}", s.ct_case(c0), pred - 3 - ln as i64 - 1, fl(&trim(&want_poly)));
                if seen.insert(lhs.clone()) { out.raw(&format!("{} => {} # {}", lhs, guard(|| s.dec_str(c0)), cls("public-key-switch", kname))); }
            }
        }
    }

    // ---- incomplete step 1 (observation only: the property's refusal clause is stated for the finish of the revelation protocols)
    for skip in 1..cnt {
        arm(cfg.wseed ^ 0xDEAD);
        let xs = ew_vectors(&mut r, 5, cnt, n, t);
        // step 1 without the message of `skip`, then the aggregator's step 2 alone
        let res = catch_unwind(AssertUnwindSafe(|| {
            let mut protos: Vec<ElementWiseVectorProductProtocol> = parties.iter_mut().zip(xs.iter()).map(|(p, x)| p.element_wise_vector_product(ctx.clone(), pk.clone(), x)).collect();
            for i in 1..cnt { if i != skip { let mut m = vec![]; protos[i].send_step1(&mut m).unwrap(); protos[0].receive_step1(i, &m).unwrap(); } }
            protos[0].step2(rlk.clone())
        }));
        let what = match res { Ok(y) => format!("step2 did NOT refuse: it returned a ciphertext of size {} ({} words)", y.size(), y.data().len()),
            Err(_) => format!("step2 refused ({})", crate::util::LAST_PANIC.with(|p| p.borrow().clone()).replace('\n', " ")) };
        out.raw(&format!("!NOTE ewvp incomplete {} message of party {} never delivered: {}", id, skip, what));
    }

    // ---- the common tape afterwards: same state in every party; a fresh collective public key still agrees
    arm(cfg.wseed ^ 0x7A9E);
    let draws: Vec<u64> = parties.iter().map(|p| p.borrow_common_rng().next_u64()).collect();
    verdict(out, draws.iter().all(|&d| d == draws[0]), &format!("mp_ewvp_tape draw {}", id), &cls("tape", "draw"), &format!("the parties' common tapes are in different states after the protocol: next words {:?}", draws));
    let order = rand_pairs(&mut r);
    let pks2 = gen_pk(&mut parties, &order);
    verdict(out, pks2.iter().all(|k| k.data() == pks2[0].data()) && pks2[0].data() != pk.data(), &format!("mp_ewvp_tape pk {}", id), &cls("tape", "pk"),
        "a collective public key generated after the protocol differs between parties (or repeats the first one)");
    Some((runs, claims, EW_KINDS.len()))
}

fn ewvp_all(out: &mut Out, thorough: bool, seed: u64, seen: &mut HashSet<String>) {
    let mut r = Rng::new(seed ^ 0xE1E17EC7);
    let (mut worlds, mut runs, mut claims, mut kinds) = (0usize, 0usize, 0usize, 0usize);
    for parties in 2..=4usize {
        for &scheme in [SchemeType::BFV, SchemeType::BGV].iter() {
            for rep in 0..(if thorough { 4 } else { 2 }) {
                let k = match parties { 2 => 2 + rep % 2, 3 => 3 + rep % 2, _ => 4 };
                let cfg = match (0..8).find_map(|_| ew_cfg(&mut r, scheme, parties, k)) { Some(c) => c, None => continue };
                out.raw(&format!("!NOTE ewvp world {}", cfg.spec()));
                if let Some((a, b, c)) = ewvp_world(out, &cfg, seen) { worlds += 1; runs += a; claims += b; kinds += c; }
            }
        }
    }
    // CKKS: the protocol encodes with the BatchEncoder, which does not accept the scheme
    if let Some(cfg) = (0..8).find_map(|_| pick_cfg(&mut r, SchemeType::CKKS, 2, 3, thorough, false)) { if let Some(s) = make(cfg.scheme, cfg.n, &cfg.qs, cfg.t, true, None) {
        arm(cfg.wseed);
        let res = catch_unwind(AssertUnwindSafe(|| {
            let mut p = Participant::new(2, 1, s.ctx.clone(), BlakeRNG::from_seed(PRNGSeed([3u8; 64])));
            let pk = s.keygen.create_public_key(false);
            let proto = p.element_wise_vector_product(s.ctx.clone(), pk, &[1, 2, 3]);
            let mut m = vec![]; proto.send_step1(&mut m).unwrap(); m.len()
        }));
        hk::clear_entropy_override();
        out.raw(&format!("!NOTE ewvp ckks {}: {}", cfg.spec(), match res { Ok(l) => format!("accepted (message of {} bytes)", l), Err(_) => format!("refused ({})", crate::util::LAST_PANIC.with(|p| p.borrow().clone()).replace('\n', " ")) }));
    } }
    out.raw(&format!("!NOTE ewvp worlds {} protocol runs {} vector sets {} with exact-decryption claim {}", worlds, runs, kinds, claims));
}

pub fn run(out: &mut Out, thorough: bool, seed: u64, extra: &[String]) {
    let mut seen: HashSet<String> = HashSet::new();
    // replay of one recorded case: `--case <line>`: a world is identified by the `world <cfg> <plan>` note; case lines replay themselves
    if extra.len() >= 2 && extra[0] == "--world" {
        if let Some(cfg) = Cfg::parse(&extra[1]) { let plan = plan_identity(cfg.parties); world(out, &cfg, &plan, true, &mut seen); }
        return;
    }
    if extra.len() >= 2 && extra[0] == "--case" { replay(out, &extra[1]); return; }
    if extra.len() >= 2 && extra[0] == "--ewvp-world" { if let Some(cfg) = Cfg::parse(&extra[1]) { ewvp_world(out, &cfg, &mut seen); } return; }
    let mut r = Rng::new(seed);
    let schemes = [SchemeType::BFV, SchemeType::BGV, SchemeType::CKKS];
    let max_p = if thorough { 6 } else { 4 };
    let mut worlds = 0usize;
    for parties in 2..=max_p {
        for (si, &scheme) in schemes.iter().enumerate() {
            let reps = if thorough { 4 } else { 3 };
            for rep in 0..reps {
                let k = 2 + (parties + si + rep) % 3;
                let cfg = match (0..8).find_map(|_| pick_cfg(&mut r, scheme, parties, k, thorough, rep == 0 || parties % 2 == 0)) { Some(c) => c, None => continue };
                out.raw(&format!("!NOTE world {}", cfg.spec()));
                let base = match world(out, &cfg, &plan_identity(parties), true, &mut seen) { Some(d) => d, None => { out.raw(&format!("!NOTE unusable configuration {}", cfg.id())); continue } };
                worlds += 1;
                // delivery orders: every global order of the n(n-1) messages for n <= 3, sampled above
                let npairs = parties * (parties - 1);
                let orders: Vec<Plan> = if parties <= 3 {
                    let total = fact(npairs);                                       // 2 resp. 720 global orders
                    let stride = if thorough || rep == 0 { 1 } else { 11 };         // quick: all of them for the first world of each scheme
                    (1..total).step_by(stride).map(|k| plan_nth(parties, k)).collect()
                } else { (0..(if thorough { 150 } else { 30 })).map(|i| plan_random(parties, &mut r, &format!("rnd{}", i))).collect() };
                let mut agree = 0usize; let total = orders.len();
                for (oi, plan) in orders.iter().enumerate() {
                    // case lines of re-ordered worlds are printed too (distinct `mp_finish` deliveries only; everything else is deduplicated)
                    let emit = if thorough { oi < 12 || oi % 32 == 0 } else { oi < 24 || oi % 16 == 0 };
                    match world(out, &cfg, plan, emit, &mut seen) {
                        Some(d) if d == base => agree += 1,
                        Some(d) => { let which = d.iter().zip(&base).position(|(a, b)| a != b).map(|i| base[i].split(' ').next().unwrap_or("?").to_string()).unwrap_or_else(|| "length".into());
                            out.raw(&format!("!FAIL mp_order one {} {} :: outputs differ from the identity order (first difference: {}) # order-{}-P{}", cfg.id(), plan.tag, which, scheme_name(scheme), parties)); }
                        None => {}
                    }
                }
                verdict(out, agree == total, &format!("mp_order_all all {} orders={}", cfg.id(), total), &format!("order-{}-P{}", scheme_name(scheme), parties), &format!("only {} of {} delivery orders reproduce the outputs", agree, total));
                // incomplete delivery: drop one message in every round
                for round in 0..ROUNDS {
                    if (round == R_RLK1 || round == R_RLK2) && cfg.qs.len() < 2 { continue; }
                    let mut plan = plan_random(parties, &mut r, "drop");
                    let cand = plan.orders[round].clone();
                    let (sdr, rcv) = *r.pick(&cand);
                    plan.drop = Some((round, sdr, rcv));
                    world(out, &cfg, &plan, true, &mut seen);
                }
            }
        }
    }
    out.raw(&format!("!NOTE worlds {}", worlds));
    ewvp_all(out, thorough, seed, &mut seen);
}
