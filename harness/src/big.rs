//! Minimal unsigned big integers for input generation and printing (independent of the library under test).
#[derive(Clone, Debug, PartialEq, Eq)]
pub struct Big(pub Vec<u64>); // little endian, no trailing zeros except [0]

impl Big {
    pub fn norm(mut v: Vec<u64>) -> Big { while v.len() > 1 && *v.last().unwrap() == 0 { v.pop(); } if v.is_empty() { v.push(0); } Big(v) }
    pub fn from_u64(x: u64) -> Big { Big(vec![x]) }
    pub fn from_limbs(v: &[u64]) -> Big { Big::norm(v.to_vec()) }
    pub fn limbs(&self, n: usize) -> Vec<u64> { let mut v = self.0.clone(); v.resize(n.max(v.len()), 0); v.truncate(n); v }
    pub fn is_zero(&self) -> bool { self.0.iter().all(|&x| x == 0) }
    pub fn mul_u64(&self, m: u64) -> Big {
        let mut out = Vec::with_capacity(self.0.len() + 1); let mut carry: u128 = 0;
        for &x in &self.0 { let p = (x as u128) * (m as u128) + carry; out.push(p as u64); carry = p >> 64; }
        out.push(carry as u64); Big::norm(out)
    }
    pub fn add(&self, o: &Big) -> Big {
        let n = self.0.len().max(o.0.len()); let mut out = Vec::with_capacity(n + 1); let mut c = 0u128;
        for i in 0..n { let s = *self.0.get(i).unwrap_or(&0) as u128 + *o.0.get(i).unwrap_or(&0) as u128 + c; out.push(s as u64); c = s >> 64; }
        out.push(c as u64); Big::norm(out)
    }
    pub fn add_u64(&self, x: u64) -> Big { self.add(&Big::from_u64(x)) }
    /// self - o, requires self >= o
    pub fn sub(&self, o: &Big) -> Big {
        let mut out = Vec::with_capacity(self.0.len()); let mut b = 0i128;
        for i in 0..self.0.len() { let d = self.0[i] as i128 - *o.0.get(i).unwrap_or(&0) as i128 - b; if d < 0 { out.push((d + (1i128 << 64)) as u64); b = 1; } else { out.push(d as u64); b = 0; } }
        Big::norm(out)
    }
    pub fn ge(&self, o: &Big) -> bool {
        let n = self.0.len().max(o.0.len());
        for i in (0..n).rev() { let a = *self.0.get(i).unwrap_or(&0); let b = *o.0.get(i).unwrap_or(&0); if a != b { return a > b; } }
        true
    }
    pub fn divmod_u64(&self, d: u64) -> (Big, u64) {
        let mut out = vec![0u64; self.0.len()]; let mut r: u128 = 0;
        for i in (0..self.0.len()).rev() { let cur = (r << 64) | self.0[i] as u128; out[i] = (cur / d as u128) as u64; r = cur % d as u128; }
        (Big::norm(out), r as u64)
    }
    pub fn mod_u64(&self, d: u64) -> u64 { self.divmod_u64(d).1 }
    pub fn half(&self) -> Big { self.divmod_u64(2).0 }
    pub fn to_dec(&self) -> String {
        if self.is_zero() { return "0".to_string(); }
        let mut parts = vec![]; let mut cur = self.clone();
        while !cur.is_zero() { let (q, r) = cur.divmod_u64(1_000_000_000_000_000_000); parts.push(r); cur = q; }
        let mut s = format!("{}", parts.pop().unwrap());
        while let Some(p) = parts.pop() { s.push_str(&format!("{:018}", p)); }
        s
    }
    pub fn product(v: &[u64]) -> Big { let mut p = Big::from_u64(1); for &x in v { p = p.mul_u64(x); } p }
    /// value below `bound` from random words
    pub fn random_below(r: &mut crate::rng::Rng, bound: &Big) -> Big {
        // rejection-free: take random limbs and reduce by repeated conditional subtraction of bound << k is costly;
        // simply draw limbs and, while >= bound, shift right
        let mut v: Vec<u64> = (0..bound.0.len()).map(|_| r.next()).collect();
        loop { let b = Big::norm(v.clone()); if !b.ge(bound) { return b; } v = b.half().limbs(bound.0.len()); }
    }
}
