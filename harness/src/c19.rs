//! C19: LWE extraction / assembly, field trace, division by N and PackLWEs (src/app/lwe.rs), with the monomial shift and the
//! automorphisms they are built from.  Every index, every trace parameter, every pack count; BFV, BGV, CKKS.
use crate::ctx::*;
use crate::c02::{plain_of, rand_msg, trim};
use crate::rng::Rng;
use crate::util::*;
use heathcliff::*;
use heathcliff::app::lwe::LWECiphertext;
use heathcliff::util as hu;
use heathcliff::verif::polysmallmod as pm;
use std::panic::{catch_unwind, AssertUnwindSafe};

fn ct_slash(s: &Setup, ct: &Ciphertext) -> String {
    let v: Vec<String> = s.ct_str(ct).split(' ').map(|x| x.to_string()).collect();
    format!("{}/{}/{}", v[0], v[1], v[2])
}
fn lwe_str(w: &LWECiphertext) -> String {
    let n = w.poly_modulus_degree(); let k = w.coeff_modulus_size();
    let c1 = (0..k).map(|c| fl(&w.c1()[c * n..(c + 1) * n])).collect::<Vec<_>>().join(";");
    format!("{}/{}/{}", fl(w.c0()), c1, w.correction_factor())
}
fn log2f(x: f64) -> f64 { x.ln() / std::f64::consts::LN_2 }

fn unit_vec(r: &mut Rng, n: usize, q: u64) -> Vec<u64> {
    match r.below(5) {
        0 => { let mut v = vec![0u64; n]; v[r.below(n as u64) as usize] = 1 + r.below(q - 1); v }
        1 => vec![q - 1; n],
        2 => (0..n).map(|_| if r.chance(1, 2) { 0 } else { r.below(q) }).collect(),
        _ => (0..n).map(|_| r.below(q)).collect(),
    }
}

struct Family { scheme: SchemeType, n: usize, bits: Vec<usize>, plain_kind: u64, level: usize }

pub fn run(out: &mut Out, thorough: bool, seed: u64, extra: &[String]) {
    let mut r = Rng::new(seed);
    // `small`: the quick degrees under another seed (second thorough run)
    let thorough = thorough && !extra.iter().any(|a| a == "small");
    // ------------------------------------------------------------------ unit level: monomial shift, automorphisms of the trace / merge
    let kmax = if thorough { 10 } else { 6 };
    for k in 1..=kmax {
        let n = 1usize << k;
        let q = match catch_unwind(|| hu::get_primes(2 * n as u64, (k + 3).max(if k % 2 == 0 { 20 } else { 50 }), 1)[0].value()) { Ok(q) => q, Err(_) => continue };
        let m = Modulus::new(q);
        let shifts: Vec<usize> = if n <= 64 { (0..2 * n).collect() } else { let mut v = vec![0, 1, n - 1, n, n + 1, 2 * n - 1]; for _ in 0..40 { v.push(r.below(2 * n as u64) as usize); } v };
        for &s in &shifts {
            let x = unit_vec(&mut r, n, q);
            out.case(&format!("lwe_shift {} {} {}", q, s, fl(&x)), &format!("shift-k{}", k), || { let mut w = vec![0u64; n]; pm::negacyclic_shift(&x, s, &m, &mut w); fl(&w) });
        }
        let tool = hu::GaloisTool::new(k);
        let mut gs: Vec<usize> = (1..=k).map(|i| (1usize << i) + 1).collect();
        for _ in 0..4 { gs.push(2 * r.below(n as u64) as usize + 1); }
        for &g in &gs {
            for _ in 0..2 {
                let x = unit_vec(&mut r, n, q);
                out.case(&format!("lwe_sigma {} {} {} {}", k, q, g, fl(&x)), &format!("sigma-k{}", k), || { let mut w = vec![0u64; n]; tool.apply(&x, g, &m, &mut w); fl(&w) });
            }
        }
    }
    // ------------------------------------------------------------------ ciphertext level
    let mut fams: Vec<Family> = vec![];
    let lgs: Vec<usize> = if thorough { vec![2, 3, 4, 5, 6, 7, 8, 10] } else { vec![2, 3, 4, 5, 6] };
    for &lg in &lgs {
        for (si, &scheme) in [SchemeType::BFV, SchemeType::BGV, SchemeType::CKKS].iter().enumerate() {
            let n = 1usize << lg;
            // data primes (key level = data primes + a 59/60-bit special prime, so that one key switch adds little noise)
            let bits: Vec<usize> = match (lg + si + seed as usize) % 3 { 0 => vec![45, 50, 59], 1 => vec![55, 40, 60], _ => vec![50, 50, 60] };
            let plain_kind = if scheme == SchemeType::BFV && (lg + seed as usize) % 2 == 0 { 1 } else { 0 };
            fams.push(Family { scheme, n, bits: bits.clone(), plain_kind, level: 0 });
            if lg == 3 || lg == 5 || thorough && lg == 7 { fams.push(Family { scheme, n, bits: vec![58, 57, 59], plain_kind: 0, level: 1 }); }
        }
    }
    for f in &fams {
        let (scheme, n) = (f.scheme, f.n);
        let lg = n.trailing_zeros() as usize;
        let ckks = scheme == SchemeType::CKKS;
        let qs = match pick_primes(&mut r, n, &f.bits) { Some(v) => v, None => { out.raw(&format!("!NOTE no primes for n={} bits={:?}", n, f.bits)); continue } };
        let t = if ckks { 0 } else { pick_plain(&mut r, n, f.plain_kind, &qs) };
        let s = match make(scheme, n, &qs, t, true, None) { Some(s) => s, None => { out.raw(&format!("!NOTE context rejected n={} qs={:?} t={}", n, qs, t)); continue } };
        if !s.ctx.using_keyswitching() { continue; }
        let keys = s.keygen.create_automorphism_keys(false);
        let p_special = *qs.last().unwrap();
        let sn = scheme_name(scheme);
        let tag = format!("{}-n{}-l{}", sn, n, f.level);
        let ev = &s.evaluator;
        let scale = 2f64.powi(40);
        let cenc = if ckks { Some(CKKSEncoder::new(s.ctx.clone())) } else { None };
        // a fresh encryption of a random message at the family's level, in the scheme's working representation
        let fresh = |r: &mut Rng| -> (Ciphertext, Vec<u64>) {
            let (mut ct, m) = if ckks {
                let vals: Vec<f64> = (0..n).map(|_| (r.below(2049) as f64 - 1024.0) / 64.0).collect();
                (s.encryptor.encrypt_new(&cenc.as_ref().unwrap().encode_f64_polynomial_new(&vals, None, scale)), vec![])
            } else { let m = rand_msg(r, n, t); (s.encryptor.encrypt_new(&plain_of(&m)), m) };
            for _ in 0..f.level { ct = ev.mod_switch_to_next_new(&ct); }
            (ct, m)
        };
        let native_ntt = scheme != SchemeType::BFV;
        let other_form = |ct: &Ciphertext| -> Ciphertext { if ct.is_ntt_form() { ev.transform_from_ntt_new(ct) } else { ev.transform_to_ntt_new(ct) } };
        let (probe, _) = fresh(&mut r);
        let pid = *probe.parms_id();
        let lbits: f64 = s.level_qs(&pid).iter().map(|&q| log2f(q as f64)).sum();
        let lt = if t > 0 { log2f(t as f64) } else { 0.0 };
        let head = s.head(&pid);

        // ---- extract_lwe / assemble_lwe: every index, both representations, refusals past the degree
        {
            let (ct, _) = fresh(&mut r);
            let alt = other_form(&ct);
            let mut terms: Vec<usize> = if n <= 64 { (0..n).collect() } else { let mut v = vec![0, 1, n / 2 - 1, n / 2, n / 2 + 1, n - 2, n - 1]; for _ in 0..24 { v.push(r.below(n as u64) as usize); } v };
            terms.extend_from_slice(&[n, n + 1, 2 * n, 2 * n + 1]);
            for (ci, c) in [&ct, &alt].iter().enumerate() {
                for &term in &terms {
                    if ci == 1 && n > 16 && term % 3 != 0 && term < n { continue; }
                    out.case(&format!("lwe_extract {} {}", s.ct_case(c), term), &format!("extract-{}-{}", tag, if c.is_ntt_form() { "ntt" } else { "coeff" }), || {
                        let w = ev.extract_lwe(c, term);
                        let a = ev.assemble_lwe(&w);
                        format!("{}/{}", lwe_str(&w), ct_slash(&s, &a))
                    });
                }
            }
            // a size-3 ciphertext is refused
            if !ckks {
                let sq = ev.square_new(&ct);
                out.case(&format!("lwe_extract {} {}", s.ct_case(&sq), 1), &format!("extract-{}-size3", tag), || { let w = ev.extract_lwe(&sq, 1); lwe_str(&w) });
            }
            // ---- divide_by_poly_modulus_degree_inplace
            for mul in [None, Some(1u64), Some(n as u64), Some(r.next()), Some(u64::MAX)] {
                for c in [&ct, &alt] {
                    let v: Vec<String> = s.ct_str(c).split(' ').map(|x| x.to_string()).collect();
                    out.case(&format!("lwe_divn {} {} {}", head, s.ct_str(c), mul.map(|m| m.to_string()).unwrap_or("-".to_string())), &format!("divn-{}", tag), || {
                        let mut d = (*c).clone(); ev.divide_by_poly_modulus_degree_inplace(&mut d, mul);
                        let w: Vec<String> = s.ct_str(&d).split(' ').map(|x| x.to_string()).collect(); let _ = &v; w[2].clone()
                    });
                }
            }
        }

        // ---- field_trace_inplace: every parameter 0..=log2 N (and one past), messages of several kinds
        for logn in 0..=lg + 1 {
            let reps = if n <= 16 { 3 } else { 1 };
            for _ in 0..reps {
                let (ct, m) = fresh(&mut r);
                let res = catch_unwind(AssertUnwindSafe(|| { let mut c = ct.clone(); ev.field_trace_inplace(&mut c, &keys, logn); c })).ok();
                let pred = (lbits - lt - 2.0 * lg as f64 - 14.0).floor() as i64;
                let rs = res.as_ref().map(|c| ct_slash(&s, c)).unwrap_or("-".to_string());
                out.case(&format!("lwe_trace {} {} {} {} {} {} {}", head, s.sk_str(), p_special, pred, logn, ct_slash(&s, &ct), rs), &format!("trace-{}-l{}", tag, logn.min(lg)), || {
                    match &res { None => "ERR:refused".to_string(), Some(c) => if ckks { "ok".to_string() } else { s.dec_str(c) } }
                });
                if let (false, Some(c)) = (ckks, &res) {
                    let st = n >> logn.min(lg);
                    let want: Vec<u64> = (0..n).map(|j| if j % st == 0 { ((m[j] as u128 * st as u128) % t as u128) as u64 } else { 0 }).collect();
                    out.case(&format!("prog {} {} {}", s.ct_case(c), pred, fl(&trim(&want))), &format!("trace-prog-{}", tag), || s.dec_str(c));
                }
            }
        }
        // the representation the key switch does not work in is refused (whenever the loop body runs)
        {
            let (ct, _) = fresh(&mut r);
            let alt = other_form(&ct);
            for logn in [0usize, lg.saturating_sub(1), lg] {
                let res = catch_unwind(AssertUnwindSafe(|| { let mut c = alt.clone(); ev.field_trace_inplace(&mut c, &keys, logn); c })).ok();
                let rs = res.as_ref().map(|c| ct_slash(&s, c)).unwrap_or("-".to_string());
                out.case(&format!("lwe_trace {} {} {} {} {} {} {}", head, s.sk_str(), p_special, 40, logn, ct_slash(&s, &alt), rs), &format!("trace-{}-otherform", tag), || {
                    match &res { None => "ERR:refused".to_string(), Some(c) => if ckks { "ok".to_string() } else { let back = other_form(c); s.dec_str(&back) } }
                });
            }
        }

        // ---- pack_lwe_ciphertexts: every count 1..=N (sampled beyond N = 64), extraction index varied per input
        {
            // a pool of N source ciphertexts; input r is the extraction of index idx[r] from source r (sources alternate representation)
            let pool: Vec<(Ciphertext, Vec<u64>)> = (0..n).map(|_| fresh(&mut r)).collect();
            let idx: Vec<usize> = (0..n).map(|i| match i % 4 { 0 => i, 1 => n - 1 - i / 2, 2 => 0, _ => r.below(n as u64) as usize }).collect();
            let lwes: Vec<LWECiphertext> = (0..n).map(|i| { let src = if i % 2 == 1 { other_form(&pool[i].0) } else { pool[i].0.clone() }; ev.extract_lwe(&src, idx[i]) }).collect();
            let strs: Vec<String> = lwes.iter().map(lwe_str).collect();
            let counts: Vec<usize> = if n <= 64 { (1..=n).collect() } else if n <= 256 {
                let mut v = vec![1, 2, 3, n / 2 - 1, n / 2, n / 2 + 1, n - 1, n];
                for _ in 0..4 { v.push(1 + r.below(n as u64) as usize); } v
            } else {
                // large degrees: a few counts (one line carries `count` LWE ciphertexts of N+1 residues per prime)
                let mut v = vec![1, 2, 3, 17, 64, 65, n / 2 + 1]; if scheme == SchemeType::BFV { v.push(n); } v };
            for &count in &counts {
                let mut l = 0; while (1usize << l) < count { l += 1; }
                let res = catch_unwind(AssertUnwindSafe(|| ev.pack_lwe_ciphertexts(&lwes[..count], &keys))).ok();
                let pred = (lbits - lt - 3.0 * lg as f64 - 16.0).floor() as i64;
                let rs = res.as_ref().map(|c| ct_slash(&s, c)).unwrap_or("-".to_string());
                let class = format!("pack-{}-{}", tag, if count.is_power_of_two() { "pow2" } else { "mid" });
                out.case(&format!("lwe_pack {} {} {} {} {} {}", head, s.sk_str(), p_special, pred, strs[..count].join("|"), rs), &class, || {
                    match &res { None => "ERR:refused".to_string(), Some(c) => if ckks { "ok".to_string() } else { s.dec_str(c) } }
                });
                if let (false, Some(c)) = (ckks, &res) {
                    let st = n >> l;
                    let mut want = vec![0u64; n];
                    for i in 0..count { want[i * st] = pool[i].1[idx[i]]; }
                    out.case(&format!("prog {} {} {}", s.ct_case(c), pred, fl(&trim(&want))), &format!("pack-prog-{}", tag), || s.dec_str(c));
                }
            }
            // refusals: no input, more inputs than coefficients
            out.case(&format!("lwe_pack {} {} {} {} {} {}", head, s.sk_str(), p_special, 40, "-", "-"), &format!("pack-{}-refuse", tag), || {
                let c = ev.pack_lwe_ciphertexts(&[], &keys); ct_slash(&s, &c) });
            if n <= 16 {
                let mut many: Vec<LWECiphertext> = lwes.clone(); many.push(lwes[0].clone());
                let ms: Vec<String> = many.iter().map(lwe_str).collect();
                out.case(&format!("lwe_pack {} {} {} {} {} {}", head, s.sk_str(), p_special, 40, ms.join("|"), "-"), &format!("pack-{}-refuse", tag), || {
                    let c = ev.pack_lwe_ciphertexts(&many, &keys); ct_slash(&s, &c) });
            }
        }
        let _ = native_ntt;
    }
}
