//! C09: NTT tables and transforms, real code vs model/spec.
use crate::rng::Rng;
use crate::util::*;
use heathcliff::util as hu;
use heathcliff::verif::polysmallmod as pm;
use heathcliff::Modulus;

fn tables_str(t: &hu::NTTTables) -> String {
    let ops = |v: &[hu::MultiplyU64ModOperand]| v.iter().map(|o| format!("{}:{}", o.operand, o.quotient)).collect::<Vec<_>>().join(";");
    let d = t.inv_degree_modulo();
    format!("{}/{}/{}/{}:{}", t.root(), ops(t.get_root_powers()), ops(t.get_inv_root_powers()), d.operand, d.quotient)
}

pub fn prime_for(r: &mut Rng, k: usize, bits: usize) -> u64 {
    let ps = hu::get_primes(2u64 << k, bits, 3);
    ps[r.below(ps.len() as u64) as usize].value()
}

fn vec_kind(r: &mut Rng, n: usize, q: u64, lim: u64, kind: u64) -> Vec<u64> {
    match kind {
        0 => vec![lim - 1; n],
        1 => vec![0; n],
        2 => (0..n).map(|_| if r.chance(1, 2) { lim - 1 } else { 0 }).collect(),
        3 => (0..n).map(|_| r.below(q)).collect(),
        5 => { // exact multiples of q and their neighbours inside the admissible range (boundaries of the lazy reductions)
            let c: Vec<u64> = [0, q, 2 * q, 3 * q, q - 1, q + 1, 2 * q - 1, 2 * q + 1, 3 * q - 1, lim - 1].iter().copied().filter(|&x| x < lim).collect();
            (0..n).map(|_| if r.chance(1, 3) { 0 } else { c[r.below(c.len() as u64) as usize] }).collect() }
        _ => (0..n).map(|_| r.below(lim)).collect(),
    }
}

pub fn run(out: &mut Out, thorough: bool, seed: u64, _extra: &[String]) {
    let mut r = Rng::new(seed);
    let kmax = if thorough { 11 } else { 8 };
    // ---- tiny modulus, sparse inputs enumerated: intermediate values hit exact multiples of q with high probability
    {
        let (k, q) = (3usize, 17u64); let n = 8usize; let m = Modulus::new(q);
        if let Ok(t) = hu::NTTTables::new(k, &m) {
            let vals: Vec<u64> = if thorough { (0..q).collect() } else { vec![0, 1, 2, 8, 9, 12, 16] };
            let mut idx = vec![0usize; 4];
            'outer: loop {
                let mut v = vec![0u64; n]; for (j, &i) in idx.iter().enumerate() { v[2 * j] = vals[i]; }
                out.case(&format!("ntt {} {} {}", k, q, fl(&v)), "tiny-sparse", || { let mut w = v.clone(); pm::ntt(&mut w, &t); fl(&w) });
                if !thorough || idx[0] % 4 == 0 { out.case(&format!("ntt_lazy {} {} {}", k, q, fl(&v)), "tiny-sparse-lazy", || { let mut w = v.clone(); pm::ntt_lazy(&mut w, &t); fl(&w) }); }
                let mut p = 0; loop { idx[p] += 1; if idx[p] < vals.len() { break; } idx[p] = 0; p += 1; if p == 4 { break 'outer; } }
            }
        }
    }
    // ---- tables: primes of many sizes, built twice independently; composites and non-NTT-friendly moduli refused
    for k in 1..=kmax {
        let n = 1usize << k;
        let minbits = k + 2;
        let mut bitsv: Vec<usize> = vec![minbits.max(2), (minbits + 1).min(61), 20.max(minbits), 30.max(minbits), 40, 50, 59, 60, 61];
        bitsv.dedup();
        for &bits in &bitsv {
            if bits < minbits || bits > 61 { continue; }
            let ps = std::panic::catch_unwind(|| hu::get_primes(2u64 << k, bits, 1));
            let q = match ps { Ok(p) => p[0].value(), Err(_) => continue };
            if thorough || k <= 6 || bits >= 59 {
                for rep in 0..2 {
                    out.case(&format!("ntt_tables {} {}", k, q), &format!("k{}b{}rep{}", k, bits, rep), || {
                        match hu::NTTTables::new(k, &Modulus::new(q)) { Ok(t) => tables_str(&t), Err(_) => "ERR:refused".to_string() } });
                }
            }
            let t = match hu::NTTTables::new(k, &Modulus::new(q)) { Ok(t) => t, Err(_) => continue };
            let m = Modulus::new(q);
            // unit vectors: all of them for small n (the map is linear), sampled above
            let units: Vec<usize> = if n <= (if thorough { 256 } else { 32 }) { (0..n).collect() } else { (0..8).map(|_| r.below(n as u64) as usize).collect() };
            if bits == bitsv[0] || bits >= 60 || r.chance(1, 3) {
                for &u in &units {
                    let mut v = vec![0u64; n]; v[u] = if r.chance(1, 2) { 1 } else { 1 + r.below(q - 1) };
                    let lhs = format!("ntt {} {} {}", k, q, fl(&v));
                    out.case(&lhs, &format!("unit-k{}", k), || { let mut w = v.clone(); pm::ntt(&mut w, &t); fl(&w) });
                }
            }
            for kind in 0..8u64 {
                let kind = if kind >= 5 { 5 } else { kind };
                let v = vec_kind(&mut r, n, q, q, kind);
                out.case(&format!("ntt {} {} {}", k, q, fl(&v)), &format!("vec{}-k{}b{}", kind, k, bits), || { let mut w = v.clone(); pm::ntt(&mut w, &t); fl(&w) });
                let vl = vec_kind(&mut r, n, q, 4 * q, kind);   // lazy range maxima: inputs < 4q
                out.case(&format!("ntt_lazy {} {} {}", k, q, fl(&vl)), &format!("lazy{}-k{}b{}", kind, k, bits), || { let mut w = vl.clone(); pm::ntt_lazy(&mut w, &t); fl(&w) });
                let vi = vec_kind(&mut r, n, q, 2 * q, kind);   // inverse: inputs < 2q
                out.case(&format!("intt {} {} {}", k, q, fl(&vi)), &format!("intt{}-k{}b{}", kind, k, bits), || { let mut w = vi.clone(); pm::intt(&mut w, &t); fl(&w) });
                out.case(&format!("intt_lazy {} {} {}", k, q, fl(&vi)), &format!("inttlazy{}-k{}b{}", kind, k, bits), || { let mut w = vi.clone(); pm::intt_lazy(&mut w, &t); fl(&w) });
            }
            if n <= 256 {
                let x = vec_kind(&mut r, n, q, q, 3); let yk = if r.chance(1, 3) {0} else {3}; let y = vec_kind(&mut r, n, q, q, yk);
                out.case(&format!("dyadic_product {} {} {}", q, fl(&x), fl(&y)), &format!("dy-k{}", k), || { let mut w = vec![0u64; n]; pm::dyadic_product(&x, &y, &m, &mut w); fl(&w) });
                out.case(&format!("ntt_conv {} {} {} {}", k, q, fl(&x), fl(&y)), &format!("conv-k{}b{}", k, bits), || {
                    let (mut a, mut b) = (x.clone(), y.clone()); pm::ntt(&mut a, &t); pm::ntt(&mut b, &t);
                    let mut w = vec![0u64; n]; pm::dyadic_product(&a, &b, &m, &mut w); pm::intt(&mut w, &t); fl(&w) });
                let s = match r.below(4) { 0 => 0, 1 => n, 2 => 2 * n - 1, _ => r.below(2 * n as u64) as usize };
                out.case(&format!("negacyclic_shift {} {} {}", q, s, fl(&x)), &format!("shift-k{}", k), || { let mut w = vec![0u64; n]; pm::negacyclic_shift(&x, s, &m, &mut w); fl(&w) });
            }
        }
        // not congruent to 1 mod 2N, and composite moduli congruent to 1 mod 2N
        let two_n = 2u64 << k;
        for _ in 0..3 {
            let q = two_n * (1 + r.below(1000)) + 1 + 2 * (1 + r.below(two_n / 2 - 1).min(two_n / 2 - 2).max(0));
            if q % two_n != 1 {
                out.case(&format!("ntt_tables {} {}", k, q), "not-ntt-friendly", || match hu::NTTTables::new(k, &Modulus::new(q)) { Ok(t) => tables_str(&t), Err(_) => "ERR:refused".to_string() });
            }
        }
        if k <= 5 {
            // products of two primes = 1 mod 2N are = 1 mod 2N and composite (e.g. 5*17 = 85 for N = 2)
            let mut ps: Vec<u64> = vec![]; let mut c = two_n + 1;
            while ps.len() < 4 { if (2..c).take_while(|d| d * d <= c).all(|d| c % d != 0) { ps.push(c); } c += two_n; }
            for i in 0..ps.len() { for j in i..ps.len() {
                let q = ps[i] * ps[j];
                for rep in 0..3 {
                    out.case(&format!("ntt_tables {} {}", k, q), &format!("composite-rep{}", rep), || match hu::NTTTables::new(k, &Modulus::new(q)) { Ok(t) => tables_str(&t), Err(_) => "ERR:refused".to_string() });
                }
            } }
        }
    }
}
