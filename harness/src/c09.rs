//! C09: NTT tables and transforms, real code vs model/spec.
use crate::rng::Rng;
use crate::util::*;
use heathcliff::util as hu;
use heathcliff::verif::polysmallmod as pm;
use heathcliff::Modulus;

fn tables_str(t: &hu::NTTTables) -> String {
    let ops = |v: &[hu::MultiplyU64ModOperand]| v.iter().map(|o| format!("{}:{}", o.operand, o.quotient)).collect::<Vec<_>>().join(";");
    let d = t.inv_degree_modulo();
    format!("{}/{}/{}/{}:{}", t.root(), ops(t.get_root_powers()), ops(t.get_inv_root_powers()), d.operand, d.quotient)
}

pub fn prime_for(r: &mut Rng, k: usize, bits: usize) -> u64 {
    let ps = hu::get_primes(2u64 << k, bits, 3);
    ps[r.below(ps.len() as u64) as usize].value()
}

fn vec_kind(r: &mut Rng, n: usize, q: u64, lim: u64, kind: u64) -> Vec<u64> {
    match kind {
        0 => vec![lim - 1; n],
        1 => vec![0; n],
        2 => (0..n).map(|_| if r.chance(1, 2) { lim - 1 } else { 0 }).collect(),
        3 => (0..n).map(|_| r.below(q)).collect(),
        5 => { // exact multiples of q and their neighbours inside the admissible range (boundaries of the lazy reductions)
            let c: Vec<u64> = [0, q, 2 * q, 3 * q, q - 1, q + 1, 2 * q - 1, 2 * q + 1, 3 * q - 1, lim - 1].iter().copied().filter(|&x| x < lim).collect();
            (0..n).map(|_| if r.chance(1, 3) { 0 } else { c[r.below(c.len() as u64) as usize] }).collect() }
        _ => (0..n).map(|_| r.below(lim)).collect(),
    }
}

pub fn run(out: &mut Out, thorough: bool, seed: u64, _extra: &[String]) {
    let mut r = Rng::new(seed);
    let kmax = if thorough { 11 } else { 8 };
    // ---- tiny modulus, sparse inputs enumerated: intermediate values hit exact multiples of q with high probability
    {
        let (k, q) = (3usize, 17u64); let n = 8usize; let m = Modulus::new(q);
        if let Ok(t) = hu::NTTTables::new(k, &m) {
            let vals: Vec<u64> = if thorough { (0..q).collect() } else { vec![0, 1, 2, 8, 9, 12, 16] };
            let mut idx = vec![0usize; 4];
            'outer: loop {
                let mut v = vec![0u64; n]; for (j, &i) in idx.iter().enumerate() { v[2 * j] = vals[i]; }
                out.case(&format!("ntt {} {} {}", k, q, fl(&v)), "tiny-sparse", || { let mut w = v.clone(); pm::ntt(&mut w, &t); fl(&w) });
                if !thorough || idx[0] % 4 == 0 { out.case(&format!("ntt_lazy {} {} {}", k, q, fl(&v)), "tiny-sparse-lazy", || { let mut w = v.clone(); pm::ntt_lazy(&mut w, &t); fl(&w) }); }
                let mut p = 0; loop { idx[p] += 1; if idx[p] < vals.len() { break; } idx[p] = 0; p += 1; if p == 4 { break 'outer; } }
            }
        }
    }
    // ---- pointwise products on LAZY operands, every modulus width: the library feeds `ntt_lazy` output (< 4q, not reduced) into
    //      `dyadic_product_inplace` (multiply_plain); the product of an in-range congruent transform must still be the product mod q
    for k in [2usize, 4] {
        let n = 1usize << k;
        for bits in (k + 2)..=61 {
            let q = match std::panic::catch_unwind(|| hu::get_primes(2u64 << k, bits, 1)) { Ok(p) => p[0].value(), Err(_) => continue };
            let m = Modulus::new(q);
            let t = match hu::NTTTables::new(k, &m) { Ok(t) => t, Err(_) => continue };
            let hi = (4 * q).min(u64::MAX);
            let mut xl = vec_kind(&mut r, n, q, hi, 3); xl[0] = hi - 1; xl[1] = 3 * q + (q - 1); if n > 2 { xl[2] = 2 * q; }
            let y = { let mut y = vec_kind(&mut r, n, q, q, 3); y[0] = q - 1; y };
            out.case(&format!("dyadic_product {} {} {}", q, fl(&xl), fl(&y)), &format!("dy-lazy-inplace-b{}", bits), || { let mut w = xl.clone(); pm::dyadic_product_inplace(&mut w, &y, &m); fl(&w) });
            out.case(&format!("dyadic_product {} {} {}", q, fl(&xl), fl(&y)), &format!("dy-lazy-b{}", bits), || { let mut w = vec![0u64; n]; pm::dyadic_product(&xl, &y, &m, &mut w); fl(&w) });
            // the composition the evaluator uses: lazy forward transform, in-place pointwise product, inverse transform
            let x = { let mut x = vec_kind(&mut r, n, q, q, 3); x[0] = q - 1; x };
            out.case(&format!("ntt_conv {} {} {} {}", k, q, fl(&x), fl(&y)), &format!("conv-lazy-b{}", bits), || {
                let (mut a, mut b) = (x.clone(), y.clone()); pm::ntt_lazy(&mut a, &t); pm::ntt(&mut b, &t);
                pm::dyadic_product_inplace(&mut a, &b, &m); pm::intt(&mut a, &t); fl(&a) });
        }
    }
    // ---- tables: primes of many sizes, built twice independently; composites and non-NTT-friendly moduli refused
    for k in 1..=kmax {
        let n = 1usize << k;
        let minbits = k + 2;
        let mut bitsv: Vec<usize> = vec![minbits.max(2), (minbits + 1).min(61), 20.max(minbits), 30.max(minbits), 40, 50, 59, 60, 61];
        bitsv.dedup();
        for &bits in &bitsv {
            if bits < minbits || bits > 61 { continue; }
            let ps = std::panic::catch_unwind(|| hu::get_primes(2u64 << k, bits, 1));
            let q = match ps { Ok(p) => p[0].value(), Err(_) => continue };
            if thorough || k <= 6 || bits >= 59 {
                for rep in 0..2 {
                    out.case(&format!("ntt_tables {} {}", k, q), &format!("k{}b{}rep{}", k, bits, rep), || {
                        match hu::NTTTables::new(k, &Modulus::new(q)) { Ok(t) => tables_str(&t), Err(_) => "ERR:refused".to_string() } });
                }
            }
            let t = match hu::NTTTables::new(k, &Modulus::new(q)) { Ok(t) => t, Err(_) => continue };
            let m = Modulus::new(q);
            // unit vectors: all of them for small n (the map is linear), sampled above
            let units: Vec<usize> = if n <= (if thorough { 256 } else { 32 }) { (0..n).collect() } else { (0..8).map(|_| r.below(n as u64) as usize).collect() };
            if bits == bitsv[0] || bits >= 60 || r.chance(1, 3) {
                for &u in &units {
                    let mut v = vec![0u64; n]; v[u] = if r.chance(1, 2) { 1 } else { 1 + r.below(q - 1) };
                    let lhs = format!("ntt {} {} {}", k, q, fl(&v));
                    out.case(&lhs, &format!("unit-k{}", k), || { let mut w = v.clone(); pm::ntt(&mut w, &t); fl(&w) });
                }
            }
            for kind in 0..8u64 {
                let kind = if kind >= 5 { 5 } else { kind };
                let v = vec_kind(&mut r, n, q, q, kind);
                out.case(&format!("ntt {} {} {}", k, q, fl(&v)), &format!("vec{}-k{}b{}", kind, k, bits), || { let mut w = v.clone(); pm::ntt(&mut w, &t); fl(&w) });
                let vl = vec_kind(&mut r, n, q, 4 * q, kind);   // lazy range maxima: inputs < 4q
                out.case(&format!("ntt_lazy {} {} {}", k, q, fl(&vl)), &format!("lazy{}-k{}b{}", kind, k, bits), || { let mut w = vl.clone(); pm::ntt_lazy(&mut w, &t); fl(&w) });
                let vi = vec_kind(&mut r, n, q, 2 * q, kind);   // inverse: inputs < 2q
                out.case(&format!("intt {} {} {}", k, q, fl(&vi)), &format!("intt{}-k{}b{}", kind, k, bits), || { let mut w = vi.clone(); pm::intt(&mut w, &t); fl(&w) });
                out.case(&format!("intt_lazy {} {} {}", k, q, fl(&vi)), &format!("inttlazy{}-k{}b{}", kind, k, bits), || { let mut w = vi.clone(); pm::intt_lazy(&mut w, &t); fl(&w) });
            }
            if n <= 256 {
                let x = vec_kind(&mut r, n, q, q, 3); let yk = if r.chance(1, 3) {0} else {3}; let y = vec_kind(&mut r, n, q, q, yk);
                out.case(&format!("dyadic_product {} {} {}", q, fl(&x), fl(&y)), &format!("dy-k{}", k), || { let mut w = vec![0u64; n]; pm::dyadic_product(&x, &y, &m, &mut w); fl(&w) });
                out.case(&format!("ntt_conv {} {} {} {}", k, q, fl(&x), fl(&y)), &format!("conv-k{}b{}", k, bits), || {
                    let (mut a, mut b) = (x.clone(), y.clone()); pm::ntt(&mut a, &t); pm::ntt(&mut b, &t);
                    let mut w = vec![0u64; n]; pm::dyadic_product(&a, &b, &m, &mut w); pm::intt(&mut w, &t); fl(&w) });
                let s = match r.below(4) { 0 => 0, 1 => n, 2 => 2 * n - 1, _ => r.below(2 * n as u64) as usize };
                out.case(&format!("negacyclic_shift {} {} {}", q, s, fl(&x)), &format!("shift-k{}", k), || { let mut w = vec![0u64; n]; pm::negacyclic_shift(&x, s, &m, &mut w); fl(&w) });
                // multiplication by the monomial c X^s (kernel, both forms; destination dirty): coefficients 0, 1, q-1, unreduced words
                let c = match r.below(6) { 0 => 0, 1 => 1, 2 => q - 1, 3 => if r.chance(1, 2) { q + 1 } else { u64::MAX }, _ => r.below(q) };
                let xm = { let kd = r.below(5); vec_kind(&mut r, n, q, q, kd) };
                out.case(&format!("negacyclic_monomial {} {} {} {}", q, c, s, fl(&xm)), &format!("mono-k{}", k), || { let mut w = vec![0xDEAD_BEEF_0BAD_F00Du64; n]; pm::negacyclic_multiply_mononomial(&xm, c, s, &m, &mut w); fl(&w) });
                out.case(&format!("negacyclic_monomial {} {} {} {}", q, c, s, fl(&xm)), &format!("mono-inplace-k{}", k), || { let mut w = xm.clone(); pm::negacyclic_multiply_mononomial_inplace(&mut w, c, s, &m); fl(&w) });
            }
        }
        // not congruent to 1 mod 2N, and composite moduli congruent to 1 mod 2N
        let two_n = 2u64 << k;
        for _ in 0..3 {
            let q = two_n * (1 + r.below(1000)) + 1 + 2 * (1 + r.below(two_n / 2 - 1).min(two_n / 2 - 2).max(0));
            if q % two_n != 1 {
                out.case(&format!("ntt_tables {} {}", k, q), "not-ntt-friendly", || match hu::NTTTables::new(k, &Modulus::new(q)) { Ok(t) => tables_str(&t), Err(_) => "ERR:refused".to_string() });
            }
        }
        if k <= 5 {
            // products of two primes = 1 mod 2N are = 1 mod 2N and composite (e.g. 5*17 = 85 for N = 2)
            let mut ps: Vec<u64> = vec![]; let mut c = two_n + 1;
            while ps.len() < 4 { if (2..c).take_while(|d| d * d <= c).all(|d| c % d != 0) { ps.push(c); } c += two_n; }
            for i in 0..ps.len() { for j in i..ps.len() {
                let q = ps[i] * ps[j];
                for rep in 0..3 {
                    out.case(&format!("ntt_tables {} {}", k, q), &format!("composite-rep{}", rep), || match hu::NTTTables::new(k, &Modulus::new(q)) { Ok(t) => tables_str(&t), Err(_) => "ERR:refused".to_string() });
                }
            } }
        }
    }
    high_degree(out, &mut r, kmax, thorough);
    crate::wrappers::run(out, &mut r, if thorough { 120 } else { 24 }, true);
    crate::wrappers::run_mono(out, &mut r, if thorough { 120 } else { 24 });
}

fn mulm(a: u64, b: u64, q: u64) -> u64 { ((a as u128 * b as u128) % q as u128) as u64 }
fn powm(mut b: u64, mut e: u64, q: u64) -> u64 { let mut r = 1u64 % q; b %= q; while e > 0 { if e & 1 == 1 { r = mulm(r, b, q); } b = mulm(b, b, q); e >>= 1; } r }
fn brev(x: usize, k: usize) -> usize { if k == 0 { 0 } else { x.reverse_bits() >> (usize::BITS as usize - k) } }

/// EVERY supported degree above the ones compared with the model line by line, up to the maximum 2^17: the property's clauses checked against
/// their definitions inside the harness (u128 arithmetic): tables exist for an NTT-friendly prime and are reproducible, the root is a primitive
/// 2N-th root, the forward transform of X is the vector of evaluation points psi^(2 brev(i)+1) (so the transform of any polynomial is its
/// evaluation there, by linearity and multiplicativity checked next), inverse . forward = id, lazy outputs congruent and inside their ranges,
/// pointwise products = negacyclic products (sparse operand, schoolbook reference).
fn high_degree(out: &mut Out, r: &mut Rng, kmax: usize, thorough: bool) {
    for k in (kmax + 1)..=17 {
        let n = 1usize << k;
        let sizes: Vec<usize> = if k == 17 || thorough { vec![k + 2, 40, 60] } else { vec![*r.pick(&[k + 2, 30, 50, 60])] };
        for bits in sizes {
            let q = match (bits..=61).find_map(|b| std::panic::catch_unwind(|| hu::get_primes(2u64 << k, b, 1)).ok()) { Some(p) => p[0].value(), None => continue };
            let cls = format!("high-k{}b{}", k, bits);
            let (t, t2) = match (hu::NTTTables::new(k, &Modulus::new(q)), hu::NTTTables::new(k, &Modulus::new(q))) {
                (Ok(a), Ok(b)) => (a, b),
                _ => { out.raw(&format!("!FAIL ntt_high tables {} {} :: no tables for a supported degree and a prime = 1 mod 2N # {}", k, q, cls)); continue } };
            let psi = t.root();
            if psi != t2.root() { out.raw(&format!("!FAIL ntt_high root {} {} :: two constructions chose different roots {} / {} # {}", k, q, psi, t2.root(), cls)); continue; }
            if powm(psi, n as u64, q) != q - 1 { out.raw(&format!("!FAIL ntt_high root {} {} :: root {} is not a primitive 2N-th root of unity # {}", k, q, psi, cls)); continue; }
            // forward transform of X
            let mut x = vec![0u64; n]; x[1 % n] = 1; pm::ntt(&mut x, &t);
            let psi2 = mulm(psi, psi, q);
            let bad = (0..n).find(|&i| x[i] != mulm(psi, powm(psi2, brev(i, k) as u64, q), q));
            if let Some(i) = bad { out.raw(&format!("!FAIL ntt_high eval {} {} :: ntt(X)[{}] = {} is not psi^(2 brev(i)+1) # {}", k, q, i, x[i], cls)); continue; }
            // round trip and lazy forms on a random vector
            let v: Vec<u64> = (0..n).map(|_| r.below(q)).collect();
            let mut w = v.clone(); pm::ntt(&mut w, &t);
            let mut wl = v.clone(); pm::ntt_lazy(&mut wl, &t);
            if let Some(i) = (0..n).find(|&i| wl[i] >= 4 * q || wl[i] % q != w[i]) { out.raw(&format!("!FAIL ntt_high lazy {} {} :: lazy forward output {} at {} not congruent to {} or outside [0,4q) # {}", k, q, wl[i], i, w[i], cls)); continue; }
            let mut back = w.clone(); pm::intt(&mut back, &t);
            if back != v { out.raw(&format!("!FAIL ntt_high inverse {} {} :: intt(ntt(v)) != v # {}", k, q, cls)); continue; }
            let mut bl = w.clone(); pm::intt_lazy(&mut bl, &t);
            if let Some(i) = (0..n).find(|&i| bl[i] >= 2 * q || bl[i] % q != v[i]) { out.raw(&format!("!FAIL ntt_high lazy {} {} :: lazy inverse output {} at {} not congruent or outside [0,2q) # {}", k, q, bl[i], i, cls)); continue; }
            // multiplicativity: sparse a (three terms) times v, against the schoolbook negacyclic product
            let terms: Vec<(usize, u64)> = (0..3).map(|_| (r.below(n as u64) as usize, 1 + r.below(q - 1))).collect();
            let mut a = vec![0u64; n]; for &(i, c) in &terms { a[i] = (a[i] + c) % q; }
            let mut want = vec![0u64; n];
            for (i, &c) in a.iter().enumerate() { if c == 0 { continue; } for j in 0..n { let p = mulm(c, v[j], q); let d = i + j; if d < n { want[d] = (want[d] + p) % q; } else { want[d - n] = (want[d - n] + q - p) % q; } } }
            let mut an = a.clone(); pm::ntt(&mut an, &t);
            let mut prod = vec![0u64; n]; pm::dyadic_product(&an, &w, &Modulus::new(q), &mut prod); pm::intt(&mut prod, &t);
            if prod != want { out.raw(&format!("!FAIL ntt_high convolution {} {} :: intt(ntt(a) . ntt(b)) is not a*b mod X^N+1 # {}", k, q, cls)); continue; }
            out.raw(&format!("!OK ntt_high {} {} # {}", k, q, cls));
        }
    }
}

