//! C20: homomorphic matrix products (coefficient packing `cheetah`, the three BOLT slot-packing variants),
//! 2-D convolution and the RNS-plaintext wrapper against exact plaintext references.
//!
//! Two kinds of lines:
//!  * model-compared lines (`mm_blocks`, `mm_encx`, `mm_encw`, `mm_enco`, `mm_dec`, `mm_run`, `cv_*`, `rnsp_*`): the driver recomputes
//!    the block search, every encoded plaintext polynomial, the decode map and the whole plaintext-level pipeline with the Lean model
//!    and compares with an independent specification (matrix product / correlation / CRT value);
//!  * verdict lines `!OK` / `!FAIL`: each helper end to end against the reference product computed here with u128 arithmetic.
use crate::ctx::*;
use crate::rng::Rng;
use crate::util::*;
use heathcliff::*;
use heathcliff::util as hu;
use heathcliff::app::matmul::cheetah::MatmulHelper;
use heathcliff::app::matmul::{Cipher2d, Plain2d, MatmulHelperObjective as Obj};
use heathcliff::app::matmul::bolt_cp::MatmulBoltCp;
use heathcliff::app::matmul::bolt_cc_cr::MatmulBoltCcCr;
use heathcliff::app::matmul::bolt_cc_dc::MatmulBoltCcDc;
use heathcliff::app::conv2d::Conv2dHelper;
use heathcliff::app::rns_plain::*;

pub struct Env { pub s: Setup, pub enc: BatchEncoder, pub gk: GaloisKeys, pub ak: GaloisKeys, pub rk: RelinKeys }

/// one BFV context per degree: batching prime t of `tbits` bits, three coefficient primes (the last one is the special prime)
pub fn env(r: &mut Rng, n: usize, tbits: usize) -> Option<Env> {
    let t = std::panic::catch_unwind(|| hu::get_primes(2 * n as u64, tbits, 1)[0].value()).ok()?;
    let qs = pick_primes(r, n, &[58, 59, 60])?;
    let s = make(SchemeType::BFV, n, &qs, t, true, None)?;
    let enc = BatchEncoder::new(s.ctx.clone());
    let gk = s.keygen.create_galois_keys(false);
    let ak = s.keygen.create_automorphism_keys(false);
    let rk = s.keygen.create_relin_keys(false);
    Some(Env { s, enc, gk, ak, rk })
}

fn obj_of(o: u64) -> Obj { match o { 0 => Obj::CipherPlain, 1 => Obj::PlainCipher, _ => Obj::CpAddPc } }

/// operand kinds: 0 random, 1 all t-1, 2 all zero, 3 sparse (a single non-zero entry), 4 small ramp, 5 zero except the first row/entry block
pub fn data(r: &mut Rng, len: usize, t: u64, kind: u64) -> Vec<u64> {
    match kind {
        1 => vec![t - 1; len],
        2 => vec![0; len],
        3 => { let mut v = vec![0; len]; if len > 0 { let p = r.below(len as u64) as usize; v[p] = 1 + r.below(t - 1); } v }
        4 => (0..len).map(|i| (i as u64 + 1) % t).collect(),
        5 => (0..len).map(|i| if i == 0 { 1 + r.below(t - 1) } else { 0 }).collect(),
        _ => (0..len).map(|_| r.below(t)).collect(),
    }
}
pub fn kind_name(k: u64) -> &'static str { match k { 1 => "tm1", 2 => "zero", 3 => "sparse", 4 => "ramp", 5 => "first", _ => "rand" } }

fn p2d(p: &Plain2d) -> String {
    if p.data.is_empty() { return "-".into(); }
    p.data.iter().map(|row| if row.data.is_empty() { "_".to_string() } else { row.data.iter().map(|pt| fl(pt.data())).collect::<Vec<_>>().join(";") }).collect::<Vec<_>>().join("|")
}
fn polys2d(p: &[Vec<Vec<u64>>]) -> String {
    if p.is_empty() { return "-".into(); }
    p.iter().map(|row| if row.is_empty() { "_".to_string() } else { row.iter().map(|v| fl(v)).collect::<Vec<_>>().join(";") }).collect::<Vec<_>>().join("|")
}

/// reference y = x·w + s (mod t), exact in u128
pub fn ref_matmul(x: &[u64], w: &[u64], s: &[u64], m: usize, r: usize, n: usize, t: u64) -> Vec<u64> {
    let mut y = vec![0u64; m * n];
    for i in 0..m { for j in 0..n {
        let mut acc: u128 = if s.is_empty() { 0 } else { s[i * n + j] as u128 % t as u128 };
        for k in 0..r { acc = (acc + (x[i * r + k] as u128 % t as u128) * (w[k * n + j] as u128 % t as u128)) % t as u128; }
        y[i * n + j] = acc as u64;
    } }
    y
}

/// reference valid cross-correlation + bias (mod t)
pub fn ref_conv(x: &[u64], w: &[u64], s: &[u64], b: usize, ci: usize, co: usize, h: usize, wd: usize, kh: usize, kw: usize, t: u64) -> Vec<u64> {
    let oh = h - kh + 1; let ow = wd - kw + 1;
    let mut y = vec![0u64; b * co * oh * ow];
    for bi in 0..b { for oc in 0..co { for i in 0..oh { for j in 0..ow {
        let oi = ((bi * co + oc) * oh + i) * ow + j;
        let mut acc: u128 = if s.is_empty() { 0 } else { s[oi] as u128 % t as u128 };
        for ic in 0..ci { for ki in 0..kh { for kj in 0..kw {
            let xi = ((bi * ci + ic) * h + i + ki) * wd + j + kj;
            let wi = ((oc * ci + ic) * kh + ki) * kw + kj;
            acc = (acc + (x[xi] as u128) * (w[wi] as u128)) % t as u128;
        } } }
        y[oi] = acc as u64;
    } } } }
    y
}

fn mm_blocks_of(h: &MatmulHelper) -> [usize; 3] {
    let d = format!("{:?}", h);
    let g = |k: &str| -> usize { let p = d.find(k).unwrap() + k.len(); d[p..].chars().take_while(|c| c.is_ascii_digit()).collect::<String>().parse().unwrap() };
    [g("batch_block: "), g("input_block: "), g("output_block: ")]
}

fn transport(e: &Env, y: Cipher2d, terms: &[usize]) -> Cipher2d {
    let mut bytes = vec![];
    y.serialize_terms(&e.s.ctx, terms, &mut bytes).unwrap();
    assert_eq!(bytes.len(), y.serialized_terms_size(&e.s.ctx, terms.len()), "serialized_terms_size");
    Cipher2d::deserialize_terms(&e.s.ctx, terms, &mut bytes.as_slice()).unwrap()
}
fn roundtrip(e: &Env, y: Cipher2d) -> Cipher2d {
    let mut bytes = vec![];
    y.serialize(&e.s.ctx, &mut bytes).unwrap();
    assert_eq!(bytes.len(), y.serialized_size(&e.s.ctx), "serialized_size");
    Cipher2d::deserialize(&e.s.ctx, &mut bytes.as_slice()).unwrap()
}

/// the coefficient-packing helper end to end; `dir` 0: [x]·w (matmul), 1: x·[w] (matmul_reverse); `tr`: selected-terms transport
#[allow(clippy::too_many_arguments)]
pub fn cheetah_e2e(e: &Env, m: usize, r: usize, n: usize, obj: u64, pack: bool, dir: u64, tr: bool, x: &[u64], w: &[u64], s: &[u64]) -> Vec<u64> {
    let h = MatmulHelper::new(m, r, n, e.s.n, obj_of(obj), pack);
    let xe = h.encode_inputs_bfv(&e.enc, x);
    let we = h.encode_weights_bfv(&e.enc, w);
    let mut y = if dir == 0 {
        let xc = roundtrip(e, xe.encrypt_symmetric(&e.s.encryptor).expand_seed(&e.s.ctx));
        h.matmul(&e.s.evaluator, &xc, &we)
    } else {
        let wc = we.encrypt(&e.s.encryptor);
        h.matmul_reverse(&e.s.evaluator, &xe, &wc)
    };
    if pack { y = h.pack_outputs(&e.s.evaluator, &e.ak, &y); }
    if !s.is_empty() { let se = h.encode_outputs_bfv(&e.enc, s); y.add_plain_inplace(&e.s.evaluator, &se); }
    if tr { y = if pack { roundtrip(e, y) } else { transport(e, y, &h.output_terms()) }; }
    h.decrypt_outputs_bfv(&e.enc, &e.s.decryptor, &y)
}

#[allow(clippy::too_many_arguments)]
pub fn conv_e2e(e: &Env, sh: &[usize; 7], obj: u64, dir: u64, tr: bool, x: &[u64], w: &[u64], s: &[u64]) -> Vec<u64> {
    let [b, ci, co, hh, ww, kh, kw] = *sh;
    let h = Conv2dHelper::new(b, ci, co, hh, ww, kh, kw, e.s.n, obj_of(obj));
    let xe = h.encode_inputs_bfv(&e.enc, x);
    let we = h.encode_weights_bfv(&e.enc, w);
    let mut y = if dir == 0 {
        let xc = xe.encrypt_symmetric(&e.s.encryptor).expand_seed(&e.s.ctx);
        h.conv2d(&e.s.evaluator, &xc, &we)
    } else {
        let wc = we.encrypt(&e.s.encryptor);
        h.conv2d_reverse(&e.s.evaluator, &xe, &wc)
    };
    if !s.is_empty() { let se = h.encode_outputs_bfv(&e.enc, s); y.add_plain_inplace(&e.s.evaluator, &se); }
    if tr { y = transport(e, y, &h.output_terms()); }
    h.decrypt_outputs_bfv(&e.enc, &e.s.decryptor, &y)
}

fn verdict(out: &mut Out, lhs: &str, class: &str, got: String, want: &[u64]) {
    let w = fl(want);
    if got == w { out.raw(&format!("!OK {} # {}", lhs, class)); }
    else { out.raw(&format!("!FAIL {} :: got={} want={} # {}", lhs, &got[..got.len().min(300)], &w[..w.len().min(300)], class)); }
}

/// all lines for one matmul shape
#[allow(clippy::too_many_arguments)]
fn mm_shape(out: &mut Out, r: &mut Rng, e: &Env, m: usize, rr: usize, n: usize, obj: u64, pack: bool, kinds: &[u64], full: bool, cls: &str) {
    let nn = e.s.n; let t = e.s.t; let pk = pack as u8;
    let head = format!("{} {} {} {} {} {} {}", nn, t, m, rr, n, obj, pk);
    // the block search
    let blocks = guard(|| { let h = MatmulHelper::new(m, rr, n, nn, obj_of(obj), pack); let b = mm_blocks_of(&h); format!("{},{},{}", b[0], b[1], b[2]) });
    out.raw(&format!("mm_blocks {} {} {} {} {} {} => {} # blocks-{}", nn, m, rr, n, obj, pk, blocks, cls));
    if blocks.starts_with("ERR") || blocks.starts_with("0,") { return; }
    let bl: Vec<usize> = blocks.split(',').map(|x| x.parse().unwrap()).collect();
    for (ki, &kind) in kinds.iter().enumerate() {
        let x = data(r, m * rr, t, kind);
        let wk = if (kind == 3 || kind == 5) && r.chance(1, 2) { 0 } else { kind };
        let w = data(r, rr * n, t, wk);
        let s = if r.chance(1, 2) || kind == 2 { vec![] } else { data(r, m * n, t, if kind == 1 { 1 } else { 0 }) };
        let want = ref_matmul(&x, &w, &s, m, rr, n, t);
        let c = format!("{}-{}", kind_name(kind), cls);
        for dir in 0..2u64 {
            if !full && ((dir == 1) != (obj == 1)) && ki > 0 { continue; }
            let tr = r.chance(1, 2);
            let got = guard(|| fl(&cheetah_e2e(e, m, rr, n, obj, pack, dir, tr, &x, &w, &s)));
            verdict(out, &format!("mm_e2e {} {} {} k{} {}", head, dir, tr as u8, kind, r.next() & 0xffff), &c, got.clone(), &want);
            // the driver re-runs the whole pipeline at the plaintext level (explicit negacyclic products): bounded work
            if m * rr * n * nn <= 30_000_000 {
                out.raw(&format!("mm_run {} {} {} {} {} {} => {} # run-{}", head, dir, tr as u8, fl(&x), fl(&w), fl(&s), got, c));
            }
        }
        let h = MatmulHelper::new(m, rr, n, nn, obj_of(obj), pack);
        let yv = data(r, m * n, t, kind);
        if ki == 0 || full {
            out.case(&format!("mm_encx {} {}", head, fl(&x)), &format!("encx-{}", c), || p2d(&h.encode_inputs_bfv(&e.enc, &x)));
            out.case(&format!("mm_encw {} {}", head, fl(&w)), &format!("encw-{}", c), || p2d(&h.encode_weights_bfv(&e.enc, &w)));
            out.case(&format!("mm_enco {} {}", head, fl(&yv)), &format!("enco-{}", c), || p2d(&h.encode_outputs_bfv(&e.enc, &yv)));
        }
        {
            // decode map on arbitrary plaintext polynomials (full, with zero top coefficients, zero)
            let (rows, cols) = if pack { (1, (((m + bl[0] - 1) / bl[0]) * ((n + bl[2] - 1) / bl[2]) + bl[1] - 1) / bl[1]) } else { ((m + bl[0] - 1) / bl[0], (n + bl[2] - 1) / bl[2]) };
            let bufs: Vec<Vec<Vec<u64>>> = (0..rows).map(|_| (0..cols).map(|_| {
                let len = match kind { 2 => 0, 3 | 5 => r.below(nn as u64 + 1) as usize, _ => nn };
                let mut v = data(r, len, t, 0); v.resize(nn, 0); v }).collect()).collect();
            out.case(&format!("mm_dec {} {}", head, polys2d(&bufs)), &format!("dec-{}", c), || {
                let cts: Vec<Vec<Ciphertext>> = bufs.iter().map(|row| row.iter().map(|v| e.s.encryptor.encrypt_new(&e.enc.encode_polynomial_new(v))).collect()).collect();
                fl(&h.decrypt_outputs_bfv(&e.enc, &e.s.decryptor, &Cipher2d::new(cts)))
            });
            // output re-encoding is the inverse of output decoding (through real encryption)
            let got = guard(|| { let pe = h.encode_outputs_bfv(&e.enc, &yv); let ct = pe.encrypt(&e.s.encryptor); fl(&h.decrypt_outputs_bfv(&e.enc, &e.s.decryptor, &ct)) });
            verdict(out, &format!("mm_outputs_roundtrip {} k{} {}", head, kind, r.next() & 0xffff), &format!("ortrip-{}", c), got, &yv);
        }
    }
}

fn conv_shape(out: &mut Out, r: &mut Rng, e: &Env, sh: &[usize; 7], obj: u64, kinds: &[u64], model: bool, cls: &str) {
    let nn = e.s.n; let t = e.s.t;
    let [b, ci, co, hh, ww, kh, kw] = *sh;
    let shs = format!("{} {} {} {} {} {} {}", b, ci, co, hh, ww, kh, kw);
    let head = format!("{} {} {} {}", nn, t, shs, obj);
    let blocks = guard(|| { let h = Conv2dHelper::new(b, ci, co, hh, ww, kh, kw, nn, obj_of(obj)); let v = h.verif_blocks(); fl(&v.iter().map(|&x| x as u64).collect::<Vec<_>>()) });
    out.raw(&format!("cv_blocks {} {} {} => {} # cvblocks-{}", nn, shs, obj, blocks, cls));
    if blocks.starts_with("ERR") || blocks.starts_with("0,") { return; }
    let (oh, ow) = (hh - kh + 1, ww - kw + 1);
    for (ki, &kind) in kinds.iter().enumerate() {
        let x = data(r, b * ci * hh * ww, t, kind);
        let wk = if (kind == 3 || kind == 5) && r.chance(1, 2) { 0 } else { kind };
        let w = data(r, co * ci * kh * kw, t, wk);
        let s = if r.chance(1, 2) || kind == 2 { vec![] } else { data(r, b * co * oh * ow, t, 0) };
        let want = ref_conv(&x, &w, &s, b, ci, co, hh, ww, kh, kw, t);
        let c = format!("{}-{}", kind_name(kind), cls);
        let dir = if ki == 0 { (obj == 1) as u64 } else { r.below(2) };
        let tr = r.chance(1, 2);
        let got = guard(|| fl(&conv_e2e(e, sh, obj, dir, tr, &x, &w, &s)));
        verdict(out, &format!("cv_e2e {} {} {} k{} {}", head, dir, tr as u8, kind, r.next() & 0xffff), &c, got.clone(), &want);
        if model {
            out.raw(&format!("cv_run {} {} {} {} {} {} => {} # cvrun-{}", head, dir, tr as u8, fl(&x), fl(&w), fl(&s), got, c));
            // decode map on arbitrary plaintext polynomials (full, with zero top coefficients, zero)
            let bl: Vec<usize> = blocks.split(',').map(|x| x.parse().unwrap()).collect();
            let cd = |a: usize, b: usize| (a + b - 1) / b;
            let rows = cd(b, bl[0]) * cd(hh - kh + 1, bl[1] - kh + 1) * cd(ww - kw + 1, bl[2] - kw + 1);
            let cols = cd(co, bl[4]);
            let bufs: Vec<Vec<Vec<u64>>> = (0..rows).map(|_| (0..cols).map(|_| {
                let len = match kind { 2 => 0, 3 | 5 => r.below(nn as u64 + 1) as usize, _ => nn };
                let mut v = data(r, len, t, 0); v.resize(nn, 0); v }).collect()).collect();
            let h = Conv2dHelper::new(b, ci, co, hh, ww, kh, kw, nn, obj_of(obj));
            out.case(&format!("cv_dec {} {}", head, polys2d(&bufs)), &format!("cvdec-{}", c), || {
                let cts: Vec<Vec<Ciphertext>> = bufs.iter().map(|row| row.iter().map(|v| e.s.encryptor.encrypt_new(&e.enc.encode_polynomial_new(v))).collect()).collect();
                fl(&h.decrypt_outputs_bfv(&e.enc, &e.s.decryptor, &Cipher2d::new(cts)))
            });
        }
        if model && ki == 0 {
            let h = Conv2dHelper::new(b, ci, co, hh, ww, kh, kw, nn, obj_of(obj));
            out.case(&format!("cv_encx {} {}", head, fl(&x)), &format!("cvencx-{}", c), || p2d(&h.encode_inputs_bfv(&e.enc, &x)));
            out.case(&format!("cv_encw {} {}", head, fl(&w)), &format!("cvencw-{}", c), || p2d(&h.encode_weights_bfv(&e.enc, &w)));
            let yv = data(r, b * co * oh * ow, t, kind);
            out.case(&format!("cv_enco {} {}", head, fl(&yv)), &format!("cvenco-{}", c), || p2d(&h.encode_outputs_bfv(&e.enc, &yv)));
            let got = guard(|| { let pe = h.encode_outputs_bfv(&e.enc, &yv); let ct = pe.encrypt(&e.s.encryptor); fl(&h.decrypt_outputs_bfv(&e.enc, &e.s.decryptor, &ct)) });
            verdict(out, &format!("cv_outputs_roundtrip {} k{} {}", head, kind, r.next() & 0xffff), &format!("cvortrip-{}", c), got, &yv);
        }
    }
}

/// slot vectors (what `BatchEncoder::encode_new` was given) of a plaintext set: rows `|`, polynomials `;`, slots `,`
fn slots2d(e: &Env, p: &Plain2d) -> String {
    if p.data.is_empty() { return "-".into(); }
    p.data.iter().map(|row| if row.data.is_empty() { "_".to_string() } else { row.data.iter().map(|pt| fl(&e.enc.decode_new(pt))).collect::<Vec<_>>().join(";") }).collect::<Vec<_>>().join("|")
}

fn bolt_shape(out: &mut Out, r: &mut Rng, e: &Env, m: usize, rr: usize, n: usize, kind: u64, cls: &str) {
    let nn = e.s.n; let t = e.s.t;
    let x = data(r, m * rr, t, kind); let w = data(r, rr * n, t, kind);
    let want = ref_matmul(&x, &w, &[], m, rr, n, t);
    let c = format!("{}-{}", kind_name(kind), cls);
    let tag = r.next() & 0xffff;
    // model lines (small degrees): the encode maps (slot vectors of every plaintext, in the order of the polynomial sets) and the
    // whole slot-level schedule are compared with the Lean model of the three helpers bit for bit
    if nn <= 32 && m * rr <= 600 && rr * n <= 600 && m * n <= 600 {
        let head = format!("{} {} {} {} {}", nn, t, m, rr, n);
        { let h = MatmulBoltCp::new(m, rr, n, nn);
          out.case(&format!("bolt_cp_encx {} {}", head, fl(&x)), &format!("cpencx-{}", c), || slots2d(e, &h.encode_inputs(&e.enc, &x)));
          out.case(&format!("bolt_cp_encw {} {}", head, fl(&w)), &format!("cpencw-{}", c), || slots2d(e, &h.encode_weights(&e.enc, &w)));
          out.case(&format!("bolt_cp_enco {} {}", head, fl(&want)), &format!("cpenco-{}", c), || slots2d(e, &h.encode_outputs(&e.enc, &want))); }
        { let h = MatmulBoltCcCr::new(m, rr, n, nn);
          out.case(&format!("bolt_cccr_encx {} {}", head, fl(&x)), &format!("cccrencx-{}", c), || slots2d(e, &h.encode_inputs(&e.enc, &x)));
          out.case(&format!("bolt_cccr_encw {} {}", head, fl(&w)), &format!("cccrencw-{}", c), || slots2d(e, &h.encode_weights(&e.enc, &w)));
          out.case(&format!("bolt_cccr_enco {} {}", head, fl(&want)), &format!("cccrenco-{}", c), || slots2d(e, &h.encode_outputs(&e.enc, &want))); }
        { let h = MatmulBoltCcDc::new(m, rr, n, nn);
          out.case(&format!("bolt_ccdc_encx {} {}", head, fl(&x)), &format!("ccdcencx-{}", c), || slots2d(e, &h.encode_inputs(&e.enc, &x)));
          out.case(&format!("bolt_ccdc_encw {} {}", head, fl(&w)), &format!("ccdcencw-{}", c), || slots2d(e, &h.encode_weights(&e.enc, &w)));
          out.case(&format!("bolt_ccdc_enco {} {}", head, fl(&want)), &format!("ccdcenco-{}", c), || slots2d(e, &h.encode_outputs(&e.enc, &want))); }
    }
    let model = nn <= 32 && m * rr <= 600 && rr * n <= 600 && m * n <= 600;
    // ciphertext x plaintext
    let got = guard(|| {
        let h = MatmulBoltCp::new(m, rr, n, nn);
        let xc = roundtrip(e, h.encode_inputs(&e.enc, &x).encrypt_symmetric(&e.s.encryptor).expand_seed(&e.s.ctx));
        let we = h.encode_weights(&e.enc, &w);
        let y = roundtrip(e, h.multiply(&e.s.evaluator, &e.gk, &xc, &we));
        let res = h.decode_outputs(&e.enc, &y.decrypt(&e.s.decryptor));
        let back = h.decode_outputs(&e.enc, &h.encode_outputs(&e.enc, &res));
        assert_eq!(back, res, "encode_outputs/decode_outputs");
        fl(&res)
    });
    if model { out.raw(&format!("bolt_cp_run {} {} {} {} {} {} {} => {} # cprun-{}", nn, t, m, rr, n, fl(&x), fl(&w), got, c)); }
    verdict(out, &format!("bolt_cp {} {} {} {} {} k{} {}", nn, t, m, rr, n, kind, tag), &format!("cp-{}", c), got, &want);
    // ciphertext x ciphertext, column-major / row-major
    let got = guard(|| {
        let h = MatmulBoltCcCr::new(m, rr, n, nn);
        let xc = h.encode_inputs(&e.enc, &x).encrypt_symmetric(&e.s.encryptor).expand_seed(&e.s.ctx);
        let wc = h.encode_weights(&e.enc, &w).encrypt_symmetric(&e.s.encryptor).expand_seed(&e.s.ctx);
        let y = roundtrip(e, h.multiply(&e.enc, &e.s.evaluator, &e.gk, &e.rk, &xc, &wc));
        let res = h.decode_outputs(&e.enc, &y.decrypt(&e.s.decryptor));
        let back = h.decode_outputs(&e.enc, &h.encode_outputs(&e.enc, &res));
        assert_eq!(back, res, "encode_outputs/decode_outputs");
        fl(&res)
    });
    if model { out.raw(&format!("bolt_cccr_run {} {} {} {} {} {} {} => {} # cccrrun-{}", nn, t, m, rr, n, fl(&x), fl(&w), got, c)); }
    verdict(out, &format!("bolt_cc_cr {} {} {} {} {} k{} {}", nn, t, m, rr, n, kind, tag), &format!("cccr-{}", c), got, &want);
    // ciphertext x ciphertext, diagonal / column-major
    let got = guard(|| {
        let h = MatmulBoltCcDc::new(m, rr, n, nn);
        let xc = h.encode_inputs(&e.enc, &x).encrypt_symmetric(&e.s.encryptor).expand_seed(&e.s.ctx);
        let wc = h.encode_weights(&e.enc, &w).encrypt_symmetric(&e.s.encryptor).expand_seed(&e.s.ctx);
        let y = roundtrip(e, h.multiply(&e.enc, &e.s.evaluator, &e.gk, &e.rk, &xc, &wc));
        let res = h.decode_outputs(&e.enc, &y.decrypt(&e.s.decryptor));
        let back = h.decode_outputs(&e.enc, &h.encode_outputs(&e.enc, &res));
        assert_eq!(back, res, "encode_outputs/decode_outputs");
        fl(&res)
    });
    if model { out.raw(&format!("bolt_ccdc_run {} {} {} {} {} {} {} => {} # ccdcrun-{}", nn, t, m, rr, n, fl(&x), fl(&w), got, c)); }
    verdict(out, &format!("bolt_cc_dc {} {} {} {} {} k{} {}", nn, t, m, rr, n, kind, tag), &format!("ccdc-{}", c), got, &want);
}

/// degenerate inner dimension: `MatmulBoltCcDc::new` accepts `r = 0`, but `multiply` has no block product to unwrap; the model
/// refuses in the same way (this is why the end-to-end theorem `bolt_cc_dc_new` carries `0 < r`)
fn bolt_dc_r0(out: &mut Out, e: &Env, m: usize, n: usize) {
    let nn = e.s.n; let t = e.s.t;
    let got = guard(|| {
        let h = MatmulBoltCcDc::new(m, 0, n, nn);
        let xc = h.encode_inputs(&e.enc, &[]).encrypt_symmetric(&e.s.encryptor).expand_seed(&e.s.ctx);
        let wc = h.encode_weights(&e.enc, &[]).encrypt_symmetric(&e.s.encryptor).expand_seed(&e.s.ctx);
        let y = h.multiply(&e.enc, &e.s.evaluator, &e.gk, &e.rk, &xc, &wc);
        fl(&h.decode_outputs(&e.enc, &y.decrypt(&e.s.decryptor)))
    });
    out.raw(&format!("bolt_ccdc_r0 {} {} {} {} => {} # ccdcr0", nn, t, m, n, got));
}

// ------------------------------------------------------------------ RNS plaintext wrapper

struct RnsEnv { n: usize, ts: Vec<u64>, enc: RnspBatchEncoder, encryptor: RnspEncryptor, decryptor: RnspDecryptor, ev: RnspEvaluator, rk: RnspRelinKeys }

fn rns_env(r: &mut Rng, n: usize, k: usize) -> Option<RnsEnv> {
    let mut ts: Vec<u64> = vec![];
    let bits = [17usize, 20, 23, 19];
    for i in 0..k { let c = std::panic::catch_unwind(|| hu::get_primes(2 * n as u64, bits[i % 4], 3)).ok()?; let p = c[r.below(3) as usize].value(); if ts.contains(&p) { return None; } ts.push(p); }
    let qs = pick_primes(r, n, &[58, 59, 60])?;
    let parms = RnspEncryptionParameters::new(SchemeType::BFV).set_poly_modulus_degree(n)
        .set_plain_modulus(ts.iter().map(|&t| Modulus::new(t)).collect())
        .set_coeff_modulus(qs.iter().map(|&q| Modulus::new(q)).collect());
    let ctx = RnspHeContext::new(parms, true, SecurityLevel::None);
    if !ctx.parameters_set() { return None; }
    let kg = RnspKeyGenerator::new(&ctx);
    let enc = RnspBatchEncoder::new(&ctx);
    let encryptor = RnspEncryptor::new(&ctx).set_public_key(kg.create_public_key(false)).set_secret_key(kg.get_secret_key());
    let decryptor = RnspDecryptor::new(&ctx, kg.get_secret_key());
    let ev = RnspEvaluator::new(&ctx);
    let rk = kg.create_relin_keys(false);
    Some(RnsEnv { n, ts, enc, encryptor, decryptor, ev, rk })
}

/// `count` message values of `k` words each (little endian); kinds: 0 random below T, 1 = T-1, 2 zero, 3 random k-word values (not reduced), 4 all-ones words
fn rns_values(r: &mut Rng, ts: &[u64], count: usize, kind: u64) -> Vec<u64> {
    use crate::big::Big;
    let k = ts.len();
    let tt = Big::product(ts);
    let mut v = Vec::with_capacity(count * k);
    for _ in 0..count {
        let words: Vec<u64> = match kind {
            1 => tt.sub(&Big::from_u64(1)).limbs(k),
            2 => vec![0; k],
            3 if k > 1 => (0..k).map(|_| r.next()).collect(),
            4 if k > 1 => vec![u64::MAX; k],
            _ => Big::random_below(r, &tt).limbs(k),
        };
        v.extend_from_slice(&words);
    }
    v
}

fn rnsp(out: &mut Out, r: &mut Rng, thorough: bool) {
    let ns: &[usize] = if thorough { &[8, 16, 32, 64] } else { &[8, 16, 32] };
    for &n in ns { for k in 1..=(if thorough { 4 } else { 3 }) {
        let e = match rns_env(r, n, k) { Some(e) => e, None => { out.raw(&format!("!NOTE rnsp context n={} k={} not available", n, k)); continue; } };
        let tsf = fl(&e.ts);
        for kind in 0..5u64 { for poly in 0..2u64 {
            let cls = format!("rnsp-n{}k{}-{}{}", n, k, kind, if poly == 1 { "p" } else { "s" });
            let cnt = if kind == 0 && r.chance(1, 2) { r.range(1, n as u64) as usize } else { n };
            let a = rns_values(r, &e.ts, cnt, kind);
            // split: the component plaintexts (slot values / coefficients of each component)
            out.case(&format!("rnsp_split {} {} {} {}", tsf, n, poly, fl(&a)), &format!("split-{}", cls), || {
                let p = if poly == 1 { e.enc.encode_polynomial_new(&a) } else { e.enc.encode_new(&a) };
                let comps: Vec<Vec<u64>> = p.components.iter().zip(e.enc.components.iter()).map(|(pt, be)| if poly == 1 { let mut d = pt.data().clone(); d.resize(n, 0); d } else { be.decode_new(pt) }).collect();
                fl2(&comps)
            });
            // split then merge
            out.case(&format!("rnsp_roundtrip {} {} {} {}", tsf, n, poly, fl(&a)), &format!("rt-{}", cls), || {
                if poly == 1 { fl(&e.enc.decode_polynomial_new(&e.enc.encode_polynomial_new(&a))) } else { fl(&e.enc.decode_new(&e.enc.encode_new(&a))) }
            });
            // component-wise evaluation
            let b = rns_values(r, &e.ts, n, if kind == 2 { 0 } else { kind });
            for op in ["add", "sub", "mul", "mulplain", "addplain", "subplain", "neg", "square"] {
                out.case(&format!("rnsp_eval {} {} {} {} {} {}", tsf, n, poly, op, fl(&a), fl(&b)), &format!("{}-{}", op, cls), || {
                    let (pa, pb) = if poly == 1 { (e.enc.encode_polynomial_new(&a), e.enc.encode_polynomial_new(&b)) } else { (e.enc.encode_new(&a), e.enc.encode_new(&b)) };
                    let ca = e.encryptor.encrypt_new(&pa); let cb = e.encryptor.encrypt_new(&pb);
                    let res = match op {
                        "add" => e.ev.add_new(&ca, &cb),
                        "sub" => e.ev.sub_new(&ca, &cb),
                        "mul" => e.ev.relinearize_new(&e.ev.multiply_new(&ca, &cb), &e.rk),
                        "mulplain" => e.ev.multiply_plain_new(&ca, &pb),
                        "addplain" => e.ev.add_plain_new(&ca, &pb),
                        "subplain" => e.ev.sub_plain_new(&ca, &pb),
                        "neg" => e.ev.negate_new(&ca),
                        _ => e.ev.square_new(&ca),
                    };
                    let d = e.decryptor.decrypt_new(&res);
                    if poly == 1 { fl(&e.enc.decode_polynomial_new(&d)) } else { fl(&e.enc.decode_new(&d)) }
                });
            }
        } }
        // decrypted results whose component plaintexts have DIFFERENT lengths: decryption trims every component to its own significant
        // coefficient count, so a top coefficient that is a multiple of ONE component modulus only (here: of the sum a + b resp. the
        // difference a - b) is missing in that component alone; coefficient decoding must still recombine every position
        if k >= 2 {
            use crate::big::Big;
            for j in 0..k { for (op, top_len) in [("add", n - 1), ("sub", n / 2 + 1), ("addplain", 3usize.min(n))] {
                let c = 1 + r.below(1000);
                let target = Big::from_u64(e.ts[j]).mul_u64(c);                    // top coefficient of the result: p_j * c  (< T)
                let x = Big::random_below(r, &target);
                let mut a = rns_values(r, &e.ts, top_len, 0); let mut b = rns_values(r, &e.ts, top_len, 0);
                let (ta, tb) = if op == "sub" { (target.add(&x), x.clone()) } else { (target.sub(&x), x.clone()) };
                if !Big::product(&e.ts).ge(&ta.add_u64(1)) { continue; }
                let last = (top_len - 1) * k;
                a[last..last + k].copy_from_slice(&ta.limbs(k)); b[last..last + k].copy_from_slice(&tb.limbs(k));
                out.case(&format!("rnsp_eval {} {} 1 {} {} {}", tsf, n, op, fl(&a), fl(&b)), &format!("{}-rnsp-n{}k{}-top-multiple-of-p{}", op, n, k, j), || {
                    let (pa, pb) = (e.enc.encode_polynomial_new(&a), e.enc.encode_polynomial_new(&b));
                    let ca = e.encryptor.encrypt_new(&pa); let cb = e.encryptor.encrypt_new(&pb);
                    let res = match op { "add" => e.ev.add_new(&ca, &cb), "sub" => e.ev.sub_new(&ca, &cb), _ => e.ev.add_plain_new(&ca, &pb) };
                    fl(&e.enc.decode_polynomial_new(&e.decryptor.decrypt_new(&res)))
                });
            } }
        }
    } }
}

// ------------------------------------------------------------------ CKKS paths of the coefficient-packing helpers
//
// Verdict lines only (the oracle is real-valued): `mmc_e2e` / `cvc_e2e` run `encode_inputs_ckks`, `encode_weights_ckks`, real encryption,
// `matmul(_reverse)` / `conv2d(_reverse)`, optionally `pack_outputs` (LWE packing), optionally `rescale_to_next`, optionally the bias through
// `encode_outputs_ckks` + `add_plain`, optionally the selected-terms transport (`output_terms` + `serialize_terms`; the full serialisation for
// packed outputs), and `decrypt_outputs_ckks`; the result must equal the f64 matrix product / valid cross-correlation (+ bias) within the
// WORST-CASE bound derived below.  `mmc_outputs_roundtrip` / `cvc_outputs_roundtrip`: decode(encrypt(encode_outputs_ckks(y))) = y within the
// fresh-encryption bound.  `mm_input_terms`: the positions `MatmulHelper::input_terms` lists are exactly the positions of the encoded input
// polynomials that carry input values (in row-major order of the block), every other coefficient is zero.
//
// Error bound (coefficient level; the helpers use the COEFFICIENT encoding `encode_f64_polynomial`, so no canonical-embedding factor):
//   D = scale, N = degree, A_e / A_p = max |entry| of the encrypted / the plaintext operand, T = number of ciphertext x plaintext products
//   summed into one output ciphertext (matmul: ceil(r / input_block); convolution: ceil(ci / input_channel_block)).
//   * encoding: coefficient = round(D v): |round(D v) - D v| <= 1/2, |round(D v)| <= D A + 1/2;
//   * fresh noise per coefficient: B = 21 for symmetric encryption (one error polynomial; the centred binomial sampler is clipped at
//     8 + 8 + 5 = 21), B = 21 (2N + 1) for public-key encryption (e0 + u e_pk + e1 s, u and s ternary: C01 `fresh_noise_bound`);
//   * one product: phase = (round(D a) + e) * round(D p) (negacyclic: every coefficient is a signed sum of N products), against D^2 (a * p):
//       |error| <= N [ (1/2 + B)(D A_p + 1/2) + (D A_e) / 2 ];   T products:  E = T N [ (1/2 + B)(D A_p + 1/2) + D A_e / 2 ];
//   * LWE packing: the pre-multiplication by ps^-1 and the field trace (log2 ps steps x -> x + KS(sigma(x))) reproduce the kept coefficients
//     of the phase EXACTLY; each step adds one key-switch noise and doubles what was there: (ps - 1) bks per input ciphertext, ps of them
//     are added into one packed ciphertext:  E += ps (ps - 1) bks,  bks = 21 N L ceil(q_max / p_special) + N + 2
//     (sum over the L digits d_j < q_j of d_j * e_j, divided by the special prime, + rounding of the two output polynomials);
//   * rescale by q_last (size-2 ciphertext): E <- E / q_last + (1 + N) / 2, scale <- D^2 / q_last;
//   * bias: encoded at the ciphertext's scale: E += 1/2;
//   * result error <= E / scale + fp,  fp = (K + 32) 2^-52 (K A_e A_p + S + 1) for the f64 reference sum of K products and the f64 decode.
// Nothing is claimed when the scaled values do not fit the level's modulus (checked before the run: a `!NOTE`).

pub struct CEnv { pub s: Setup, pub enc: CKKSEncoder, pub ak: GaloisKeys, pub qs: Vec<u64>, pub sb: i32 }

pub fn cenv_from(n: usize, qs: &[u64], sb: i32) -> Option<CEnv> {
    let s = make(SchemeType::CKKS, n, qs, 0, true, None)?;
    let enc = CKKSEncoder::new(s.ctx.clone());
    let ak = s.keygen.create_automorphism_keys(false);
    Some(CEnv { s, enc, ak, qs: qs.to_vec(), sb })
}
pub fn cenv(r: &mut Rng, n: usize, bits: &[usize], sb: i32) -> Option<CEnv> { let qs = pick_primes(r, n, bits)?; cenv_from(n, &qs, sb) }

/// real operands, |v| <= 8: 0 random multiples of 1/8, 1 all -8 / +8 alternating by position parity of a random bit, 2 zero, 3 a single
/// non-zero entry, 4 ramp, 5 first entry only, 6 random non-dyadic reals
pub fn fdata(r: &mut Rng, len: usize, kind: u64) -> Vec<f64> {
    let dy = |r: &mut Rng| (r.below(129) as f64 - 64.0) / 8.0;
    match kind {
        1 => { let sg = if r.chance(1, 2) { 1.0 } else { -1.0 }; vec![8.0 * sg; len] }
        2 => vec![0.0; len],
        3 => { let mut v = vec![0.0; len]; if len > 0 { let p = r.below(len as u64) as usize; v[p] = (1 + r.below(64)) as f64 / 8.0 * if r.chance(1, 2) { 1.0 } else { -1.0 }; } v }
        4 => (0..len).map(|i| (((i % 33) as f64) - 16.0) / 2.0).collect(),
        5 => (0..len).map(|i| if i == 0 { (1 + r.below(64)) as f64 / 8.0 } else { 0.0 }).collect(),
        6 => (0..len).map(|_| ((r.next() >> 11) as f64 / (1u64 << 53) as f64) * 16.0 - 8.0).collect(),
        _ => (0..len).map(|_| dy(r)).collect(),
    }
}
pub fn fkind_name(k: u64) -> &'static str { match k { 1 => "max", 2 => "zero", 3 => "sparse", 4 => "ramp", 5 => "first", 6 => "real", _ => "dyadic" } }
fn ffl(v: &[f64]) -> String { if v.is_empty() { "-".into() } else { v.iter().map(|x| format!("{}", x)).collect::<Vec<_>>().join(",") } }
fn pfl(s: &str) -> Vec<f64> { if s == "-" { vec![] } else { s.split(',').map(|x| x.parse().unwrap()).collect() } }
fn amax(v: &[f64]) -> f64 { v.iter().fold(0.0, |a, x| a.max(x.abs())) }

fn fref_matmul(x: &[f64], w: &[f64], s: &[f64], m: usize, r: usize, n: usize) -> Vec<f64> {
    let mut y = vec![0.0; m * n];
    for i in 0..m { for j in 0..n { let mut acc = 0.0; for k in 0..r { acc += x[i * r + k] * w[k * n + j]; } y[i * n + j] = acc + if s.is_empty() { 0.0 } else { s[i * n + j] }; } }
    y
}
fn fref_conv(x: &[f64], w: &[f64], s: &[f64], sh: &[usize; 7]) -> Vec<f64> {
    let [b, ci, co, h, wd, kh, kw] = *sh; let oh = h - kh + 1; let ow = wd - kw + 1;
    let mut y = vec![0.0; b * co * oh * ow];
    for bi in 0..b { for oc in 0..co { for i in 0..oh { for j in 0..ow {
        let oi = ((bi * co + oc) * oh + i) * ow + j; let mut acc = 0.0;
        for ic in 0..ci { for ki in 0..kh { for kj in 0..kw { acc += x[((bi * ci + ic) * h + i + ki) * wd + j + kj] * w[((oc * ci + ic) * kh + ki) * kw + kj]; } } }
        y[oi] = acc + if s.is_empty() { 0.0 } else { s[oi] };
    } } } }
    y
}

/// options of one CKKS end-to-end run: `dir` 0 = inputs encrypted (symmetric, seed expanded, serialised), 1 = weights encrypted (public key);
/// `tr` transport of the result; `rescale` before the bias; `pidnone`: the bias is encoded with `parms_id = None` (as the crate's own test does);
/// `lvl`: 0 = operands encoded with `parms_id = None` (first level), 1 = with `Some(second data level)` (everything then runs one level lower)
#[derive(Clone, Copy)]
pub struct COpt { pub dir: u64, pub tr: bool, pub rescale: bool, pub pidnone: bool, pub lvl: usize }

/// the worst-case bound derived at the top of this section; `ps` = Some(pack slots) when LWE packing ran
#[allow(clippy::too_many_arguments)]
fn ckks_bound(e: &CEnv, o: &COpt, a_x: f64, a_w: f64, a_s: f64, bias: bool, t_prod: usize, k_terms: usize, ps: Option<usize>) -> (f64, f64) {
    let nf = e.s.n as f64; let d = 2f64.powi(e.sb);
    let (a_e, a_p, b) = if o.dir == 0 { (a_x, a_w, 21.0) } else { (a_w, a_x, 21.0 * (2.0 * nf + 1.0)) };
    let mut err = t_prod as f64 * nf * ((0.5 + b) * (d * a_p + 0.5) + d * a_e / 2.0);
    let data = &e.qs[..e.qs.len() - 1 - o.lvl];
    if let Some(ps) = ps {
        let qmax = *data.iter().max().unwrap() as f64; let p = *e.qs.last().unwrap() as f64;
        let bks = 21.0 * nf * data.len() as f64 * (qmax / p).ceil() + nf + 2.0;
        err += (ps * (ps - 1)) as f64 * bks;
    }
    let mut scale = d * d;
    if o.rescale { let ql = *data.last().unwrap() as f64; err = err / ql + (1.0 + nf) / 2.0; scale = d * d / ql; }
    if bias { err += 0.5; }
    let fp = (k_terms as f64 + 32.0) * 2f64.powi(-52) * (k_terms as f64 * a_x * a_w + a_s + 1.0);
    (err / scale + fp, scale)
}
/// do the scaled values fit the modulus the result is decrypted at?
fn ckks_fits(e: &CEnv, o: &COpt, mag: f64) -> bool {
    if o.lvl + 2 > e.qs.len() - 1 { return false; }
    let data = &e.qs[..e.qs.len() - 1 - o.lvl];
    let lq: f64 = data.iter().map(|&q| (q as f64).log2()).sum();
    let top = mag.max(1.0).log2() + 2.0 * e.sb as f64 + 2.0;
    // after a rescale: scale D^2 / q_last, modulus Q / q_last — the same margin
    data.len() >= 2 && top < lq
}

/// every plaintext of an encoded set is at the requested level and scale
fn plain_levels(e: &CEnv, p: &Plain2d, pid: Option<ParmsID>, scale: f64) {
    let want = pid.unwrap_or(*e.s.ctx.first_parms_id());
    for row in &p.data { for pt in &row.data {
        assert!(*pt.parms_id() == want, "encoded plaintext is not at the requested level");
        assert!(pt.scale().to_bits() == scale.to_bits(), "encoded plaintext does not carry the requested scale");
    } }
}
fn ctransport(e: &CEnv, y: Cipher2d, terms: &[usize]) -> Cipher2d {
    let mut bytes = vec![];
    y.serialize_terms(&e.s.ctx, terms, &mut bytes).unwrap();
    assert_eq!(bytes.len(), y.serialized_terms_size(&e.s.ctx, terms.len()), "serialized_terms_size");
    Cipher2d::deserialize_terms(&e.s.ctx, terms, &mut bytes.as_slice()).unwrap()
}
fn croundtrip(e: &CEnv, y: Cipher2d) -> Cipher2d {
    let mut bytes = vec![];
    y.serialize(&e.s.ctx, &mut bytes).unwrap();
    assert_eq!(bytes.len(), y.serialized_size(&e.s.ctx), "serialized_size");
    Cipher2d::deserialize(&e.s.ctx, &mut bytes.as_slice()).unwrap()
}
/// rescale (optional), bias (optional) — shared tail of both helpers; returns the bias plaintext set's scale / level choice
fn ctail<F: Fn(Option<ParmsID>, f64) -> Plain2d>(e: &CEnv, o: &COpt, y: &mut Cipher2d, bias: bool, enc_out: F) {
    let d = 2f64.powi(e.sb);
    let mut sc = d * d;
    if o.rescale { let ql = e.qs[e.qs.len() - 2 - o.lvl]; sc = d * d / ql as f64; y.rescale_to_next_inplace(&e.s.evaluator); }
    if bias {
        let pid = if o.pidnone { None } else { Some(*y.data[0].data[0].parms_id()) };
        let se = enc_out(pid, sc);
        plain_levels(e, &se, pid, sc);
        y.add_plain_inplace(&e.s.evaluator, &se);
    }
}

#[allow(clippy::too_many_arguments)]
pub fn cheetah_ckks_e2e(e: &CEnv, m: usize, r: usize, n: usize, obj: u64, pack: bool, o: &COpt, x: &[f64], w: &[f64], s: &[f64]) -> Vec<f64> {
    let d = 2f64.powi(e.sb);
    let h = MatmulHelper::new(m, r, n, e.s.n, obj_of(obj), pack);
    let pid = if o.lvl == 0 { None } else { Some(e.s.levels()[o.lvl]) };
    let xe = h.encode_inputs_ckks(&e.enc, x, pid, d);
    let we = h.encode_weights_ckks(&e.enc, w, pid, d);
    plain_levels(e, &xe, pid, d); plain_levels(e, &we, pid, d);
    let mut y = if o.dir == 0 {
        let xc = croundtrip(e, xe.encrypt_symmetric(&e.s.encryptor).expand_seed(&e.s.ctx));
        h.matmul(&e.s.evaluator, &xc, &we)
    } else {
        let wc = we.encrypt(&e.s.encryptor);
        h.matmul_reverse(&e.s.evaluator, &xe, &wc)
    };
    if pack { y = h.pack_outputs(&e.s.evaluator, &e.ak, &y); }
    ctail(e, o, &mut y, !s.is_empty(), |pid, sc| h.encode_outputs_ckks(&e.enc, s, pid, sc));
    if o.tr { y = if pack { croundtrip(e, y) } else { ctransport(e, y, &h.output_terms()) }; }
    h.decrypt_outputs_ckks(&e.enc, &e.s.decryptor, &y)
}

pub fn conv_ckks_e2e(e: &CEnv, sh: &[usize; 7], obj: u64, o: &COpt, x: &[f64], w: &[f64], s: &[f64]) -> Vec<f64> {
    let d = 2f64.powi(e.sb);
    let [b, ci, co, hh, ww, kh, kw] = *sh;
    let h = Conv2dHelper::new(b, ci, co, hh, ww, kh, kw, e.s.n, obj_of(obj));
    let pid = if o.lvl == 0 { None } else { Some(e.s.levels()[o.lvl]) };
    let xe = h.encode_inputs_ckks(&e.enc, x, pid, d);
    let we = h.encode_weights_ckks(&e.enc, w, pid, d);
    plain_levels(e, &xe, pid, d); plain_levels(e, &we, pid, d);
    let mut y = if o.dir == 0 {
        let xc = croundtrip(e, xe.encrypt_symmetric(&e.s.encryptor).expand_seed(&e.s.ctx));
        h.conv2d(&e.s.evaluator, &xc, &we)
    } else {
        let wc = we.encrypt(&e.s.encryptor);
        h.conv2d_reverse(&e.s.evaluator, &xe, &wc)
    };
    ctail(e, o, &mut y, !s.is_empty(), |pid, sc| h.encode_outputs_ckks(&e.enc, s, pid, sc));
    if o.tr { y = ctransport(e, y, &h.output_terms()); }
    h.decrypt_outputs_ckks(&e.enc, &e.s.decryptor, &y)
}

/// real-valued verdict: every entry within `bound`; a panic on these legal inputs is a failure as well
fn fverdict(out: &mut Out, lhs: &str, class: &str, got: Result<Vec<f64>, String>, want: &[f64], bound: f64) {
    match got {
        Err(m) => out.raw(&format!("!FAIL {} :: panicked on legal input: {} # {}", lhs, m.replace('\n', " "), class)),
        Ok(g) => {
            if g.len() != want.len() { out.raw(&format!("!FAIL {} :: {} values returned, {} expected # {}", lhs, g.len(), want.len(), class)); return; }
            let mut worst = (0usize, 0.0f64);
            for i in 0..g.len() { let dlt = (g[i] - want[i]).abs(); if !(dlt <= worst.1) { worst = (i, dlt); } }
            if g.is_empty() || worst.1 <= bound { out.raw(&format!("!OK {} :: err={:.3e} bound={:.3e} # {}", lhs, worst.1, bound, class)); }
            else { out.raw(&format!("!FAIL {} :: entry {} observed {} expected {} (difference {:e}), worst-case bound {:e} # {}", lhs, worst.0, g[worst.0], want[worst.0], worst.1, bound, class)); }
        }
    }
}
fn fguard<F: FnOnce() -> Vec<f64>>(f: F) -> Result<Vec<f64>, String> {
    std::panic::catch_unwind(std::panic::AssertUnwindSafe(f)).map_err(|_| LAST_PANIC.with(|p| p.borrow().clone()))
}
fn chead(e: &CEnv) -> String { format!("{} {} {}", e.s.n, fl(&e.qs), e.sb) }
fn copt_str(o: &COpt) -> String { format!("{} {} {} {} {}", o.dir, o.tr as u8, o.rescale as u8, o.pidnone as u8, o.lvl) }

#[allow(clippy::too_many_arguments)]
fn mmc_case(out: &mut Out, e: &CEnv, m: usize, rr: usize, n: usize, obj: u64, pack: bool, o: &COpt, x: &[f64], w: &[f64], s: &[f64], cls: &str) {
    let lhs = format!("mmc_e2e {} {} {} {} {} {} {} {} {} {}", chead(e), m, rr, n, obj, pack as u8, copt_str(o), ffl(x), ffl(w), ffl(s));
    let bl = match std::panic::catch_unwind(|| mm_blocks_of(&MatmulHelper::new(m, rr, n, e.s.n, obj_of(obj), pack))) { Ok(b) => b, Err(_) => { out.raw(&format!("!NOTE mmc_e2e {} {} {} {} {} {}: constructor refused", e.s.n, m, rr, n, obj, pack as u8)); return; } };
    if bl[0] == 0 { out.raw(&format!("!NOTE mmc_e2e {} {} {} {} {} {}: no blocking found", e.s.n, m, rr, n, obj, pack as u8)); return; }
    let (ax, aw, a_s) = (amax(x), amax(w), amax(s));
    if !ckks_fits(e, o, rr as f64 * ax * aw + a_s) { out.raw("!NOTE mmc_e2e skipped: scaled values do not fit the level"); return; }
    let (bound, _) = ckks_bound(e, o, ax, aw, a_s, !s.is_empty(), (rr + bl[1] - 1) / bl[1], rr, if pack { Some(bl[1]) } else { None });
    let want = fref_matmul(x, w, s, m, rr, n);
    let got = fguard(|| cheetah_ckks_e2e(e, m, rr, n, obj, pack, o, x, w, s));
    fverdict(out, &lhs, cls, got, &want, bound);
}

fn cvc_case(out: &mut Out, e: &CEnv, sh: &[usize; 7], obj: u64, o: &COpt, x: &[f64], w: &[f64], s: &[f64], cls: &str) {
    let [b, ci, co, hh, ww, kh, kw] = *sh;
    let lhs = format!("cvc_e2e {} {} {} {} {} {} {} {} {} {} {} {} {}", chead(e), b, ci, co, hh, ww, kh, kw, obj, copt_str(o), ffl(x), ffl(w), ffl(s));
    let bl = match std::panic::catch_unwind(|| Conv2dHelper::new(b, ci, co, hh, ww, kh, kw, e.s.n, obj_of(obj)).verif_blocks()) { Ok(b) => b, Err(_) => { out.raw("!NOTE cvc_e2e: constructor refused"); return; } };
    if bl[0] == 0 || bl[3] == 0 { out.raw(&format!("!NOTE cvc_e2e {} {:?} {}: no blocking found", e.s.n, sh, obj)); return; }
    let (ax, aw, a_s) = (amax(x), amax(w), amax(s));
    let k = ci * kh * kw;
    if !ckks_fits(e, o, k as f64 * ax * aw + a_s) { out.raw("!NOTE cvc_e2e skipped: scaled values do not fit the level"); return; }
    let (bound, _) = ckks_bound(e, o, ax, aw, a_s, !s.is_empty(), (ci + bl[3] - 1) / bl[3], k, None);
    let want = fref_conv(x, w, s, sh);
    let got = fguard(|| conv_ckks_e2e(e, sh, obj, o, x, w, s));
    fverdict(out, &lhs, cls, got, &want, bound);
}

/// `input_terms`: for every block polynomial (bi, bj) of `encode_inputs_*`, the coefficient at `input_terms()[i * input_block + j]` is the input
/// entry (bi*bb + i, bj*ib + j) (zero outside the matrix) and every coefficient at a position NOT listed is zero — checked on the BFV
/// plaintexts (exact) and, through `decode_polynomial`, on the CKKS plaintexts (within the encoder's rounding 1/2 / scale + one ulp).
#[allow(deprecated)]
fn input_terms_case(out: &mut Out, r: &mut Rng, e: &Env, ce: &CEnv, m: usize, rr: usize, n: usize, obj: u64, pack: bool) {
    let nn = e.s.n; let t = e.s.t;
    let lhs = format!("mm_input_terms {} {} {} {} {} {} {}", nn, m, rr, n, obj, pack as u8, r.next() & 0xffff);
    let cls = format!("input-terms-n{}{}", nn, if pack { "p" } else { "" });
    let res = std::panic::catch_unwind(std::panic::AssertUnwindSafe(|| -> Result<(), String> {
        let h = MatmulHelper::new(m, rr, n, nn, obj_of(obj), pack);
        let bl = mm_blocks_of(&h); let (bb, ib) = (bl[0], bl[1]);
        if bb == 0 { return Ok(()); }
        let terms = h.input_terms();
        if terms.len() != bb * ib { return Err(format!("{} terms, batch_block x input_block = {}", terms.len(), bb * ib)); }
        let mut seen = vec![false; nn];
        for &p in &terms { if p >= nn { return Err(format!("term {} outside the polynomial", p)); } if seen[p] { return Err(format!("term {} listed twice", p)); } seen[p] = true; }
        // every entry non-zero, so that a value landing outside the listed positions is visible
        let x: Vec<u64> = (0..m * rr).map(|_| 1 + r.below(t - 1)).collect();
        let xf: Vec<f64> = (0..m * rr).map(|_| (1 + r.below(64)) as f64 / 8.0 * if r.chance(1, 2) { 1.0 } else { -1.0 }).collect();
        let pe = h.encode_inputs_bfv(&e.enc, &x);
        let d = 2f64.powi(ce.sb);
        let pc = h.encode_inputs_ckks(&ce.enc, &xf, None, d);
        let (rows, cols) = ((m + bb - 1) / bb, (rr + ib - 1) / ib);
        if pe.data.len() != rows || pc.data.len() != rows { return Err(format!("{} / {} block rows, expected {}", pe.data.len(), pc.data.len(), rows)); }
        for bi in 0..rows {
            if pe.data[bi].data.len() != cols || pc.data[bi].data.len() != cols { return Err(format!("row {}: {} / {} polynomials, expected {}", bi, pe.data[bi].data.len(), pc.data[bi].data.len(), cols)); }
            for bj in 0..cols {
                let mut co = pe.data[bi].data[bj].data().clone(); co.resize(nn, 0);
                let cf = ce.enc.decode_polynomial_new(&pc.data[bi].data[bj]);
                let mut wantu = vec![0u64; nn]; let mut wantf = vec![0.0f64; nn];
                for i in 0..bb { for j in 0..ib {
                    let (gi, gj) = (bi * bb + i, bj * ib + j);
                    if gi < m && gj < rr { wantu[terms[i * ib + j]] = x[gi * rr + gj]; wantf[terms[i * ib + j]] = xf[gi * rr + gj]; }
                } }
                if co != wantu { return Err(format!("bfv block ({},{}): polynomial {} expected {} (x = {})", bi, bj, fl(&co), fl(&wantu), fl(&x))); }
                for p in 0..nn { if !((cf[p] - wantf[p]).abs() <= 0.5 / d + 1e-12) { return Err(format!("ckks block ({},{}): coefficient {} is {} expected {} (x = {})", bi, bj, p, cf[p], wantf[p], ffl(&xf))); } }
            }
        }
        Ok(())
    }));
    match res {
        Ok(Ok(())) => out.raw(&format!("!OK {} # {}", lhs, cls)),
        Ok(Err(m)) => out.raw(&format!("!FAIL {} :: {} # {}", lhs, m, cls)),
        Err(_) => { let m = LAST_PANIC.with(|p| p.borrow().clone()); out.raw(&format!("!FAIL {} :: panicked: {} # {}", lhs, m.replace('\n', " "), cls)); }
    }
}

fn ckks_part(out: &mut Out, r: &mut Rng, thorough: bool) {
    // (degree, coefficient primes incl. the special one, log2 scale): two data primes (decode after rescale: one word) and three (two words)
    let plan: &[(usize, &[usize], i32)] = &[(16, &[58, 34, 59], 34), (32, &[58, 34, 59], 34), (64, &[50, 40, 36, 60], 36)];
    let benvs: Vec<Option<Env>> = plan.iter().map(|&(n, _, _)| env(r, n, 20)).collect();
    for (pi, &(n, bits, sb)) in plan.iter().enumerate() {
        let e = match cenv(r, n, bits, sb) { Some(e) => e, None => { out.raw(&format!("!FAIL env ckks n={} :: context not available # setup", n)); continue; } };
        // ---- matrix products
        let mut shapes = dims(if thorough { 4 } else { 3 });
        shapes.extend_from_slice(&[(5, 7, 3), (4, 40, 5), (17, 9, 11), (1, 33, 1), (33, 1, 2), (2, 65, 3), (7, 7, 7), (1, 1, 70), (12, 20, 12), (n, n + 1, 2), (3, 2 * n + 1, n + 1)]);
        let mut idx = 0u64;
        for &(m, rr, nn) in &shapes { for obj in 0..3u64 { for pack in [false, true] {
            idx += 1;
            let ext = [1u64, 6, 3, 4, 2, 5][(idx % 6) as usize];
            for &kind in &[0u64, ext] {
                let x = fdata(r, m * rr, kind);
                let wk = if (kind == 3 || kind == 5 || kind == 2) && r.chance(1, 2) { 0 } else { kind };
                let w = fdata(r, rr * nn, wk);
                let s = if r.chance(1, 2) { vec![] } else { fdata(r, m * nn, if kind == 1 { 1 } else if kind == 6 { 6 } else { 0 }) };
                for dir in 0..2u64 {
                    if kind != 0 && ((dir == 1) != (obj == 1)) && r.chance(1, 2) { continue; }
                    let rescale = r.chance(1, 2);
                    let lvl = (bits.len() >= 4 && r.chance(1, 3)) as usize;
                    let o = COpt { dir, tr: r.chance(1, 2), rescale, pidnone: rescale && lvl == 0 && r.chance(1, 3), lvl };
                    mmc_case(out, &e, m, rr, nn, obj, pack, &o, &x, &w, &s, &format!("ckks-{}-n{}{}{}{}", fkind_name(kind), n, if pack { "p" } else { "" }, if rescale { "r" } else { "" }, if lvl == 1 { "-l1" } else { "" }));
                }
            }
            // output re-encoding is the inverse of output decoding: fresh public-key encryption of the encoded outputs, bound (1/2 + 21 (2N + 1)) / D
            if idx % 2 == 0 {
                let yv = fdata(r, m * nn, [0u64, 6, 1, 3][(idx / 2 % 4) as usize]);
                let d = 2f64.powi(sb); let tr = r.chance(1, 2);
                let lv = r.below(e.s.levels().len() as u64) as usize; let pid = if lv == 0 && r.chance(1, 2) { None } else { Some(e.s.levels()[lv]) };
                let lhs = format!("mmc_outputs_roundtrip {} {} {} {} {} {} {} {}{} {}", chead(&e), m, rr, nn, obj, pack as u8, tr as u8, lv, if pid.is_none() { "n" } else { "" }, ffl(&yv));
                let got = fguard(|| { let h = MatmulHelper::new(m, rr, nn, n, obj_of(obj), pack); let pe = h.encode_outputs_ckks(&e.enc, &yv, pid, d); plain_levels(&e, &pe, pid, d); let mut ct = pe.encrypt(&e.s.encryptor);
                    if tr { ct = if pack { croundtrip(&e, ct) } else { ctransport(&e, ct, &h.output_terms()) }; }
                    h.decrypt_outputs_ckks(&e.enc, &e.s.decryptor, &ct) });
                fverdict(out, &lhs, &format!("ckks-ortrip-n{}{}", n, if pack { "p" } else { "" }), got, &yv, (0.5 + 21.0 * (2.0 * n as f64 + 1.0)) / d + 40.0 * 2f64.powi(-52) * 9.0);
            }
            if let Some(be) = &benvs[pi] { if idx % 2 == 1 || m * rr * nn > 27 { input_terms_case(out, r, be, &e, m, rr, nn, obj, pack); } }
        } } }
        // ---- convolutions (incl. images split along height / width, more channels than fit)
        let mut cshapes: Vec<[usize; 7]> = vec![];
        for b in 1..=2usize { for ci in 1..=2usize { for co in 1..=2usize { for (hh, ww, kh, kw) in [(1usize, 1usize, 1usize, 1usize), (3, 3, 2, 2), (4, 5, 3, 1), (5, 4, 1, 3), (6, 6, 3, 3)] { cshapes.push([b, ci, co, hh, ww, kh, kw]); } } } }
        cshapes.extend_from_slice(&[[1, 1, 1, 40, 4, 3, 3], [1, 1, 1, 4, 40, 3, 3], [1, 2, 1, 33, 3, 2, 2], [2, 1, 2, 17, 5, 3, 1], [1, 3, 2, 20, 9, 3, 3], [1, 1, 1, 65, 1, 2, 1], [1, 5, 7, 6, 6, 3, 3], [3, 2, 2, 12, 12, 3, 3], [1, 1, 4, 16, 16, 5, 5], [2, 9, 1, 8, 8, 2, 3]]);
        if n < 32 { cshapes.retain(|sh| sh[5] * sh[6] <= n); }
        let mut idx = 0u64;
        for sh in &cshapes { for obj in 0..3u64 {
            idx += 1;
            let [b, ci, co, hh, ww, kh, kw] = *sh; let (oh, ow) = (hh - kh + 1, ww - kw + 1);
            let ext = [1u64, 6, 3, 4, 2, 5][(idx % 6) as usize];
            for &kind in &[0u64, ext] {
                let x = fdata(r, b * ci * hh * ww, kind);
                let wk = if (kind == 3 || kind == 5 || kind == 2) && r.chance(1, 2) { 0 } else { kind };
                let w = fdata(r, co * ci * kh * kw, wk);
                let s = if r.chance(1, 2) { vec![] } else { fdata(r, b * co * oh * ow, if kind == 6 { 6 } else { 0 }) };
                let dir = if kind == 0 { (obj == 1) as u64 } else { r.below(2) };
                let rescale = r.chance(1, 2);
                let lvl = (bits.len() >= 4 && r.chance(1, 3)) as usize;
                    let o = COpt { dir, tr: r.chance(1, 2), rescale, pidnone: rescale && lvl == 0 && r.chance(1, 3), lvl };
                cvc_case(out, &e, sh, obj, &o, &x, &w, &s, &format!("ckks-conv-{}-n{}{}{}", fkind_name(kind), n, if rescale { "r" } else { "" }, if lvl == 1 { "-l1" } else { "" }));
            }
            if idx % 3 == 0 {
                let yv = fdata(r, b * co * oh * ow, [0u64, 6, 1, 3][(idx / 3 % 4) as usize]);
                let d = 2f64.powi(sb); let tr = r.chance(1, 2);
                let lv = r.below(e.s.levels().len() as u64) as usize; let pid = if lv == 0 && r.chance(1, 2) { None } else { Some(e.s.levels()[lv]) };
                let lhs = format!("cvc_outputs_roundtrip {} {} {} {} {} {} {} {} {} {} {}{} {}", chead(&e), b, ci, co, hh, ww, kh, kw, obj, tr as u8, lv, if pid.is_none() { "n" } else { "" }, ffl(&yv));
                let got = fguard(|| { let h = Conv2dHelper::new(b, ci, co, hh, ww, kh, kw, n, obj_of(obj)); let pe = h.encode_outputs_ckks(&e.enc, &yv, pid, d); plain_levels(&e, &pe, pid, d); let mut ct = pe.encrypt(&e.s.encryptor);
                    if tr { ct = ctransport(&e, ct, &h.output_terms()); }
                    h.decrypt_outputs_ckks(&e.enc, &e.s.decryptor, &ct) });
                fverdict(out, &lhs, &format!("ckks-conv-ortrip-n{}", n), got, &yv, (0.5 + 21.0 * (2.0 * n as f64 + 1.0)) / d + 40.0 * 2f64.powi(-52) * 9.0);
            }
        } }
    }
}

// ------------------------------------------------------------------ entry point

fn dims(hi: usize) -> Vec<(usize, usize, usize)> { let mut v = vec![]; for m in 1..=hi { for r in 1..=hi { for n in 1..=hi { v.push((m, r, n)); } } } v }

/// `./check C20 --replay`: re-run one recorded `mm_run` / `cv_run` case (the line carries shape, operands and options)
fn replay_case(out: &mut Out, r: &mut Rng, case: &str) {
    let tk: Vec<&str> = case.split(' ').collect();
    let pl = |s: &str| -> Vec<u64> { if s == "-" { vec![] } else { s.split(',').map(|x| x.parse().unwrap()).collect() } };
    let pu = |s: &str| -> usize { s.parse().unwrap() };
    match tk[0] {
        "mm_run" if tk.len() == 13 => {
            let n = pu(tk[1]);
            let e = match env(r, n, 20) { Some(e) => e, None => { out.raw("!NOTE replay: context not available"); return; } };
            let (x, w, s) = (pl(tk[10]), pl(tk[11]), pl(tk[12]));
            // the plain modulus of the recorded run is re-used by reducing the operands (the context picks its own prime of the same size)
            let head = format!("{} {} {} {} {} {} {}", n, e.s.t, tk[3], tk[4], tk[5], tk[6], tk[7]);
            let t = e.s.t; let red = |v: &Vec<u64>| -> Vec<u64> { v.iter().map(|&a| a % t).collect() };
            let (x, w, s) = (red(&x), red(&w), red(&s));
            out.case(&format!("mm_run {} {} {} {} {} {}", head, tk[8], tk[9], fl(&x), fl(&w), fl(&s)), "replay",
                || fl(&cheetah_e2e(&e, pu(tk[3]), pu(tk[4]), pu(tk[5]), tk[6].parse().unwrap(), tk[7] == "1", tk[8].parse().unwrap(), tk[9] == "1", &x, &w, &s)));
        }
        "cv_run" if tk.len() == 16 => {
            let n = pu(tk[1]);
            let e = match env(r, n, 20) { Some(e) => e, None => { out.raw("!NOTE replay: context not available"); return; } };
            let sh = [pu(tk[3]), pu(tk[4]), pu(tk[5]), pu(tk[6]), pu(tk[7]), pu(tk[8]), pu(tk[9])];
            let t = e.s.t; let red = |v: Vec<u64>| -> Vec<u64> { v.iter().map(|&a| a % t).collect() };
            let (x, w, s) = (red(pl(tk[13])), red(pl(tk[14])), red(pl(tk[15])));
            let head = format!("{} {} {} {} {} {} {} {} {} {}", n, t, tk[3], tk[4], tk[5], tk[6], tk[7], tk[8], tk[9], tk[10]);
            out.case(&format!("cv_run {} {} {} {} {} {}", head, tk[11], tk[12], fl(&x), fl(&w), fl(&s)), "replay",
                || fl(&conv_e2e(&e, &sh, tk[10].parse().unwrap(), tk[11].parse().unwrap(), tk[12] == "1", &x, &w, &s)));
        }
        "mmc_e2e" if tk.len() == 17 => {
            let qs: Vec<u64> = pl(tk[2]);
            let e = match cenv_from(pu(tk[1]), &qs, tk[3].parse().unwrap()) { Some(e) => e, None => { out.raw("!NOTE replay: context not available"); return; } };
            let o = COpt { dir: tk[9].parse().unwrap(), tr: tk[10] == "1", rescale: tk[11] == "1", pidnone: tk[12] == "1", lvl: pu(tk[13]) };
            mmc_case(out, &e, pu(tk[4]), pu(tk[5]), pu(tk[6]), tk[7].parse().unwrap(), tk[8] == "1", &o, &pfl(tk[14]), &pfl(tk[15]), &pfl(tk[16]), "replay");
        }
        "cvc_e2e" if tk.len() == 20 => {
            let qs: Vec<u64> = pl(tk[2]);
            let e = match cenv_from(pu(tk[1]), &qs, tk[3].parse().unwrap()) { Some(e) => e, None => { out.raw("!NOTE replay: context not available"); return; } };
            let sh = [pu(tk[4]), pu(tk[5]), pu(tk[6]), pu(tk[7]), pu(tk[8]), pu(tk[9]), pu(tk[10])];
            let o = COpt { dir: tk[12].parse().unwrap(), tr: tk[13] == "1", rescale: tk[14] == "1", pidnone: tk[15] == "1", lvl: pu(tk[16]) };
            cvc_case(out, &e, &sh, tk[11].parse().unwrap(), &o, &pfl(tk[17]), &pfl(tk[18]), &pfl(tk[19]), "replay");
        }
        _ => out.raw("!NOTE replay: only mm_run / cv_run lines carry their operands; verdict lines are regenerated from the seed by re-running the check"),
    }
}

pub fn run(out: &mut Out, thorough: bool, seed: u64, extra: &[String]) {
    let mut r = Rng::new(seed ^ 0xC20);
    if extra.first().map(|s| s.as_str()) == Some("--case") { if let Some(c) = extra.get(1) { replay_case(out, &mut r, c); } return; }
    let part = extra.first().map(|s| s.as_str()).unwrap_or("all");
    let arg_n: Option<usize> = extra.get(1).and_then(|s| s.parse().ok());
    let hi = if thorough { 6 } else { 4 };
    let want = |p: &str| part == "all" || part == p;

    if want("mm") || want("bolt") {
        for &n in &[8usize, 16, 32] {
            if let Some(a) = arg_n { if a != n { continue; } }
            let e = match env(&mut r, n, 20) { Some(e) => e, None => { out.raw(&format!("!FAIL env n={} :: context not available # setup", n)); continue; } };
            if want("mm") {
                let mut idx = 0u64;
                for (m, rr, nn) in dims(hi) { for obj in 0..3u64 { for pack in [false, true] {
                    idx += 1;
                    // every shape: random operands + one rotating extreme; the first objective also all t-1
                    let ext = [1u64, 2, 3, 5, 4][(idx % 5) as usize];
                    let kinds: Vec<u64> = if obj == 0 { vec![0, ext, 1] } else { vec![0, ext] };
                    mm_shape(out, &mut r, &e, m, rr, nn, obj, pack, &kinds, false, &format!("exh-n{}{}", n, if pack { "p" } else { "" }));
                } } }
            }
            if want("bolt") {
                let mut idx = 0u64;
                for (m, rr, nn) in dims(hi) { idx += 1; bolt_shape(out, &mut r, &e, m, rr, nn, [0u64, 0, 1, 4, 3][(idx % 5) as usize], &format!("exh-n{}", n)); }
                bolt_dc_r0(out, &e, 1, 1); bolt_dc_r0(out, &e, 2, 3);
            }
        }
    }
    if want("big") {
        // random larger shapes: up to several times the slot count
        let plan: &[(usize, usize, usize)] = if thorough { &[(8, 40, 40), (16, 60, 40), (32, 100, 40), (64, 150, 24), (128, 300, 10), (256, 300, 4), (4096, 120, 3)] }
                                              else { &[(8, 30, 10), (16, 50, 10), (32, 100, 12), (64, 150, 6), (128, 260, 3), (4096, 100, 1)] };
        for &(n, maxd, cnt) in plan {
            if let Some(a) = arg_n { if a != n { continue; } }
            let e = match env(&mut r, n, 20) { Some(e) => e, None => continue };
            for i in 0..cnt {
                let pick = |r: &mut Rng| -> usize { match r.below(6) { 0 => 1, 1 => r.range(1, 4) as usize, 2 => n.min(maxd), 3 => (n + 1).min(maxd), _ => r.range(1, maxd as u64) as usize } };
                let (m, rr, nn) = (pick(&mut r), pick(&mut r), pick(&mut r));
                let obj = r.below(3); let pack = r.chance(1, 2);
                let kinds = [0u64, *r.pick(&[1u64, 2, 3, 5])];
                mm_shape(out, &mut r, &e, m, rr, nn, obj, pack, &kinds[..if n >= 4096 { 1 } else { 2 }], false, &format!("big-n{}{}", n, if pack { "p" } else { "" }));
                if n <= 64 && i % 2 == 0 {
                    let lim = (3 * n).min(40);
                    let (m, rr, nn) = (r.range(1, lim as u64) as usize, r.range(1, lim as u64) as usize, r.range(1, lim as u64) as usize);
                    bolt_shape(out, &mut r, &e, m, rr, nn, 0, &format!("big-n{}", n));
                }
            }
        }
    }
    if want("conv") {
        let which = arg_n.unwrap_or(0); // 0: everything, 1..4: a quarter of the exhaustive list
        let envs: Vec<Env> = [32usize, 64].iter().filter_map(|&n| env(&mut r, n, 20)).collect();
        if envs.len() < 2 { out.raw("!FAIL env conv :: context not available # setup"); return; }
        let (bmax, cmax, imax) = if thorough { (3, 3, 8) } else { (2, 3, 6) };
        let mut idx = 0usize;
        for b in 1..=bmax { for ci in 1..=cmax { for co in 1..=cmax { for hh in 1..=imax { for ww in 1..=imax { for kh in 1..=3usize.min(hh) { for kw in 1..=3usize.min(ww) {
            idx += 1;
            if which != 0 && idx % 4 != which - 1 { let _ = r.next(); continue; }
            let e = &envs[idx % 2];
            let obj = (idx % 3) as u64;
            let ext = [1u64, 2, 3, 5][(idx / 3) % 4];
            let kinds: Vec<u64> = if idx % 4 == 0 { vec![0, ext] } else { vec![0] };
            conv_shape(out, &mut r, e, &[b, ci, co, hh, ww, kh, kw], obj, &kinds, idx % (if thorough { 3 } else { 5 }) == 0, &format!("exh-n{}", e.s.n));
        } } } } } } }
        if which == 0 || which == 1 {
            // images that must be split along their height / width, more channels than fit
            let tall: &[[usize; 7]] = &[[1, 1, 1, 40, 4, 3, 3], [1, 1, 1, 4, 40, 3, 3], [1, 2, 1, 33, 3, 2, 2], [2, 1, 2, 17, 5, 3, 1], [1, 3, 2, 20, 9, 3, 3], [1, 1, 1, 64, 1, 1, 1],
                                       [1, 1, 1, 65, 1, 2, 1], [1, 5, 7, 6, 6, 3, 3], [3, 2, 2, 12, 12, 3, 3], [1, 1, 1, 9, 9, 3, 3], [1, 1, 4, 16, 16, 5, 5], [2, 9, 1, 8, 8, 2, 3]];
            for (i, sh) in tall.iter().enumerate() { for obj in 0..3u64 {
                conv_shape(out, &mut r, &envs[1 - i % 2], sh, obj, &[0, 1], true, "tall");
                conv_shape(out, &mut r, &envs[i % 2], sh, obj, &[0], obj == 0, "tall");
            } }
        }
    }
    if want("rnsp") { rnsp(out, &mut r, thorough); }
    if want("ckks") { ckks_part(out, &mut r, thorough); }
}
