//! C14: round trips.  Every object type x sizes x levels x both representations x seeded/expanded x key
//! sets with holes x empty containers x primes near byte boundaries x term subsets is serialized by the
//! real code; the Lean model decodes the implementation's bytes (dump must equal the implementation's
//! restored object, consumed = announced = written) and re-encodes them (must equal the bytes).  The
//! harness's own oracle adds field-wise equality with the original (expanded / term-masked) object,
//! a reader in a context built independently from the serialized parameters, and concatenated streams.
use crate::rng::Rng;
use crate::ser::*;
use crate::util::*;
use heathcliff::*;

fn verdict(out: &mut Out, ok: bool, what: &str, class: &str, detail: String) {
    if ok { out.raw(&format!("!OK {} {} # {}", what, class, class)); }
    else { out.raw(&format!("!FAIL {} {} :: {} # {}", what, class, detail, class)); }
}

fn short(s: &str) -> String { if s.len() > 300 { format!("{}…", &s[..300]) } else { s.to_string() } }

pub fn one(out: &mut Out, r: &mut Rng, o: &Obj) -> Option<Vec<u8>> {
    let mut bytes: Vec<u8> = vec![];
    let w = match std::panic::catch_unwind(std::panic::AssertUnwindSafe(|| (o.ser)(&mut bytes))) {
        Ok(Ok(w)) => w,
        _ => { verdict(out, false, "c14ser", &o.class, "serializer refused a valid object".into()); return None; }
    };
    let enc_len = bytes.len();
    let tail = r.below(4) as usize;
    let mut stream = bytes.clone();
    for _ in 0..tail { stream.push(r.next() as u8); }
    let lhs = format!("c14 {} {} {} {} {} {}", o.ty, o.ctx, o.exp, o.terms, hex(&stream), tail);
    let mut xd = String::new();
    let mut consumed = usize::MAX;
    out.case(&lhs, &o.class, || {
        let mut s: &[u8] = &stream;
        match (o.de)(&mut s) {
            Ok((d, x)) => { consumed = stream.len() - s.len(); xd = x; format!("{};c={};a={};w={}", d, consumed, o.size, w) }
            Err(_) => "IOERR".to_string(),
        }
    });
    verdict(out, xd == o.expect, "c14eq", &o.class, format!("restored {} expected {}", short(&xd), short(&o.expect)));
    verdict(out, consumed == enc_len && o.size == enc_len && w == enc_len, "c14size", &o.class,
        format!("announced {} written {} returned {} consumed {}", o.size, enc_len, w, consumed));
    if let Some(de2) = &o.de2 {
        let r2 = std::panic::catch_unwind(std::panic::AssertUnwindSafe(|| { let mut s: &[u8] = &stream; de2(&mut s).map(|(_, x)| (x, stream.len() - s.len())) }));
        match r2 {
            Ok(Ok((x, c))) => verdict(out, x == o.expect && c == enc_len, "c14cross", &o.class, format!("in the rebuilt context: restored {} expected {}", short(&x), short(&o.expect))),
            _ => verdict(out, false, "c14cross", &o.class, "reader refused in the context rebuilt from the serialized parameters".into()),
        }
    }
    Some(bytes)
}

/// several objects in one stream are recovered independently
pub fn concat(out: &mut Out, r: &mut Rng, objs: &[Obj], tag: &str) {
    if objs.len() < 3 { return; }
    for g in 0..6 {
        let idx: Vec<usize> = (0..3 + r.below(3) as usize).map(|_| r.below(objs.len() as u64) as usize).collect();
        let mut stream: Vec<u8> = vec![];
        let mut ok = true; let mut why = String::new();
        for &i in &idx { if std::panic::catch_unwind(std::panic::AssertUnwindSafe(|| (objs[i].ser)(&mut stream))).map(|x| x.is_err()).unwrap_or(true) { ok = false; why = "serializer refused".into(); } }
        if ok {
            let res = std::panic::catch_unwind(std::panic::AssertUnwindSafe(|| {
                let mut s: &[u8] = &stream;
                for &i in &idx {
                    match (objs[i].de)(&mut s) { Ok((_, x)) => if x != objs[i].expect { return Err(format!("object {} of the stream differs", objs[i].class)); }, Err(_) => return Err(format!("object {} unreadable", objs[i].class)) }
                }
                if s.is_empty() { Ok(()) } else { Err(format!("{} bytes left over", s.len())) }
            }));
            match res { Ok(Ok(())) => {}, Ok(Err(e)) => { ok = false; why = e; }, Err(_) => { ok = false; why = "panic".into(); } }
        }
        let cls = format!("concat-{}-{}", tag, idx.iter().map(|&i| objs[i].ty).collect::<Vec<_>>().join("."));
        verdict(out, ok, "c14concat", &format!("{}-g{}", cls, g), why);
    }
}

/// a seed-compressed key set restored from bytes behaves like its expanded form in a later operation
pub fn interchange(out: &mut Out, r: &mut Rng, s: &Suite, tag: &str) {
    let ctx = &*s.ci.ctx;
    if !ctx.using_keyswitching() || s.ci.scheme == SchemeType::CKKS { return; }
    let res = std::panic::catch_unwind(std::panic::AssertUnwindSafe(|| {
        let rk = s.keygen.create_relin_keys(true);
        let mut b = vec![]; rk.serialize(ctx, &mut b).unwrap();
        let restored = RelinKeys::deserialize(ctx, &mut b.as_slice()).unwrap();
        let expanded = rk.clone().expand_seed(ctx);
        let ev = Evaluator::new(s.ci.ctx.clone());
        let lv = data_levels(&s.ci)[0];
        let c3 = rand_ct(r, &s.ci, lv, 3, s.ci.scheme == SchemeType::BGV);
        let a = ev.relinearize_new(&c3, &restored);
        let e = ev.relinearize_new(&c3, &expanded);
        x_ct(&a) == x_ct(&e)
    }));
    match res {
        Ok(ok) => verdict(out, ok, "c14interchange", &format!("relin-{}", tag), "relinearization with restored seeded keys differs from expanded keys".into()),
        Err(_) => out.raw(&format!("!NOTE interchange test refused for {}", tag)),
    }
    // Galois key sets are SPARSE containers (slot (g-1)/2 of 2N-1.. filled for the default elements only): the set restored from bytes, the
    // set expanded in memory and the set generated without seed compression must be the same object, and usable for every element
    let n = s.ci.levels[0].n;
    let res = std::panic::catch_unwind(std::panic::AssertUnwindSafe(|| {
        let gk = s.keygen.create_galois_keys(true);
        let mut b = vec![]; gk.serialize(ctx, &mut b).unwrap();
        let restored = GaloisKeys::deserialize(ctx, &mut b.as_slice()).unwrap();
        let expanded = gk.clone().expand_seed(ctx);
        let same = d_ks(restored.as_kswitch_keys(), &x_ct) == d_ks(expanded.as_kswitch_keys(), &x_ct);
        let ev = Evaluator::new(s.ci.ctx.clone());
        let lv = data_levels(&s.ci)[0];
        let c2 = rand_ct(r, &s.ci, lv, 2, s.ci.scheme == SchemeType::BGV);
        let mut why = vec![];
        if !same { why.push("the set expanded in memory differs from the set restored from its bytes".to_string()); }
        let mut elts = vec![2 * n - 1, 3]; { let mut g = 3usize; for _ in 0..3 { g = (g * g) % (2 * n); if g != 1 && !elts.contains(&g) { elts.push(g); } } }
        for g in elts {
            if !restored.has_key(g) { continue; }
            let a = std::panic::catch_unwind(std::panic::AssertUnwindSafe(|| ev.apply_galois_new(&c2, g, &restored)));
            let e = std::panic::catch_unwind(std::panic::AssertUnwindSafe(|| ev.apply_galois_new(&c2, g, &expanded)));
            match (a, e) { (Ok(a), Ok(e)) => { if x_ct(&a) != x_ct(&e) { why.push(format!("apply_galois({}) with the expanded set differs from the restored set", g)); } }
                           (Ok(_), Err(_)) => why.push(format!("apply_galois({}) refuses the set expanded in memory", g)),
                           (Err(_), Ok(_)) => why.push(format!("apply_galois({}) refuses the set restored from bytes", g)),
                           _ => {} }
        }
        why
    }));
    match res {
        Ok(why) => verdict(out, why.is_empty(), "c14interchange", &format!("galois-{}", tag), why.join("; ")),
        Err(_) => out.raw(&format!("!NOTE galois interchange test refused for {}", tag)),
    }
}

pub fn run(out: &mut Out, thorough: bool, seed: u64, extra: &[String]) {
    if extra.len() >= 2 && extra[0] == "--case" { out.raw("!NOTE C14 cases carry their context; re-run ./check C14 with the recorded seed"); return; }
    let mut r = Rng::new(seed);
    let sc = scalar_objects(&mut r);
    for o in &sc { one(out, &mut r, o); }
    concat(out, &mut r, &sc, "scalars");
    for (fi, (scheme, n, bits, t, special)) in families(thorough).into_iter().enumerate() {
        let s = match suite(scheme, n, &bits, t, special) { Some(s) => s, None => { out.raw(&format!("!NOTE family {} rejected by the library", fi)); continue; } };
        let objs = match std::panic::catch_unwind(std::panic::AssertUnwindSafe(|| objects(&mut r, &s, thorough || fi % 3 == 0))) {
            Ok(o) => o,
            Err(_) => { let m = LAST_PANIC.with(|p| p.borrow().clone());
                verdict(out, false, "c14gen", &format!("f{}", fi), format!("building / sizing a valid object panicked: {}", m)); continue; }
        };
        for o in &objs { one(out, &mut r, o); }
        let tag = format!("f{}", fi);
        concat(out, &mut r, &objs, &tag);
        interchange(out, &mut r, &s, &tag);
    }
    // key sets with key switching in use (no special prime for encryption): seeded relinearisation / Galois key sets are interchangeable
    // with their expanded forms — the families above mostly encrypt with the special prime, where the context reports no key switching
    for (xi, (scheme, n, bits, t)) in [(SchemeType::BFV, 8usize, vec![24usize, 25, 33, 32], 97u64), (SchemeType::BGV, 16, vec![40, 41, 49], 17), (SchemeType::BFV, 32, vec![30, 40, 40], 257), (SchemeType::BGV, 64, vec![36, 36, 45], 769)].into_iter().enumerate() {
        if let Some(s) = suite(scheme, n, &bits, t, false) { interchange(out, &mut r, &s, &format!("x{}", xi)); }
    }
    if let Some((rctx, cis)) = rnsp_suite(8, &[20, 21], &[17, 97]) {
        for rep in 0..3 {
            let comps: Vec<Ciphertext> = cis.iter().map(|ci| { let lv = data_levels(ci)[0]; rand_ct(&mut r, ci, lv, 2 + rep % 2, rep == 1) }).collect();
            let o = mk_rnspct(&cis, &rctx, app::rns_plain::RnspCiphertext::from_raw_parts(comps), format!("rnspct-{}", rep));
            one(out, &mut r, &o);
        }
    }
}
