//! Shared by C14 / C15: hand-built contexts (SecurityLevel::None, small N), object generators for every
//! serializable type, canonical dumps (must equal the Lean driver's), the faulty writer.
use crate::rng::Rng;
use crate::util::*;
use heathcliff::app::matmul::cipher3d::{Cipher3d, Plain3d};
use heathcliff::app::matmul::{Cipher1d, Cipher2d, Plain1d, Plain2d};
use heathcliff::app::rns_plain::{RnspCiphertext, RnspHeContext, RnspSerializableWithHeContext};
use heathcliff::util as hu;
use heathcliff::verif::polysmallmod as pm;
use heathcliff::*;
use std::io::{Read, Write};
use std::sync::Arc;

pub fn hex(b: &[u8]) -> String {
    if b.is_empty() { return "-".into(); }
    let mut s = String::with_capacity(b.len() * 2);
    for x in b { s.push_str(&format!("{:02x}", x)); }
    s
}
pub fn unhex(s: &str) -> Vec<u8> {
    if s == "-" { return vec![]; }
    (0..s.len() / 2).map(|i| u8::from_str_radix(&s[2 * i..2 * i + 2], 16).unwrap_or(0)).collect()
}
pub fn dots(v: &[u64]) -> String {
    if v.is_empty() { "-".into() } else { v.iter().map(|x| x.to_string()).collect::<Vec<_>>().join(".") }
}
pub fn flu(v: &[usize]) -> String {
    if v.is_empty() { "-".into() } else { v.iter().map(|x| x.to_string()).collect::<Vec<_>>().join(",") }
}

// ---------------------------------------------------------------- faulty writer (the `Write` contract)

/// accepts `limits[call % len]` bytes per call; call number `fail_at` returns an error and takes nothing
pub struct FaultWriter { pub limits: Vec<usize>, pub fail_at: Option<usize>, pub calls: usize, pub out: Vec<u8>, pub intr: Vec<usize>, pub icalls: usize }
impl FaultWriter {
    pub fn new(limits: Vec<usize>, fail_at: Option<usize>) -> Self { FaultWriter { limits, fail_at, calls: 0, out: vec![], intr: vec![], icalls: 0 } }
    /// additionally answers the `write` calls with these indices (counted over ALL calls) with ErrorKind::Interrupted ("retry", nothing taken)
    pub fn with_interrupts(mut self, intr: Vec<usize>) -> Self { self.intr = intr; self }
}
impl Write for FaultWriter {
    fn write(&mut self, buf: &[u8]) -> std::io::Result<usize> {
        let ic = self.icalls; self.icalls += 1;
        if self.intr.contains(&ic) { return Err(std::io::Error::new(std::io::ErrorKind::Interrupted, "injected interrupt")); }
        let c = self.calls; self.calls += 1;
        if self.fail_at == Some(c) { return Err(std::io::Error::new(std::io::ErrorKind::Other, "injected fault")); }
        let lim = if self.limits.is_empty() { 8 } else { self.limits[c % self.limits.len()] };
        let n = lim.min(buf.len());
        self.out.extend_from_slice(&buf[..n]);
        Ok(n)
    }
    fn flush(&mut self) -> std::io::Result<()> { Ok(()) }
}

// ---------------------------------------------------------------- contexts

pub struct Lv { pub pid: ParmsID, pub scheme: u8, pub n: usize, pub moduli: Vec<u64> }
pub struct CtxInfo { pub ctx: Arc<HeContext>, pub levels: Vec<Lv>, pub token: String, pub scheme: SchemeType, pub parms: EncryptionParameters }

pub fn scheme_u8(s: SchemeType) -> u8 { match s { SchemeType::None => 0, SchemeType::BFV => 1, SchemeType::CKKS => 2, SchemeType::BGV => 3 } }

pub fn ctx_info(ctx: Arc<HeContext>, parms: EncryptionParameters) -> CtxInfo {
    let mut levels = vec![];
    let mut cd = ctx.key_context_data();
    while let Some(d) = cd {
        let p = d.parms();
        levels.push(Lv { pid: *p.parms_id(), scheme: scheme_u8(p.scheme()), n: p.poly_modulus_degree(), moduli: p.coeff_modulus().iter().map(|m| m.value()).collect() });
        cd = d.next_context_data();
    }
    let first = ctx.first_context_data().unwrap();
    let t = first.parms().plain_modulus().value();
    let mut token = format!("{}:{}", t, first.parms().poly_modulus_degree());
    for l in &levels { token.push_str(&format!("/{}:{}:{}:{}", dots(&l.pid), l.scheme, l.n, dots(&l.moduli))); }
    let scheme = parms.scheme();
    CtxInfo { ctx, levels, token, scheme, parms }
}

/// context built by hand; `None` if the library rejects the parameters (panic or parameters not set)
pub fn build_ctx(scheme: SchemeType, n: usize, moduli: &[u64], t: u64, special: bool) -> Option<CtxInfo> {
    let mods: Vec<Modulus> = moduli.iter().map(|&q| Modulus::new(q)).collect();
    let r = std::panic::catch_unwind(|| {
        let mut p = EncryptionParameters::new(scheme).set_poly_modulus_degree(n).set_coeff_modulus(&mods);
        if scheme != SchemeType::CKKS { p = p.set_plain_modulus(&Modulus::new(t)); }
        p = p.set_use_special_prime_for_encryption(special);
        let ctx = HeContext::new(p.clone(), true, SecurityLevel::None);
        (ctx, p)
    });
    match r { Ok((ctx, p)) if ctx.parameters_set() => Some(ctx_info(ctx, p)), _ => None }
}

/// NTT-friendly primes of the given bit sizes for degree n (distinct)
pub fn primes_for(n: usize, bits: &[usize]) -> Option<Vec<u64>> {
    let mut out: Vec<u64> = vec![];
    for (i, &b) in bits.iter().enumerate() {
        // get_primes panics when fewer than `count` primes of that size exist: ask for as few as needed
        let want = 1 + bits[..i].iter().filter(|&&x| x == b).count();
        let ps = std::panic::catch_unwind(|| hu::get_primes(2 * n as u64, b, want)).ok()?;
        let p = ps.iter().map(|m| m.value()).find(|v| !out.contains(v))?;
        out.push(p);
    }
    Some(out)
}

// ---------------------------------------------------------------- canonical dumps

pub fn d_params(p: &EncryptionParameters) -> String {
    format!("P:{}:{}:{}:{}:{}", scheme_u8(p.scheme()), p.poly_modulus_degree(), dots(&p.coeff_modulus().iter().map(|m| m.value()).collect::<Vec<_>>()),
        p.plain_modulus().value(), p.use_special_prime_for_encryption() as u8)
}
pub fn d_plain(p: &Plaintext) -> String { format!("T:{}:{}:{}", dots(p.parms_id()), p.scale().to_bits(), fl(p.data())) }
pub fn x_plain(p: &Plaintext) -> String { format!("{}|cc={}", d_plain(p), p.coeff_count()) }
pub fn d_ct(c: &Ciphertext) -> String {
    format!("C:{}:{}:{}:{}:{}:{}", dots(c.parms_id()), c.size(), c.is_ntt_form() as u8, c.scale().to_bits(), c.correction_factor(), fl(c.data()))
}
pub fn x_ct(c: &Ciphertext) -> String { format!("{}|k={},n={}", d_ct(c), c.coeff_modulus_size(), c.poly_modulus_degree()) }
pub fn d_vec<T>(v: &[T], d: &dyn Fn(&T) -> String) -> String { format!("V[{}]", v.iter().map(|x| d(x)).collect::<Vec<_>>().join("+")) }
pub fn d_ks(k: &KSwitchKeys, d: &dyn Fn(&Ciphertext) -> String) -> String {
    let rows = k.keys();
    format!("K:{}:{}", dots(k.parms_id()), if rows.is_empty() { "-".to_string() } else {
        rows.iter().map(|r| if r.is_empty() { "_".to_string() } else { r.iter().map(|p| d(p.as_ciphertext())).collect::<Vec<_>>().join("+") }).collect::<Vec<_>>().join(";") })
}
pub fn d_c1(c: &Cipher1d, d: &dyn Fn(&Ciphertext) -> String) -> String { d_vec(&c.data, d) }
pub fn d_c2(c: &Cipher2d, d: &dyn Fn(&Ciphertext) -> String) -> String { d_vec(&c.data, &|x| d_c1(x, d)) }
pub fn d_c3(c: &Cipher3d, d: &dyn Fn(&Ciphertext) -> String) -> String { d_vec(&c.data, &|x| d_c2(x, d)) }
pub fn d_p1(c: &Plain1d, d: &dyn Fn(&Plaintext) -> String) -> String { d_vec(&c.data, d) }
pub fn d_p2(c: &Plain2d, d: &dyn Fn(&Plaintext) -> String) -> String { d_vec(&c.data, &|x| d_p1(x, d)) }
pub fn d_p3(c: &Plain3d, d: &dyn Fn(&Plaintext) -> String) -> String { d_vec(&c.data, &|x| d_p2(x, d)) }

// ---------------------------------------------------------------- object under test

pub type SerFn<'a> = Box<dyn Fn(&mut dyn Write) -> std::io::Result<usize> + 'a>;
/// deserialize from the slice (advancing it) and return (protocol dump, extended dump for the harness's own equality)
pub type DeFn<'a> = Box<dyn Fn(&mut &[u8]) -> std::io::Result<(String, String)> + 'a>;

pub struct Obj<'a> {
    pub ty: &'static str,
    pub ctx: String,
    pub terms: String,
    pub exp: String,          // seed-expansion table for the driver
    pub ser: SerFn<'a>,
    pub de: DeFn<'a>,
    /// second reader: same bytes in a context built independently from the serialized parameters
    pub de2: Option<DeFn<'a>>,
    pub size: usize,          // announced serialized size
    pub expect: String,       // extended dump of what a round trip must yield
    pub class: String,
}

fn seed_entry(c: &Ciphertext, ctx: &HeContext) -> Option<String> {
    if !c.contains_seed() { return None; }
    let kn = c.coeff_modulus_size() * c.poly_modulus_degree();
    let seed = c.data()[kn + 1..kn + 9].to_vec();
    let e = c.clone().expand_seed(ctx);
    Some(format!("{}:{}", dots(&seed), fl(e.poly(1))))
}
pub fn exp_table(cts: &[&Ciphertext], ctx: &HeContext) -> String {
    let v: Vec<String> = cts.iter().filter_map(|c| seed_entry(c, ctx)).collect();
    if v.is_empty() { "-".into() } else { v.join(";") }
}
pub fn expand_if(c: &Ciphertext, ctx: &HeContext) -> Ciphertext { if c.contains_seed() { c.clone().expand_seed(ctx) } else { c.clone() } }

/// what `deserialize_terms` must yield: selected coefficients of polynomial 0 (coefficient form), zeros elsewhere
pub fn terms_expect(c: &Ciphertext, ctx: &HeContext, terms: &[usize]) -> Ciphertext {
    let mut e = expand_if(c, ctx);
    let cd = ctx.get_context_data(c.parms_id()).unwrap();
    let (k, n) = (c.coeff_modulus_size(), c.poly_modulus_degree());
    for j in 0..k {
        let mut comp = c.poly_component(0, j).to_vec();
        if c.is_ntt_form() { pm::intt(&mut comp, &cd.small_ntt_tables()[j]); }
        let mut m = vec![0u64; n];
        for &t in terms { m[t] = comp[t]; }
        if c.is_ntt_form() { pm::ntt(&mut m, &cd.small_ntt_tables()[j]); }
        e.poly_component_mut(0, j).copy_from_slice(&m);
    }
    e
}

/// boundary-heavy residue below q
pub fn residue(r: &mut Rng, q: u64) -> u64 {
    let w = ((64 - q.leading_zeros() as usize) + 7) / 8;
    let top = if w >= 1 { 1u64.checked_shl(8 * (w as u32 - 1)).unwrap_or(0) } else { 0 };
    let v = match r.below(8) { 0 => 0, 1 => q - 1, 2 => top, 3 => top.wrapping_sub(1), 4 => 255, 5 => 256, _ => r.next() };
    v % q
}

pub fn rand_ct(r: &mut Rng, ci: &CtxInfo, lv: &Lv, size: usize, ntt: bool) -> Ciphertext {
    let (k, n) = (lv.moduli.len(), lv.n);
    let mut data = vec![0u64; size * k * n];
    for i in 0..size { for j in 0..k { for c in 0..n { data[(i * k + j) * n + c] = residue(r, lv.moduli[j]); } } }
    let scale = if ci.scheme == SchemeType::CKKS { *r.pick(&[1.0f64, 1099511627776.0, 3.5e12, 1.0e-3, 1.2089258196146292e24]) } else { 1.0 };
    let cf = if ci.scheme == SchemeType::BGV { 1 + r.below(ci.parms.plain_modulus().value().max(2) - 1) } else { 1 };
    Ciphertext::from_members(size, k, n, data, lv.pid, scale, cf, ntt)
}

pub fn rand_plain(r: &mut Rng, pid: ParmsID, len: usize, bound: u64, scale: f64) -> Plaintext {
    let mut p = Plaintext::new();
    p.set_parms_id(pid);
    p.set_coeff_count(len);
    *p.data_mut() = (0..len).map(|_| match r.below(5) { 0 => 0, 1 => bound.wrapping_sub(1), _ => r.next() % bound.max(1) }).collect();
    p.set_scale(scale);
    p
}

pub fn rand_terms(r: &mut Rng, n: usize) -> Vec<usize> {
    match r.below(5) {
        0 => vec![],
        1 => (0..n).collect(),
        2 => vec![n - 1],
        _ => { let mut v: Vec<usize> = (0..n).filter(|_| r.chance(1, 2)).collect(); if r.chance(1, 2) { v.reverse(); } v }
    }
}

pub fn mk_ct<'a>(ci: &'a CtxInfo, ci2: Option<&'a CtxInfo>, c: Ciphertext, class: String) -> Obj<'a> {
    let ctx = &*ci.ctx;
    let exp = exp_table(&[&c], ctx);
    let expect = x_ct(&expand_if(&c, ctx));
    let size = c.serialized_size(ctx);
    let c2 = c.clone();
    Obj { ty: "ct", ctx: ci.token.clone(), terms: "-".into(), exp, size, expect, class,
        ser: Box::new(move |mut w| c2.serialize(ctx, &mut w)),
        de: Box::new(move |s| Ciphertext::deserialize(ctx, s).map(|x| (d_ct(&x), x_ct(&x)))),
        de2: ci2.map(|c2i| { let cx: &'a HeContext = &*c2i.ctx; Box::new(move |s: &mut &[u8]| Ciphertext::deserialize(cx, s).map(|x| (d_ct(&x), x_ct(&x)))) as DeFn<'a> }) }
}
pub fn mk_ctfull<'a>(ci: &'a CtxInfo, c: Ciphertext, class: String) -> Obj<'a> {
    let ctx = &*ci.ctx;
    let exp = exp_table(&[&c], ctx);
    let expect = x_ct(&expand_if(&c, ctx));
    let size = c.serialized_full_size(ctx);
    Obj { ty: "ctfull", ctx: ci.token.clone(), terms: "-".into(), exp, size, expect, class,
        ser: Box::new(move |mut w| c.serialize_full(ctx, &mut w)),
        de: Box::new(move |s| Ciphertext::deserialize_full(ctx, s).map(|x| (d_ct(&x), x_ct(&x)))), de2: None }
}
pub fn mk_ctterms<'a>(ci: &'a CtxInfo, c: Ciphertext, terms: Vec<usize>, class: String) -> Obj<'a> {
    let ctx = &*ci.ctx;
    let exp = exp_table(&[&c], ctx);
    let expect = x_ct(&terms_expect(&c, ctx, &terms));
    let size = c.serialized_terms_size(ctx, terms.len());
    let (t1, t2) = (terms.clone(), terms.clone());
    Obj { ty: "ctterms", ctx: ci.token.clone(), terms: flu(&terms), exp, size, expect, class,
        ser: Box::new(move |mut w| c.serialize_terms(ctx, &t1, &mut w)),
        de: Box::new(move |s| Ciphertext::deserialize_terms(ctx, &t2, s).map(|x| (d_ct(&x), x_ct(&x)))), de2: None }
}
pub fn ks_expanded(k: &KSwitchKeys, ctx: &HeContext) -> KSwitchKeys {
    KSwitchKeys::from_members(*k.parms_id(), k.keys().iter().map(|r| r.iter().map(|p| PublicKey::new(expand_if(p.as_ciphertext(), ctx))).collect()).collect())
}
pub fn mk_ksk<'a>(ci: &'a CtxInfo, ci2: Option<&'a CtxInfo>, k: KSwitchKeys, class: String) -> Obj<'a> {
    let ctx = &*ci.ctx;
    let cts: Vec<&Ciphertext> = k.keys().iter().flat_map(|r| r.iter().map(|p| p.as_ciphertext())).collect();
    let exp = exp_table(&cts, ctx);
    let expect = d_ks(&ks_expanded(&k, ctx), &x_ct);
    let size = k.serialized_size(ctx);
    Obj { ty: "ksk", ctx: ci.token.clone(), terms: "-".into(), exp, size, expect, class,
        ser: Box::new(move |mut w| k.serialize(ctx, &mut w)),
        de: Box::new(move |s| KSwitchKeys::deserialize(ctx, s).map(|x| (d_ks(&x, &d_ct), d_ks(&x, &x_ct)))),
        de2: ci2.map(|c2i| { let cx: &'a HeContext = &*c2i.ctx; Box::new(move |s: &mut &[u8]| KSwitchKeys::deserialize(cx, s).map(|x| (d_ks(&x, &d_ct), d_ks(&x, &x_ct)))) as DeFn<'a> }) }
}
pub fn mk_plain<'a>(p: Plaintext, class: String) -> Obj<'a> {
    let expect = x_plain(&p); let size = p.serialized_size();
    Obj { ty: "plain", ctx: "-".into(), terms: "-".into(), exp: "-".into(), size, expect, class,
        ser: Box::new(move |mut w| p.serialize(&mut w)),
        de: Box::new(|s| Plaintext::deserialize(s).map(|x| (d_plain(&x), x_plain(&x)))), de2: None }
}
pub fn mk_params<'a>(p: EncryptionParameters, class: String) -> Obj<'a> {
    let expect = format!("{}|pid={}", d_params(&p), dots(p.parms_id())); let size = p.serialized_size();
    Obj { ty: "params", ctx: "-".into(), terms: "-".into(), exp: "-".into(), size, expect, class,
        ser: Box::new(move |mut w| p.serialize(&mut w)),
        de: Box::new(|s| EncryptionParameters::deserialize(s).map(|x| (d_params(&x), format!("{}|pid={}", d_params(&x), dots(x.parms_id()))))), de2: None }
}
pub fn mk_scalar<'a, T: Serializable + Clone + 'a>(ty: &'static str, v: T, d: fn(&T) -> String, class: String) -> Obj<'a> {
    let expect = d(&v); let size = v.serialized_size();
    Obj { ty, ctx: "-".into(), terms: "-".into(), exp: "-".into(), size, expect, class,
        ser: Box::new(move |mut w| v.serialize(&mut w)),
        de: Box::new(move |s| T::deserialize(s).map(|x| (d(&x), d(&x)))), de2: None }
}

pub fn mk_c1d<'a>(ci: &'a CtxInfo, c: Cipher1d, class: String) -> Obj<'a> {
    let ctx = &*ci.ctx;
    let cts: Vec<&Ciphertext> = c.data.iter().collect();
    let exp = exp_table(&cts, ctx);
    let expect = d_vec(&c.data, &|x| x_ct(&expand_if(x, ctx)));
    let size = c.serialized_size(ctx);
    Obj { ty: "c1d", ctx: ci.token.clone(), terms: "-".into(), exp, size, expect, class,
        ser: Box::new(move |mut w| c.serialize(ctx, &mut w)),
        de: Box::new(move |s| Cipher1d::deserialize(ctx, s).map(|x| (d_c1(&x, &d_ct), d_c1(&x, &x_ct)))), de2: None }
}
pub fn mk_c2d<'a>(ci: &'a CtxInfo, c: Cipher2d, class: String) -> Obj<'a> {
    let ctx = &*ci.ctx;
    let cts: Vec<&Ciphertext> = c.data.iter().flat_map(|r| r.data.iter()).collect();
    let exp = exp_table(&cts, ctx);
    let expect = d_c2(&c, &|x| x_ct(&expand_if(x, ctx)));
    let size = c.serialized_size(ctx);
    Obj { ty: "c2d", ctx: ci.token.clone(), terms: "-".into(), exp, size, expect, class,
        ser: Box::new(move |mut w| c.serialize(ctx, &mut w)),
        de: Box::new(move |s| Cipher2d::deserialize(ctx, s).map(|x| (d_c2(&x, &d_ct), d_c2(&x, &x_ct)))), de2: None }
}
pub fn mk_c3d<'a>(ci: &'a CtxInfo, c: Cipher3d, class: String) -> Obj<'a> {
    let ctx = &*ci.ctx;
    let cts: Vec<&Ciphertext> = c.data.iter().flat_map(|p| p.data.iter().flat_map(|r| r.data.iter())).collect();
    let exp = exp_table(&cts, ctx);
    let expect = d_c3(&c, &|x| x_ct(&expand_if(x, ctx)));
    let size = c.serialized_size(ctx);
    Obj { ty: "c3d", ctx: ci.token.clone(), terms: "-".into(), exp, size, expect, class,
        ser: Box::new(move |mut w| c.serialize(ctx, &mut w)),
        de: Box::new(move |s| Cipher3d::deserialize(ctx, s).map(|x| (d_c3(&x, &d_ct), d_c3(&x, &x_ct)))), de2: None }
}
pub fn mk_c1dt<'a>(ci: &'a CtxInfo, c: Cipher1d, terms: Vec<usize>, class: String) -> Obj<'a> {
    let ctx = &*ci.ctx;
    let cts: Vec<&Ciphertext> = c.data.iter().collect();
    let exp = exp_table(&cts, ctx);
    let expect = d_vec(&c.data, &|x| x_ct(&terms_expect(x, ctx, &terms)));
    let size = c.serialized_terms_size(ctx, terms.len());
    let (t1, t2) = (terms.clone(), terms.clone());
    Obj { ty: "c1dt", ctx: ci.token.clone(), terms: flu(&terms), exp, size, expect, class,
        ser: Box::new(move |mut w| c.serialize_terms(ctx, &t1, &mut w)),
        de: Box::new(move |s| Cipher1d::deserialize_terms(ctx, &t2, s).map(|x| (d_c1(&x, &d_ct), d_c1(&x, &x_ct)))), de2: None }
}
pub fn mk_c2dt<'a>(ci: &'a CtxInfo, c: Cipher2d, terms: Vec<usize>, class: String) -> Obj<'a> {
    let ctx = &*ci.ctx;
    let cts: Vec<&Ciphertext> = c.data.iter().flat_map(|r| r.data.iter()).collect();
    let exp = exp_table(&cts, ctx);
    let expect = d_c2(&c, &|x| x_ct(&terms_expect(x, ctx, &terms)));
    let size = c.serialized_terms_size(ctx, terms.len());
    let (t1, t2) = (terms.clone(), terms.clone());
    Obj { ty: "c2dt", ctx: ci.token.clone(), terms: flu(&terms), exp, size, expect, class,
        ser: Box::new(move |mut w| c.serialize_terms(ctx, &t1, &mut w)),
        de: Box::new(move |s| Cipher2d::deserialize_terms(ctx, &t2, s).map(|x| (d_c2(&x, &d_ct), d_c2(&x, &x_ct)))), de2: None }
}
pub fn mk_c3dt<'a>(ci: &'a CtxInfo, c: Cipher3d, terms: Vec<usize>, class: String) -> Obj<'a> {
    let ctx = &*ci.ctx;
    let cts: Vec<&Ciphertext> = c.data.iter().flat_map(|p| p.data.iter().flat_map(|r| r.data.iter())).collect();
    let exp = exp_table(&cts, ctx);
    let expect = d_c3(&c, &|x| x_ct(&terms_expect(x, ctx, &terms)));
    let size = c.serialized_terms_size(ctx, terms.len());
    let (t1, t2) = (terms.clone(), terms.clone());
    Obj { ty: "c3dt", ctx: ci.token.clone(), terms: flu(&terms), exp, size, expect, class,
        ser: Box::new(move |mut w| c.serialize_terms(ctx, &t1, &mut w)),
        de: Box::new(move |s| Cipher3d::deserialize_terms(ctx, &t2, s).map(|x| (d_c3(&x, &d_ct), d_c3(&x, &x_ct)))), de2: None }
}
pub fn mk_p1d<'a>(c: Plain1d, class: String) -> Obj<'a> {
    let expect = d_p1(&c, &x_plain); let size = c.serialized_size();
    Obj { ty: "p1d", ctx: "-".into(), terms: "-".into(), exp: "-".into(), size, expect, class,
        ser: Box::new(move |mut w| c.serialize(&mut w)),
        de: Box::new(|s| Plain1d::deserialize(s).map(|x| (d_p1(&x, &d_plain), d_p1(&x, &x_plain)))), de2: None }
}
pub fn mk_p2d<'a>(c: Plain2d, class: String) -> Obj<'a> {
    let expect = d_p2(&c, &x_plain); let size = c.serialized_size();
    Obj { ty: "p2d", ctx: "-".into(), terms: "-".into(), exp: "-".into(), size, expect, class,
        ser: Box::new(move |mut w| c.serialize(&mut w)),
        de: Box::new(|s| Plain2d::deserialize(s).map(|x| (d_p2(&x, &d_plain), d_p2(&x, &x_plain)))), de2: None }
}
pub fn mk_p3d<'a>(c: Plain3d, class: String) -> Obj<'a> {
    let expect = d_p3(&c, &x_plain); let size = c.serialized_size();
    Obj { ty: "p3d", ctx: "-".into(), terms: "-".into(), exp: "-".into(), size, expect, class,
        ser: Box::new(move |mut w| c.serialize(&mut w)),
        de: Box::new(|s| Plain3d::deserialize(s).map(|x| (d_p3(&x, &d_plain), d_p3(&x, &x_plain)))), de2: None }
}
pub fn mk_polyser<'a>(ci: &'a CtxInfo, pid: ParmsID, data: Vec<u64>, class: String) -> Obj<'a> {
    let ctx = &*ci.ctx;
    let n = ctx.first_context_data().unwrap().parms().poly_modulus_degree();
    let mut want = data.clone();
    if pid == PARMS_ID_ZERO { want.resize(n, 0); }
    let expect = format!("Y:{}:{}", dots(&pid), fl(&want));
    let size = (PolynomialSerializer {}).serialized_polynomial_size(ctx, pid);
    Obj { ty: "polyser", ctx: ci.token.clone(), terms: "-".into(), exp: "-".into(), size, expect, class,
        ser: Box::new(move |mut w| PolynomialSerializer::serialize_polynomial(ctx, &mut w, &data, pid)),
        de: Box::new(move |s| PolynomialSerializer::deserialize_polynomial(ctx, s).map(|x| { let d = format!("Y:{}:{}", dots(&pid), fl(&x)); (d.clone(), d) })), de2: None }
}
pub fn mk_rnspct<'a>(cis: &'a [CtxInfo], rctx: &'a RnspHeContext, c: RnspCiphertext, class: String) -> Obj<'a> {
    let token = cis.iter().map(|c| c.token.clone()).collect::<Vec<_>>().join("~");
    let exp = { let v: Vec<String> = c.components.iter().zip(cis.iter()).filter_map(|(x, ci)| seed_entry(x, &ci.ctx)).collect(); if v.is_empty() { "-".to_string() } else { v.join(";") } };
    let expect = format!("V[{}]", c.components.iter().zip(cis.iter()).map(|(x, ci)| x_ct(&expand_if(x, &ci.ctx))).collect::<Vec<_>>().join("+"));
    let size = c.serialized_size(rctx);
    Obj { ty: "rnspct", ctx: token, terms: "-".into(), exp, size, expect, class,
        ser: Box::new(move |mut w| c.serialize(rctx, &mut w)),
        de: Box::new(move |s| RnspCiphertext::deserialize(rctx, s).map(|x| (d_vec(&x.components, &d_ct), d_vec(&x.components, &x_ct)))), de2: None }
}

// ---------------------------------------------------------------- suites of objects

pub struct Suite { pub ci: CtxInfo, pub ci2: Option<CtxInfo>, pub keygen: KeyGenerator, pub enc: Encryptor }

pub fn suite(scheme: SchemeType, n: usize, bits: &[usize], t: u64, special: bool) -> Option<Suite> {
    let moduli = primes_for(n, bits)?;
    let ci = build_ctx(scheme, n, &moduli, t, special)?;
    // a second context built independently from the *deserialized* parameters
    let mut buf = vec![];
    ci.parms.serialize(&mut buf).ok()?;
    let p2 = std::panic::catch_unwind(|| EncryptionParameters::deserialize(&mut buf.as_slice())).ok()?.ok()?;
    let ci2 = std::panic::catch_unwind(|| { let c = HeContext::new(p2.clone(), true, SecurityLevel::None); c }).ok().map(|c| ctx_info(c, p2));
    // key generation uses the library's own entropy; for tiny N it can refuse (panic): the family is skipped with a note
    let ctxc = ci.ctx.clone();
    let r = std::panic::catch_unwind(std::panic::AssertUnwindSafe(move || {
        let keygen = KeyGenerator::new(ctxc.clone());
        let pk = keygen.create_public_key(false);
        let enc = Encryptor::new(ctxc.clone()).set_public_key(pk).set_secret_key(keygen.secret_key().clone());
        (keygen, enc)
    }));
    match r {
        Ok((keygen, enc)) => Some(Suite { ci, ci2, keygen, enc }),
        Err(_) => { eprintln!("suite: key generation panicked: {}", LAST_PANIC.with(|p| p.borrow().clone())); None }
    }
}

/// data levels (everything after the key level when a special prime is used)
pub fn data_levels(ci: &CtxInfo) -> Vec<&Lv> {
    let first = *ci.ctx.first_parms_id();
    let start = ci.levels.iter().position(|l| l.pid == first).unwrap_or(0);
    ci.levels[start..].iter().collect()
}

pub fn try_obj<T>(f: impl FnOnce() -> T) -> Option<T> { std::panic::catch_unwind(std::panic::AssertUnwindSafe(f)).ok() }

/// every object type of the property for one suite; `budget` bounds the sizes
pub fn objects<'a>(r: &mut Rng, s: &'a Suite, big: bool) -> Vec<Obj<'a>> {
    let ci = &s.ci; let ci2 = s.ci2.as_ref();
    let mut v: Vec<Obj<'a>> = vec![];
    let tag = format!("{}n{}k{}", ci.levels[0].scheme, ci.levels[0].n, ci.levels[0].moduli.len());
    v.push(mk_params(ci.parms.clone(), format!("params-{}", tag)));
    let levels = data_levels(ci);
    let isckks = ci.scheme == SchemeType::CKKS;
    // plaintexts: polynomial (zero id) and per-level (CKKS / NTT-form)
    let t = if isckks { 1 << 20 } else { ci.parms.plain_modulus().value() };
    v.push(mk_plain(rand_plain(r, PARMS_ID_ZERO, ci.levels[0].n, t, 1.0), format!("plain-poly-{}", tag)));
    v.push(mk_plain(rand_plain(r, PARMS_ID_ZERO, 0, t, 1.0), format!("plain-empty-{}", tag)));
    for (li, lv) in levels.iter().enumerate() {
        let len = lv.n * lv.moduli.len();
        v.push(mk_plain(rand_plain(r, lv.pid, len, lv.moduli[0], if isckks { 1099511627776.0 } else { 1.0 }), format!("plain-l{}-{}", li, tag)));
    }
    // secret key (as plaintext bytes)
    { let sk = s.keygen.secret_key().clone();
      let mut o = mk_plain(sk.as_plaintext().clone(), format!("sk-{}", tag)); o.size = sk.serialized_size();
      let sk2 = sk.clone(); o.ser = Box::new(move |mut w| sk2.serialize(&mut w));
      o.de = Box::new(|s| SecretKey::deserialize(s).map(|x| (d_plain(x.as_plaintext()), x_plain(x.as_plaintext()))));
      v.push(o); }
    // ciphertexts: all levels x sizes x both representations, all three formats
    let sizes: Vec<usize> = if big { (2..=16).collect() } else { vec![2, 3, *r.pick(&[4, 7, 16])] };
    for (li, lv) in levels.iter().enumerate() {
        for &size in &sizes {
            for &ntt in &[false, true] {
                if !big && size > 3 && ntt != (li % 2 == 0) { continue; }
                let c = rand_ct(r, ci, lv, size, ntt);
                v.push(mk_ct(ci, ci2, c.clone(), format!("ct-l{}s{}ntt{}-{}", li, size, ntt as u8, tag)));
                if size <= 3 || big { v.push(mk_ctfull(ci, c.clone(), format!("ctfull-l{}s{}-{}", li, size, tag))); }
                let terms = rand_terms(r, lv.n);
                v.push(mk_ctterms(ci, c, terms, format!("ctterms-l{}s{}ntt{}-{}", li, size, ntt as u8, tag)));
            }
        }
        // real encryptions: asymmetric and symmetric (seeded) at this level
        if let Some(c) = try_obj(|| s.enc.encrypt_zero_new_at(&lv.pid)) {
            v.push(mk_ct(ci, ci2, c.clone(), format!("ct-enc-l{}-{}", li, tag)));
            v.push(mk_ctfull(ci, c, format!("ctfull-enc-l{}-{}", li, tag)));
        }
    }
    // seeded ciphertexts (first level; need k*N >= 9 words for the seed)
    if let Some(c) = try_obj(|| s.enc.encrypt_zero_symmetric_new()) {
        if c.contains_seed() {
            v.push(mk_ct(ci, ci2, c.clone(), format!("ct-seeded-{}", tag)));
            v.push(mk_ctfull(ci, c.clone(), format!("ctfull-seeded-{}", tag)));
            let n = c.poly_modulus_degree();
            v.push(mk_ctterms(ci, c.clone(), rand_terms(r, n), format!("ctterms-seeded-{}", tag)));
            // containers mixing seeded and expanded items
            let e = expand_if(&c, &ci.ctx);
            v.push(mk_c1d(ci, Cipher1d::new(vec![c.clone(), e.clone()]), format!("c1d-mixed-{}", tag)));
            v.push(mk_c1dt(ci, Cipher1d::new(vec![c.clone(), e.clone()]), rand_terms(r, n), format!("c1dt-mixed-{}", tag)));
        }
    }
    // keys: public (seeded / not), relin, galois with holes, plain key-switching key
    let has_ks = ci.ctx.using_keyswitching();
    for &seed in &[false, true] {
        if let Some(pk) = try_obj(|| s.keygen.create_public_key(seed)) {
            let mut o = mk_ct(ci, ci2, pk.as_ciphertext().clone(), format!("pk-seed{}-{}", seed as u8, tag));
            let ctx = &*ci.ctx; let pk2 = pk.clone();
            o.size = pk.serialized_size(ctx);
            o.ser = Box::new(move |mut w| pk2.serialize(ctx, &mut w));
            o.de = Box::new(move |s| PublicKey::deserialize(ctx, s).map(|x| (d_ct(x.as_ciphertext()), x_ct(x.as_ciphertext()))));
            o.de2 = None;
            v.push(o);
        }
        if has_ks {
            if let Some(rk) = try_obj(|| s.keygen.create_relin_keys(seed)) {
                let mut o = mk_ksk(ci, ci2, rk.as_kswitch_keys().clone(), format!("relin-seed{}-{}", seed as u8, tag));
                let ctx = &*ci.ctx; let rk2 = rk.clone();
                o.size = rk.serialized_size(ctx);
                o.ser = Box::new(move |mut w| rk2.serialize(ctx, &mut w));
                o.de = Box::new(move |s| RelinKeys::deserialize(ctx, s).map(|x| (d_ks(x.as_kswitch_keys(), &d_ct), d_ks(x.as_kswitch_keys(), &x_ct))));
                v.push(o);
            }
            let n = ci.levels[0].n;
            let elts: Vec<usize> = if n >= 4 { vec![3, 2 * n - 1] } else { vec![3] };
            if let Some(gk) = try_obj(|| s.keygen.create_galois_keys_from_elts(&elts, seed)) {
                let mut o = mk_ksk(ci, ci2, gk.as_kswitch_keys().clone(), format!("galois-holes-seed{}-{}", seed as u8, tag));
                let ctx = &*ci.ctx; let gk2 = gk.clone();
                o.size = gk.serialized_size(ctx);
                o.ser = Box::new(move |mut w| gk2.serialize(ctx, &mut w));
                o.de = Box::new(move |s| GaloisKeys::deserialize(ctx, s).map(|x| (d_ks(x.as_kswitch_keys(), &d_ct), d_ks(x.as_kswitch_keys(), &x_ct))));
                v.push(o);
            }
            if let Some(kk) = try_obj(|| { let other = KeyGenerator::new(ci.ctx.clone()); s.keygen.create_keyswitching_key(other.secret_key(), seed) }) {
                v.push(mk_ksk(ci, ci2, kk, format!("kswitch-seed{}-{}", seed as u8, tag)));
            }
        }
    }
    // key set with no entries at all / only empty rows
    v.push(mk_ksk(ci, ci2, KSwitchKeys::from_members(ci.levels[0].pid, vec![]), format!("ksk-empty-{}", tag)));
    v.push(mk_ksk(ci, ci2, KSwitchKeys::from_members(ci.levels[0].pid, vec![vec![], vec![], vec![]]), format!("ksk-emptyrows-{}", tag)));
    // containers (incl. empty ones at every depth)
    let lv = levels[0];
    let ct = |r: &mut Rng| { let ntt = r.chance(1, 2); rand_ct(r, ci, lv, 2, ntt) };
    let c1 = Cipher1d::new(vec![ct(r), ct(r), ct(r)]);
    v.push(mk_c1d(ci, Cipher1d::new(vec![]), format!("c1d-empty-{}", tag)));
    v.push(mk_c1d(ci, c1.clone(), format!("c1d-{}", tag)));
    v.push(mk_c1dt(ci, c1.clone(), rand_terms(r, lv.n), format!("c1dt-{}", tag)));
    v.push(mk_c1dt(ci, Cipher1d::new(vec![]), rand_terms(r, lv.n), format!("c1dt-empty-{}", tag)));
    let c2 = Cipher2d::new(vec![vec![ct(r), ct(r)], vec![], vec![ct(r)]]);
    v.push(mk_c2d(ci, Cipher2d::new(vec![]), format!("c2d-empty-{}", tag)));
    v.push(mk_c2d(ci, c2.clone(), format!("c2d-ragged-{}", tag)));
    v.push(mk_c2dt(ci, c2.clone(), rand_terms(r, lv.n), format!("c2dt-{}", tag)));
    let c3 = Cipher3d::new_2ds(vec![c2.clone(), Cipher2d::new(vec![]), Cipher2d::new(vec![vec![ct(r)]])]);
    v.push(mk_c3d(ci, Cipher3d::new_2ds(vec![]), format!("c3d-empty-{}", tag)));
    v.push(mk_c3d(ci, c3.clone(), format!("c3d-{}", tag)));
    v.push(mk_c3dt(ci, c3, rand_terms(r, lv.n), format!("c3dt-{}", tag)));
    let pt = |r: &mut Rng| rand_plain(r, PARMS_ID_ZERO, lv.n, t, 1.0);
    let p1 = Plain1d::new(vec![pt(r), pt(r)]);
    v.push(mk_p1d(Plain1d::new(vec![]), format!("p1d-empty-{}", tag)));
    v.push(mk_p1d(p1.clone(), format!("p1d-{}", tag)));
    let p2 = Plain2d::new(vec![vec![pt(r)], vec![], vec![pt(r), pt(r)]]);
    v.push(mk_p2d(p2.clone(), format!("p2d-ragged-{}", tag)));
    v.push(mk_p3d(Plain3d::new_2ds(vec![p2, Plain2d::new(vec![])]), format!("p3d-{}", tag)));
    // PolynomialSerializer: ciphertext polynomial at every level; plaintext polynomial (zero id), short and full
    for (li, lv) in levels.iter().enumerate() {
        let data: Vec<u64> = (0..lv.moduli.len()).flat_map(|j| (0..lv.n).map(move |_| j)).map(|j| residue(r, lv.moduli[j])).collect();
        v.push(mk_polyser(ci, lv.pid, data, format!("polyser-l{}-{}", li, tag)));
    }
    if !isckks {
        let n = levels[0].n;
        for len in [0usize, 1, n / 2, n] {
            let data: Vec<u64> = (0..len).map(|_| residue(r, t)).collect();
            v.push(mk_polyser(ci, PARMS_ID_ZERO, data, format!("polyser-plain-len{}-{}", len, tag)));
        }
    }
    v
}

pub fn scalar_objects<'a>(r: &mut Rng) -> Vec<Obj<'a>> {
    let mut v: Vec<Obj<'a>> = vec![];
    for x in [0x0807060504030201u64, 0, u64::MAX, 255, 256, r.next()] { v.push(mk_scalar("u64", x, |x| x.to_string(), "u64".into())); }
    for x in [0usize, 1, usize::MAX, r.next() as usize] { v.push(mk_scalar("usize", x, |x| x.to_string(), "usize".into())); }
    for x in [0u8, 1, 255, r.next() as u8] { v.push(mk_scalar("u8", x, |x| x.to_string(), "u8".into())); }
    for x in [false, true] { v.push(mk_scalar("bool", x, |x| (*x as u8).to_string(), "bool".into())); }
    for x in [1.0f64, -0.0, f64::INFINITY, 1e-300, 1099511627776.0] { v.push(mk_scalar("f64", x, |x| x.to_bits().to_string(), "f64".into())); }
    for x in [2u64, 65537, (1 << 61) - 1] { v.push(mk_scalar("modulus", Modulus::new(x), |x| x.value().to_string(), "modulus".into())); }
    for x in [SchemeType::None, SchemeType::BFV, SchemeType::CKKS, SchemeType::BGV] { v.push(mk_scalar("scheme", x, |x| scheme_u8(*x).to_string(), "scheme".into())); }
    v.push(mk_scalar("pid", [r.next(), 0, u64::MAX, r.next()], |x: &ParmsID| dots(x), "parmsid".into()));
    for len in [0usize, 1, 5] { let x: Vec<u64> = (0..len).map(|_| r.word()).collect(); v.push(mk_scalar("vecu64", x, |x| fl(x), format!("vecu64-{}", len))); }
    let ms: Vec<Modulus> = vec![Modulus::new(17), Modulus::new(1099511627791)];
    v.push(mk_scalar("vecmod", ms, |x: &Vec<Modulus>| fl(&x.iter().map(|m| m.value()).collect::<Vec<_>>()), "vecmod".into()));
    v
}

/// parameter families: primes straddling every byte boundary
pub fn families(thorough: bool) -> Vec<(SchemeType, usize, Vec<usize>, u64, bool)> {
    use SchemeType::*;
    let mut f = vec![
        (BFV, 4, vec![8, 9, 17, 16], 17, true),
        (BFV, 8, vec![24, 25, 33, 32], 97, true),
        (BGV, 8, vec![40, 41, 49, 48], 17, true),
        (CKKS, 8, vec![56, 57, 60, 59], 0, true),
        (BFV, 16, vec![7, 8], 3, true),
        (BGV, 4, vec![60, 24, 17, 40], 41, false),
        (CKKS, 16, vec![30], 0, false),
        (BFV, 2, vec![3, 4, 8, 10, 12], 3, true),
    ];
    if thorough {
        f.extend(vec![
            (BFV, 64, vec![30, 40, 40], 257, true),
            (CKKS, 32, vec![16, 17, 24, 25, 32], 0, true),
            (BGV, 16, vec![7, 8, 9, 15, 16, 17], 97, true),
            (BFV, 8, vec![33, 41, 48, 49, 56, 57], 1153, true),
            (CKKS, 4, vec![9, 10], 0, true),
            (BGV, 32, vec![60, 60, 60], 65537, true),
        ]);
    }
    f
}

/// rns_plain: two component contexts sharing the coefficient modulus, different plain moduli
pub fn rnsp_suite(n: usize, bits: &[usize], ts: &[u64]) -> Option<(RnspHeContext, Vec<CtxInfo>)> {
    let moduli = primes_for(n, bits)?;
    let mut cis = vec![];
    for &t in ts { cis.push(build_ctx(SchemeType::BFV, n, &moduli, t, true)?); }
    let rctx = RnspHeContext { components: cis.iter().map(|c| c.ctx.clone()).collect() };
    Some((rctx, cis))
}

#[allow(dead_code)]
pub fn read_all<R: Read>(mut r: R) -> Vec<u8> { let mut v = vec![]; let _ = r.read_to_end(&mut v); v }
