//! C10: RNS base tools (CRT, base conversion, BEHZ toolbox) — real code vs model/spec.
use crate::big::Big;
use crate::rng::Rng;
use crate::util::*;
use heathcliff::util as hu;
use heathcliff::Modulus;

fn gcd(a: u64, b: u64) -> u64 { if b == 0 { a } else { gcd(b, a % b) } }

/// 1..8 pairwise coprime moduli of 2..60 bits (not necessarily prime), any order
fn coprime_base(r: &mut Rng, k: usize, small: bool) -> Vec<u64> {
    let mut v: Vec<u64> = vec![];
    let mut guard = 0;
    while v.len() < k && guard < 10000 {
        guard += 1;
        let bits = if small { r.range(2, 6) } else { *r.pick(&[2u64, 3, 8, 16, 20, 31, 32, 33, 45, 59, 60]) } as u32;
        let c = match r.below(4) { 0 => (1u64 << bits) - 1, 1 => (1u64 << (bits - 1)) + 1, _ => r.bits(bits) };
        if c < 2 { continue; }
        if v.iter().all(|&x| gcd(x, c) == 1) { v.push(c); }
    }
    match r.below(3) { 0 => v.sort(), 1 => { v.sort(); v.reverse(); } _ => {} }
    v
}

/// NTT-friendly primes for degree n with the given bit sizes (distinct)
pub fn ntt_primes(r: &mut Rng, n: usize, bits: &[usize]) -> Vec<u64> {
    let mut out: Vec<u64> = vec![];
    for &b in bits {
        let ps = match [12usize, 4, 1].iter().find_map(|&c| std::panic::catch_unwind(|| hu::get_primes(2 * n as u64, b, c)).ok()) { Some(p) => p, None => continue };
        let mut tries = 0;
        loop { let p = ps[r.below(ps.len() as u64) as usize].value(); tries += 1; if !out.contains(&p) { out.push(p); break; } if tries > 50 { break; } }
    }
    out
}

/// NTT-friendly primes taken from the BOTTOM of each bit range (just above 2^(b-1)): the bit count of their product is smaller than the
/// sum of their bit counts (k primes of b bits give about k*b - k + 1 bits), which separates "bits of Q" from "sum of bits"
pub fn ntt_primes_low(n: usize, bits: &[usize]) -> Vec<u64> {
    let mut out: Vec<u64> = vec![];
    for &b in bits {
        if b < 4 || b - 1 <= (2 * n).trailing_zeros() as usize { continue; }
        let (mut c, step, mut tries) = ((1u64 << (b - 1)) + 1, 2 * n as u64, 0);
        while tries < 20000 { if !out.contains(&c) && Modulus::new(c).is_prime() { out.push(c); break; } c += step; tries += 1; }
    }
    out
}

fn boundary_values(r: &mut Rng, qs: &[u64]) -> Vec<Big> {
    let q = Big::product(qs);
    let one = Big::from_u64(1);
    let half = q.half();
    let ql = *qs.last().unwrap();
    let mut v = vec![Big::from_u64(0), one.clone(), q.sub(&one), half.clone(), half.add(&one)];
    if !half.is_zero() { v.push(half.sub(&one)); }
    // multiples of q_last +- half of q_last
    let qrest = Big::product(&qs[..qs.len() - 1]);
    let m = Big::random_below(r, &qrest).mul_u64(ql);
    for d in [ql / 2, ql / 2 + 1, ql.saturating_sub(1) / 2] { let c = m.add_u64(d); if !c.ge(&q) { v.push(c); } }
    v.into_iter().filter(|x| !x.ge(&q)).collect()
}

fn residues(x: &Big, qs: &[u64]) -> Vec<u64> { qs.iter().map(|&q| x.mod_u64(q)).collect() }

/// a polynomial of n coefficients in RNS layout [comp][coeff] from integer coefficients
fn rns_poly(xs: &[Big], qs: &[u64]) -> Vec<Vec<u64>> { qs.iter().map(|&q| xs.iter().map(|x| x.mod_u64(q)).collect()).collect() }
fn flat(p: &[Vec<u64>]) -> Vec<u64> { p.iter().flatten().copied().collect() }
fn unflat(v: &[u64], n: usize) -> Vec<Vec<u64>> { v.chunks(n).map(|c| c.to_vec()).collect() }

fn coeffs(r: &mut Rng, qs: &[u64], n: usize) -> Vec<Big> {
    let q = Big::product(qs);
    let b = boundary_values(r, qs);
    (0..n).map(|_| if r.chance(1, 3) { b[r.below(b.len() as u64) as usize].clone() } else { Big::random_below(r, &q) }).collect()
}

pub fn run(out: &mut Out, thorough: bool, seed: u64, extra: &[String]) {
    let mut r = Rng::new(seed);
    if extra.first().map(|s| s == "exhaustive").unwrap_or(false) { exhaustive(out); return; }
    let reps = if thorough { 60 } else { 8 };
    // ---- RNSBase: decompose / compose, arbitrary pairwise coprime moduli
    // the first bases are directed: word-size NTT primes (60 / 61 / 50 bits, 3..8 moduli, one mixed) — multi-word accumulation with carries
    let directed: Vec<Vec<u64>> = [(60usize, 3usize), (60, 4), (61, 3), (50, 4), (60, 8)].iter().filter_map(|&(b, k)| std::panic::catch_unwind(|| hu::get_primes(2048, b, k).iter().map(|m| m.value()).collect::<Vec<u64>>()).ok())
        .chain(std::panic::catch_unwind(|| { let a = hu::get_primes(2048, 60, 2); let b = hu::get_primes(2048, 40, 1); let c = hu::get_primes(2048, 61, 1); vec![a[0].value(), a[1].value(), b[0].value(), c[0].value()] }).ok()).collect();
    for bi in 0..reps * 6 + directed.len() as u64 as usize {
        let k = if bi < directed.len() { directed[bi].len() } else { r.range(1, 8) as usize };
        let sm = r.chance(1, 4); let qs = if bi < directed.len() { directed[bi].clone() } else { coprime_base(&mut r, k, sm) };
        if qs.len() != k { continue; }
        let ms: Vec<Modulus> = qs.iter().map(|&q| Modulus::new(q)).collect();
        let base = match hu::RNSBase::new(&ms) { Ok(b) => b, Err(_) => { out.case(&format!("rns_compose {} {}", fl(&qs), fl(&vec![0; k])), "base-refused", || "ERR:refused".to_string()); continue; } };
        let mut vals = boundary_values(&mut r, &qs);
        let q = Big::product(&qs);
        for _ in 0..3 { vals.push(Big::random_below(&mut r, &q)); }
        // powers of two and their neighbours (all-zero / all-one inner limbs: carry chains through the multi-word accumulation of `compose`)
        if k >= 3 {
            let mut p = Big::from_u64(1); let mut e = 0usize; let mut pows: Vec<Big> = vec![];
            while !p.ge(&q) { pows.push(p.clone()); p = p.mul_u64(2); e += 1; }
            let from = if thorough || bi < directed.len() { 0 } else { e.saturating_sub(40) };
            for pw in &pows[from..] { for c in [pw.sub(&Big::from_u64(1)), pw.clone(), pw.add_u64(1)] { if !c.ge(&q) { vals.push(c); } } }
        }
        for x in vals {
            let cls = format!("k{}", k);
            out.case(&format!("rns_decompose {} {}", fl(&qs), x.to_dec()), &cls, || { let mut v = x.limbs(k); base.decompose(&mut v); fl(&v) });
            let rs = residues(&x, &qs);
            out.case(&format!("rns_compose {} {}", fl(&qs), fl(&rs)), &cls, || { let mut v = rs.clone(); base.compose(&mut v); Big::from_limbs(&v).to_dec() });
        }
        // arrays: the transposed layouts of decompose_array / compose_array against the single-value forms
        let cnt = r.range(1, 5) as usize;
        let xs: Vec<Big> = (0..cnt).map(|_| Big::random_below(&mut r, &q)).collect();
        let mut arr: Vec<u64> = xs.iter().flat_map(|x| x.limbs(k)).collect();
        let lhs = format!("rns_array_roundtrip {} {}", fl(&qs), xs.iter().map(|x| x.to_dec()).collect::<Vec<_>>().join(","));
        let want: Vec<u64> = rns_poly(&xs, &qs).into_iter().flatten().collect();
        let orig = arr.clone();
        let res = guard(|| { base.decompose_array(&mut arr); let dec = arr.clone(); base.compose_array(&mut arr); format!("{}", (dec == want && arr == orig) as u8) });
        if res == "1" { out.raw(&format!("!OK {} # arr-k{}", lhs, k)); } else { out.raw(&format!("!FAIL {} :: decompose_array/compose_array disagree with per-value CRT ({}) # arr-k{}", lhs, res, k)); }
        // fast base conversion to another coprime base; exact conversion to a single modulus
        let ko = r.range(1, 4) as usize;
        let mut os: Vec<u64> = vec![]; let mut g = 0;
        while os.len() < ko && g < 1000 { g += 1; let b = r.range(2, 61) as u32; let c = r.bits(b); if c >= 2 && qs.iter().chain(os.iter()).all(|&x| gcd(x, c) == 1) { os.push(c); } }
        if os.len() == ko {
            let oms: Vec<Modulus> = os.iter().map(|&q| Modulus::new(q)).collect();
            if let Ok(ob) = hu::RNSBase::new(&oms) {
                let n = 4usize;
                let cs = coeffs(&mut r, &qs, n);
                let p = rns_poly(&cs, &qs);
                let conv = hu::VerifBaseConverter::new(&base, &ob);
                out.case(&format!("fast_convert {} {} {} {}", fl(&qs), fl(&os), n, fl2(&p)), &format!("fc{}to{}", k, ko), || { let mut o = vec![0u64; ko * n]; conv.fast_convert_array(&flat(&p), &mut o); fl2(&unflat(&o, n)) });
                let p1 = os[0];
                if let Ok(ob1) = hu::RNSBase::new(&[Modulus::new(p1)]) {
                    let conv1 = hu::VerifBaseConverter::new(&base, &ob1);
                    out.case(&format!("exact_convey {} {} {} {}", fl(&qs), p1, n, fl2(&p)), &format!("ec{}", k), || { let mut o = vec![0u64; n]; conv1.exact_convey_array(&flat(&p), &mut o); fl(&o) });
                }
            }
        }
    }
    // ---- RNSTool: NTT-friendly prime chains of 1..6 primes, mixed sizes and orders
    for ti in 0..reps + 6 {
        let lg = r.range(1, if thorough { 7 } else { 5 }) as usize; let n = 1usize << lg;
        // the first six tools are directed at the sizing rule of the auxiliary base B (|B| = |q| + 1 when 32 + bits(t) + bits(Q) >= 61(|q| + 1)):
        // 60-bit coefficient primes with a wide plain modulus, on both sides of the boundary
        let directed = ti < 6;
        let k = if directed { 1 + ti as usize % 3 } else { r.range(1, 6) as usize };
        let minb = lg + 2;
        let mut bits: Vec<usize> = if directed { vec![60; k] } else { (0..k).map(|_| *r.pick(&[minb.max(8), 20, 30, 40, 50, 59, 60])).map(|b| b.max(minb)).collect() };
        match r.below(3) { 0 => bits.sort(), 1 => { bits.sort(); bits.reverse(); } _ => {} }
        let qs = ntt_primes(&mut r, n, &bits);
        if qs.len() != k { continue; }
        let t = if directed { let tb = if ti < 3 { 28 + k } else { *r.pick(&[31usize, 40, 50, 59]) + k.min(1) - 1 }; match std::panic::catch_unwind(|| hu::get_primes(2 * n as u64, tb.min(60), 1)[0].value()) { Ok(t) => t, Err(_) => continue } } else { match r.below(4) { 0 => 1u64 << r.range(1, 20), 1 => { let tb = (lg + 3).max(r.range(4, 40) as usize); match (tb..=tb + 4).find_map(|b| std::panic::catch_unwind(|| hu::get_primes(2 * n as u64, b, 1)[0].value()).ok()) { Some(t) => t, None => continue } } 2 => 3, _ => r.range(2, 1 << 20) | 1 } };
        // every third chain ends in a prime that is 1 modulo t (t >= 3): q_last^-1 mod t = 1, the guarded fast paths of the BGV division are taken
        let mut qs = qs;
        if !directed && t >= 3 && r.chance(1, 3) { if let Some(p) = crate::ctx::prime_one_mod(n, t, 50, &qs) { let k1 = qs.len() - 1; qs[k1] = p; } }
        if qs.iter().any(|&q| gcd(q, t) != 1) { continue; }
        let ms: Vec<Modulus> = qs.iter().map(|&q| Modulus::new(q)).collect();
        let base = hu::RNSBase::new(&ms).unwrap();
        let tm = Modulus::new(t);
        let head = format!("{} {} {}", n, fl(&qs), t);
        let cls = format!("n{}k{}{}", n, k, if t >= 3 && qs.last().unwrap() % t == 1 { "-qlast1modt" } else { "" });
        let tool = match hu::RNSTool::new(n, &base, &tm) { Ok(t) => t, Err(_) => { out.case(&format!("tool_new {}", head), &cls, || "ERR:refused".to_string()); continue; } };
        out.case(&format!("tool_new {}", head), &cls, || {
            let ops = |v: &Vec<hu::MultiplyU64ModOperand>| fl(&v.iter().map(|o| o.operand).collect::<Vec<_>>());
            let bsk: Vec<u64> = tool.base_Bsk().base().iter().map(|m| m.value()).collect();
            let b: Vec<u64> = tool.base_B().base().iter().map(|m| m.value()).collect();
            let gamma = tool.base_t_gamma().as_ref().map(|b| b.base()[1].value()).unwrap_or(0);
            let mt = tool.base_Bsk_m_tilde().base().last().unwrap().value();
            format!("B={}/msk={}/gamma={}/mt={}/pBq={}/ipqBsk={}/ipBmsk={}/iqlq={}/iqlt={}", fl(&b), bsk.last().unwrap(), gamma, mt,
                fl(tool.prod_B_mod_q()), ops(tool.inv_prod_q_mod_Bsk()), tool.inv_prod_B_mod_m_sk().operand, ops(tool.inv_q_last_mod_q()), tool.inv_q_last_mod_t()) });
        let tables = hu::NTTTables::create_ntt_tables(lg, &ms).unwrap();
        let bsk: Vec<u64> = tool.base_Bsk().base().iter().map(|m| m.value()).collect();
        let mt = 1u64 << 32;
        for _ in 0..3 {
            let cs = coeffs(&mut r, &qs, n);
            let p = rns_poly(&cs, &qs);
            let pf = flat(&p);
            if k >= 2 {
                out.case(&format!("div_round_last {} {}", head, fl2(&p)), &cls, || { let mut v = pf.clone(); tool.divide_and_round_q_last_inplace(&mut v); fl2(&unflat(&v, n)[..k - 1]) });
                out.case(&format!("mod_t_div_last {} {}", head, fl2(&p)), &cls, || { let mut v = pf.clone(); tool.mod_t_and_divide_q_last_inplace(&mut v); fl2(&unflat(&v, n)[..k - 1]) });
                // NTT-form inputs: transform the same polynomial with the library's own tables (checked by C09)
                let mut pn = p.clone(); for i in 0..k { tables[i].ntt_negacyclic_harvey(&mut pn[i]); }
                let pnf = flat(&pn);
                out.case(&format!("div_round_last_ntt {} {}", head, fl2(&pn)), &cls, || { let mut v = pnf.clone(); tool.divide_and_round_q_last_ntt_inplace(&mut v, &tables); fl2(&unflat(&v, n)[..k - 1]) });
                out.case(&format!("mod_t_div_last_ntt {} {}", head, fl2(&pn)), &cls, || { let mut v = pnf.clone(); tool.mod_t_and_divide_q_last_ntt_inplace(&mut v, &tables); fl2(&unflat(&v, n)[..k - 1]) });
            }
            out.case(&format!("fastbconv_m_tilde {} {}", head, fl2(&p)), &cls, || { let mut o = vec![0u64; (bsk.len() + 1) * n]; tool.fastbconv_m_tilde(&pf, &mut o); fl2(&unflat(&o, n)) });
            out.case(&format!("scale_and_round {} {}", head, fl2(&p)), &cls, || { let mut o = vec![0u64; n]; tool.decrypt_scale_and_round(&pf, &mut o); fl(&o) });
            out.case(&format!("decrypt_mod_t {} {}", head, fl2(&p)), &cls, || { let mut o = vec![0u64; n]; tool.decrypt_mod_t(&pf, &mut o); fl(&o) });
            // inputs in Bsk ∪ {m_tilde}, q ∪ Bsk, Bsk: residues of integers below the respective products
            let mut all: Vec<u64> = bsk.clone(); all.push(mt);
            let ys = coeffs(&mut r, &all, n);
            let py = rns_poly(&ys, &all);
            out.case(&format!("sm_mrq {} {}", head, fl2(&py)), &cls, || { let mut o = vec![0u64; bsk.len() * n]; tool.sm_mrq(&flat(&py), &mut o); fl2(&unflat(&o, n)) });
            let mut qb: Vec<u64> = qs.clone(); qb.extend(bsk.iter());
            let zs = coeffs(&mut r, &qb, n);
            let pz = rns_poly(&zs, &qb);
            out.case(&format!("fast_floor {} {}", head, fl2(&pz)), &cls, || { let mut o = vec![0u64; bsk.len() * n]; tool.fast_floor(&flat(&pz), &mut o); fl2(&unflat(&o, n)) });
            // Shenoy–Kumaresan: centred values well inside and at the edge of the admissible range
            let pb = Big::product(&bsk);
            let small = Big::product(&qs).mul_u64(1 << 20);
            let ws: Vec<Big> = (0..n).map(|_| { let m = if small.ge(&pb) { Big::random_below(&mut r, &pb) } else { Big::random_below(&mut r, &small) };
                if r.chance(1, 2) || m.is_zero() { m } else { pb.sub(&m) } }).collect();   // negative values as P - m
            let pw = rns_poly(&ws, &bsk);
            out.case(&format!("fastbconv_sk {} {}", head, fl2(&pw)), &cls, || { let mut o = vec![0u64; k * n]; tool.fastbconv_sk(&flat(&pw), &mut o); fl2(&unflat(&o, n)) });
        }
    }
}

/// every integer below the product for small bases (product < 2^12)
fn exhaustive(out: &mut Out) {
    let bases: Vec<Vec<u64>> = vec![vec![2, 3], vec![3, 2], vec![3, 4, 5], vec![5, 4, 3], vec![7, 9, 8], vec![2, 3, 5, 7], vec![16, 15, 17], vec![13, 11, 7, 3], vec![64, 63]];
    for qs in bases {
        let ms: Vec<Modulus> = qs.iter().map(|&q| Modulus::new(q)).collect();
        let base = hu::RNSBase::new(&ms).unwrap();
        let q: u64 = qs.iter().product();
        let k = qs.len();
        for x in 0..q {
            let xb = Big::from_u64(x);
            out.case(&format!("rns_decompose {} {}", fl(&qs), x), "ex", || { let mut v = xb.limbs(k); base.decompose(&mut v); fl(&v) });
            let rs = residues(&xb, &qs);
            out.case(&format!("rns_compose {} {}", fl(&qs), fl(&rs)), "ex", || { let mut v = rs.clone(); base.compose(&mut v); Big::from_limbs(&v).to_dec() });
        }
    }
}
