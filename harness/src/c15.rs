//! C15: serialization under I/O faults.  Every object type is written to streams that obey the `Write`
//! contract but accept only 1..8 bytes per call and/or fail at some call, and read back from every
//! (quick: stratified for large objects) strict prefix of its encoding.  Lines are model-compared:
//! the Lean model predicts the exact `Ok/Err` and the bytes on the sink.
use crate::rng::Rng;
use crate::ser::*;
use crate::util::*;
use heathcliff::*;

fn reference(o: &Obj) -> Option<(Vec<u8>, usize)> {
    // encoding on a stream that takes everything, and the number of `write` calls it took
    let mut fw = FaultWriter::new(vec![usize::MAX], None);
    let r = std::panic::catch_unwind(std::panic::AssertUnwindSafe(|| (o.ser)(&mut fw)));
    match r { Ok(Ok(_)) => Some((fw.out, fw.calls)), _ => None }
}

pub fn fault_cases(out: &mut Out, r: &mut Rng, o: &Obj, bytes: &[u8], calls: usize, many: bool) {
    let hx = hex(bytes);
    let mut seqs: Vec<(Vec<usize>, Option<usize>)> = vec![];
    if many { for l in 1..=8 { seqs.push((vec![l], None)); } } else { for l in [1usize, 3, 7, 8] { seqs.push((vec![l], None)); } }
    let nr = if many { 4 } else { 2 };
    for _ in 0..nr {
        let len = r.range(2, 6) as usize;
        seqs.push(((0..len).map(|_| r.range(1, 8) as usize).collect(), None));
    }
    // failure points: first call, last call of a full-acceptance run, somewhere in the middle, past the end
    let mut fails = vec![0usize, calls.saturating_sub(1), r.below(calls.max(1) as u64) as usize, calls * 9 + 3];
    if many { fails.push(r.below((calls * 2).max(1) as u64) as usize); fails.push(1); }
    for f in fails {
        let lim = match r.below(3) { 0 => vec![8], 1 => vec![r.range(1, 8) as usize], _ => (0..3).map(|_| r.range(1, 8) as usize).collect() };
        seqs.push((lim, Some(f)));
    }
    for (lim, fail) in seqs {
        let lhs = format!("c15w {} {} {} {} {} {}", o.ty, o.ctx, o.terms, hx, flu(&lim), fail.map(|f| f.to_string()).unwrap_or("-".into()));
        let cls = format!("w-{}{}-{}", if lim.len() == 1 { format!("lim{}", lim[0]) } else { "limseq".into() }, if fail.is_some() { "-fail" } else { "" }, o.class);
        out.case(&lhs, &cls, || {
            let mut fw = FaultWriter::new(lim.clone(), fail);
            match (o.ser)(&mut fw) { Ok(n) => format!("Ok:{}:{}", n, hex(&fw.out)), Err(_) => format!("Err:{}", hex(&fw.out)) }
        });
    }
}

/// streams that additionally report ErrorKind::Interrupted on some calls (standard `Write` contract: retry): the outcome must be exactly
/// that of the same stream without the interruptions (model: `serializeI`, spec: `serialize` on the underlying stream — theorem `serializeI_erase`)
pub fn interrupt_cases(out: &mut Out, r: &mut Rng, o: &Obj, bytes: &[u8], calls: usize) {
    let hx = hex(bytes);
    for v in 0..4 {
        let lim: Vec<usize> = match v { 0 => vec![8], 1 => vec![1], _ => (0..3).map(|_| r.range(1, 8) as usize).collect() };
        let fail = if v == 3 { Some(r.below((calls * 2).max(1) as u64) as usize) } else { None };
        // interrupted call indices: the first call, runs of consecutive calls, scattered ones over (roughly) the whole transmission
        let span = (calls * if lim[0] < 8 { 9 } else { 1 } + 4) as u64;
        let mut intr: Vec<usize> = vec![0, 1, 2, r.below(span) as usize, r.below(span) as usize];
        for _ in 0..r.range(0, 6) { let b = r.below(span) as usize; intr.push(b); intr.push(b + 1); }
        intr.sort(); intr.dedup();
        let lhs = format!("c15wi {} {} {} {} {} {} {}", o.ty, o.ctx, o.terms, hx, flu(&lim), fail.map(|f| f.to_string()).unwrap_or("-".into()), flu(&intr));
        out.case(&lhs, &format!("wi-{}{}-{}", if lim.len() == 1 { format!("lim{}", lim[0]) } else { "limseq".into() }, if fail.is_some() { "-fail" } else { "" }, o.class), || {
            let mut fw = FaultWriter::new(lim.clone(), fail).with_interrupts(intr.clone());
            match (o.ser)(&mut fw) { Ok(n) => format!("Ok:{}:{}", n, hex(&fw.out)), Err(_) => format!("Err:{}", hex(&fw.out)) }
        });
    }
}

pub fn trunc_cases(out: &mut Out, r: &mut Rng, o: &Obj, bytes: &[u8], all_below: usize) {
    let hx = hex(bytes);
    let len = bytes.len();
    let ks: Vec<usize> = if len <= all_below { (0..len).collect() } else {
        let mut v: Vec<usize> = (0..48).collect();
        v.extend(len - 12..len);
        for _ in 0..40 { v.push(48 + r.below((len - 60) as u64) as usize); }
        v.sort(); v.dedup(); v
    };
    for k in ks {
        let lhs = format!("c15r {} {} {} {} {}", o.ty, o.ctx, o.terms, hx, k);
        out.case(&lhs, &format!("r-{}", o.class), || {
            let mut s: &[u8] = &bytes[..k];
            match (o.de)(&mut s) { Ok(_) => "OK".to_string(), Err(_) => "IOERR".to_string() }
        });
    }
}

fn replay(out: &mut Out, case: &str) {
    // re-run one recorded case on the implementation (context-free types and plain ciphertext formats)
    let t: Vec<&str> = case.split(' ').collect();
    if t.len() < 5 { return; }
    let (ty, hx) = (t[1], t[4]);
    let bytes = unhex(hx);
    let mut r = Rng::new(0);
    let objs = scalar_objects(&mut r);
    // rebuild the object by deserializing the recorded encoding with the implementation
    macro_rules! scalar { ($T:ty, $name:expr, $d:expr) => {{
        let v = std::panic::catch_unwind(|| <$T>::deserialize(&mut bytes.as_slice()));
        if let Ok(Ok(v)) = v { Some(mk_scalar($name, v, $d, "replay".into())) } else { None } }} }
    let o: Option<Obj> = match ty {
        "u64" => scalar!(u64, "u64", |x| x.to_string()),
        "usize" => scalar!(usize, "usize", |x| x.to_string()),
        "u8" => scalar!(u8, "u8", |x| x.to_string()),
        "bool" => scalar!(bool, "bool", |x| (*x as u8).to_string()),
        "f64" => scalar!(f64, "f64", |x| x.to_bits().to_string()),
        "vecu64" => scalar!(Vec<u64>, "vecu64", |x| fl(x)),
        "plain" => std::panic::catch_unwind(|| Plaintext::deserialize(&mut bytes.as_slice())).ok().and_then(|x| x.ok()).map(|p| mk_plain(p, "replay".into())),
        "params" => std::panic::catch_unwind(|| EncryptionParameters::deserialize(&mut bytes.as_slice())).ok().and_then(|x| x.ok()).map(|p| mk_params(p, "replay".into())),
        _ => None,
    };
    drop(objs);
    let o = match o { Some(o) => o, None => { out.raw(&format!("!NOTE replay of type {} needs its context; re-run ./check C15 with the recorded seed instead", ty)); return; } };
    if t[0] == "c15w" && t.len() >= 7 {
        let lim: Vec<usize> = if t[5] == "-" { vec![] } else { t[5].split(',').map(|x| x.parse().unwrap_or(8)).collect() };
        let fail: Option<usize> = t[6].parse().ok();
        out.case(case, "replay", || { let mut fw = FaultWriter::new(lim.clone(), fail);
            match (o.ser)(&mut fw) { Ok(n) => format!("Ok:{}:{}", n, hex(&fw.out)), Err(_) => format!("Err:{}", hex(&fw.out)) } });
    } else if t[0] == "c15r" && t.len() >= 6 {
        let k: usize = t[5].parse().unwrap_or(0);
        out.case(case, "replay", || { let mut s: &[u8] = &bytes[..k.min(bytes.len())];
            match (o.de)(&mut s) { Ok(_) => "OK".to_string(), Err(_) => "IOERR".to_string() } });
    }
}

pub fn run(out: &mut Out, thorough: bool, seed: u64, extra: &[String]) {
    if extra.len() >= 2 && extra[0] == "--case" { replay(out, &extra[1]); return; }
    let mut r = Rng::new(seed);
    // the witness of DESIGN.md §7 first: a u64 through a stream that accepts 3 bytes per call; a truncated u64
    {
        let o = mk_scalar("u64", 0x0807060504030201u64, |x| x.to_string(), "u64-witness".into());
        let (b, c) = reference(&o).unwrap();
        let hx = hex(&b);
        out.case(&format!("c15w u64 - - {} 3 -", hx), "w-lim3-u64-witness", || {
            let mut fw = FaultWriter::new(vec![3], None);
            match (o.ser)(&mut fw) { Ok(n) => format!("Ok:{}:{}", n, hex(&fw.out)), Err(_) => format!("Err:{}", hex(&fw.out)) } });
        trunc_cases(out, &mut r, &o, &b, 64);
        let _ = c;
    }
    for o in scalar_objects(&mut r) {
        if let Some((b, c)) = reference(&o) { fault_cases(out, &mut r, &o, &b, c, true); interrupt_cases(out, &mut r, &o, &b, c); trunc_cases(out, &mut r, &o, &b, 4096); }
    }
    let all_below = if thorough { 600 } else { 160 };
    for (fi, (scheme, n, bits, t, special)) in families(thorough).into_iter().enumerate() {
        let s = match suite(scheme, n, &bits, t, special) { Some(s) => s, None => { out.raw(&format!("!NOTE family {} rejected by the library", fi)); continue; } };
        let objs = match std::panic::catch_unwind(std::panic::AssertUnwindSafe(|| objects(&mut r, &s, false))) {
            Ok(o) => o,
            Err(_) => { let m = LAST_PANIC.with(|p| p.borrow().clone());
                out.raw(&format!("!FAIL c15gen f{} :: building / sizing a valid object panicked: {} # gen", fi, m)); continue; }
        };
        for (oi, o) in objs.iter().enumerate() {
            let (b, c) = match reference(o) { Some(x) => x, None => { out.raw(&format!("!NOTE object {} refused by the serializer", o.class)); continue; } };
            // quick tier: every object gets truncations, big ones a thinner set of fault sequences
            if !thorough && b.len() > 3000 && (oi + fi) % 3 != 0 { continue; }
            fault_cases(out, &mut r, o, &b, c, thorough || b.len() <= 400);
            if thorough || b.len() <= 1200 { interrupt_cases(out, &mut r, o, &b, c); }
            trunc_cases(out, &mut r, o, &b, all_below);
        }
    }
    // rns_plain ciphertexts (two component contexts)
    if let Some((rctx, cis)) = rnsp_suite(8, &[20, 21], &[17, 97]) {
        let comps: Vec<Ciphertext> = cis.iter().map(|ci| { let lv = data_levels(ci)[0]; rand_ct(&mut r, ci, lv, 2, false) }).collect();
        let o = mk_rnspct(&cis, &rctx, app::rns_plain::RnspCiphertext::from_raw_parts(comps), "rnspct".into());
        if let Some((b, c)) = reference(&o) { fault_cases(out, &mut r, &o, &b, c, true); trunc_cases(out, &mut r, &o, &b, all_below); }
    }
}
