//! C02 (also feeds C06/C07): random well-typed BFV/BGV operation programs over a pool of ciphertexts, each result
//! dumped with the plaintext the shadow program predicts in Z_t[X]/(X^N+1).
use crate::ctx::*;
use crate::rng::Rng;
use crate::util::*;
use heathcliff::*;

#[derive(Clone)]
pub struct Item { pub ct: Ciphertext, pub m: Vec<u64>, pub pred: f64 }

pub fn shadow_mul(a: &[u64], b: &[u64], t: u64) -> Vec<u64> {
    let n = a.len(); let mut out = vec![0u64; n];
    for i in 0..n { if a[i] == 0 { continue; } for j in 0..n { if b[j] == 0 { continue; }
        let p = ((a[i] as u128 * b[j] as u128) % t as u128) as u64;
        let k = i + j;
        if k < n { out[k] = (out[k] + p) % t; } else { out[k - n] = (out[k - n] + t - p) % t; } } }
    out
}
pub fn shadow_add(a: &[u64], b: &[u64], t: u64) -> Vec<u64> { a.iter().zip(b).map(|(x, y)| ((*x as u128 + *y as u128) % t as u128) as u64).collect() }
pub fn shadow_sub(a: &[u64], b: &[u64], t: u64) -> Vec<u64> { a.iter().zip(b).map(|(x, y)| ((*x as u128 + t as u128 - *y as u128) % t as u128) as u64).collect() }
pub fn shadow_neg(a: &[u64], t: u64) -> Vec<u64> { a.iter().map(|x| (t - x) % t).collect() }
pub fn trim(v: &[u64]) -> Vec<u64> { let mut c = v.to_vec(); while c.len() > 1 && *c.last().unwrap() == 0 { c.pop(); } c }

pub fn plain_of(m: &[u64]) -> Plaintext { let c = trim(m); let mut p = Plaintext::new(); p.resize(c.len()); p.data_mut().copy_from_slice(&c); p }

pub fn rand_msg(r: &mut Rng, n: usize, t: u64) -> Vec<u64> {
    match r.below(6) {
        0 => vec![t - 1; n],
        1 => { let mut v = vec![0u64; n]; v[r.below(n as u64) as usize] = 1 + r.below(t - 1); v }   // monomial
        2 => { let mut v = vec![0u64; n]; v[0] = r.below(t); v }
        3 => (0..n).map(|_| if r.chance(1, 2) { t / 2 } else { (t + 1) / 2 }).collect(),
        _ => (0..n).map(|_| r.below(t)).collect(),
    }
}

fn log2(x: f64) -> f64 { x.ln() / std::f64::consts::LN_2 }

/// library budget of a ciphertext in either representation (only used to steer generation, never as an oracle)
pub fn lib_budget(s: &Setup, ct: &Ciphertext) -> f64 {
    let mut c = ct.clone(); if c.is_ntt_form() { s.evaluator.transform_from_ntt_inplace(&mut c); }
    s.decryptor.invariant_noise_budget(&c) as f64
}

pub struct Prog<'a> { pub s: &'a Setup, pub pool: Vec<Item>, pub relin: RelinKeys, pub t: u64, pub n: usize, pub bgv: bool }

impl<'a> Prog<'a> {
    pub fn new(s: &'a Setup, r: &mut Rng, fresh: usize) -> Self {
        let t = s.t; let n = s.n;
        let relin = s.keygen.create_relin_keys(false);
        let mut pool = vec![];
        for i in 0..fresh {
            let m = rand_msg(r, n, t);
            let ct = if i % 2 == 0 { s.encryptor.encrypt_new(&plain_of(&m)) } else { let mut c = Ciphertext::new(); s.encryptor.encrypt_symmetric(&plain_of(&m), &mut c); c };
            let pred = lib_budget(s, &ct) - 1.0;
            pool.push(Item { ct, m, pred });
        }
        Prog { s, pool, relin, t, n, bgv: s.scheme == SchemeType::BGV }
    }
    fn level_bits(&self, ct: &Ciphertext) -> f64 { self.s.level_qs(ct.parms_id()).iter().map(|&q| log2(q as f64)).sum() }
    /// conservative prediction of the remaining budget after a product (see DESIGN.md C02: only used to decide whether the
    /// spec *claims* correct decryption; generous margins so that a legitimate noise level never falls below it)
    fn pred_mul(&self, a: &Item, b: &Item) -> f64 {
        let ln = log2(self.n as f64); let lt = log2(self.t as f64);
        let sz = (a.ct.size() + b.ct.size()) as f64;
        if self.bgv { a.pred + b.pred - self.level_bits(&a.ct) - ln - 4.0 - sz }
        else { a.pred.min(b.pred) - (lt + 2.0 * ln + 10.0 + sz) }
    }
    /// extra key-switch noise when the special prime is smaller than a data prime: log2(ceil(q_max / P))
    fn ks_ratio_bits(&self) -> f64 {
        let kq = self.s.level_qs(self.s.ctx.key_parms_id());
        let p_sp = *kq.last().unwrap() as f64; let qm = *kq[..kq.len() - 1].iter().max().unwrap_or(&1) as f64;
        (qm / p_sp).log2().max(0.0)
    }
    fn pred_mul_plain(&self, a: &Item) -> f64 {
        let ln = log2(self.n as f64); let lt = log2(self.t as f64);
        a.pred - (lt + ln + 3.0)
    }

    /// one random operation; returns (class, result) or None when not applicable
    /// like `step`, also returning the operands (clones) the operation was applied to
    pub fn step_with_operands(&mut self, r: &mut Rng) -> Option<(String, Item, Item, Item)> {
        let before: Vec<Item> = self.pool.clone();
        let save = (r.0,);
        let _ = save;
        let (cls, item, ia, ib) = self.step_idx(r)?;
        Some((cls, item, before[ia].clone(), before[ib].clone()))
    }
    pub fn step(&mut self, r: &mut Rng) -> Option<(String, Item)> { self.step_idx(r).map(|(c, i, _, _)| (c, i)) }
    fn step_idx(&mut self, r: &mut Rng) -> Option<(String, Item, usize, usize)> {
        let s = self.s; let ev = &s.evaluator; let t = self.t;
        let ia = r.below(self.pool.len() as u64) as usize;
        // second operand at the same level and in the same representation
        let cands: Vec<usize> = (0..self.pool.len()).filter(|&j| self.pool[j].ct.parms_id() == self.pool[ia].ct.parms_id() && self.pool[j].ct.is_ntt_form() == self.pool[ia].ct.is_ntt_form()).collect();
        let ib = cands[r.below(cands.len() as u64) as usize];
        let a = &self.pool[ia]; let b = &self.pool[ib];
        let native_ntt = self.bgv;    // BGV ciphertexts live in NTT form, BFV in coefficient form
        let op = if self.pool[ia].ct.size() == 3 && r.chance(1, 3) { 12 } else { r.below(16) };
        let cls = |name: &str, a: &Item, b: Option<&Item>| format!("{}-s{}{}-l{}-{}", name, a.ct.size(), b.map(|x| format!("x{}", x.ct.size())).unwrap_or_default(),
            s.ctx.get_context_data(a.ct.parms_id()).unwrap().chain_index(), if a.ct.is_ntt_form() { "ntt" } else { "coef" });
        let res = std::panic::catch_unwind(std::panic::AssertUnwindSafe(|| -> Option<(String, Item)> { match op {
            0 => Some((cls("negate", a, None), Item { ct: ev.negate_new(&a.ct), m: shadow_neg(&a.m, t), pred: a.pred })),
            1 | 2 => Some((cls("add", a, Some(b)), Item { ct: ev.add_new(&a.ct, &b.ct), m: shadow_add(&a.m, &b.m, t), pred: a.pred.min(b.pred) - 1.5 })),
            3 => Some((cls("sub", a, Some(b)), Item { ct: ev.sub_new(&a.ct, &b.ct), m: shadow_sub(&a.m, &b.m, t), pred: a.pred.min(b.pred) - 1.5 })),
            4 | 5 | 6 => { if a.ct.is_ntt_form() != native_ntt || a.ct.size() + b.ct.size() - 1 > 6 { return None; }
                Some((cls("multiply", a, Some(b)), Item { ct: ev.multiply_new(&a.ct, &b.ct), m: shadow_mul(&a.m, &b.m, t), pred: self.pred_mul(a, b) })) }
            7 => { if a.ct.is_ntt_form() != native_ntt || 2 * a.ct.size() - 1 > 6 { return None; }
                Some((cls("square", a, None), Item { ct: ev.square_new(&a.ct), m: shadow_mul(&a.m, &a.m, t), pred: self.pred_mul(a, a) })) }
            8 => { if a.ct.is_ntt_form() != native_ntt { return None; } let pm = rand_msg(r, self.n, t);
                Some((cls("add_plain", a, None), Item { ct: ev.add_plain_new(&a.ct, &plain_of(&pm)), m: shadow_add(&a.m, &pm, t), pred: a.pred - 1.5 })) }
            9 => { if a.ct.is_ntt_form() != native_ntt { return None; } let pm = rand_msg(r, self.n, t);
                Some((cls("sub_plain", a, None), Item { ct: ev.sub_plain_new(&a.ct, &plain_of(&pm)), m: shadow_sub(&a.m, &pm, t), pred: a.pred - 1.5 })) }
            10 | 11 => { let pm = rand_msg(r, self.n, t); if pm.iter().all(|&x| x == 0) { return None; }
                // plaintext in coefficient form (any ciphertext representation) or pre-transformed to NTT form at the ciphertext's level
                let mut p = plain_of(&pm);
                let pre_ntt = r.chance(1, 3);
                if pre_ntt { ev.transform_plain_to_ntt_inplace(&mut p, a.ct.parms_id()); }
                Some((cls(if pre_ntt { "multiply_plain_nttplain" } else { "multiply_plain" }, a, None), Item { ct: ev.multiply_plain_new(&a.ct, &p), m: shadow_mul(&a.m, &pm, t), pred: self.pred_mul_plain(a) })) }
            12 => { if a.ct.size() != 3 || a.ct.is_ntt_form() != native_ntt { return None; }
                let ln = log2(self.n as f64);
                Some((cls("relinearize", a, None), Item { ct: ev.relinearize_new(&a.ct, &self.relin), m: a.m.clone(), pred: a.pred.min(self.level_bits(&a.ct) - log2(t as f64) - ln - 30.0 - self.ks_ratio_bits()) - 1.0 })) }
            13 => { if self.bgv { return None; }  // representation change (BFV): every later operation that accepts NTT form uses it
                if a.ct.is_ntt_form() { Some((cls("from_ntt", a, None), Item { ct: ev.transform_from_ntt_new(&a.ct), m: a.m.clone(), pred: a.pred })) }
                else { Some((cls("to_ntt", a, None), Item { ct: ev.transform_to_ntt_new(&a.ct), m: a.m.clone(), pred: a.pred })) } }
            _ => { // move down one level (keeps the message; in BGV it changes the correction factor)
                let cd = s.ctx.get_context_data(a.ct.parms_id()).unwrap();
                if cd.next_context_data().is_none() || a.ct.is_ntt_form() != native_ntt { return None; }
                let nb: f64 = s.level_qs(cd.next_context_data().unwrap().parms_id()).iter().map(|&q| log2(q as f64)).sum();
                let ln = log2(self.n as f64);
                Some((cls("mod_switch", a, None), Item { ct: ev.mod_switch_to_next_new(&a.ct), m: a.m.clone(), pred: (a.pred - 1.0).min(nb - log2(t as f64) - ln - 8.0) })) }
        } }));
        match res { Ok(x) => x.map(|(c, i)| (c, i, ia, ib)), Err(_) => { let m = LAST_PANIC.with(|p| p.borrow().clone()); Some((format!("panic-op{}", op), Item { ct: Ciphertext::new(), m: vec![u64::MAX], pred: -1.0 }.with_note(m), ia, ib)) } }
    }
}

impl Item { fn with_note(self, _m: String) -> Item { self } }

pub fn setup(r: &mut Rng, thorough: bool, scheme: SchemeType) -> Option<Setup> {
    let lg = r.range(2, if thorough { 6 } else { 5 }) as usize; let n = 1usize << lg;
    let k = r.range(2, 4) as usize;
    let mut bits: Vec<usize> = (0..k).map(|_| *r.pick(&[40usize, 50, 55, 59, 60])).collect();
    // every fourth parameter set has a coefficient prime SMALLER than the plain modulus (no fast plain lift: the multi-word
    // lift paths of multiply_plain / add_plain / encryption are taken)
    let small_prime = r.chance(2, 5);
    if small_prime { let pos = r.below(bits.len() as u64 - 1) as usize; bits[pos] = *r.pick(&[20usize, 22, 24]); bits.push(60); }
    // ... and every fifth-or-so has a WIDE plain modulus above a medium-sized coefficient prime (t * q_j >= 2^64: scalar
    // multiplications by t must reduce the scalar first; lazy single-word shortcuts overflow here)
    let wide_t = !small_prime && r.chance(1, 4);
    if wide_t { let pos = r.below(bits.len() as u64 - 1) as usize; bits[pos] = *r.pick(&[30usize, 32, 36]); bits.push(60); }
    let qs = pick_primes(r, n, &bits)?;
    if wide_t { let t = ((1u64 << r.range(38, 46)) + 2 * r.below(1 << 30)) | 1; if qs.iter().any(|&q| gcd(q, t) != 1) { return None; } return make(scheme, n, &qs, t, true, None); }
    let tk = r.below(3);
    let t = if small_prime { let m = *qs.iter().min().unwrap(); match tk { 0 => (m | 1) + 2 * (1 + r.below(1 << 22)), 1 => 1u64 << r.range(25, 27), _ => (3 * m) | 1 } }
            else { match tk { 0 => pick_plain(r, n, 0, &qs), 1 => 1u64 << r.range(2, 10), _ => 3 + 2 * r.below(30) } };
    if qs.iter().any(|&q| gcd(q, t) != 1) { return None; }
    make(scheme, n, &qs, t, true, None)
}

/// a parameter set whose coefficient primes sit at the BOTTOM of their bit ranges (bits(Q) < sum of the primes' bit counts, on every level
/// with two or more primes): anything derived from "the bit count of Q" (noise budget, scale bounds) is separated from the sum of bit counts
pub fn setup_low_primes(r: &mut Rng, thorough: bool, scheme: SchemeType) -> Option<Setup> {
    let lg = r.range(2, if thorough { 6 } else { 5 }) as usize; let n = 1usize << lg;
    let k = r.range(3, 4) as usize;
    let bits: Vec<usize> = (0..k).map(|_| *r.pick(&[30usize, 40, 50, 60])).collect();
    let qs = crate::c10::ntt_primes_low(n, &bits);
    if qs.len() != bits.len() { return None; }
    let t = match r.below(3) { 0 => pick_plain(r, n, 0, &qs), 1 => 1u64 << r.range(2, 10), _ => 3 + 2 * r.below(30) };
    if qs.iter().any(|&q| gcd(q, t) != 1) { return None; }
    make(scheme, n, &qs, t, true, None)
}

/// a parameter set whose primes are all 60 bits wide (word-size values: lazy reductions that are exact for smaller primes leave
/// unreduced words here), N = 32, on every level down to a single 60-bit prime
pub fn setup_60(r: &mut Rng, scheme: SchemeType) -> Option<Setup> {
    let n = 32usize;
    let qs = pick_primes(r, n, &[60, 60, 60])?;
    let t = pick_plain(r, n, 0, &qs);
    if qs.iter().any(|&q| gcd(q, t) != 1) { return None; }
    make(scheme, n, &qs, t, true, None)
}

/// a parameter set of the wide-plain-modulus family (t > 2^32), found by re-drawing `setup` (deterministic in the seed)
pub fn setup_wide_t(r: &mut Rng, thorough: bool, scheme: SchemeType) -> Option<Setup> {
    for _ in 0..80 { if let Some(s) = setup(r, thorough, scheme) { if s.t > (1u64 << 32) { return Some(s); } } }
    None
}

/// plaintext-operand corner cases on a fresh ciphertext: monomials / constants with negative (upper-half) coefficients of large and
/// small magnitude, positive ones, two-term and full plaintexts — through multiply_plain (coefficient-form and NTT-form plaintext),
/// add_plain and sub_plain.  These select the special-cased paths of `multiply_plain_normal` and the plaintext lifts.
fn directed_plain_cases(out: &mut Out, s: &Setup, r: &mut Rng) {
    let (n, t) = (s.n, s.t); let ev = &s.evaluator;
    let msg = rand_msg(r, n, t);
    let ct = s.encryptor.encrypt_new(&plain_of(&msg));
    let pred = (lib_budget(s, &ct) - (t as f64).log2() - (n as f64).log2() - 6.0).floor() as i64;
    let mono = |pos: usize, c: u64| { let mut v = vec![0u64; n]; v[pos] = c; v };
    let plains: Vec<(&str, Vec<u64>)> = vec![
        ("mono-neg-big", mono(r.below(n as u64) as usize, t / 2 + 1 + r.below((t / 4).max(1)))),
        ("mono-neg-1", mono(n - 1, t - 1)), ("mono-neg-small", mono(3 % n, t - 3)), ("mono-half", mono(1, (t + 1) / 2)),
        ("mono-pos", mono(r.below(n as u64) as usize, 1 + r.below((t / 2).max(1)))), ("const-neg", mono(0, t - 1 - r.below((t / 3).max(1)))),
        ("two-term", { let mut v = mono(0, 1); v[n / 2] = t - 1 - r.below((t / 3).max(1)); v }), ("full", rand_msg(r, n, t)),
        // coefficients on the carry boundaries of the Delta*m scaling ((q mod t)*m + (t+1)/2 around multiples of 2^64; matter for t > 2^32)
        ("carry", { let cd = s.ctx.get_context_data(ct.parms_id()).unwrap(); let cand = crate::c01::carry_boundary_coeffs(r, t, cd.coeff_modulus_mod_plain_modulus()); (0..n).map(|i| cand[(i * 5 + 1) % cand.len()]).collect() }),
    ];
    for (nm, pm) in &plains {
        if pm.iter().all(|&x| x == 0) { continue; }
        let p = plain_of(pm);
        let native_ntt = s.scheme == SchemeType::BGV;
        let view = |c: &Ciphertext| if s.scheme == SchemeType::BFV && c.is_ntt_form() { ev.transform_from_ntt_new(c) } else { c.clone() };
        let (ra, rs) = (ev.add_plain_new(&ct, &p), ev.sub_plain_new(&ct, &p));
        // BFV: add_plain / sub_plain change only c0, by the scaled plaintext — compared bit for bit with the model of multiply_add_plain / _sub_plain
        if s.scheme == SchemeType::BFV && !ct.is_ntt_form() {
            let lqs = s.level_qs(ct.parms_id()); let k = lqs.len();
            let c0 = |c: &Ciphertext| -> Vec<Vec<u64>> { (0..k).map(|j| c.poly(0)[j * n..(j + 1) * n].to_vec()).collect() };
            for (sub, res) in [(0u8, &ra), (1u8, &rs)] {
                out.case(&format!("multiply_add_plain {} {} {} {} {} {}", sub, n, fl(&lqs), t, fl(&trim(pm)), fl2(&c0(&ct))), &format!("plainop-{}-{}", if sub == 1 { "sub" } else { "add" }, nm), || fl2(&c0(res)));
            }
        }
        let mut emit = |op: &str, res: Ciphertext, want: Vec<u64>| { let v = view(&res); out.case(&format!("prog {} {} {}", s.ct_case(&v), pred, fl(&trim(&want))), &format!("plain-{}-{}", op, nm), || s.dec_str(&v)); };
        emit("multiply_plain", ev.multiply_plain_new(&ct, &p), shadow_mul(&msg, pm, t));
        { let mut pn = p.clone(); ev.transform_plain_to_ntt_inplace(&mut pn, ct.parms_id());
          let ctn = if native_ntt { ct.clone() } else { ev.transform_to_ntt_new(&ct) };
          emit("multiply_plain_ntt", ev.multiply_plain_new(&ctn, &pn), shadow_mul(&msg, pm, t)); }
        emit("add_plain", ra, shadow_add(&msg, pm, t));
        emit("sub_plain", rs, shadow_sub(&msg, pm, t));
    }
}


/// Directed operand shapes for add / sub: every ordered pair of sizes 2..4 (products left unrelinearised), at the first level and — where
/// the chain allows — one level down, where BGV products of switched operands carry correction factors g^2, g^3 against g of a switched fresh
/// ciphertext (different sizes AND different correction factors, larger operand first and second).  Returns (name, a, b, result, expected message,
/// predicted budget of the result).  The prediction is a priori (fresh budget, then the conservative product rule of `Prog::pred_mul`): the library's
/// reported budget of a PRODUCT cannot be used, it is relative to the nearest plaintext and can be positive for a product that has already wrapped.
pub fn size_pair_cases(s: &Setup, r: &mut Rng) -> Vec<(String, Ciphertext, Ciphertext, Ciphertext, Vec<u64>, f64)> {
    let (n, t) = (s.n, s.t); let ev = &s.evaluator;
    let mut out = vec![];
    let nlev = s.levels().len();
    for down in 0..nlev.min(2) {
        let fresh = |r: &mut Rng| -> (Ciphertext, Vec<u64>) { let m = rand_msg(r, n, t); let mut c = s.encryptor.encrypt_new(&plain_of(&m)); for _ in 0..down { c = ev.mod_switch_to_next_new(&c); } (c, m) };
        let built = std::panic::catch_unwind(std::panic::AssertUnwindSafe(|| {
            let (c2, m2) = fresh(r); let (x, mx) = fresh(r); let (y, my) = fresh(r); let (z, mz) = fresh(r);
            let c3 = ev.multiply_new(&x, &y); let m3 = shadow_mul(&mx, &my, t);
            let c4 = ev.multiply_new(&c3, &z); let m4 = shadow_mul(&m3, &mz, t);
            let (ln, lt) = ((n as f64).log2(), (t as f64).log2());
            let lbits: f64 = s.level_qs(c2.parms_id()).iter().map(|&q| (q as f64).log2()).sum();
            let pf = |c: &Ciphertext| lib_budget(s, c) - 1.0;
            let pm = |pa: f64, pb: f64, sz: f64| if s.scheme == SchemeType::BGV { pa + pb - lbits - ln - 4.0 - sz } else { pa.min(pb) - (lt + 2.0 * ln + 10.0 + sz) };
            let p2 = pf(&c2); let p3 = pm(pf(&x), pf(&y), 4.0); let p4 = pm(p3, pf(&z), 5.0);
            vec![(c2, m2, p2), (c3, m3, p3), (c4, m4, p4)] }));
        let ops = match built { Ok(v) => v, Err(_) => continue };
        for (ia, (a, ma, pa)) in ops.iter().enumerate() { for (ib, (b, mb, pb)) in ops.iter().enumerate() {
            for sub in [false, true] {
                let res = match std::panic::catch_unwind(std::panic::AssertUnwindSafe(|| if sub { ev.sub_new(a, b) } else { ev.add_new(a, b) })) { Ok(c) => c, Err(_) => continue };
                let want = if sub { shadow_sub(ma, mb, t) } else { shadow_add(ma, mb, t) };
                // (BGV operands with different correction factors are first multiplied by balancing scalars below t: up to log2 t + 1 further bits)
                let bal = if a.correction_factor() != b.correction_factor() { (t as f64).log2() + 1.0 } else { 0.0 };
                out.push((format!("{}-s{}x{}-l{}", if sub { "sub" } else { "add" }, ia + 2, ib + 2, down), a.clone(), b.clone(), res, want, pa.min(*pb) - 3.0 - bal));
            }
        } }
    }
    out
}

fn directed_size_pairs(out: &mut Out, s: &Setup, r: &mut Rng) {
    for (name, a, b, res, want, p) in size_pair_cases(s, r) {
        let pred = p.floor().max(-1.0) as i64;
        let view = |c: &Ciphertext| if s.scheme == SchemeType::BFV && c.is_ntt_form() { s.evaluator.transform_from_ntt_new(c) } else { c.clone() };
        let v = view(&res);
        out.case(&format!("prog {} {} {}", s.ct_case(&v), pred, fl(&trim(&want))), &format!("pairs-{}-{}", scheme_name(s.scheme), name), || s.dec_str(&v));
        if s.n <= 16 {
            let opname = if name.starts_with("sub") { "sub" } else { "add" };
            out.case(&format!("ct_op {} 0 0 0 | {} | {} | {}", opname, s.ct_case(&a), s.ct_case(&b), s.ct_case(&res)), &format!("op-pairs-{}-{}", scheme_name(s.scheme), name), || "ok".to_string());
        }
    }
}

/// Squares of ciphertexts of EVERY size 2..=5 (unrelinearised products as operands), first level and one level down: `square(x)` against
/// the model's product of x with itself bit for bit (`ct_op square`, N <= 16) and against the exact phase relation phase(res) = phase(x)^2
/// (BGV: no rounding), and — whatever the degree — against `multiply(x, x)`: both are the canonical residues of the same ring element
/// sum_{i+j=k} c_i c_j for BGV; for BFV the decrypted values are compared where the budget allows.
fn directed_squares(out: &mut Out, s: &Setup, r: &mut Rng) {
    let (n, t) = (s.n, s.t); let ev = &s.evaluator;
    let nlev = s.levels().len();
    for down in 0..nlev.min(2) {
        let built = std::panic::catch_unwind(std::panic::AssertUnwindSafe(|| {
            let mut v: Vec<(Ciphertext, Vec<u64>)> = vec![];
            let fresh = |r: &mut Rng| -> (Ciphertext, Vec<u64>) { let m = rand_msg(r, n, t); let mut c = s.encryptor.encrypt_new(&plain_of(&m)); for _ in 0..down { c = ev.mod_switch_to_next_new(&c); } (c, m) };
            let (mut acc, mut macc) = fresh(r);
            v.push((acc.clone(), macc.clone()));
            for _ in 0..3 { let (z, mz) = fresh(r); acc = ev.multiply_new(&acc, &z); macc = shadow_mul(&macc, &mz, t); v.push((acc.clone(), macc.clone())); }
            v }));
        let ops = match built { Ok(v) => v, Err(_) => continue };
        for (x, mx) in &ops {
            let sz = x.size();
            let sq = match std::panic::catch_unwind(std::panic::AssertUnwindSafe(|| ev.square_new(x))) { Ok(c) => c, Err(_) => { out.raw(&format!("!FAIL square_sizes {} size{} l{} :: square of a valid ciphertext (result size {} <= 16) refused # sq-size{}", scheme_name(s.scheme), sz, down, 2 * sz - 1, sz)); continue } };
            let mm = match std::panic::catch_unwind(std::panic::AssertUnwindSafe(|| ev.multiply_new(x, x))) { Ok(c) => c, Err(_) => continue };
            let cls = format!("sq-{}-size{}-l{}", scheme_name(s.scheme), sz, down);
            if s.scheme == SchemeType::BGV {
                if sq.data() == mm.data() && sq.size() == mm.size() && sq.correction_factor() == mm.correction_factor() && sq.parms_id() == mm.parms_id() { out.raw(&format!("!OK square_sizes bgv size{} l{} square = multiply(x,x) # {}", sz, down, cls)); }
                else { out.raw(&format!("!FAIL square_sizes bgv size{} l{} :: square(x) differs from multiply(x, x) (sizes {} / {}, factors {} / {}): the residues of sum c_i c_j are unique # {}", sz, down, sq.size(), mm.size(), sq.correction_factor(), mm.correction_factor(), cls)); }
            }
            if n <= 16 { out.case(&format!("ct_op square 0 0 0 | {} | {} | {}", s.ct_case(x), s.ct_case(x), s.ct_case(&sq)), &format!("op-{}", cls), || "ok".to_string()); }
            // decrypted value against the shadow program where the budget of the result allows a claim
            let want = shadow_mul(mx, mx, t);
            let pred = (lib_budget(s, &mm).min(lib_budget(s, &sq)) - 2.0).floor().max(-1.0) as i64;
            let view = |c: &Ciphertext| if s.scheme == SchemeType::BFV && c.is_ntt_form() { ev.transform_from_ntt_new(c) } else { c.clone() };
            let v = view(&sq);
            // (the prediction uses the budget of multiply(x, x): if THAT product still decrypts, the square must decrypt to the same value)
            let dm = s.dec_str(&view(&mm));
            if dm == fl(&trim(&want)) && lib_budget(s, &mm) >= 3.0 { out.case(&format!("prog {} {} {}", s.ct_case(&v), pred.max(4), fl(&trim(&want))), &format!("prog-{}", cls), || s.dec_str(&v)); }
        }
    }
}

/// Relinearisation at EVERY level of the chain, in both orders (multiply -> switch down -> relinearize; switch down -> square -> relinearize):
/// below the first level the key-switching routine works with a proper prefix of the key-level primes plus the special prime
fn directed_relin_levels(out: &mut Out, s: &Setup, r: &mut Rng) {
    if !s.ctx.using_keyswitching() || s.levels().len() < 2 { return; }
    let (n, t) = (s.n, s.t); let ev = &s.evaluator;
    let relin = s.keygen.create_relin_keys(false);
    let (m1, m2) = (rand_msg(r, n, t), rand_msg(r, n, t));
    let (c1, c2) = (s.encryptor.encrypt_new(&plain_of(&m1)), s.encryptor.encrypt_new(&plain_of(&m2)));
    let fresh = lib_budget(s, &c1).min(lib_budget(s, &c2));
    let want = shadow_mul(&m1, &m2, t);
    let (lt, ln) = ((t as f64).log2(), (n as f64).log2());
    for depth in 1..s.levels().len() {
        for order in 0..2 {
            let res = std::panic::catch_unwind(std::panic::AssertUnwindSafe(|| {
                let down = |c: &Ciphertext| { let mut x = c.clone(); for _ in 0..depth { x = ev.mod_switch_to_next_new(&x); } x };
                let prod = if order == 0 { down(&ev.multiply_new(&c1, &c2)) } else { ev.multiply_new(&down(&c1), &down(&c2)) };
                let rl = ev.relinearize_new(&prod, &relin);
                (prod, rl) }));
            let (prod, rl) = match res { Ok(x) => x, Err(_) => { let m = LAST_PANIC.with(|p| p.borrow().clone()); out.raw(&format!("!FAIL relin_level {} depth={} order={} :: multiply / mod switch / relinearize on valid operands panicked: {} # relin-level", scheme_name(s.scheme), depth, order, m.replace('\n', " "))); continue } };
            // a-priori budget: the product rule of `Prog`, then the room left on the target level and the key-switch term
            let lbits: f64 = s.level_qs(rl.parms_id()).iter().map(|&q| (q as f64).log2()).sum();
            let qs = key_qs(s); let p_sp = *qs.last().unwrap() as f64; let qm = *s.level_qs(rl.parms_id()).iter().max().unwrap() as f64;
            // order 0 multiplies at the first level; order 1 multiplies operands that were switched down first (their budget is capped by the room on that level)
            let first_bits = s.level_qs(c1.parms_id()).iter().map(|&q| (q as f64).log2()).sum::<f64>();
            let (pre, mbits) = if order == 0 { (fresh, first_bits) } else { (fresh.min(lbits - lt - ln - 6.0), lbits) };
            let pred_mul = if s.scheme == SchemeType::BFV { pre - (lt + 2.0 * ln + 13.0) } else { 2.0 * pre - mbits - ln - 8.0 };
            let pred = pred_mul.min(lbits - lt - 2.0 * ln - 26.0 - (qm / p_sp).log2().max(0.0)).floor() as i64 - 2;
            let cls = format!("relin-level-{}-d{}-o{}", scheme_name(s.scheme), depth, order);
            let view = |c: &Ciphertext| if s.scheme == SchemeType::BFV && c.is_ntt_form() { ev.transform_from_ntt_new(c) } else { c.clone() };
            out.case(&format!("prog {} {} {}", s.ct_case(&view(&rl)), pred, fl(&trim(&want))), &cls, || s.dec_str(&view(&rl)));
            if n <= 16 { out.case(&format!("ks_op relin 0 {} | {} | {} | {}", fl(&qs), s.ct_case(&prod), kskey_str(s, relin.key(2)), s.ct_case(&rl)), &format!("ks-{}", cls), || "ok".to_string()); }
        }
    }
}

pub fn run(out: &mut Out, thorough: bool, seed: u64, _extra: &[String]) {
    let mut r = Rng::new(seed);
    // correction-factor balancing on its own: prime and composite t, all kinds of factor pairs
    for _ in 0..(if thorough { 2000 } else { 150 }) {
        let t = match r.below(4) { 0 => *r.pick(&[2u64, 3, 5, 17, 257, 65537, 786433, 1032193]), 1 => 1u64 << r.range(1, 30), 2 => r.range(2, 1 << 20), _ => { let b = r.range(2, 60) as u32; r.bits(b).max(2) } };
        let pickf = |r: &mut Rng| -> u64 { match r.below(5) { 0 => 1, 1 => t - 1, 2 => (t / 2).max(1), _ => 1 + r.below(t - 1) } };
        let (f1, f2) = (pickf(&mut r), pickf(&mut r));
        if gcd(f1, t) != 1 || gcd(f2, t) != 1 { continue; }   // correction factors are units mod t
        let tm = Modulus::new(t);
        out.case(&format!("balance {} {} {}", f1, f2, t), "balance", || { let (f, e1, e2) = Evaluator::verif_balance_correction_factors(f1, f2, &tm); format!("{},{},{}", f, e1, e2) });
    }
    crate::wrappers::run(out, &mut r, if thorough { 120 } else { 24 }, false);
    let programs = if thorough { 400 } else { 24 };
    let steps = if thorough { 14 } else { 10 };
    for pi in 0..programs {
        let scheme = if pi % 2 == 0 { SchemeType::BFV } else { SchemeType::BGV };
        // the first two programs (one BFV, one BGV) run on the wide-plain-modulus family (t > 2^32)
        let s = match if pi < 2 { setup_wide_t(&mut r, thorough, scheme) } else { setup(&mut r, thorough, scheme) } { Some(s) => s, None => continue };
        directed_plain_cases(out, &s, &mut r);
        if thorough || pi < 10 { directed_size_pairs(out, &s, &mut r); }
        if thorough || pi < 10 { directed_relin_levels(out, &s, &mut r); }
        if thorough || pi < 10 { directed_squares(out, &s, &mut r); }
        if thorough || pi < 10 { crate::many::directed_many(out, &s, &mut r); }
        let mut prog = Prog::new(&s, &mut r, 3);
        let mut done = 0; let mut tries = 0;
        while done < steps && tries < steps * 6 {
            tries += 1;
            let (cls, item, opa, opb) = match prog.step_with_operands(&mut r) { Some(x) => x, None => continue };
            if cls.starts_with("panic") {
                let m = LAST_PANIC.with(|p| p.borrow().clone());
                out.raw(&format!("!FAIL prog-step {} {} :: operation on valid operands panicked: {} # {}", scheme_name(scheme), cls, m.replace('\n', " "), cls));
                done += 1; continue;
            }
            done += 1;
            // `prog`: ciphertext, predicted remaining budget, expected plaintext; impl = library decryption
            let pred = item.pred.floor().max(-1.0) as i64;
            // BFV ciphertexts held in NTT form are viewed through transform_from_ntt for decryption
            let view = if scheme == SchemeType::BFV && item.ct.is_ntt_form() { s.evaluator.transform_from_ntt_new(&item.ct) } else { item.ct.clone() };
            out.case(&format!("prog {} {} {}", s.ct_case(&view), pred, fl(&trim(&item.m))), &cls, || s.dec_str(&view));
            // bit-exact model of the operation itself (operands and result dumped): add / sub (incl. BGV factor balancing) / negate / multiply / square
            let opname = cls.split('-').next().unwrap_or("");
            if ["add", "sub", "negate", "multiply", "square"].contains(&opname) && s.n <= 16 {
                out.case(&format!("ct_op {} 0 0 0 | {} | {} | {}", opname, s.ct_case(&opa.ct), s.ct_case(&opb.ct), s.ct_case(&item.ct)), &format!("op-{}", cls), || "ok".to_string());
            }
            if opname == "relinearize" && s.n <= 16 {
                out.case(&format!("ks_op relin 0 {} | {} | {} | {}", fl(&key_qs(&s)), s.ct_case(&opa.ct), kskey_str(&s, prog.relin.key(2)), s.ct_case(&item.ct)), &format!("ks-{}", cls), || "ok".to_string());
            }
            // keep it only while it is still usable as an operand
            if item.pred >= 6.0 && prog.pool.len() < 10 { prog.pool.push(item); }
            else if item.pred >= 6.0 { let k = r.below(prog.pool.len() as u64) as usize; prog.pool[k] = item; }
        }
    }
}
