//! One PRNG state for every random choice (splitmix64), so that a case replays exactly.
pub struct Rng(pub u64);
impl Rng {
    pub fn new(seed: u64) -> Self { Rng(seed.wrapping_mul(0x9E3779B97F4A7C15) ^ 0xD1B54A32D192ED03) }
    pub fn next(&mut self) -> u64 {
        self.0 = self.0.wrapping_add(0x9E3779B97F4A7C15);
        let mut z = self.0;
        z = (z ^ (z >> 30)).wrapping_mul(0xBF58476D1CE4E5B9);
        z = (z ^ (z >> 27)).wrapping_mul(0x94D049BB133111EB);
        z ^ (z >> 31)
    }
    pub fn below(&mut self, n: u64) -> u64 { if n == 0 {0} else {self.next() % n} }
    pub fn range(&mut self, lo: u64, hi: u64) -> u64 { lo + self.below(hi - lo + 1) } // inclusive
    pub fn pick<'a, T>(&mut self, v: &'a [T]) -> &'a T { &v[self.below(v.len() as u64) as usize] }
    pub fn chance(&mut self, num: u64, den: u64) -> bool { self.below(den) < num }
    /// a value of exactly `bits` significant bits (bits >= 1)
    pub fn bits(&mut self, bits: u32) -> u64 {
        if bits == 0 {return 0;}
        let top = 1u64 << (bits - 1);
        if bits == 1 {1} else {top | (self.next() & (top - 1))}
    }
    /// boundary-heavy word
    pub fn word(&mut self) -> u64 {
        match self.below(12) {
            0 => 0, 1 => 1, 2 => u64::MAX, 3 => u64::MAX - 1, 4 => 1 << 63, 5 => (1 << 63) - 1,
            6 => 1 << 32, 7 => (1u64 << 32) - 1,
            8 => { let b = self.range(1, 64) as u32; self.bits(b) }
            _ => self.next(),
        }
    }
}
