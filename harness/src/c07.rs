//! C07: the reported invariant noise budget equals its definition (exact integers), on ciphertexts reachable by programs
//! (including ones driven to zero budget); fresh lower bound; negation / k-fold addition laws.
use crate::ctx::*;
use crate::c02::*;
use crate::rng::Rng;
use crate::util::*;
use heathcliff::*;

fn coef_view(s: &Setup, ct: &Ciphertext) -> Ciphertext { if ct.is_ntt_form() { s.evaluator.transform_from_ntt_new(ct) } else { ct.clone() } }
fn budget(s: &Setup, ct: &Ciphertext) -> usize { s.decryptor.invariant_noise_budget(&coef_view(s, ct)) }

/// "whenever the exact noise is below the decryption threshold decryption is exact": the ciphertext whose budget was just reported is
/// decrypted by the library and by the exact-integer oracle (the `dec` line of the shared scheme driver makes the claim only where the
/// exact phase is below the threshold)
fn dec_case(out: &mut Out, s: &Setup, ct: &Ciphertext, cls: &str) {
    let native_ntt = s.scheme == SchemeType::BGV;
    let c = if ct.is_ntt_form() == native_ntt { ct.clone() } else if native_ntt { s.evaluator.transform_to_ntt_new(ct) } else { s.evaluator.transform_from_ntt_new(ct) };
    out.case(&format!("dec {}", s.ct_case(&c)), &format!("dec-{}-cf{}", cls, if c.correction_factor() == 1 { "1" } else { "n" }), || s.dec_str(&c));
}

pub fn run(out: &mut Out, thorough: bool, seed: u64, _extra: &[String]) {
    let mut r = Rng::new(seed);
    let programs = if thorough { 300 } else { 20 };
    for pi in 0..programs {
        let scheme = if pi % 2 == 0 { SchemeType::BFV } else { SchemeType::BGV };
        // the first two programs run on the wide-plain-modulus family (t > 2^32), the rest on whatever `setup` draws
        // ... the next two (and every tenth) on chains of bottom-of-range primes (bits(Q) < sum of the primes' bit counts)
        let s = match if pi < 2 { setup_wide_t(&mut r, thorough, scheme) } else if pi < 4 || pi % 10 >= 8 { setup_low_primes(&mut r, thorough, scheme) } else if pi < 6 || pi % 10 == 7 { setup_60(&mut r, scheme) } else { setup(&mut r, thorough, scheme) } { Some(s) => s, None => continue };
        let mut prog = Prog::new(&s, &mut r, 3);
        // fresh budgets (public-key and secret-key encryptions made by Prog::new)
        for it in &prog.pool {
            let v = coef_view(&s, &it.ct);
            out.case(&format!("fresh_budget {}", s.ct_case(&v)), &format!("{}-fresh", scheme_name(scheme)), || budget(&s, &it.ct).to_string());
        }
        // fresh encryptions of plaintexts on the carry boundaries of the Delta*m scaling ((q mod t)*m + (t+1)/2 around multiples of 2^64; matters for
        // t > 2^32): the budget must still meet the worst-case fresh bound
        if scheme == SchemeType::BFV {
            let cd = s.ctx.first_context_data().unwrap();
            let cand = crate::c01::carry_boundary_coeffs(&mut r, s.t, cd.coeff_modulus_mod_plain_modulus());
            for rep2 in 0..2 {
                let coeffs: Vec<u64> = (0..s.n).map(|i| cand[(i * 7 + rep2 * 3 + r.below(3) as usize) % cand.len()]).collect();
                let p = plain_of(&coeffs);
                for sym in [false, true] {
                    let ct = if sym { let mut c = Ciphertext::new(); s.encryptor.encrypt_symmetric(&p, &mut c); c } else { s.encryptor.encrypt_new(&p) };
                    let v = coef_view(&s, &ct);
                    out.case(&format!("fresh_budget {}", s.ct_case(&v)), &format!("bfv-fresh-carry-{}", if s.t > (1u64 << 32) { "wide" } else { "narrow" }), || budget(&s, &ct).to_string());
                }
            }
        }
        // budgets at EVERY level of the chain (down to the last, single-prime level, where CRT composition is the identity): a fresh
        // ciphertext switched down, and encryptions of zero made directly at that level (public key and secret key)
        if let Some(base) = prog.pool.iter().find(|x| x.ct.size() == 2) {
            for pid in s.levels() {
                let k = s.level_qs(&pid).len();
                let mut cands: Vec<(&str, Ciphertext)> = vec![];
                if let Ok(c) = std::panic::catch_unwind(std::panic::AssertUnwindSafe(|| s.evaluator.mod_switch_to_new(&base.ct, &pid))) { cands.push(("switched", c)); }
                if let Ok(c) = std::panic::catch_unwind(std::panic::AssertUnwindSafe(|| s.encryptor.encrypt_zero_new_at(&pid))) { cands.push(("zero-pk", c)); }
                if let Ok(c) = std::panic::catch_unwind(std::panic::AssertUnwindSafe(|| { let c = s.encryptor.encrypt_zero_symmetric_new_at(&pid); if c.contains_seed() { c.expand_seed(&s.ctx) } else { c } })) { cands.push(("zero-sk", c)); }
                // (more samples at the single-prime level: the effects looked for are per-coefficient events of probability ~ q / 2^64)
                if k == 1 { for _ in 0..6 { if let Ok(c) = std::panic::catch_unwind(std::panic::AssertUnwindSafe(|| s.encryptor.encrypt_zero_new_at(&pid))) { cands.push(("zero-pk", c)); } } }
                for (nm, c) in cands {
                    let v = coef_view(&s, &c);
                    out.case(&format!("budget {}", s.ct_case(&v)), &format!("{}-level-k{}-{}", scheme_name(scheme), k, nm), || budget(&s, &c).to_string());
                    dec_case(out, &s, &c, &format!("{}-level-k{}-{}", scheme_name(scheme), k, nm));
                }
            }
        }
        let mut steps = 0; let mut tries = 0;
        while steps < 12 && tries < 80 {
            tries += 1;
            let (cls, item) = match prog.step(&mut r) { Some(x) => x, None => continue };
            if cls.starts_with("panic") { continue; }
            steps += 1;
            let v = coef_view(&s, &item.ct);
            let b = budget(&s, &item.ct);
            out.case(&format!("budget {}", s.ct_case(&v)), &format!("{}-{}", cls, if b == 0 { "zero" } else if b < 8 { "low" } else { "pos" }), || b.to_string());
            if b >= 1 { dec_case(out, &s, &item.ct, &cls); }
            // negation preserves the budget
            let nb = budget(&s, &s.evaluator.negate_new(&item.ct));
            if nb == b { out.raw(&format!("!OK negate_budget {} {} # neg-{}", b, nb, cls)); } else { out.raw(&format!("!FAIL negate_budget {} :: budget {} became {} after negation # neg-{}", s.ct_case(&v), b, nb, cls)); }
            // keep going even when the budget is exhausted (ciphertexts driven to zero budget are part of the domain)
            if prog.pool.len() < 10 { prog.pool.push(item); } else { let k = r.below(prog.pool.len() as u64) as usize; prog.pool[k] = item; }
        }
        // drive one ciphertext to zero budget by repeated squaring (+ relinearisation)
        {
            let native = scheme == SchemeType::BGV;
            if let Some(start) = prog.pool.iter().find(|x| x.ct.size() == 2 && x.ct.is_ntt_form() == native) {
                let mut c = start.ct.clone();
                for d in 0..8 {
                    let nx = std::panic::catch_unwind(std::panic::AssertUnwindSafe(|| { let q = s.evaluator.square_new(&c); s.evaluator.relinearize_new(&q, &prog.relin) }));
                    c = match nx { Ok(x) => x, Err(_) => break };
                    let b = budget(&s, &c);
                    let v = coef_view(&s, &c);
                    out.case(&format!("budget {}", s.ct_case(&v)), &format!("{}-sqchain{}-{}", scheme_name(scheme), d, if b == 0 { "zero" } else if b < 8 { "low" } else { "pos" }), || b.to_string());
                    if b >= 1 { dec_case(out, &s, &c, &format!("{}-sqchain{}", scheme_name(scheme), d)); }
                    if b == 0 && d >= 1 { break; }
                }
            }
        }
        // sums and differences of every ordered pair of sizes 2..4 (first level and one level down): at most 2 bits below the smaller operand budget
        if thorough || pi < 8 {
            for (name, a, b, res, _want, _pred) in size_pair_cases(&s, &mut r) {
                let (ba, bb, br) = (budget(&s, &a), budget(&s, &b), budget(&s, &res));
                let v = coef_view(&s, &res);
                out.case(&format!("budget {}", s.ct_case(&v)), &format!("pairs-{}", name), || br.to_string());
                if a.correction_factor() != b.correction_factor() { out.raw(&format!("!NOTE pair_budget {} {}: different correction factors (balancing multiplies the operands; the law is stated for equal factors)", scheme_name(scheme), name)); }
                else if br + 2 >= ba.min(bb) { out.raw(&format!("!OK pair_budget {} {} min={} res={} # pairs-{}", scheme_name(scheme), name, ba.min(bb), br, name)); }
                else { out.raw(&format!("!FAIL pair_budget {} {} :: operand budgets {} / {} but the result has {} (more than ceil(log2 2)+1 = 2 bits lost) # pairs-{}", s.ct_case(&v), name, ba, bb, br, name)); }
            }
        }
        // k-fold sums of same-level, same-factor ciphertexts: min budget - ceil(log2 k) - 1 (even k: value-returning form, odd k: destination form, dirty destination)
        for _ in 0..4 {
            let k = r.range(2, 9) as usize;
            let base = &prog.pool[r.below(prog.pool.len() as u64) as usize];
            let ops: Vec<&Item> = prog.pool.iter().filter(|x| x.ct.parms_id() == base.ct.parms_id() && x.ct.is_ntt_form() == base.ct.is_ntt_form() && x.ct.correction_factor() == base.ct.correction_factor()).collect();
            if ops.is_empty() { continue; }
            let chosen: Vec<&Item> = (0..k).map(|_| ops[r.below(ops.len() as u64) as usize]).collect();
            let minb = chosen.iter().map(|x| budget(&s, &x.ct)).min().unwrap();
            let cts: Vec<Ciphertext> = chosen.iter().map(|x| x.ct.clone()).collect();
            let sum = match std::panic::catch_unwind(std::panic::AssertUnwindSafe(|| if k % 2 == 0 { s.evaluator.add_many_new(&cts) } else { let mut d = prog.pool[0].ct.clone(); s.evaluator.add_many(&cts, &mut d); d })) { Ok(c) => c, Err(_) => continue };
            let sb = budget(&s, &sum);
            let lg = (k as f64).log2().ceil() as usize;
            let v = coef_view(&s, &sum);
            out.case(&format!("budget {}", s.ct_case(&v)), &format!("addmany{}", k), || sb.to_string());
            if sb + lg + 1 >= minb { out.raw(&format!("!OK add_many_budget k={} min={} sum={} # addmany{}", k, minb, sb, k)); }
            else { out.raw(&format!("!FAIL add_many_budget {} :: k={} min operand budget {} but sum has {} # addmany{}", s.ct_case(&v), k, minb, sb, k)); }
        }
    }
}
