//! C11: batch encoding as a ring isomorphism; the Galois action on slots.
use crate::ctx::*;
use crate::c02::{shadow_add, shadow_mul};
use crate::rng::Rng;
use crate::util::*;
use heathcliff::*;
use heathcliff::util as hu;

pub fn slot_vec(r: &mut Rng, n: usize, t: u64, kind: u64) -> Vec<u64> {
    match kind {
        0 => vec![t - 1; n],
        1 => vec![0; n],
        2 => { let l = r.range(1, n as u64) as usize; (0..l).map(|_| r.below(t)).collect() }   // short input: zero padded
        3 => (0..n).map(|i| (i as u64) % t).collect(),
        // structured vectors: their encodings have exact structural zeros (all odd coefficients, or all but every fourth), the inputs on which
        // lazy-range slips of the transforms show: stride masks, rows periodic with period N/4 and a zero first column, sparse vectors
        5 => (0..n).map(|i| (i % 2) as u64 * (1 + r.below(t - 1)).min(t - 1)).collect(),
        6 => { let row = (n / 2).max(1); let per = (row / 2).max(1); let base: Vec<u64> = (0..2 * per).map(|j| if j % per == 0 { 0 } else { r.below(t) }).collect(); (0..n).map(|i| base[(i / row) * per + (i % row) % per]).collect() }
        7 => { let mut v = vec![0u64; n]; for _ in 0..2 { let i = r.below(n as u64) as usize; v[i] = r.below(t); } v }
        _ => (0..n).map(|_| r.below(t)).collect(),
    }
}

pub fn rot_rows(v: &[u64], s: isize) -> Vec<u64> {
    let n = v.len(); let row = n / 2;
    let sh = ((s % row as isize) + row as isize) as usize % row;
    (0..n).map(|i| { let (r0, c) = (i / row, i % row); v[r0 * row + (c + sh) % row] }).collect()
}
pub fn swap_rows(v: &[u64]) -> Vec<u64> { let row = v.len() / 2; (0..v.len()).map(|i| v[(i + row) % v.len()]).collect() }

pub fn run(out: &mut Out, thorough: bool, seed: u64, _extra: &[String]) {
    let mut r = Rng::new(seed);
    let kmax = if thorough { 10 } else { 7 };
    for k in 1..=kmax {
        let n = 1usize << k;
        for rep in 0..(if thorough { 4 } else { 2 }) {
            let tb = (k + 2).max(*r.pick(&[4usize, 8, 13, 17, 20, 33, 47, 60]));
            let t = match std::panic::catch_unwind(|| hu::get_primes(2 * n as u64, tb, 1)[0].value()) { Ok(t) => t, Err(_) => continue };
            let qb = (tb + 20).min(60).max(k + 2);
            let q = match std::panic::catch_unwind(|| hu::get_primes(2 * n as u64, qb, 2)) { Ok(p) => p.iter().map(|m| m.value()).find(|&v| v != t).unwrap(), Err(_) => continue };
            let s = match make(SchemeType::BFV, n, &[q], t, false, None) { Some(s) => s, None => continue };
            let enc = BatchEncoder::new(s.ctx.clone());
            if !enc.simd_encoding_supported() { out.raw(&format!("!FAIL batching n={} t={} :: batching prime not accepted # setup", n, t)); continue; }
            let cls = format!("k{}t{}b", k, tb);
            // unit vectors: all of them for small n (linearity), sampled above
            let units: Vec<usize> = if n <= (if thorough { 128 } else { 32 }) { (0..n).collect() } else { (0..6).map(|_| r.below(n as u64) as usize).collect() };
            for &u in &units {
                let mut v = vec![0u64; n]; v[u] = 1 + r.below(t - 1);
                out.case(&format!("batch_encode {} {} {}", k, t, fl(&v)), &format!("unit-{}", cls), || { let p = enc.encode_new(&v); fl(p.data()) });
            }
            for kind in 0..8u64 {
                let v = slot_vec(&mut r, n, t, kind);
                let p = enc.encode_new(&v);
                out.case(&format!("batch_encode {} {} {}", k, t, fl(&v)), &format!("vec{}-{}", kind, cls), || fl(p.data()));
                // round trip: decoding the library's own encoding (structured vectors give encodings with exact structural zeros and slots equal to 0)
                { let pd: Vec<u64> = { let mut d = p.data().clone(); d.resize(n, 0); d };
                  out.case(&format!("batch_decode {} {} {}", k, t, fl(&pd)), &format!("rt{}-{}", kind, cls), || fl(&enc.decode_new(&p)));
                  let back = enc.decode_new(&p); let mut vp = v.clone(); vp.resize(n, 0);
                  if back == vp { out.raw(&format!("!OK batch_round_trip k={} kind={} # rt-{}", k, kind, cls)); } else { out.raw(&format!("!FAIL batch_round_trip {} {} {} :: decode(encode(v)) != v (zero padded) # rt-{}", k, t, fl(&v), cls)); } }
                // the destination forms: a REUSED destination (full of unrelated non-zero data, or shorter / longer than N) must give
                // the same polynomial as a fresh one, and a reused decode buffer the same slots
                {
                    let mut dest = enc.encode_new(&slot_vec(&mut r, n, t, 0));
                    enc.encode(&v, &mut dest);
                    out.case(&format!("batch_encode {} {} {}", k, t, fl(&v)), &format!("reuse-vec{}-{}", kind, cls), || fl(dest.data()));
                    let mut d2 = Plaintext::new(); d2.resize(r.range(1, 2 * n as u64) as usize); for x in d2.data_mut().iter_mut() { *x = 1 + r.below(t - 1); }
                    let same = std::panic::catch_unwind(std::panic::AssertUnwindSafe(|| { enc.encode(&v, &mut d2); d2.data() == p.data() })).unwrap_or(false);
                    let mut buf: Vec<u64> = (0..r.range(0, 2 * n as u64)).map(|_| r.word()).collect();
                    enc.decode(&p, &mut buf);
                    let mut pbuf: Vec<u64> = (0..r.range(0, 2 * n as u64)).map(|_| r.word()).collect();
                    enc.decode_polynomial(&p, &mut pbuf);
                    let mut pd = Plaintext::new(); pd.resize(n); for x in pd.data_mut().iter_mut() { *x = 1 + r.below(t - 1); }
                    let rawp: Vec<u64> = (0..r.range(1, n as u64) as usize).map(|_| r.word()).collect();
                    enc.encode_polynomial(&rawp, &mut pd);
                    let polysame = pd.data() == enc.encode_polynomial_new(&rawp).data();
                    if same && buf == enc.decode_new(&p) && pbuf == enc.decode_polynomial_new(&p) && polysame { out.raw(&format!("!OK batch_dest_forms k={} kind={} # dest-{}", k, kind, cls)); }
                    else { out.raw(&format!("!FAIL batch_dest_forms {} {} {} :: encode/decode into a reused destination differs from the returning form (encode={} poly={}) # dest-{}", k, t, fl(&v), same, polysame, cls)); }
                }
                // decode of arbitrary plaintext polynomials (short ones included)
                let pl = slot_vec(&mut r, n, t, kind);
                let pl: Vec<u64> = match kind { 5 => pl.iter().enumerate().map(|(i, &x)| if i % 2 == 1 { 0 } else { x }).collect(), 6 => pl.iter().enumerate().map(|(i, &x)| if i % 4 != 0 { 0 } else { x }).collect(), _ => pl };
                let mut pp = Plaintext::new(); pp.resize(pl.len()); pp.data_mut().copy_from_slice(&pl);
                out.case(&format!("batch_decode {} {} {}", k, t, fl(&pl)), &format!("dec{}-{}", kind, cls), || fl(&enc.decode_new(&pp)));
                // SHORT plaintexts (coefficient count below N: what decryption returns when the top coefficients are zero, e.g. for constant
                // slot vectors) decoded into a USED destination: the stale slots must not be read as coefficients
                { let short: Vec<u64> = pl[..(r.range(1, n as u64) as usize).min(pl.len())].to_vec();
                  let mut ps = Plaintext::new(); ps.resize(short.len()); ps.data_mut().copy_from_slice(&short);
                  let want = enc.decode_new(&ps);
                  let mut used: Vec<u64> = (0..n).map(|_| 1 + r.below(t - 1)).collect();
                  enc.decode(&ps, &mut used);
                  let cst = enc.encode_new(&vec![1 + r.below(t - 1); n]);   // constant vector: its encoding is a constant polynomial
                  let mut used2: Vec<u64> = enc.decode_new(&p);
                  enc.decode(&cst, &mut used2);
                  if used == want && used2 == enc.decode_new(&cst) { out.raw(&format!("!OK batch_decode_short_into_used k={} kind={} # decshort-{}", k, kind, cls)); }
                  else { out.raw(&format!("!FAIL batch_decode_short_into_used {} {} {} :: decoding a short plaintext into a used destination differs from the returning form # decshort-{}", k, t, fl(&short), cls)); } }
                // ring isomorphism: sums and negacyclic products of encodings decode to slot-wise sums and products
                let w = slot_vec(&mut r, n, t, 4);
                let pw = enc.encode_new(&w);
                let mut vpad = v.clone(); vpad.resize(n, 0);
                let sum = shadow_add(p.data(), pw.data(), t); let prod = shadow_mul(p.data(), pw.data(), t);
                let mut ps = Plaintext::new(); ps.resize(n); ps.data_mut().copy_from_slice(&sum);
                let mut pm = Plaintext::new(); pm.resize(n); pm.data_mut().copy_from_slice(&prod);
                let ds = enc.decode_new(&ps); let dm = enc.decode_new(&pm);
                let es: Vec<u64> = (0..n).map(|i| ((vpad[i] as u128 + w[i] as u128) % t as u128) as u64).collect();
                let em: Vec<u64> = (0..n).map(|i| ((vpad[i] as u128 * w[i] as u128) % t as u128) as u64).collect();
                if ds == es && dm == em { out.raw(&format!("!OK batch_ring_iso k={} t={} kind={} # iso-{}", k, t, kind, cls)); }
                else { out.raw(&format!("!FAIL batch_ring_iso {} {} {} {} :: sum/product of encodings does not decode slot-wise # iso-{}", k, t, fl(&v), fl(&w), cls)); }
                // coefficient (polynomial) encoding: reduce mod t, inverted by coefficient decoding
                // (boundary coefficients: 0, t-1, t itself, t+1, multiples of t, the largest word — and random words)
                let raw: Vec<u64> = (0..r.range(1, n as u64) as usize).map(|_| match r.below(9) { 0 => 0, 1 => t - 1, 2 => t, 3 => t + 1, 4 => t.wrapping_mul(2), 5 => (u64::MAX / t) * t, 6 => u64::MAX, _ => r.word() }).collect();
                let pe = enc.encode_polynomial_new(&raw);
                let back = enc.decode_polynomial_new(&pe);
                if back == raw.iter().map(|x| x % t).collect::<Vec<_>>() { out.raw(&format!("!OK poly_encode k={} # poly-{}", k, cls)); }
                else { out.raw(&format!("!FAIL poly_encode {} {} {} :: coefficient encoding is not reduction mod t # poly-{}", k, t, fl(&raw), cls)); }
            }
            // Galois action on the slot matrix: sigma_{3^s} rotates both rows left by s, sigma_{2N-1} swaps the rows
            if k >= 2 {
                let tool = hu::GaloisTool::new(k);
                let v = slot_vec(&mut r, n, t, 4);
                let p = enc.encode_new(&v);
                let row = n / 2;
                let steps: Vec<isize> = if row <= 16 || thorough { (-(row as isize) + 1..row as isize).collect() } else { (0..10).map(|_| r.range(1, 2 * row as u64 - 2) as isize - row as isize + 1).collect() };
                let tm = Modulus::new(t);
                for st in steps {
                    let g = tool.get_elt_from_step(st);
                    let mut res = vec![0xDEAD_BEEF_0BAD_F00Du64; n]; tool.apply(p.data(), g, &tm, &mut res);
                    let mut pr = Plaintext::new(); pr.resize(n); pr.data_mut().copy_from_slice(&res);
                    let d = enc.decode_new(&pr);
                    let want = if st == 0 { swap_rows(&v) } else { rot_rows(&v, st) };
                    if d == want { out.raw(&format!("!OK galois_slots k={} step={} # rot-{}", k, st, cls)); }
                    else { out.raw(&format!("!FAIL galois_slots {} {} step={} {} :: automorphism of step does not rotate rows left by step (0 = row swap) # rot-{}", k, t, st, fl(&v), cls)); }
                }
                // STRUCTURED slot vectors (constant, per-row constant, all zero, stride masks, periodic rows, sparse): their encodings have
                // exact zero coefficients — the images must still be polynomials over Z_t (every coefficient below t) and decode to the
                // permuted matrix; the row swap (step 0, element 2N-1) and the shortest rotations always, further steps sampled
                let mut svs: Vec<(String, Vec<u64>)> = vec![("const".into(), vec![1 + r.below(t - 1); n]), ("rowconst".into(), { let (a, b) = (r.below(t), r.below(t)); (0..n).map(|i| if i < row { a } else { b }).collect() })];
                for kind in [0u64, 1, 5, 6, 7] { svs.push((format!("kind{}", kind), { let mut x = slot_vec(&mut r, n, t, kind); x.resize(n, 0); x })); }
                for (nm, sv) in svs {
                    let ps = enc.encode_new(&sv);
                    let zeros = ps.data().iter().filter(|&&c| c == 0).count();
                    let mut sts: Vec<isize> = vec![0, 1, -1]; if row > 2 { sts.push(r.range(2, row as u64 - 1) as isize); sts.push(-(r.range(2, row as u64 - 1) as isize)); }
                    if row <= 2 { sts.retain(|s| s.unsigned_abs() < row || *s == 0); }
                    for st in sts {
                        let g = tool.get_elt_from_step(st);
                        let mut res = vec![0xDEAD_BEEF_0BAD_F00Du64; n]; tool.apply(ps.data(), g, &tm, &mut res);
                        let in_range = res.iter().all(|&c| c < t);
                        let d = if in_range { let mut pr = Plaintext::new(); pr.resize(n); pr.data_mut().copy_from_slice(&res); std::panic::catch_unwind(std::panic::AssertUnwindSafe(|| enc.decode_new(&pr))).ok() } else { None };
                        let want = if st == 0 { swap_rows(&sv) } else { rot_rows(&sv, st) };
                        if d.as_ref() == Some(&want) { out.raw(&format!("!OK galois_slots_structured k={} {} step={} zero-coefficients={} # rot-struct-{}", k, nm, st, zeros, cls)); }
                        else { out.raw(&format!("!FAIL galois_slots_structured {} {} step={} elt={} {} :: {} # rot-struct-{}", k, t, st, g, fl(&sv), if !in_range { "the image has a coefficient >= t: not a polynomial over Z_t" } else { "automorphism of step does not rotate rows left by step (0 = row swap)" }, cls)); }
                    }
                }
            }
            let _ = rep;
        }
    }
    high_degree(out, &mut r, kmax, thorough);
    crate::galplain::run_batched(out, &mut r, thorough);
    crate::galplain::run_tool_wrappers(out, &mut r, if thorough { 90 } else { 18 });
}

fn mulm(a: u64, b: u64, q: u64) -> u64 { ((a as u128 * b as u128) % q as u128) as u64 }
fn powm(mut b: u64, mut e: u64, q: u64) -> u64 { let mut r = 1u64 % q; b %= q; while e > 0 { if e & 1 == 1 { r = mulm(r, b, q); } b = mulm(b, b, q); e >>= 1; } r }

/// EVERY supported degree above the ones compared with the model line by line, up to the maximum 2^17, checked against the definitions
/// inside the harness: decode . encode = id (zero padding for short inputs), the encoding of v evaluates to v_i at psi^(slotExp i)
/// (psi = the minimal primitive 2N-th root mod t; slotExp i = 3^i for the first row, -3^(i - N/2) for the second: the documented order),
/// multiplication by a monomial X^j multiplies slot i by psi^(j slotExp i) (ring homomorphism on a sparse operand), and the row
/// rotation / row swap automorphisms on sampled steps.
fn high_degree(out: &mut Out, r: &mut Rng, kmax: usize, thorough: bool) {
    for k in (kmax + 1)..=17 {
        let n = 1usize << k; let row = n / 2; let m2 = 2 * n as u64;
        let tbs: Vec<usize> = if k == 17 || thorough { vec![k + 2, 47] } else { vec![*r.pick(&[k + 2, 30, 47])] };
        for tb in tbs {
            let cls = format!("high-k{}t{}b", k, tb);
            // (the smallest sizes have no prime = 1 mod 2N: take the next size that has one)
            let t = match (tb..=50).find_map(|b| std::panic::catch_unwind(|| hu::get_primes(m2, b, 1)[0].value()).ok()) { Some(t) => t, None => continue };
            let q = match std::panic::catch_unwind(|| hu::get_primes(m2, 60, 1)) { Ok(p) => p[0].value(), Err(_) => continue };
            let s = match make(SchemeType::BFV, n, &[q], t, false, None) { Some(s) => s, None => { out.raw(&format!("!FAIL batch_high setup {} {} :: context for a supported degree refused # {}", k, t, cls)); continue } };
            let enc = BatchEncoder::new(s.ctx.clone());
            if !enc.simd_encoding_supported() { out.raw(&format!("!FAIL batch_high setup {} {} :: batching prime not accepted # {}", k, t, cls)); continue; }
            let mut psi = 0u64;
            if !hu::try_minimal_primitive_root(m2, &Modulus::new(t), &mut psi) { continue; }
            let slot_exp = |i: usize| -> u64 { if i < row { powm(3, i as u64, m2) } else { (m2 - powm(3, (i - row) as u64, m2)) % m2 } };
            let eval = |p: &[u64], x: u64| -> u64 { p.iter().rev().fold(0u64, |acc, &c| (mulm(acc, x, t) + c % t) % t) };
            let mut ok = true;
            for kind in [4u64, 2, 7] {
                let v = slot_vec(r, n, t, kind);
                let p = enc.encode_new(&v);
                let mut vp = v.clone(); vp.resize(n, 0);
                if enc.decode_new(&p) != vp { out.raw(&format!("!FAIL batch_high round_trip {} {} kind={} :: decode(encode(v)) != v (zero padded) # {}", k, t, kind, cls)); ok = false; break; }
                // evaluation at the slot points: first / last of each row, around the 2^16 boundary of positions, and random slots
                let mut idx: Vec<usize> = vec![0, 1, row - 1, row, row + 1, n - 1]; for _ in 0..6 { idx.push(r.below(n as u64) as usize); }
                let pd: Vec<u64> = { let mut d = p.data().clone(); d.resize(n, 0); d };
                if let Some(&i) = idx.iter().find(|&&i| eval(&pd, powm(psi, slot_exp(i), t)) != vp[i]) {
                    out.raw(&format!("!FAIL batch_high eval {} {} slot={} :: the encoding does not evaluate to the slot value at psi^(slotExp i) # {}", k, t, i, cls)); ok = false; break; }
                // X^j * p decodes to slot_i * psi^(j slotExp i)
                let j = 1 + r.below(n as u64 - 1) as usize;
                let mut sh = vec![0u64; n]; for (i, &c) in pd.iter().enumerate() { let d = i + j; if d < n { sh[d] = c; } else { sh[d - n] = (t - c) % t; } }
                let mut ps = Plaintext::new(); ps.resize(n); ps.data_mut().copy_from_slice(&sh);
                let ds = enc.decode_new(&ps);
                if let Some(&i) = idx.iter().find(|&&i| ds[i] != mulm(vp[i], powm(psi, (j as u64 * slot_exp(i)) % m2, t), t)) {
                    out.raw(&format!("!FAIL batch_high monomial {} {} j={} slot={} :: X^j times the encoding does not decode slot-wise # {}", k, t, j, i, cls)); ok = false; break; }
            }
            if !ok { continue; }
            // Galois action on sampled steps
            let tool = hu::GaloisTool::new(k); let tm = Modulus::new(t);
            let v = slot_vec(r, n, t, 4); let p = enc.encode_new(&v);
            let mut steps: Vec<isize> = vec![0, 1, -1, row as isize - 1, -(row as isize) + 1]; for _ in 0..3 { steps.push(r.range(1, 2 * row as u64 - 2) as isize - row as isize + 1); }
            for st in steps {
                let g = tool.get_elt_from_step(st);
                let mut res = vec![0xDEAD_BEEF_0BAD_F00Du64; n]; tool.apply(p.data(), g, &tm, &mut res);
                let mut pr = Plaintext::new(); pr.resize(n); pr.data_mut().copy_from_slice(&res);
                let want = if st == 0 { swap_rows(&v) } else { rot_rows(&v, st) };
                if enc.decode_new(&pr) != want { out.raw(&format!("!FAIL batch_high galois_slots {} {} step={} :: automorphism of step does not rotate rows left by step (0 = row swap) # {}", k, t, st, cls)); ok = false; break; }
            }
            if ok { out.raw(&format!("!OK batch_high {} {} # {}", k, t, cls)); }
        }
    }
}

