//! C12: the CKKS encoder (src/ckks_encoder.rs) — index map, root tables (8-fold symmetry of `ComplexRoots::get_root`),
//! the five encoding entry points on their three magnitude paths, and decoding.
//!
//! Floating-point values are printed EXACTLY as dyadic rationals `mantissa:exponent` (value = mantissa * 2^exponent,
//! mantissa odd or 0; `inf`, `-inf`, `nan` for the non-finite ones), complex vectors as interleaved re,im lists.
//! The driver (lean/Driver/C12.lean) holds the oracle: the exact inverse canonical embedding in big-integer fixed point.
//!
//! Line kinds
//!   ckks_index_map k                         => matrix_reps_index_map of a real encoder
//!   ckks_get_root m octant js                => get_root(j) for j in js (IEEE bit patterns `re:im`); octant = stored table
//!   ckks_root_tables k octant                => root_powers | inv_root_powers of a real encoder (bit patterns)
//!   ckks_enc entry k qs scale vals tap       => scale comps decode decode_polynomial      (or ERR:*)
//!   ckks_dec k qs scale comps                => decode decode_polynomial                  (or ERR:*)
//! `tap` = `bits/coeffs` recorded by the cfg(verif) hook inside the encoder: the path-selecting bit count and the f64
//! coefficients right before rounding (`-` when the function refused before reaching the tap or has none).
use crate::ctx::*;
use crate::rng::Rng;
use crate::util::*;
use heathcliff::*;
use heathcliff::util as hu;
use heathcliff::verif::ckks_hooks as tap;
use num_complex::Complex;

pub fn dy(x: f64) -> String {
    if x.is_nan() { return "nan".to_string(); }
    if x.is_infinite() { return if x > 0.0 { "inf".to_string() } else { "-inf".to_string() }; }
    if x == 0.0 { return "0:0".to_string(); }
    let bits = x.to_bits();
    let neg = bits >> 63 == 1;
    let exp = ((bits >> 52) & 0x7ff) as i64;
    let frac = bits & ((1u64 << 52) - 1);
    let (mut m, mut e) = if exp == 0 { (frac, -1074i64) } else { (frac | (1u64 << 52), exp - 1075) };
    let tz = m.trailing_zeros(); m >>= tz; e += tz as i64;
    format!("{}{}:{}", if neg { "-" } else { "" }, m, e)
}
pub fn dyl(v: &[f64]) -> String { if v.is_empty() { "-".to_string() } else { v.iter().map(|&x| dy(x)).collect::<Vec<_>>().join(",") } }
pub fn cdyl(v: &[Complex<f64>]) -> String {
    if v.is_empty() { "-".to_string() } else { v.iter().map(|c| format!("{},{}", dy(c.re), dy(c.im))).collect::<Vec<_>>().join(",") }
}
fn cbits(v: &[Complex<f64>]) -> String {
    if v.is_empty() { "-".to_string() } else { v.iter().map(|c| format!("{}:{}", c.re.to_bits(), c.im.to_bits())).collect::<Vec<_>>().join(",") }
}
fn pow2(e: i32) -> f64 { 2f64.powi(e) }

/// a non-negative magnitude <= 2^top, boundary heavy
fn mag(r: &mut Rng, top: i32) -> f64 {
    let top = top.max(0);
    match r.below(9) {
        0 => 0.0,
        1 => 1.0,
        2 => pow2(top),
        3 => pow2(r.range(0, top as u64) as i32),
        4 => { let e = r.range(1, top.max(1) as u64) as i32; (pow2(e) - 1.0).min(pow2(top)) }
        5 => ((r.below(1 << 20) as f64) / 1024.0).min(pow2(top)),
        6 => ((r.below(1000) as f64) + 0.5).min(pow2(top)),       // exact halves: rounding ties at scale 1
        _ => { let e = r.range(0, top as u64) as i32; let m = (r.next() >> 11) as f64 / pow2(53); (0.5 + m / 2.0) * pow2(e) }
    }
}
fn sgn(r: &mut Rng) -> f64 { if r.chance(1, 2) { -1.0 } else { 1.0 } }

/// complex vectors: all sign / magnitude patterns, purely imaginary, unit vectors, short inputs
fn cvec(r: &mut Rng, slots: usize, kind: u64, top: i32) -> Vec<Complex<f64>> {
    let z = Complex::new(0.0, 0.0);
    match kind {
        0 => vec![z; slots],
        1 => { let mut v = vec![z; slots]; let i = r.below(slots as u64) as usize;
               v[i] = match r.below(4) { 0 => Complex::new(1.0, 0.0), 1 => Complex::new(0.0, 1.0), 2 => Complex::new(-mag(r, top), 0.0), _ => Complex::new(mag(r, top), -mag(r, top)) }; v }
        2 => (0..slots).map(|_| Complex::new(mag(r, top), 0.0)).collect(),
        3 => (0..slots).map(|_| Complex::new(-mag(r, top), 0.0)).collect(),
        4 => (0..slots).map(|i| Complex::new(if i % 2 == 0 { 1.0 } else { -1.0 } * mag(r, top), 0.0)).collect(),
        5 => (0..slots).map(|_| Complex::new(0.0, sgn(r) * mag(r, top))).collect(),
        6 => (0..slots).map(|_| Complex::new(sgn(r) * mag(r, top), sgn(r) * mag(r, top))).collect(),
        7 => { let c = Complex::new(sgn(r) * mag(r, top), sgn(r) * mag(r, top)); vec![c; slots] }
        8 => { let l = r.below(slots as u64) as usize; (0..l).map(|_| Complex::new(sgn(r) * mag(r, top), sgn(r) * mag(r, top))).collect() }
        _ => (0..slots).map(|_| Complex::new(sgn(r) * pow2(top), sgn(r) * pow2(top))).collect(),
    }
}
fn max_abs(v: &[Complex<f64>]) -> f64 { v.iter().fold(0.0f64, |a, c| a.max(c.re.abs()).max(c.im.abs())) }
fn bits_of(x: f64) -> i32 { if x < 1.0 { 0 } else { x.log2().floor() as i32 + 1 } }

/// scales 2^0 .. 2^(B-2) placed so that the scaled magnitude crosses the 64- and 128-bit paths and approaches the modulus;
/// `vb` = bit length of the largest input magnitude; `gain` = log2 of the growth through the transform (slots for vectors)
fn pick_scale(r: &mut Rng, b: usize, vb: i32, gain: i32, which: u64) -> f64 {
    let b = b as i32;
    let hi = (b - 2).min(1023).max(0);
    let clamp = |s: i32| pow2(s.max(0).min(hi));
    match which {
        0 => 1.0,
        1 => clamp(64 - vb - gain + r.range(0, 4) as i32 - 2),      // around the 64-bit boundary
        2 => clamp(128 - vb - gain + r.range(0, 4) as i32 - 2),     // around the 128-bit boundary
        3 => clamp(b - vb - gain - r.range(0, 5) as i32),           // scaled magnitude near the modulus
        4 => clamp(hi),                                             // the largest admissible scale
        5 => clamp(r.range(0, hi as u64) as i32) * *r.pick(&[1.5, 1.25, 1.0009765625]),   // not a power of two
        _ => clamp(r.range(0, hi as u64) as i32),
    }
}
/// refused scales: non-positive, oversized
fn bad_scale(r: &mut Rng, b: usize) -> f64 {
    match r.below(7) { 0 => 0.0, 1 => -1.0, 2 => -pow2(30), 3 => pow2((b as i32 - 1).min(1023)), 4 => pow2((b as i32).min(1023)), 5 => pow2(1023), _ => f64::INFINITY }
}

fn comps(p: &Plaintext, n: usize) -> String {
    let k = p.data().len() / n.max(1);
    if k == 0 { return "-".to_string(); }
    (0..k).map(|c| fl(&p.data()[c * n..(c + 1) * n])).collect::<Vec<_>>().join(";")
}

struct Level { pid: ParmsID, qs: Vec<u64>, bits: usize, q: crate::big::Big }

/// x / Q as a double (Q up to 1200 bits): only used to LABEL cases (see `enc_case`), never to judge them
fn ratio_to_q(x: f64, q: &crate::big::Big) -> f64 {
    let l = &q.0; let n = l.len();
    let (top, shift) = if n == 1 { (l[0] as f64, 0i32) } else { ((l[n - 1] as f64) * pow2(64) + l[n - 2] as f64, 64 * (n as i32 - 2)) };
    let h = shift / 2;
    (x * pow2(-h) * pow2(-(shift - h))) / top
}

fn junk(r: &mut Rng, len: usize) -> Plaintext {
    let mut p = Plaintext::new(); p.resize(len); for x in p.data_mut().iter_mut() { *x = r.next(); } p
}

/// one encoding case through the real encoder; prints the `ckks_enc` line
#[allow(clippy::too_many_arguments)]
fn enc_case(out: &mut Out, r: &mut Rng, enc: &CKKSEncoder, n: usize, k: usize, lv: &Level, entry: &str, scale: f64,
            cv: &[Complex<f64>], rv: &[f64], iv: i64, class: &str) {
    let vals = match entry { "vec" => cdyl(cv), "cplx" => cdyl(&cv[..1]), "real" => dy(rv[0]), "int" => iv.to_string(), _ => dyl(rv) };
    let inplace = r.chance(1, 4);
    let jl = r.below(3 * n as u64) as usize;
    let mut dest = junk(r, jl);
    tap::arm();
    let res = guard(|| {
        let pid = Some(lv.pid);
        let p = match (entry, inplace) {
            ("vec", false) => enc.encode_c64_array_new(cv, pid, scale),
            ("vec", true) => { enc.encode_c64_array(cv, pid, scale, &mut dest); dest.clone() }
            ("cplx", false) => enc.encode_c64_single_new(cv[0], pid, scale),
            ("cplx", true) => { enc.encode_c64_single(cv[0], pid, scale, &mut dest); dest.clone() }
            ("real", false) => enc.encode_f64_single_new(rv[0], pid, scale),
            ("real", true) => { enc.encode_f64_single(rv[0], pid, scale, &mut dest); dest.clone() }
            ("int", false) => enc.encode_i64_single_new(iv, pid),
            ("int", true) => { enc.encode_i64_single(iv, pid, &mut dest); dest.clone() }
            (_, false) => enc.encode_f64_polynomial_new(rv, pid, scale),
            (_, true) => { enc.encode_f64_polynomial(rv, pid, scale, &mut dest); dest.clone() }
        };
        if p.parms_id() != &lv.pid || !p.is_ntt_form() { return "ERR:other".to_string(); }
        let d1 = enc.decode_new(&p);
        let d2 = enc.decode_polynomial_new(&p);
        format!("{} {} {} {}", dy(p.scale()), comps(&p, n), cdyl(&d1), dyl(&d2))
    });
    let recs = tap::take();
    let tap_s = match recs.last() { Some(t) => format!("{}/{}", t.bit_count, dyl(&t.coeffs)), None => "-".to_string() };
    let sc = if entry == "int" { "1:0".to_string() } else { dy(scale) };
    // LABEL (for known_findings.json only; the oracle in the driver does not look at it): the scaled magnitude the encoder
    // itself computed lies in (Q/2, 2^(B-1)], i.e. it does not fit the modulus but passes a bit-count test without sign bit.
    // Cases within 10^-6 (relative) of Q/2 are not emitted: there neither the label nor the tolerance oracle is decisive.
    let mut label = "";
    if let Some(t) = recs.last() {
        let m = t.coeffs.iter().fold(0.0f64, |a, x| a.max(x.abs()));
        if m.is_finite() && m > 1.0 {
            let ratio = ratio_to_q(m, &lv.q);
            if (ratio - 0.5).abs() <= 0.5e-6 { return; }
            if ratio > 0.5 && m.log2().ceil() < lv.bits as f64 { label = ".gap"; }
        }
    }
    out.raw(&format!("ckks_enc {}{} {} {} {} {} {} => {} # {}{}", entry, label, k, fl(&lv.qs), sc, vals, tap_s, res, class, label));
    out.n += 1;
}

fn dec_case(out: &mut Out, enc: &CKKSEncoder, n: usize, k: usize, lv: &Level, scale: f64, data: &[u64], ntt: bool, class: &str) {
    let mut p = Plaintext::new();
    p.resize(data.len()); p.data_mut().copy_from_slice(data);
    if ntt { p.set_parms_id(lv.pid); }
    p.set_scale(scale);
    let lhs = format!("ckks_dec {} {} {} {}", k, fl(&lv.qs), dy(scale), if ntt { comps(&p, n) } else { format!("coeff:{}", fl(data)) });
    out.case(&lhs, class, || { let d1 = enc.decode_new(&p); let d2 = enc.decode_polynomial_new(&p); format!("{} {}", cdyl(&d1), dyl(&d2)) });
}

/// plaintext (NTT form) holding the given signed integer coefficients (|c| < 2^63 here) at a level
fn plain_of_ints(s: &Setup, lv: &Level, n: usize, cs: &[i128]) -> Vec<u64> {
    let cd = s.ctx.get_context_data(&lv.pid).unwrap();
    let tables = cd.small_ntt_tables();
    let mut data = vec![0u64; n * lv.qs.len()];
    for (j, &q) in lv.qs.iter().enumerate() {
        for i in 0..n { let c = cs.get(i).copied().unwrap_or(0); data[j * n + i] = c.rem_euclid(q as i128) as u64; }
        tables[j].ntt_negacyclic_harvey(&mut data[j * n..(j + 1) * n]);
    }
    data
}

/// bit length of a big integer (the generator places its boundary magnitudes by the TRUE bit count of Q, not by the library's cached count)
fn big_bits(q: &crate::big::Big) -> usize { let l = q.limbs(64); let mut top = 0usize; for (i, w) in l.iter().enumerate() { if *w != 0 { top = i * 64 + (64 - w.leading_zeros() as usize); } } top }

/// distinct NTT-friendly primes of the given bit sizes (any multiplicity of a size, up to 19 equal sizes)
fn chain_primes(r: &mut Rng, n: usize, bits: &[usize]) -> Option<Vec<u64>> {
    let mut pools: std::collections::BTreeMap<usize, Vec<u64>> = Default::default();
    for &b in bits {
        if pools.contains_key(&b) { continue; }
        let need = bits.iter().filter(|&&x| x == b).count();
        // every third size class takes its primes from the BOTTOM of the bit range (just above 2^(b-1)): the bit count of a product of such primes is
        // smaller than the sum of the primes' bit counts, which separates "bits of Q" from "sum of bits" in every bound that depends on it
        if b >= 12 && b - 1 > (2 * n).trailing_zeros() as usize && r.chance(1, 3) {
            let mut v: Vec<u64> = vec![]; let mut c = (1u64 << (b - 1)) + 1; let step = 2 * n as u64; let mut tries = 0;
            while v.len() < need + 2 && tries < 4000 { if Modulus::new(c).is_prime() { v.push(c); } c += step; tries += 1; }
            if v.len() >= need { pools.insert(b, v); continue; }
        }
        let ps = [need + 8, need + 2, need].iter().find_map(|&c| std::panic::catch_unwind(|| hu::get_primes(2 * n as u64, b, c)).ok())?;
        pools.insert(b, ps.iter().map(|m| m.value()).collect());
    }
    let mut out = vec![];
    for &b in bits { let pool = pools.get_mut(&b).unwrap(); if pool.is_empty() { return None; } let i = r.below(pool.len() as u64) as usize; out.push(pool.swap_remove(i)); }
    Some(out)
}

fn chain_bits(r: &mut Rng, k: usize, len: usize, which: u64) -> Vec<usize> {
    let lo = 20.max(k + 2);
    match which {
        0 => vec![lo; len],
        1 => vec![60; len],
        2 => vec![30.max(lo); len],
        3 => (0..len).map(|i| if i % 2 == 0 { 60 } else { lo }).collect(),
        _ => (0..len).map(|_| r.range(lo as u64, 60) as usize).collect(),
    }
}

fn undy(s: &str) -> f64 {
    match s { "inf" => return f64::INFINITY, "-inf" => return f64::NEG_INFINITY, "nan" => return f64::NAN, _ => {} }
    let mut it = s.split(':');
    let m: f64 = it.next().and_then(|x| x.parse::<i64>().ok()).unwrap_or(0) as f64;
    let e: i32 = it.next().and_then(|x| x.parse().ok()).unwrap_or(0);
    let h = e / 2;
    m * pow2(h) * pow2(e - h)
}
fn undyl(s: &str) -> Vec<f64> { if s == "-" { vec![] } else { s.split(',').map(undy).collect() } }

/// a context whose FIRST DATA LEVEL has exactly the primes `qs` (one more prime is appended as the special prime)
fn ctx_with_level(n: usize, qs: &[u64]) -> Option<(Setup, Level)> {
    let extra = hu::get_primes(2 * n as u64, 59, qs.len() + 1).iter().map(|m| m.value()).find(|v| !qs.contains(v))?;
    let mut all = qs.to_vec(); all.push(extra);
    let s = make(SchemeType::CKKS, n, &all, 0, true, None)?;
    let pid = *s.ctx.first_parms_id();
    let lq = s.level_qs(&pid);
    if lq != qs { return None; }
    let bits = s.ctx.get_context_data(&pid).unwrap().total_coeff_modulus_bit_count();
    let q = crate::big::Big::product(&lq);
    Some((s, Level { pid, qs: lq, bits, q }))
}

/// re-run one recorded case line (`--case <lhs>`): same degree, same level primes, same inputs
fn replay_case(out: &mut Out, r: &mut Rng, lhs: &str) {
    let t: Vec<&str> = lhs.split(' ').collect();
    if t.len() < 5 { return; }
    match t[0] {
        "ckks_enc" if t.len() >= 6 => {
            let entry = t[1].split('.').next().unwrap_or(t[1]);
            let k: usize = t[2].parse().unwrap_or(1); let n = 1usize << k;
            let qs: Vec<u64> = t[3].split(',').filter_map(|x| x.parse().ok()).collect();
            let (s, lv) = match ctx_with_level(n, &qs) { Some(x) => x, None => { out.raw("!NOTE replay: could not rebuild the level"); return; } };
            let enc = CKKSEncoder::new(s.ctx.clone());
            let scale = undy(t[4]);
            let (mut cv, mut rv, mut iv) = (vec![], vec![], 0i64);
            match entry {
                "vec" | "cplx" => { let f = undyl(t[5]); cv = f.chunks(2).map(|c| Complex::new(c[0], *c.get(1).unwrap_or(&0.0))).collect(); }
                "int" => { iv = t[5].parse().unwrap_or(0); }
                _ => { rv = undyl(t[5]); }
            }
            if entry == "cplx" && cv.is_empty() { return; }
            if entry == "real" && rv.is_empty() { return; }
            for _ in 0..4 { enc_case(out, r, &enc, n, k, &lv, entry, scale, &cv, &rv, iv, "replay"); }   // in-place and _new variants
        }
        "ckks_dec" => {
            let k: usize = t[1].parse().unwrap_or(1); let n = 1usize << k;
            let qs: Vec<u64> = t[2].split(',').filter_map(|x| x.parse().ok()).collect();
            let (s, lv) = match ctx_with_level(n, &qs) { Some(x) => x, None => { out.raw("!NOTE replay: could not rebuild the level"); return; } };
            let enc = CKKSEncoder::new(s.ctx.clone());
            let (ntt, body) = match t[4].strip_prefix("coeff:") { Some(b) => (false, b), None => (true, t[4]) };
            let data: Vec<u64> = body.split(|c| c == ',' || c == ';').filter_map(|x| x.parse().ok()).collect();
            dec_case(out, &enc, n, k, &lv, undy(t[3]), &data, ntt, "replay");
        }
        _ => {}
    }
}

/// the two witnesses of DESIGN.md §7 and the one of the sign-bit finding, verbatim
fn witnesses(out: &mut Out, r: &mut Rng) {
    let n = 8usize; let k = 3usize;
    let ps: Vec<u64> = hu::get_primes(2 * n as u64, 30, 5).iter().map(|m| m.value()).collect();
    if let Some((s, lv)) = ctx_with_level(n, &ps) {
        let enc = CKKSEncoder::new(s.ctx.clone());
        enc_case(out, r, &enc, n, k, &lv, "int", 1.0, &[], &[], -(1i64 << 35), "witness-i64-neg-2^35-30bit-primes");
        enc_case(out, r, &enc, n, k, &lv, "poly", pow2(70), &[], &[3.0, -2.0], 0, "witness-poly-[3,-2]-scale-2^70");
    }
    let q = hu::get_primes(8, 20, 1)[0].value();
    if let Some((s, lv)) = ctx_with_level(4, &[q]) {
        let enc = CKKSEncoder::new(s.ctx.clone());
        let x = -pow2(19);
        enc_case(out, r, &enc, 4, 2, &lv, "vec", 1.0, &[Complex::new(x, 0.0), Complex::new(x, 0.0)], &[], 0, "witness-signbit-2^19-20bit-prime");
    }
}

pub fn run(out: &mut Out, thorough: bool, seed: u64, extra: &[String]) {
    let mut r = Rng::new(seed);
    if extra.first().map(|s| s.as_str()) == Some("--case") {
        if let Some(l) = extra.get(1) { replay_case(out, &mut r, l); }
        return;
    }
    let part = extra.first().map(|s| s.as_str()).unwrap_or("all").to_string();
    out.raw("!NOTE tolerance (logged): encode vec/cplx |c'-c| <= 3/2 + (10k+3)*2^-53*scale*(2*sum|v_i|)/N; real/poly 3/2 + 2^-52*|v*scale|; int 0; decode: sum_j (L+3)*2^-53*S_j/scale + (10k+2)*2^-53*sum_j|c_j|/scale (S_j = sum of the absolute limb terms of the fold, L = limbs, k = log2 N)");
    let kmax = if thorough { 10 } else { 6 };
    // ---------------------------------------------------------------- tables: index map, get_root, root tables
    if part == "all" || part == "tables" {
        for k in 1..=(if thorough { 13 } else { 9 }) {
            let n = 1usize << k;
            let q = match std::panic::catch_unwind(|| hu::get_primes(2 * n as u64, 30.max(k + 2), 1)[0].value()) { Ok(q) => q, Err(_) => continue };
            let s = match make(SchemeType::CKKS, n, &[q], 0, false, None) { Some(s) => s, None => { out.raw(&format!("!FAIL ckks_setup {} {} :: context refused # setup", n, q)); continue } };
            let enc = CKKSEncoder::new(s.ctx.clone());
            out.case(&format!("ckks_index_map {}", k), &format!("map-k{}", k), || fl(&enc.verif_index_map().iter().map(|&x| x as u64).collect::<Vec<_>>()));
            let m = 2 * n;
            if m >= 8 {
                let js: Vec<usize> = if m <= 512 { (0..(2 * m + 3)).collect() } else {
                    let mut v: Vec<usize> = vec![0, 1, m / 8 - 1, m / 8, m / 8 + 1, m / 4 - 1, m / 4, m / 4 + 1, m / 2 - 1, m / 2, m / 2 + 1, 3 * m / 4 - 1, 3 * m / 4, 3 * m / 4 + 1, m - 1, m, m + 1, 2 * m - 1, 3 * m + m / 8 + 1];
                    for _ in 0..200 { v.push(r.below(4 * m as u64) as usize); } v };
                let (oct, got) = CKKSEncoder::verif_complex_roots(m, &js);
                out.case(&format!("ckks_get_root {} {} {}", m, cbits(&oct), fl(&js.iter().map(|&x| x as u64).collect::<Vec<_>>())), &format!("root-m{}", m), || cbits(&got));
                if k <= (if thorough { 11 } else { 8 }) {
                    out.case(&format!("ckks_root_tables {} {}", k, cbits(&oct)), &format!("tables-k{}", k), || format!("{} {}", cbits(enc.verif_root_powers()), cbits(enc.verif_inv_root_powers())));
                }
            } else {
                out.case(&format!("ckks_root_tables {} -", k), &format!("tables-k{}", k), || format!("{} {}", cbits(enc.verif_root_powers()), cbits(enc.verif_inv_root_powers())));
            }
        }
    }
    // ---------------------------------------------------------------- every degree above the line-by-line range, up to 2^17 (in-harness oracles)
    if part == "all" || part == "tables" {
        let ks: Vec<usize> = if thorough { (10..=17).collect() } else { vec![17, 10 + (seed as usize % 7)] };
        for k in ks {
            let n = 1usize << k; let slots = n / 2;
            let cls = format!("high-k{}", k);
            let qs: Vec<u64> = match std::panic::catch_unwind(|| hu::get_primes(2 * n as u64, 60, 3)) { Ok(p) => p.iter().map(|m| m.value()).collect(), Err(_) => continue };
            let s = match make(SchemeType::CKKS, n, &qs, 0, true, None) { Some(s) => s, None => { out.raw(&format!("!FAIL ckks_high {} setup :: context for a supported degree refused # {}", k, cls)); continue } };
            let res = std::panic::catch_unwind(std::panic::AssertUnwindSafe(|| -> Option<String> {
                let enc = CKKSEncoder::new(s.ctx.clone());
                let map = enc.verif_index_map();
                let mut seen = vec![false; n];
                for &x in map.iter() { let x = x as usize; if x >= n || seen[x] { return Some(format!("index map is not a permutation of 0..N (entry {})", x)); } seen[x] = true; }
                if map.len() != n { return Some(format!("index map has {} entries", map.len())); }
                let vals: Vec<num_complex::Complex64> = (0..slots).map(|i| num_complex::Complex64::new(((i * 37 + 11) % 257) as f64 / 16.0 - 8.0, ((i * 101 + 7) % 129) as f64 / 32.0 - 2.0)).collect();
                for (li, pid) in s.levels().iter().enumerate() {
                    let scale = 2f64.powi(if li == 0 { 70 } else { 40 });      // the first level also takes the > 64-bit magnitude path
                    let p = enc.encode_c64_array_new(&vals, Some(*pid), scale);
                    let d = enc.decode_new(&p);
                    // rounding (N/2 per coefficient spread over N slots) + double-precision FFT error, generously
                    let tol = (n as f64) / scale + 1e-7;
                    if let Some(i) = (0..slots).find(|&i| (d[i] - vals[i]).norm() > tol) { return Some(format!("level {}: decode(encode(v))[{}] = {} instead of {} (tolerance {:.2e})", li, i, d[i], vals[i], tol)); }
                    // short input: zero padded
                    let short = &vals[..slots / 3 + 1];
                    let d2 = enc.decode_new(&enc.encode_c64_array_new(short, Some(*pid), scale));
                    if let Some(i) = (0..slots).find(|&i| (d2[i] - if i < short.len() { short[i] } else { num_complex::Complex64::new(0.0, 0.0) }).norm() > tol) { return Some(format!("level {}: short input slot {} wrong", li, i)); }
                    // single real value and integer: every slot equals it
                    let d3 = enc.decode_new(&enc.encode_f64_single_new(-3.25, Some(*pid), scale));
                    if let Some(i) = (0..slots).find(|&i| (d3[i] - num_complex::Complex64::new(-3.25, 0.0)).norm() > tol) { return Some(format!("level {}: single real value, slot {} wrong", li, i)); }
                }
                None }));
            match res {
                Ok(None) => out.raw(&format!("!OK ckks_high {} levels={} # {}", k, s.levels().len(), cls)),
                Ok(Some(w)) => out.raw(&format!("!FAIL ckks_high {} :: {} # {}", k, w, cls)),
                Err(_) => { let m = LAST_PANIC.with(|p| p.borrow().clone()); out.raw(&format!("!FAIL ckks_high {} :: panicked: {} # {}", k, m.replace('\n', " "), cls)); }
            }
        }
    }
    if part == "tables" { return; }
    if part == "all" || part == "chain0" { witnesses(out, &mut r); }
    // ---------------------------------------------------------------- encoding / decoding over chains, levels, entry points
    let chain_lens: Vec<usize> = if thorough { (1..=19).collect() } else { vec![1, 2, 3, 4, 5, 7, 11, 19] };
    let sel: Option<usize> = part.strip_prefix("chain").and_then(|s| s.parse().ok());
    for (ci, &len) in chain_lens.iter().enumerate() {
        if let Some(sx) = sel { if sx != ci { continue; } }
        let reps = if thorough { 3 } else { 2 };
        for rep in 0..reps {
            // degree: one small and one larger per chain length (all code paths are degree independent), every k up to kmax over the run;
            // thorough adds a third context with N up to 1024 for short chains (the oracle costs N^2 big-integer products per case)
            let kbig = if len <= 3 { kmax } else if len <= 8 { 9 } else { 8 };
            let k = match rep { 0 => 1 + ((ci + seed as usize) % 3), 1 => 4 + ((ci + seed as usize) % 3), _ => 7 + ((ci + seed as usize) % (kbig - 6)) };
            let n = 1usize << k; let slots = n / 2;
            let which = (ci + rep) as u64 % 5;
            let bitsv = chain_bits(&mut r, k, len, which);
            let qs = match chain_primes(&mut r, n, &bitsv) { Some(q) => q, None => { out.raw(&format!("!NOTE no primes for n={} bits={:?}", n, bitsv)); continue } };
            let s = match make(SchemeType::CKKS, n, &qs, 0, true, None) { Some(s) => s, None => { out.raw(&format!("!FAIL ckks_setup {} {} :: context refused # setup", n, fl(&qs))); continue } };
            let enc = CKKSEncoder::new(s.ctx.clone());
            let levels: Vec<Level> = s.levels().iter().map(|pid| { let cd = s.ctx.get_context_data(pid).unwrap();
                { let q = crate::big::Big::product(&s.level_qs(pid)); let _ = &cd; Level { pid: *pid, qs: s.level_qs(pid), bits: big_bits(&q), q } } }).collect();
            let lmax = if rep == 0 { usize::MAX } else if thorough { 6 } else { 4 };     // EVERY level on the small-degree context of each chain
            let lsel: Vec<usize> = if levels.len() <= lmax { (0..levels.len()).collect() } else {
                let mut v = vec![0, levels.len() - 1, levels.len() / 2]; for _ in 3..lmax { v.push(r.below(levels.len() as u64) as usize); } v.sort(); v.dedup(); v };
            for &li in &lsel {
                let lv = &levels[li];
                let cls = format!("k{}L{}of{}", k, lv.qs.len(), len);
                // -- vector entry point: every pattern, scales across the paths
                for kind in 0..10u64 {
                    let top = *r.pick(&[60i32, 60, 30, 10, 1]);
                    let cv = cvec(&mut r, slots, kind, top);
                    let vb = bits_of(max_abs(&cv));
                    let w = if kind == 0 { r.below(7) } else { (kind + li as u64) % 7 };
                    let scale = pick_scale(&mut r, lv.bits, vb, 1, w);
                    enc_case(out, &mut r, &enc, n, k, lv, "vec", scale, &cv, &[], 0, &format!("vec{}-s{}-{}", kind, w, cls));
                }
                // -- every entry point at each scale placement
                for w in 0..7u64 {
                    let top = *r.pick(&[60i32, 40, 20, 3]);
                    let c1 = vec![Complex::new(sgn(&mut r) * mag(&mut r, top), if w % 2 == 0 { sgn(&mut r) * mag(&mut r, top) } else { 0.0 })];
                    let c1 = if w == 3 { vec![Complex::new(0.0, -mag(&mut r, top))] } else { c1 };
                    let scale = pick_scale(&mut r, lv.bits, bits_of(max_abs(&c1)), 1, w);
                    enc_case(out, &mut r, &enc, n, k, lv, "cplx", scale, &c1, &[], 0, &format!("cplx-s{}-{}", w, cls));
                    // a single complex value whose IMAGINARY part is tiny in absolute terms but large after scaling (and the mirror case): the
                    // encoding granularity is 1/scale, not machine epsilon — at the largest scales that fit this level
                    if w < 2 && lv.bits >= 70 {
                        let sb = (lv.bits as i32 - 8).min(1000);
                        let tiny = pow2(-(r.range(53, 60) as i32).min(sb - 2));
                        // (the other part is zero or just as tiny: next to an O(1) part the transform's double-precision error would hide the tiny one)
                        let c2 = if w == 0 { vec![Complex::new(0.0, tiny)] } else { vec![Complex::new(-tiny, tiny / 2.0)] };
                        enc_case(out, &mut r, &enc, n, k, lv, "cplx", pow2(sb - 3), &c2, &[], 0, &format!("cplx-tiny-part-{}", cls));
                    }
                    let x = sgn(&mut r) * mag(&mut r, top);
                    let scale = pick_scale(&mut r, lv.bits, bits_of(x.abs()), 0, w);
                    enc_case(out, &mut r, &enc, n, k, lv, "real", scale, &[], &[x], 0, &format!("real-s{}-{}", w, cls));
                    // coefficient lists: lengths 1..N, mixed signs; (w = 5: the DESIGN.md witness shape [3, -2] at a large scale)
                    let l = match r.below(4) { 0 => 1, 1 => n, 2 => 2.min(n), _ => 1 + r.below(n as u64) as usize };
                    let pv: Vec<f64> = if w == 5 { vec![3.0, -2.0][..2.min(n)].to_vec() } else { (0..l).map(|_| sgn(&mut r) * mag(&mut r, top)).collect() };
                    let pb = bits_of(pv.iter().fold(0.0f64, |a, x| a.max(x.abs())));
                    let scale = pick_scale(&mut r, lv.bits, pb, 0, if w == 5 { 3 } else { w });
                    enc_case(out, &mut r, &enc, n, k, lv, "poly", scale, &[], &pv, 0, &format!("poly-s{}-{}", w, cls));
                }
                // -- integers: every magnitude class, both signs, i64 extremes
                let b = lv.bits as i32;
                let mut ivs: Vec<i64> = vec![0, 1, -1, i64::MAX, i64::MIN, i64::MIN + 1, -(1i64 << 35), 1i64 << 35];
                for &q in lv.qs.iter().take(3) { ivs.push(q as i64); ivs.push(-(q as i64)); ivs.push(-(q as i64) - 1); ivs.push(1 - q as i64); }
                for e in [b - 4, b - 3, b - 2, 62, 63] { if (1..=62).contains(&e) { ivs.push(1i64 << e); ivs.push(-(1i64 << e)); ivs.push((1i64 << e) - 1); ivs.push(1 - (1i64 << e)); } }
                for _ in 0..6 { let e = r.range(1, 63) as u32; let v = (r.next() >> (64 - e)) as i64; ivs.push(v); ivs.push(-v); }
                for &v in &ivs { enc_case(out, &mut r, &enc, n, k, lv, "int", 1.0, &[], &[], v, &format!("int-{}", cls)); }
                // -- refusals: bad scales, too many values, magnitudes beyond the modulus
                for e in ["vec", "cplx", "real", "poly"] {
                    let bs = bad_scale(&mut r, lv.bits);
                    let cv = cvec(&mut r, slots, 6, 10); let pv: Vec<f64> = (0..n).map(|_| sgn(&mut r) * mag(&mut r, 10)).collect();
                    enc_case(out, &mut r, &enc, n, k, lv, e, bs, &cv, &pv, 0, &format!("badscale-{}-{}", e, cls));
                }
                { let cv = cvec(&mut r, slots + 1, 6, 10); enc_case(out, &mut r, &enc, n, k, lv, "vec", 1024.0, &cv, &[], 0, &format!("toomany-vec-{}", cls));
                  let pv: Vec<f64> = vec![1.0; n + 1]; enc_case(out, &mut r, &enc, n, k, lv, "poly", 1024.0, &[], &pv, 0, &format!("toomany-poly-{}", cls));
                  enc_case(out, &mut r, &enc, n, k, lv, "poly", 1024.0, &[], &[], 0, &format!("trivial-empty-poly-{}", cls)); }
                for d in 0..6i32 {
                    // scaled magnitude 2^(B-4+d): fits for small d, must be refused once it exceeds the modulus
                    let e = b - 4 + d; let se = (e - 20).max(0).min(1000); let ve = e - se;
                    if ve > 60 || ve < 0 { continue; }
                    let x = pow2(ve) * if d % 2 == 0 { 1.0 } else { -1.0 };
                    let cv = vec![Complex::new(x, 0.0); slots];
                    enc_case(out, &mut r, &enc, n, k, lv, "vec", pow2(se), &cv, &[], 0, &format!("fit{}-vec-{}", d, cls));
                    enc_case(out, &mut r, &enc, n, k, lv, "real", pow2(se), &[], &[x], 0, &format!("fit{}-real-{}", d, cls));
                    enc_case(out, &mut r, &enc, n, k, lv, "poly", pow2(se), &[], &[x, -x][..2.min(n)], 0, &format!("fit{}-poly-{}", d, cls));
                }
                // -- magnitudes placed relative to the modulus: just below Q/2 (fits), in (Q/2, 2^(B-1)] (does not fit), above
                for (ri, ratio) in [0.25f64, 0.49, 0.51, 0.6, 0.75, 0.99, 1.5].iter().enumerate() {
                    let nl = lv.q.0.len();
                    let (top, shift) = if nl == 1 { (lv.q.0[0] as f64, 0i32) } else { ((lv.q.0[nl - 1] as f64) * pow2(64) + lv.q.0[nl - 2] as f64, 64 * (nl as i32 - 2)) };
                    let t = top * ratio;                       // target magnitude = t * 2^shift
                    let te = t.log2().floor() as i32 + shift;    // its exponent
                    if te > 1000 { continue; }
                    let se = (te - 40).max(0);
                    let x = (t * pow2(shift - se)).round();      // x * 2^se = ratio * Q (to 40 bits)
                    let x = if ri % 2 == 0 { x } else { -x };
                    let cv = vec![Complex::new(x, 0.0); slots];
                    enc_case(out, &mut r, &enc, n, k, lv, "vec", pow2(se), &cv, &[], 0, &format!("ratio{}-vec-{}", ri, cls));
                    enc_case(out, &mut r, &enc, n, k, lv, "cplx", pow2(se), &[Complex::new(0.0, x)], &[], 0, &format!("ratio{}-cplx-{}", ri, cls));
                    enc_case(out, &mut r, &enc, n, k, lv, "real", pow2(se), &[], &[x], 0, &format!("ratio{}-real-{}", ri, cls));
                    enc_case(out, &mut r, &enc, n, k, lv, "poly", pow2(se), &[], &[-x, x][..2.min(n)], 0, &format!("ratio{}-poly-{}", ri, cls));
                }
                // -- decoding of arbitrary plaintexts: uniform residues (coefficients as large as the modulus), centred-lift boundaries
                let sc = pow2(r.range(0, (lv.bits - 1).min(1000) as u64) as i32);
                let data: Vec<u64> = lv.qs.iter().flat_map(|&q| (0..n).map(|_| r.below(q)).collect::<Vec<_>>()).collect();
                dec_case(out, &enc, n, k, lv, sc, &data, true, &format!("dec-uniform-{}", cls));
                let cs: Vec<i128> = (0..n).map(|i| match i % 6 { 0 => 0, 1 => -1, 2 => 1, 3 => -((r.next() >> 2) as i128), 4 => (r.next() >> 2) as i128, _ => -(1i128 << r.range(0, 62)) }).collect();
                dec_case(out, &enc, n, k, lv, pow2(r.range(0, 40) as i32), &plain_of_ints(&s, lv, n, &cs), true, &format!("dec-signed-{}", cls));
                // (Q-1)/2 and (Q+1)/2 in every coefficient: residues of the half modulus
                let qprod = crate::big::Big::product(&lv.qs);
                for (nm, h) in [("half-lo", qprod.half()), ("half-hi", qprod.half().add_u64(1))] {
                    let mut data = vec![0u64; n * lv.qs.len()];
                    let cd = s.ctx.get_context_data(&lv.pid).unwrap();
                    for (j, &q) in lv.qs.iter().enumerate() { let v = h.mod_u64(q); for i in 0..n { data[j * n + i] = if i % 2 == 0 { v } else { 0 }; }
                        cd.small_ntt_tables()[j].ntt_negacyclic_harvey(&mut data[j * n..(j + 1) * n]); }
                    dec_case(out, &enc, n, k, lv, pow2((lv.bits as i32 - 8).max(0).min(1000)), &data, true, &format!("dec-{}-{}", nm, cls));
                }
                // refusals of decode: non-NTT plaintext, bad scales
                dec_case(out, &enc, n, k, lv, 1.0, &vec![1u64; n.min(3)], false, &format!("dec-not-ntt-{}", cls));
                dec_case(out, &enc, n, k, lv, 0.0, &data, true, &format!("dec-scale0-{}", cls));
                dec_case(out, &enc, n, k, lv, -4.0, &data, true, &format!("dec-scaleneg-{}", cls));
                dec_case(out, &enc, n, k, lv, pow2((lv.bits as i32).min(1023)), &data, true, &format!("dec-scalebig-{}", cls));
            }
        }
    }
}
