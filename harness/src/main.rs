//! Correspondence harness: runs the real Heathcliff code in-process on generated inputs and
//! prints one case per line (`fn args => impl-output # class`).  See /verif/DESIGN.md §3.3.
mod rng; mod util;
mod big; mod ctx; mod c01; mod c01e; mod c02; mod c03; mod c04; mod c11; mod c05; mod c06; mod c07; mod c08; mod c09; mod c10; mod c12; mod c13; mod ser; mod c14; mod c15; mod c16; mod c17; mod c18;
mod c19;
mod c20;
mod wrappers;
mod many;
mod galplain;

fn main() {
    let a: Vec<String> = std::env::args().collect();
    if a.len() < 4 { eprintln!("usage: hcharness <prop> <quick|thorough> <seed> [extra]"); std::process::exit(2); }
    let thorough = a[2] == "thorough";
    let seed: u64 = a[3].parse().unwrap_or(0);
    let extra: Vec<String> = a[4..].to_vec();
    util::install_panic_hook();
    util::start_watchdog(std::env::var("HC_CASE_TIMEOUT").ok().and_then(|v| v.parse().ok()).unwrap_or(30));
    let mut out = util::Out::new();
    match a[1].as_str() {
        "C01" => c01::run(&mut out, thorough, seed, &extra),
        "C02" => c02::run(&mut out, thorough, seed, &extra),
        "C03" => c03::run(&mut out, thorough, seed, &extra),
        "C04" => c04::run(&mut out, thorough, seed, &extra),
        "C11" => c11::run(&mut out, thorough, seed, &extra),
        "C05" => c05::run(&mut out, thorough, seed, &extra),
        "C06" => c06::run(&mut out, thorough, seed, &extra),
        "C07" => c07::run(&mut out, thorough, seed, &extra),
        "C08" => c08::run(&mut out, thorough, seed, &extra),
        "C09" => c09::run(&mut out, thorough, seed, &extra),
        "C10" => c10::run(&mut out, thorough, seed, &extra),
        "C12" => c12::run(&mut out, thorough, seed, &extra),
        "C13" => c13::run(&mut out, thorough, seed, &extra),
        "C14" => c14::run(&mut out, thorough, seed, &extra),
        "C15" => c15::run(&mut out, thorough, seed, &extra),
        "C16" => c16::run(&mut out, thorough, seed, &extra),
        "C17" => c17::run(&mut out, thorough, seed, &extra),
        "C18" => c18::run(&mut out, thorough, seed, &extra),
        "C19" => c19::run(&mut out, thorough, seed, &extra),
        "C20" => c20::run(&mut out, thorough, seed, &extra),
        p => { eprintln!("unknown property {}", p); std::process::exit(2); }
    }
    out.flush();
}
