//! C04: Galois automorphisms on polynomials and ciphertexts, rotations (direct key / NAF composed), conjugation, key switching.
use crate::ctx::*;
use crate::c02::{plain_of, rand_msg, trim};
use crate::c11::{rot_rows, swap_rows};
use crate::rng::Rng;
use crate::util::*;
use heathcliff::*;
use heathcliff::util as hu;

/// a(X^g) mod (X^n + 1, t)
pub fn shadow_subst(a: &[u64], g: usize, t: u64) -> Vec<u64> {
    let n = a.len(); let mut out = vec![0u64; n];
    for i in 0..n { let e = (i * g) % (2 * n); if e < n { out[e] = (out[e] + a[i]) % t; } else { out[e - n] = (out[e - n] + t - a[i] % t) % t; } }
    out
}


fn ct_same(a: &Ciphertext, b: &Ciphertext) -> bool {
    a.data() == b.data() && a.parms_id() == b.parms_id() && a.size() == b.size() && a.is_ntt_form() == b.is_ntt_form()
        && a.scale().to_bits() == b.scale().to_bits() && a.correction_factor() == b.correction_factor()
}
/// the destination form of an operation, into a fresh destination and into a used one (another level, another correction factor / scale),
/// must give exactly the object the value-returning form gives (data and every metadata field)
fn dest_forms(out: &mut Out, what: &str, cls: &str, want: &Ciphertext, dirty: &Ciphertext, f: &dyn Fn(&mut Ciphertext)) {
    for (dn, d0) in [("fresh", Ciphertext::new()), ("used", dirty.clone())] {
        let mut d = d0;
        let ok = std::panic::catch_unwind(std::panic::AssertUnwindSafe(|| { f(&mut d); })).is_ok();
        if ok && ct_same(&d, want) { out.raw(&format!("!OK dest_form {} {} # dest-{}", what, dn, cls)); }
        else { out.raw(&format!("!FAIL dest_form {} {} :: the destination form {} (correction factor {} vs {}, level/representation/scale compared too) # dest-{}", what, dn, if ok { "differs from the value-returning form" } else { "was refused" }, d.correction_factor(), want.correction_factor(), cls)); }
    }
}

pub fn run(out: &mut Out, thorough: bool, seed: u64, _extra: &[String]) {
    let mut r = Rng::new(seed);
    // ---- unit level: GaloisTool on polynomials
    for k in 1..=(if thorough { 9 } else { 6 }) {
        let n = 1usize << k;
        let tool = hu::GaloisTool::new(k);
        out.case(&format!("elts_all {}", k), &format!("k{}", k), || fl(&tool.get_elts_all().iter().map(|&x| x as u64).collect::<Vec<_>>()));
        let row = (n / 2) as isize;
        for st in -row - 1..=row + 1 {
            if n > 64 && !thorough && st.abs() > 6 && st.abs() < row - 2 { continue; }
            out.case(&format!("elt_from_step {} {}", k, st), &format!("k{}", k), || tool.get_elt_from_step(st).to_string());
        }
        let q = match std::panic::catch_unwind(|| hu::get_primes(2 * n as u64, (k + 3).max(20), 1)[0].value()) { Ok(q) => q, Err(_) => continue };
        let m = Modulus::new(q);
        let tables = hu::NTTTables::new(k, &m).unwrap();
        let gs: Vec<usize> = if n <= 32 || thorough && n <= 128 { (0..n).map(|j| 2 * j + 1).collect() } else { (0..12).map(|_| 2 * r.below(n as u64) as usize + 1).collect() };
        for &g in &gs {
            let a: Vec<u64> = match r.below(3) { 0 => { let mut v = vec![0u64; n]; v[r.below(n as u64) as usize] = 1; v } 1 => vec![q - 1; n], _ => (0..n).map(|_| r.below(q)).collect() };
            out.case(&format!("galois_apply {} {} {} {}", k, q, g, fl(&a)), &format!("apply-k{}", k), || { let mut res = vec![0xDEAD_BEEF_0BAD_F00Du64; n]; tool.apply(&a, g, &m, &mut res); fl(&res) });
            out.case(&format!("galois_table {} {}", k, g), &format!("table-k{}", k), || fl(&tool.generate_table_ntt(g).iter().map(|&x| x as u64).collect::<Vec<_>>()));
            let mut an = a.clone(); tables.ntt_negacyclic_harvey(&mut an);
            out.case(&format!("galois_apply_ntt {} {} {} {}", k, q, g, fl(&an)), &format!("applyntt-k{}", k), || { let mut res = vec![0u64; n]; tool.apply_ntt(&an, g, &mut res); fl(&res) });
        }
    }
    // ---- ciphertext level
    let reps = if thorough { 36 } else { 6 };
    for rep in 0..reps {
        // the first three rounds use N = 32: the smallest degree at which some steps (e.g. -11, -13) have no direct default key AND a
        // NAF containing the full-row term ±N/2, so that the NAF composition (and its skipping of the identity term) is exercised
        let lg = if rep < 3 { 5 } else { r.range(2, if thorough { 6 } else { 4 }) as usize }; let n = 1usize << lg;
        // the first rounds are directed: every scheme with two and with three data levels below the special prime
        let kq = if rep < 3 { 3 } else if rep < 6 { 4 } else { r.range(2, 4) as usize };
        let bits: Vec<usize> = (0..kq).map(|_| *r.pick(&[40usize, 50, 59])).collect();
        let mut qs = match pick_primes(&mut r, n, &bits) { Some(v) => v, None => continue };
        let scheme = [SchemeType::BFV, SchemeType::BGV, SchemeType::CKKS][rep % 3];
        let t = if scheme == SchemeType::CKKS { 0 } else { pick_plain(&mut r, n, 0, &qs) };
        // BGV (and every second BFV round): the special prime — in the later round also a data prime — is 1 modulo the plain modulus (the shape
        // `create_with_plain_modulus` produces): q_k^-1 mod t = 1, so the guarded shortcuts of the final division by the special prime are taken
        if t > 2 && (scheme == SchemeType::BGV || rep % 6 == 3) {
            let last = qs.len() - 1;
            if let Some(p) = prime_one_mod(n, t, 55, &qs) { qs[last] = p; }
            if rep >= 3 { if let Some(p) = prime_one_mod(n, t, 50, &qs) { qs[last - 1] = p; } }
        }
        let s = match make(scheme, n, &qs, t, true, None) { Some(s) => s, None => continue };
        if !s.ctx.using_keyswitching() { continue; }
        let all_keys = s.keygen.create_galois_keys(false);          // default: 2N-1 and ±2^i steps only (NAF composition needed)
        let row = n / 2;
        let lt = if t > 0 { (t as f64).log2() } else { 0.0 };
        if scheme == SchemeType::CKKS {
            let enc = CKKSEncoder::new(s.ctx.clone());
            let vals: Vec<num_complex::Complex64> = (0..row).map(|i| num_complex::Complex64::new(i as f64 - 2.5, ((r.below(101) as f64) - 50.0) / 4.0)).collect();
            let scale = 2f64.powi(30);
            for clevel in 0..s.levels().len().min(2) {
            let mut ct = s.encryptor.encrypt_new(&enc.encode_c64_array_new(&vals, None, scale));
            for _ in 0..clevel { ct = s.evaluator.mod_switch_to_next_new(&ct); }
            let p_special = *qs.last().unwrap();
            // worst-case key-switch noise (same formula as the driver's integer-level check) turned into a slot tolerance
            let qmax = *qs[..qs.len() - 1].iter().max().unwrap() as f64;
            let bks = (21.0 * n as f64 * (qs.len() - 1) as f64 * (qmax / p_special as f64).ceil() + n as f64 + 2.0) * (lg as f64 + 2.0);
            let tol = 1e-3 + n as f64 * bks / scale;
            let steps: Vec<isize> = (-(row as isize) + 1..row as isize).filter(|&x| x != 0).collect();
            for st in steps {
                let res = match std::panic::catch_unwind(std::panic::AssertUnwindSafe(|| s.evaluator.rotate_vector_new(&ct, st, &all_keys))) { Ok(c) => c, Err(_) => { out.raw(&format!("!FAIL rotate_vector n={} step={} :: refused although the default keys generate every step # ckks", n, st)); continue } };
                let g = hu::GaloisTool::new(lg).get_elt_from_step(st);
                out.case(&format!("galois_ckks {} {} {} | {}", g, p_special, s.ct_case(&ct), s.ct_case(&res)), &format!("ckks-rot-n{}-l{}", n, clevel), || "ok".to_string());
                let dec = enc.decode_new(&s.decryptor.decrypt_new(&res));
                let sh = ((st % row as isize) + row as isize) as usize % row;
                let ok = (0..row).all(|i| (dec[i] - vals[(i + sh) % row]).norm() < tol);
                if tol > 0.25 { out.raw(&format!("!NOTE rotate_vector slot check skipped: key-switch noise bound exceeds the scale (special prime much smaller than a coefficient prime)")); }
                else if ok { out.raw(&format!("!OK rotate_vector_slots n={} step={} # ckks-slots", n, st)); } else { out.raw(&format!("!FAIL rotate_vector_slots n={} step={} :: decoded slots are not the input rotated left by step # ckks-slots", n, st)); }
            }
            if n <= 16 { let g = 2 * n - 1; out.case(&format!("ks_op galois {} {} | {} | {} | {}", g, fl(&key_qs(&s)), s.ct_case(&ct), kskey_str(&s, all_keys.key(g)), s.ct_case(&s.evaluator.apply_galois_new(&ct, g, &all_keys))), "ks-ckks-conj", || "ok".to_string());
                let g3 = 3; out.case(&format!("ks_op galois {} {} | {} | {} | {}", g3, fl(&key_qs(&s)), s.ct_case(&ct), kskey_str(&s, all_keys.key(g3)), s.ct_case(&s.evaluator.apply_galois_new(&ct, g3, &all_keys))), "ks-ckks-rot1", || "ok".to_string()); }
            { let ev = &s.evaluator; let dirty = s.encryptor.encrypt_new(&enc.encode_c64_array_new(&vals, None, 2f64.powi(20))); let lc = format!("ckks-l{}", clevel);
              dest_forms(out, "rotate_vector", &lc, &ev.rotate_vector_new(&ct, 1, &all_keys), &dirty, &|d| ev.rotate_vector(&ct, 1, &all_keys, d));
              dest_forms(out, "complex_conjugate", &lc, &ev.complex_conjugate_new(&ct, &all_keys), &dirty, &|d| ev.complex_conjugate(&ct, &all_keys, d)); }
            let res = s.evaluator.complex_conjugate_new(&ct, &all_keys);
            out.case(&format!("galois_ckks {} {} {} | {}", 2 * n - 1, p_special, s.ct_case(&ct), s.ct_case(&res)), &format!("ckks-conj-n{}-l{}", n, clevel), || "ok".to_string());
            let dec = enc.decode_new(&s.decryptor.decrypt_new(&res));
            if tol > 0.25 { out.raw("!NOTE conjugate slot check skipped: key-switch noise bound exceeds the scale"); } else if (0..row).all(|i| (dec[i] - vals[i].conj()).norm() < tol) { out.raw(&format!("!OK conjugate_slots n={} # ckks-slots", n)); } else { out.raw(&format!("!FAIL conjugate_slots n={} :: decoded slots are not the complex conjugates # ckks-slots", n)); }
            }
            continue;
        }
        let benc = BatchEncoder::new(s.ctx.clone());
        if !benc.simd_encoding_supported() { continue; }
        let slots: Vec<u64> = (0..n).map(|_| r.below(t)).collect();
        let plain = benc.encode_new(&slots);
        let msg: Vec<u64> = { let mut v = plain.data().clone(); v.resize(n, 0); v };
        for level in 0..s.levels().len().min(3) {
            let mut ct = s.encryptor.encrypt_new(&plain);
            for _ in 0..level { ct = s.evaluator.mod_switch_to_next_new(&ct); }
            let lbits: f64 = s.level_qs(ct.parms_id()).iter().map(|&q| (q as f64).log2()).sum();
            let ratio_bits = { let p_sp = *qs.last().unwrap() as f64; let qm = *qs[..qs.len() - 1].iter().max().unwrap() as f64; (qm / p_sp).log2().max(0.0) };
            let pred0 = (lbits - lt - (n as f64).log2() - 32.0 - ratio_bits).floor() as i64;
            // every odd Galois element with its own key
            let elts: Vec<usize> = if n <= 16 { (0..n).map(|j| 2 * j + 1).collect() } else { (0..8).map(|_| 2 * r.below(n as u64) as usize + 1).collect() };
            let own = s.keygen.create_galois_keys_from_elts(&elts, false);
            for &g in &elts {
                let res = s.evaluator.apply_galois_new(&ct, g, &own);
                if n <= 16 { out.case(&format!("ks_op galois {} {} | {} | {} | {}", g, fl(&key_qs(&s)), s.ct_case(&ct), kskey_str(&s, own.key(g)), s.ct_case(&res)), &format!("ks-{}-galois-l{}", scheme_name(scheme), level), || "ok".to_string()); }
                let want = shadow_subst(&msg, g, t);
                out.case(&format!("prog {} {} {}", s.ct_case(&res), pred0, fl(&trim(&want))), &format!("{}-galois-l{}", scheme_name(scheme), level), || s.dec_str(&res));
            }
            // every rotation step with only the default keys (NAF composed), and with a directly generated key
            for st in (-(row as isize) + 1..row as isize).filter(|&x| x != 0) {
                let g = hu::GaloisTool::new(lg).get_elt_from_step(st);
                let want = shadow_subst(&msg, g, t);
                let direct = s.keygen.create_galois_keys_from_steps(&[st], false);
                for (nm, keys) in [("naf", &all_keys), ("direct", &direct)] {
                    let res = match std::panic::catch_unwind(std::panic::AssertUnwindSafe(|| s.evaluator.rotate_rows_new(&ct, st, keys))) { Ok(c) => c, Err(_) => { out.raw(&format!("!FAIL rotate_rows {} n={} step={} keys={} :: refused # rows", scheme_name(scheme), n, st, nm)); continue } };
                    let pred = pred0 - 4;
                    out.case(&format!("prog {} {} {}", s.ct_case(&res), pred, fl(&trim(&want))), &format!("{}-rows-{}-l{}", scheme_name(scheme), nm, level), || s.dec_str(&res));
                    let d = benc.decode_new(&s.decryptor.decrypt_new(&res));
                    if d == rot_rows(&slots, st) { out.raw(&format!("!OK rotate_rows_slots {} n={} step={} {} # rows-slots", scheme_name(scheme), n, st, nm)); }
                    else { out.raw(&format!("!FAIL rotate_rows_slots {} n={} step={} {} :: decoded matrix is not rotated left by step # rows-slots", scheme_name(scheme), n, st, nm)); }
                }
            }
            // a ciphertext with a SPARSE second polynomial (c1 = 0: the transparent ciphertext (Delta m, 0) obtained as ct - ct + plain, and one
            // whose c1 is a monomial): automorphisms that skip zero coefficients leave stale words of c0 in the scratch buffer
            if level == 0 {
                let zero = s.evaluator.sub_new(&ct, &ct);
                let sparse = match std::panic::catch_unwind(std::panic::AssertUnwindSafe(|| s.evaluator.add_plain_new(&zero, &plain))) { Ok(c) => Some(c), Err(_) => None };
                if let Some(sp) = sparse {
                    for st in [1isize, -1, (row / 2) as isize] {
                        let g = hu::GaloisTool::new(lg).get_elt_from_step(st);
                        match std::panic::catch_unwind(std::panic::AssertUnwindSafe(|| s.evaluator.rotate_rows_new(&sp, st, &all_keys))) {
                            Ok(res) => { out.case(&format!("prog {} {} {}", s.ct_case(&res), pred0 - 4, fl(&trim(&shadow_subst(&msg, g, t)))), &format!("{}-rows-sparse-c1", scheme_name(scheme)), || s.dec_str(&res)); }
                            Err(_) => { let m = LAST_PANIC.with(|p| p.borrow().clone()); if !m.contains("transparent") { out.raw(&format!("!FAIL rotate_rows {} n={} step={} sparse-c1 :: refused: {} # rows-sparse", scheme_name(scheme), n, st, m.replace('\n', " "))); } }
                        }
                    }
                }
            }
            // destination forms at this level (fresh destination and a used top-level one)
            { let ev = &s.evaluator; let dirty = s.encryptor.encrypt_new(&plain); let lc = format!("{}-l{}", scheme_name(scheme), level);
              let g3 = 3usize; let own3 = s.keygen.create_galois_keys_from_elts(&[g3], false);
              dest_forms(out, "rotate_rows", &lc, &ev.rotate_rows_new(&ct, 1, &all_keys), &dirty, &|d| ev.rotate_rows(&ct, 1, &all_keys, d));
              dest_forms(out, "rotate_columns", &lc, &ev.rotate_columns_new(&ct, &all_keys), &dirty, &|d| ev.rotate_columns(&ct, &all_keys, d));
              dest_forms(out, "apply_galois", &lc, &ev.apply_galois_new(&ct, g3, &own3), &dirty, &|d| ev.apply_galois(&ct, g3, &own3, d));
            }
            let res = s.evaluator.rotate_columns_new(&ct, &all_keys);
            out.case(&format!("prog {} {} {}", s.ct_case(&res), pred0, fl(&trim(&shadow_subst(&msg, 2 * n - 1, t)))), &format!("{}-cols-l{}", scheme_name(scheme), level), || s.dec_str(&res));
            if benc.decode_new(&s.decryptor.decrypt_new(&res)) == swap_rows(&slots) { out.raw(&format!("!OK rotate_columns_slots n={} # cols-slots", n)); } else { out.raw(&format!("!FAIL rotate_columns_slots n={} :: rows not swapped # cols-slots", n)); }
            // a ciphertext under ANOTHER secret key, switched to this key generator's key
            // (`create_keyswitching_key(other)` supports switching FROM `other` TO the generator's own key)
            let kg2 = KeyGenerator::new(s.ctx.clone());
            let ksk = s.keygen.create_keyswitching_key(kg2.secret_key(), false);
            let enc2 = Encryptor::new(s.ctx.clone()).set_secret_key(kg2.secret_key().clone());
            let mut ct2 = Ciphertext::new(); enc2.encrypt_symmetric(&plain, &mut ct2);
            for _ in 0..level { ct2 = s.evaluator.mod_switch_to_next_new(&ct2); }
            let res = s.evaluator.apply_keyswitching_new(&ct2, &ksk);
            { let dirty = s.encryptor.encrypt_new(&plain); dest_forms(out, "apply_keyswitching", &format!("{}-l{}", scheme_name(scheme), level), &res, &dirty, &|d| s.evaluator.apply_keyswitching(&ct2, &ksk, d)); }
            out.case(&format!("prog {} {} {}", s.ct_case(&res), pred0, fl(&trim(&msg))), &format!("{}-keyswitch-l{}", scheme_name(scheme), level), || s.dec_str(&res));
            // the in-place form (key switching draws no randomness): the same object, bit for bit, and it decrypts under the new key
            { let mut ip = ct2.clone(); let okp = std::panic::catch_unwind(std::panic::AssertUnwindSafe(|| s.evaluator.apply_keyswitching_inplace(&mut ip, &ksk))).is_ok();
              if okp && ct_same(&ip, &res) { out.raw(&format!("!OK keyswitch_inplace {} l{} # {}-keyswitch-inplace-l{}", scheme_name(scheme), level, scheme_name(scheme), level)); }
              else { out.raw(&format!("!FAIL keyswitch_inplace {} n={} level={} :: apply_keyswitching_inplace {} # {}-keyswitch-inplace-l{}", scheme_name(scheme), n, level, if okp { "differs from apply_keyswitching_new" } else { "was refused" }, scheme_name(scheme), level)); }
              if okp { out.case(&format!("prog {} {} {}", s.ct_case(&ip), pred0, fl(&trim(&msg))), &format!("{}-keyswitch-inplace-l{}", scheme_name(scheme), level), || s.dec_str(&ip)); } }
        }
        let _ = (plain_of(&[1]), rand_msg(&mut r, 2, 3));
    }
    large_degrees(out, &mut r, thorough);
    crate::galplain::run_ckks(out, &mut r, thorough);
    crate::galplain::run_batched(out, &mut r, false);
    crate::galplain::run_tool_wrappers(out, &mut r, if thorough { 90 } else { 18 });
}

/// Large degrees (far above the line-by-line range; the Galois tables use 32-bit bit reversal and u32 index arithmetic): row rotations with
/// NAF-composed default keys, with a directly generated key, the column swap, CKKS rotation and conjugation — decided on the decoded slots
/// inside the harness.  Degree 2^17 once for the slot-level automorphism on plaintexts is C11's `batch_high`; here the ciphertext path.
fn large_degrees(out: &mut Out, r: &mut Rng, thorough: bool) {
    let ks: Vec<usize> = if thorough { vec![10, 12, 13, 15, 17] } else { vec![13, *r.pick(&[9usize, 11, 15])] };
    for lg in ks {
        let n = 1usize << lg; let row = n / 2;
        let qs = match pick_primes(r, n, &[55, 55, 60]) { Some(v) => v, None => continue };
        for scheme in [SchemeType::BFV, SchemeType::BGV, SchemeType::CKKS] {
            let t = if scheme == SchemeType::CKKS { 0 } else { match std::panic::catch_unwind(|| hu::get_primes(2 * n as u64, 20, 1)[0].value()) { Ok(t) => t, Err(_) => continue } };
            let s = match make(scheme, n, &qs, t, true, None) { Some(s) => s, None => continue };
            let cls = format!("large-n2^{}-{}", lg, scheme_name(scheme));
            // steps: 1, -1, a NAF-composed step without its own key, the largest steps of both signs
            let steps: Vec<isize> = vec![1, -1, 13, -13, -11, row as isize - 1, -(row as isize) + 1, (row / 2) as isize + 3];
            let res = std::panic::catch_unwind(std::panic::AssertUnwindSafe(|| -> Option<String> {
                let all_keys = s.keygen.create_galois_keys(false);
                if scheme == SchemeType::CKKS {
                    let enc = CKKSEncoder::new(s.ctx.clone());
                    let vals: Vec<num_complex::Complex64> = (0..row).map(|i| num_complex::Complex64::new((i % 97) as f64 / 8.0 - 3.0, (i % 31) as f64 / 16.0)).collect();
                    let ct = s.encryptor.encrypt_new(&enc.encode_c64_array_new(&vals, None, 2f64.powi(40)));
                    for &st in &steps {
                        let d = enc.decode_new(&s.decryptor.decrypt_new(&s.evaluator.rotate_vector_new(&ct, st, &all_keys)));
                        let sh = ((st % row as isize) + row as isize) as usize % row;
                        if let Some(i) = (0..row).find(|&i| (d[i] - vals[(i + sh) % row]).norm() > 1e-2) { return Some(format!("rotate_vector step={} slot {} is {} instead of {}", st, i, d[i], vals[(i + sh) % row])); }
                    }
                    let d = enc.decode_new(&s.decryptor.decrypt_new(&s.evaluator.complex_conjugate_new(&ct, &all_keys)));
                    if let Some(i) = (0..row).find(|&i| (d[i] - vals[i].conj()).norm() > 1e-2) { return Some(format!("complex_conjugate slot {} wrong", i)); }
                    return None;
                }
                let benc = BatchEncoder::new(s.ctx.clone());
                if !benc.simd_encoding_supported() { return Some("batching prime not accepted".into()); }
                let slots: Vec<u64> = (0..n).map(|i| (i as u64 * 2654435761 + 12345) % t).collect();
                let ct = s.encryptor.encrypt_new(&benc.encode_new(&slots));
                for &st in &steps {
                    let direct = s.keygen.create_galois_keys_from_steps(&[st], false);
                    for (nm, keys) in [("naf", &all_keys), ("direct", &direct)] {
                        let d = benc.decode_new(&s.decryptor.decrypt_new(&s.evaluator.rotate_rows_new(&ct, st, keys)));
                        if d != rot_rows(&slots, st) { return Some(format!("rotate_rows step={} keys={} decoded matrix is not rotated left by step", st, nm)); }
                    }
                }
                if benc.decode_new(&s.decryptor.decrypt_new(&s.evaluator.rotate_columns_new(&ct, &all_keys))) != swap_rows(&slots) { return Some("rotate_columns rows not swapped".into()); }
                None }));
            match res {
                Ok(None) => out.raw(&format!("!OK rotate_large {} # {}", cls, cls)),
                Ok(Some(w)) => out.raw(&format!("!FAIL rotate_large {} :: {} # {}", cls, w, cls)),
                Err(_) => { let m = LAST_PANIC.with(|p| p.borrow().clone()); out.raw(&format!("!FAIL rotate_large {} :: panicked: {} # {}", cls, m.replace('\n', " "), cls)); }
            }
        }
    }
}
