//! C13: parameter validation, modulus chain, parameter ids, modulus generation -- real code vs model/spec.
//!
//! Case lines
//!   ctx <scheme> <N> <q-list | - (set_coeff_modulus not called) | _ (called with an empty slice)> <t> <sec> <expand> <special>
//!       => <header>!<level>!<level>...      (see `ctx_str`; a panic of the builder / of HeContext::new is `ERR:*`)
//!   ctx_word <scheme> <N> <q-list> <t>      => multi-word constants of the key level (valid contexts only)
//!   get_primes <factor> <bits> <count>, create <N> <bit sizes>, batching <N> <bits>, max_bit_count <N> <sec>,
//!   bfv_default <N> <sec>, is_prime <v>
use crate::rng::Rng;
use crate::util::*;
use heathcliff::util as hu;
use heathcliff::{CoeffModulus, ContextData, EncryptionParameters, HeContext, Modulus, PlainModulus, SchemeType, SecurityLevel};
use std::sync::Arc;

fn scheme_of(s: u64) -> SchemeType { match s { 1 => SchemeType::BFV, 2 => SchemeType::CKKS, 3 => SchemeType::BGV, _ => SchemeType::None } }
fn sec_of(s: u64) -> SecurityLevel { match s { 128 => SecurityLevel::Tc128, 192 => SecurityLevel::Tc192, 256 => SecurityLevel::Tc256, _ => SecurityLevel::None } }

#[derive(Clone)]
pub struct Spec { scheme: u64, n: usize, q: Option<Vec<u64>>, t: u64, sec: u64, expand: bool, special: bool }

impl Spec {
    fn lhs(&self) -> String {
        let q = match &self.q { None => "-".to_string(), Some(v) if v.is_empty() => "_".to_string(), Some(v) => fl(v) };
        format!("ctx {} {} {} {} {} {} {}", self.scheme, self.n, q, self.t, self.sec, self.expand as u8, self.special as u8)
    }
    /// the builder calls (every one may panic: that is a refusal)
    fn parms(&self) -> EncryptionParameters {
        let mut p = EncryptionParameters::new(scheme_of(self.scheme)).set_poly_modulus_degree(self.n);
        if let Some(q) = &self.q {
            let ms: Vec<Modulus> = q.iter().map(|&v| Modulus::new(v)).collect();
            p = p.set_coeff_modulus(&ms);
        }
        p.set_plain_modulus_u64(self.t).set_use_special_prime_for_encryption(self.special)
    }
}

fn chain(ctx: &HeContext) -> Vec<Arc<ContextData>> {
    let mut v = vec![];
    let mut cur = ctx.key_context_data();
    while let Some(c) = cur {
        cur = c.next_context_data();
        v.push(c);
        if v.len() > 200 { break; }
    }
    v
}

fn pos(ids: &[[u64; 4]], id: &[u64; 4]) -> String {
    match ids.iter().position(|x| x == id) { Some(i) => i.to_string(), None => "?".to_string() }
}

fn level_str(c: &ContextData, i: usize, ids: &[[u64; 4]]) -> String {
    let q = c.qualifiers();
    let p = c.parms();
    let qs: Vec<u64> = p.coeff_modulus().iter().map(|m| m.value()).collect();
    let flags = format!("{}{}{}{}{}", q.using_fft as u8, q.using_ntt as u8, q.using_batching as u8, q.using_fast_plain_lift as u8,
                        q.using_descending_modulus_chain as u8);
    let cdp = if c.coeff_div_plain_modulus().is_empty() { "-".to_string() } else {
        c.coeff_div_plain_modulus().iter().map(|o| format!("{}:{}", o.operand, o.quotient)).collect::<Vec<_>>().join(",") };
    // pre-image of the id rebuilt from the level's own accessors and hashed with the crate's hash function
    let mut pre: Vec<u64> = vec![p.scheme() as u64, p.poly_modulus_degree() as u64];
    pre.extend(qs.iter());
    pre.push(p.plain_modulus().value());
    let mut h = [0u64; 4];
    heathcliff::verif::hash::hash(&pre, &mut h);
    let pre_ok = &h == c.parms_id() && &h == p.parms_id();
    let prev = match c.prev_context_data() { Some(x) => pos(ids, x.parms_id()), None => "-".to_string() };
    let next = match c.next_context_data() { Some(x) => pos(ids, x.parms_id()), None => "-".to_string() };
    let _ = i;
    format!("{}/{}/{}/{},{},{},{}/{}/{}/{}/{}/{}/{}/{}/{}/{}/{}/{}/{}/{}:{}",
        q.parameter_error as i32, flags, q.sec_level as u32,
        p.scheme() as u64, p.poly_modulus_degree(), p.plain_modulus().value(), p.use_special_prime_for_encryption() as u8,
        fl(&qs), fl(c.total_coeff_modulus()), c.total_coeff_modulus_bit_count(), cdp, c.coeff_modulus_mod_plain_modulus(),
        c.plain_upper_half_threshold(), fl(c.plain_upper_half_increment()), fl(c.upper_half_threshold()),
        c.chain_index(), prev, next, pos(ids, c.parms_id()), fl(&pre), pre_ok as u8)
}

fn ctx_str(s: &Spec) -> String {
    let ctx = HeContext::new(s.parms(), s.expand, sec_of(s.sec));
    let levels = chain(&ctx);
    let ids: Vec<[u64; 4]> = levels.iter().map(|c| *c.parms_id()).collect();
    // the map returns the very objects of the chain
    let map_ok = levels.iter().all(|c| match ctx.get_context_data(c.parms_id()) { Some(x) => Arc::ptr_eq(&x, c), None => false });
    // a second, independently built context agrees on every id
    let ctx2 = HeContext::new(s.parms(), s.expand, sec_of(s.sec));
    let ids2: Vec<[u64; 4]> = chain(&ctx2).iter().map(|c| *c.parms_id()).collect();
    let agree = ids == ids2 && ctx.key_parms_id() == ctx2.key_parms_id() && ctx.first_parms_id() == ctx2.first_parms_id()
        && ctx.last_parms_id() == ctx2.last_parms_id();
    let head = format!("{},{},{},{},{},{},{},{},{}", ctx.using_keyswitching() as u8, pos(&ids, ctx.key_parms_id()), pos(&ids, ctx.first_parms_id()),
        pos(&ids, ctx.last_parms_id()), ctx.security_level() as u32, levels.len(), ctx.parameters_set() as u8, map_ok as u8, agree as u8);
    let mut out = head;
    for (i, c) in levels.iter().enumerate() { out.push('!'); out.push_str(&level_str(c, i, &ids)); }
    out
}

fn emit_ctx(out: &mut Out, s: &Spec, class: &str) {
    out.case(&s.lhs(), class, || ctx_str(s));
}

/// multi-word constants of the key level of a valid context
fn emit_word(out: &mut Out, s: &Spec, class: &str) {
    let q = match &s.q { Some(q) if !q.is_empty() => q.clone(), _ => return };
    let ok = guard(|| { let c = HeContext::new(s.parms(), false, SecurityLevel::None); (c.key_context_data().unwrap().qualifiers().parameters_set() as u8).to_string() });
    if ok != "1" { return; }
    out.case(&format!("ctx_word {} {} {} {}", s.scheme, s.n, fl(&q), s.t), class, || {
        let ctx = HeContext::new(s.parms(), false, SecurityLevel::None);
        let c = ctx.key_context_data().unwrap();
        let cdp: Vec<u64> = c.coeff_div_plain_modulus().iter().map(|o| o.operand).collect();
        let slow = if s.scheme != 2 && !c.qualifiers().using_fast_plain_lift { fl(c.plain_upper_half_increment()) } else { "x".to_string() };
        format!("{}/{}/{}/{}/{}/{}", fl(c.total_coeff_modulus()), c.total_coeff_modulus_bit_count(), fl(&cdp),
            c.coeff_modulus_mod_plain_modulus(), slow, fl(c.upper_half_threshold()))
    });
}

fn vals(v: Vec<Modulus>) -> Vec<u64> { v.iter().map(|m| m.value()).collect() }

fn generators(out: &mut Out, r: &mut Rng, thorough: bool) {
    // ---- max_bit_count: every table entry and off-table degrees
    for &sec in &[0u64, 128, 192, 256] {
        for &n in &[0usize, 1, 512, 1023, 1024, 1025, 2048, 4096, 8192, 16384, 32768, 65536, 131072] {
            out.case(&format!("max_bit_count {} {}", n, sec), "table", || CoeffModulus::max_bit_count(n, sec_of(sec)).to_string());
        }
    }
    // ---- bfv_default
    for &sec in &[0u64, 128, 192, 256] {
        for &n in &[512usize, 1024, 2048, 4096, 8192, 16384, 32768, 65536] {
            out.case(&format!("bfv_default {} {}", n, sec), "table", || fl(&vals(CoeffModulus::bfv_default(n, sec_of(sec)))));
        }
    }
    // ---- is_prime: small values exhaustively, Carmichael numbers / strong pseudoprimes, generated primes and neighbours
    let lim = if thorough { 20000u64 } else { 3000 };
    for v in 0..lim { if v != 1 { out.case(&format!("is_prime {}", v), if v < 14 { "ladder" } else { "small" }, || (hu::is_prime(&Modulus::new(v)) as u8).to_string()); } }
    for &v in &[561u64, 1105, 1729, 2047, 3215031751, 2152302898747, 3474749660383, 341550071728321, 3825123056546413051 % (1 << 61),
                (1 << 61) - 1, (1 << 61) - 3, (1u64 << 60) + 33, 72307 * 59399, 36893488147419103, 36893488147419107, 4294967297, 65537, 1, 1 << 61] {
        out.case(&format!("is_prime {}", v), "special", || (hu::is_prime(&Modulus::new(v)) as u8).to_string());
    }
    for _ in 0..(if thorough { 2000 } else { 300 }) {
        let b = r.range(5, 61) as u32; let v = r.bits(b) | 1;
        out.case(&format!("is_prime {}", v), "random-odd", || (hu::is_prime(&Modulus::new(v)) as u8).to_string());
    }
    // ---- get_primes: small factors / sizes exhaustively, boundary sizes, refusals
    for bits in 0..=9usize {
        for factor in 0..=(if thorough { 40u64 } else { 18 }) {
            for count in 0..=3usize {
                out.case(&format!("get_primes {} {} {}", factor, bits, count), "small", || fl(&vals(hu::get_primes(factor, bits, count))));
            }
        }
    }
    for &bits in &[10usize, 20, 30, 40, 50, 59, 60, 61, 62, 63, 64, 65] {
        for k in [1u32, 2, 5, 11, 16, 18] {
            let count = 1 + r.below(if bits >= 60 { 5 } else { 3 }) as usize;
            out.case(&format!("get_primes {} {} {}", 1u64 << k, bits, count), "large", || fl(&vals(hu::get_primes(1u64 << k, bits, count))));
        }
        let f = 2 * r.range(1, 3000);
        out.case(&format!("get_primes {} {} {}", f, bits, 2), "large-anyfactor", || fl(&vals(hu::get_primes(f, bits, 2))));
    }
    out.case("get_primes 1024 12 4", "exhausted", || fl(&vals(hu::get_primes(1024, 12, 4))));   // only 3073 ... not enough
    out.case("get_primes 64 61 67", "rnstool-worst", || fl(&vals(hu::get_primes(64, 61, 67))));
    // ---- CoeffModulus::create / PlainModulus::batching
    for &n in &[0usize, 1, 2, 3, 4, 8, 1024, 4096, 131072, 262144] {
        for sizes in [vec![], vec![1], vec![2], vec![3], vec![3, 4], vec![3, 5, 4, 5], vec![5, 5, 5], vec![20, 20, 21, 20], vec![60], vec![61], vec![60, 60, 59, 60],
                      vec![30, 40, 30, 30, 40], vec![19, 19, 19, 19, 19, 19, 19, 19]] {
            let szs: Vec<u64> = sizes.iter().map(|&x| x as u64).collect();
            out.case(&format!("create {} {}", n, fl(&szs)), "create", || fl(&vals(CoeffModulus::create(n, sizes.clone()))));
        }
        for bits in [0usize, 1, 2, 3, 8, 13, 17, 20, 33, 60, 61] {
            out.case(&format!("batching {} {}", n, bits), "batching", || PlainModulus::batching(n, bits).value().to_string());
        }
    }
    out.case(&format!("create 4 {}", fl(&vec![20u64; 65])), "create-too-many", || fl(&vals(CoeffModulus::create(4, vec![20; 65]))));
    out.case(&format!("create 64 {}", fl(&vec![30u64; 64])), "create-64", || fl(&vals(CoeffModulus::create(64, vec![30; 64]))));
    for _ in 0..(if thorough { 200 } else { 30 }) {
        let n = 1usize << r.range(1, 15);
        let k = r.range(1, 6) as usize;
        let lo = (n.trailing_zeros() as u64 + 2).max(2);
        let sizes: Vec<usize> = (0..k).map(|_| r.range(lo, 60) as usize).collect();
        let szs: Vec<u64> = sizes.iter().map(|&x| x as u64).collect();
        out.case(&format!("create {} {}", n, fl(&szs)), "create-random", || fl(&vals(CoeffModulus::create(n, sizes.clone()))));
    }
}

fn ladder_universe(out: &mut Out, thorough: bool) {
    // moduli pool: zero, 2, non-NTT primes, NTT-friendly primes for N=4 / 8 / 16, composites = 1 mod 8/16 (9, 25, 33, 65), a 61-bit value
    let pool: Vec<u64> = vec![0, 2, 3, 9, 13, 17, 25, 41, 65, 73, 97, 113, (1u64 << 60) + 33];
    let pool3: Vec<u64> = if thorough { vec![3, 9, 17, 25, 41, 65, 73, 97, 113] } else { vec![9, 17, 41, 65, 97, 113] };
    let plains: Vec<u64> = vec![0, 1, 2, 3, 16, 17, 34, 41, 73, 97, 1153, 4294967296, (1u64 << 60) + 33];
    let ns: Vec<usize> = vec![0, 1, 2, 3, 4, 8, 16];
    let mut lists: Vec<Option<Vec<u64>>> = vec![None, Some(vec![])];
    for &a in &pool { lists.push(Some(vec![a])); }
    for &a in &pool { for &b in &pool { lists.push(Some(vec![a, b])); } }
    let n12 = lists.len();
    for &a in &pool3 { for &b in &pool3 { for &c in &pool3 { lists.push(Some(vec![a, b, c])); } } }
    if thorough { let p4 = [17u64, 41, 65, 97, 113]; for &a in &p4 { for &b in &p4 { for &c in &p4 { for &d in &p4 { lists.push(Some(vec![a, b, c, d])); } } } } }
    for (li, q) in lists.iter().enumerate() {
        let long = li >= n12;
        for &n in &ns {
            if long && !(n == 4 || n == 8 || (thorough && n == 16)) { continue; }
            for scheme in 0..=3u64 {
                for &t in &plains {
                    if scheme == 2 && !(t == 0 || t == 17) { continue; }
                    if scheme == 0 && !(t == 0 || t == 17) { continue; }
                    if long && !(t == 0 || t == 16 || t == 17 || t == 73 || t == 1153) { continue; }
                    if scheme == 3 && long && t != 73 { continue; }
                    let s = Spec { scheme, n, q: q.clone(), t, sec: 0, expand: true, special: false };
                    let class = if scheme == 0 { "trivial-scheme-none" } else if long { "ladder-3" } else { "ladder" };
                    emit_ctx(out, &s, class);
                }
            }
        }
    }
}

fn flags_universe(out: &mut Out, thorough: bool) {
    // chains: all four flag combinations, every security level, plain moduli that invalidate a lower level
    let lists: Vec<Vec<u64>> = vec![
        vec![17], vec![17, 41], vec![41, 17], vec![17, 41, 97], vec![97, 41, 17], vec![17, 41, 97, 113], vec![113, 97, 73, 41, 17],
        vec![41, 137, 193, 65537], vec![137, 193], vec![17, 9, 41], vec![17, 41, 9], vec![9, 17, 41], vec![17, 17, 41], vec![17, 41, 13],
        vec![13, 17, 41], vec![17, 41, 97, 97], vec![65537, 17], vec![17, 65537], vec![1153, 17, 41], vec![17, 1153], vec![17, 0], vec![0, 17]];
    let plains: Vec<u64> = vec![0, 2, 16, 17, 18, 49, 73, 1153, 65537];
    for q in &lists {
        for scheme in 1..=3u64 {
            for &t in &plains {
                if scheme == 2 && t != 0 { continue; }
                for &n in &[4usize, 8] {
                    if n == 8 && !(thorough || t == 0 || t == 73) { continue; }
                    for &sec in &[0u64, 128] {
                        if sec == 128 && !(t == 0 || t == 73) { continue; }
                        for expand in [false, true] { for special in [false, true] {
                            let s = Spec { scheme, n, q: Some(q.clone()), t, sec, expand, special };
                            emit_ctx(out, &s, "chain-flags");
                        } }
                    }
                }
            }
        }
        emit_word(out, &Spec { scheme: 1, n: 4, q: Some(q.clone()), t: 73, sec: 0, expand: false, special: false }, "word-small");
        emit_word(out, &Spec { scheme: 1, n: 4, q: Some(q.clone()), t: 16, sec: 0, expand: false, special: false }, "word-small");
        emit_word(out, &Spec { scheme: 2, n: 4, q: Some(q.clone()), t: 0, sec: 0, expand: false, special: false }, "word-small");
    }
}

fn try_create(n: usize, sizes: Vec<usize>) -> Option<Vec<u64>> {
    std::panic::catch_unwind(|| vals(CoeffModulus::create(n, sizes))).ok()
}

fn security_universe(out: &mut Out, thorough: bool) {
    // total bit counts around every table entry, every security level (requested) against every degree
    let degs: Vec<usize> = if thorough { vec![512, 1024, 2048, 4096, 8192, 16384, 32768, 65536] } else { vec![512, 1024, 2048, 4096] };
    for &n in &degs {
        let lims: Vec<usize> = [128u64, 192, 256].iter().map(|&s| CoeffModulus::max_bit_count(n, sec_of(s))).collect();
        let mut totals: Vec<usize> = vec![];
        for &l in &lims { if l > 0 { totals.extend([l - 1, l, l + 1]); } }
        if totals.is_empty() { totals = vec![20, 40]; }
        totals.sort(); totals.dedup();
        for &tot in &totals {
            // split `tot` bits over the fewest moduli of at most 60 bits, and once over one more modulus
            for extra in 0..2usize {
                let k = (tot + 59) / 60 + extra;
                let minb = n.trailing_zeros() as usize + 2;
                if tot < k * minb { continue; }
                let mut sizes = vec![tot / k; k];
                for i in 0..(tot % k) { sizes[i] += 1; }
                // the product of primes just below 2^b has b_1+..+b_k bits or one less: both sides of the limit are hit through tot-1, tot, tot+1
                let q = match try_create(n, sizes.clone()) { Some(q) => q, None => continue };
                for &sec in &[0u64, 128, 192, 256] {
                    for scheme in [1u64, 2] {
                        let t = if scheme == 2 { 0 } else { 65537 };
                        for expand in [true, false] {
                            if !expand && !(thorough || extra == 0) { continue; }
                            let s = Spec { scheme, n, q: Some(q.clone()), t, sec, expand, special: false };
                            emit_ctx(out, &s, "security");
                        }
                    }
                }
            }
        }
        for &sec in &[128u64, 192, 256] {
            if let Ok(q) = std::panic::catch_unwind(|| vals(CoeffModulus::bfv_default(n, sec_of(sec)))) {
                for &req in &[0u64, 128, 192, 256] {
                    let t = std::panic::catch_unwind(|| PlainModulus::batching(n, 20).value()).unwrap_or(65537);
                    emit_ctx(out, &Spec { scheme: 1, n, q: Some(q.clone()), t, sec: req, expand: true, special: false }, "security-bfv-default");
                    emit_ctx(out, &Spec { scheme: 3, n, q: Some(q.clone()), t, sec: req, expand: true, special: true }, "security-bfv-default");
                }
            }
        }
    }
}

/// Directed: levels whose total modulus is wider than one word while its LOW word is below the plain modulus, with a plain modulus wider
/// than every coefficient prime (no fast plain lift): the multi-word difference q - t (`plain_upper_half_increment`) must borrow from the
/// second word.  For random chains this happens with probability t / 2^64; here the chains are searched for it (wide t: 1/32 per level).
fn borrow_contexts(out: &mut Out, r: &mut Rng, thorough: bool) {
    for &n in &[16usize, 64] {
        let mut cand: Vec<u64> = vec![];
        // (primes from `get_primes` all sit just below a power of two: their products have low words just below 2^64; scatter them instead)
        for bits in [36u32, 40, 44, 48, 50] { let mut got = 0; let mut tries = 0; while got < 6 && tries < 4000 { tries += 1;
            let v = (r.bits(bits) / (2 * n as u64)) * (2 * n as u64) + 1; if v >> (bits - 1) == 1 && hu::is_prime(&Modulus::new(v)) && !cand.contains(&v) { cand.push(v); got += 1; } } }
        let mut found = 0;
        for _try in 0..8 {
            let t = ((1u64 << r.range(57, 59)) + 2 * r.below(1 << 50)) | 1;
            'search: for &a in &cand { for &b in &cand {
                if a == b { continue; }
                let prod = a as u128 * b as u128;
                if prod >> 64 == 0 || (prod as u64) >= t { continue; }
                let c = match cand.iter().find(|&&c| c != a && c != b && gcd13(c, t) == 1) { Some(&c) => c, None => continue };
                if gcd13(a, t) != 1 || gcd13(b, t) != 1 { continue; }
                for scheme in [1u64, 3] {
                    // (a, b) is the first data level below the special prime c; also as the key level itself without a special prime
                    emit_ctx(out, &Spec { scheme, n, q: Some(vec![a, b, c]), t, sec: 0, expand: true, special: false }, "borrow-low-word");
                    emit_ctx(out, &Spec { scheme, n, q: Some(vec![a, b]), t, sec: 0, expand: false, special: false }, "borrow-low-word-key");
                    emit_word(out, &Spec { scheme, n, q: Some(vec![a, b]), t, sec: 0, expand: false, special: false }, "word-borrow");
                }
                found += 1;
                break 'search;
            } }
            if found >= (if thorough { 6 } else { 2 }) { break; }
        }
        if found == 0 { out.raw(&format!("!NOTE borrow_contexts n={} no chain with a low word below t found", n)); }
    }
}
fn gcd13(a: u64, b: u64) -> u64 { if b == 0 { a } else { gcd13(b, a % b) } }

fn random_universe(out: &mut Out, r: &mut Rng, thorough: bool) {
    let cases = if thorough { 1500 } else { 220 };
    for _ in 0..cases {
        let kpow = r.range(2, if thorough { 13 } else { 11 });
        let n = 1usize << kpow;
        let k = r.range(1, if thorough { 10 } else { 6 }) as usize;
        let lo = kpow + 2;
        let sizes: Vec<usize> = (0..k).map(|_| match r.below(5) { 0 => 60, 1 => lo as usize, _ => r.range(lo, 60) as usize }).collect();
        let mut q = match try_create(n, sizes) { Some(q) => q, None => continue };
        let scheme = *r.pick(&[1u64, 1, 2, 3]);
        let mut t = if scheme == 2 { 0 } else {
            match r.below(6) {
                0 => 1u64 << r.range(1, 59),
                1 => { let b = r.range(2, 60) as u32; r.bits(b) }
                2 => q[r.below(q.len() as u64) as usize],
                3 => q[0].wrapping_add(2 * n as u64),
                _ => { let b = r.range(lo, 40) as usize; std::panic::catch_unwind(|| PlainModulus::batching(n, b).value()).unwrap_or(65537) }
            } };
        if t == 1 { t = 2; }
        // mutations: composite = 1 mod 2N, duplicate, non-NTT prime, zero, reordering
        let class = match r.below(10) {
            0 => { let i = r.below(q.len() as u64) as usize; let f = 2 * n as u64; q[i] = (f + 1) * (2 * f + 1) | 1; if q[i] >> 60 != 0 { q[i] = (f + 1) * (f + 1); } "random-composite" }
            1 => { let i = r.below(q.len() as u64) as usize; let j = r.below(q.len() as u64) as usize; q[i] = q[j]; "random-duplicate" }
            2 => { let i = r.below(q.len() as u64) as usize; q[i] = *r.pick(&[3u64, 1000003, 2147483647, 2305843009213693951 >> 1]); "random-non-ntt" }
            3 => { q.reverse(); "random-reversed" }
            4 => { q.sort(); q.reverse(); "random-descending" }
            _ => "random-valid",
        };
        let sec = *r.pick(&[0u64, 0, 0, 128, 192, 256]);
        let s = Spec { scheme, n, q: Some(q), t, sec, expand: r.chance(3, 4), special: r.chance(1, 4) };
        emit_ctx(out, &s, class);
        if r.chance(1, 2) { emit_word(out, &s, "word-random"); }
    }
}

/// The ends of the documented parameter ranges (contexts whose dump would be far too long for a case line), decided inside the harness:
/// 64 coefficient primes accepted with a strictly decreasing chain ending at 0 / 65 refused with the size error; degree 2^17 accepted /
/// 2^18 refused with the degree error; a 60-bit prime accepted / a 61-bit prime = 1 mod 2N refused with the bit-count error.
fn range_ends(out: &mut Out) {
    let err = |p: EncryptionParameters| -> (bool, String, usize, bool) {
        let c = HeContext::new(p, true, SecurityLevel::None);
        let k = c.key_context_data().unwrap();
        let mut idx = vec![]; let mut cur = Some(k.clone());
        while let Some(d) = cur { idx.push(d.chain_index()); cur = d.next_context_data(); }
        let dec = idx.windows(2).all(|w| w[0] == w[1] + 1) && idx.last() == Some(&0);
        (c.parameters_set(), format!("{:?}", k.qualifiers().parameter_error), idx.len(), dec) };
    let primes = |n: usize, bits: &[usize]| -> Vec<Modulus> { let mut v: Vec<Modulus> = vec![]; let mut sizes = bits.to_vec(); sizes.sort(); sizes.dedup();
        for b in sizes { let need = bits.iter().filter(|&&x| x == b).count(); v.extend(hu::get_primes(2 * n as u64, b, need)); } v };
    let mut cases: Vec<(String, Box<dyn Fn() -> EncryptionParameters>, bool, &str, usize)> = vec![];
    let b64: Vec<usize> = (0..64).map(|i| [24usize, 30, 36, 42, 48, 54, 58, 60][i / 8]).collect();
    let mut b65 = b64.clone(); b65.push(20);
    for scheme in [SchemeType::BFV, SchemeType::CKKS, SchemeType::BGV] {
        let mk = move |n: usize, q: Vec<Modulus>| { let p = EncryptionParameters::new(scheme).set_poly_modulus_degree(n).set_coeff_modulus(&q); if scheme != SchemeType::CKKS { p.set_plain_modulus_u64(97) } else { p } };
        let (q64, q65) = (primes(16, &b64), primes(16, &b65));
        cases.push((format!("{:?} 64-primes", scheme), Box::new(move || mk(16, q64.clone())), true, "Success", 64));
        cases.push((format!("{:?} 65-primes", scheme), Box::new(move || mk(16, q65.clone())), false, "InvalidCoeffModulusSize", 1));
        let (qa, qb) = (primes(1 << 17, &[50, 60]), primes(1 << 18, &[50, 60]));
        cases.push((format!("{:?} degree-2^17", scheme), Box::new(move || mk(1 << 17, qa.clone())), true, "Success", 2));
        cases.push((format!("{:?} degree-2^18", scheme), Box::new(move || mk(1 << 18, qb.clone())), false, "InvalidPolyModulusDegree", 1));
        let (q60, q61) = (primes(16, &[60, 40]), primes(16, &[61, 40]));
        cases.push((format!("{:?} 60-bit-prime", scheme), Box::new(move || mk(16, q60.clone())), true, "Success", 2));
        cases.push((format!("{:?} 61-bit-prime", scheme), Box::new(move || mk(16, q61.clone())), false, "InvalidCoeffModulusBitCount", 1));
    }
    for (name, f, want_ok, want_err, want_len) in cases {
        match std::panic::catch_unwind(std::panic::AssertUnwindSafe(|| err(f()))) {
            Ok((ok, e, len, dec)) => {
                if ok == want_ok && e == want_err && (!ok || (len == want_len && dec)) { out.raw(&format!("!OK ctx_range_end {} {} # range-end", name, e)); }
                else { out.raw(&format!("!FAIL ctx_range_end {} :: parameters_set={} error={} chain length {} (strictly decreasing to 0: {}); expected parameters_set={} error={} length {} # range-end", name, ok, e, len, dec, want_ok, want_err, want_len)); } }
            // more than HE_COEFF_MOD_COUNT_MAX primes never reach a context: the parameter setter itself refuses them (as in SEAL) — also a refusal
            Err(_) if name.ends_with("65-primes") && LAST_PANIC.with(|p| p.borrow().contains("[Invalid argument] Coeff modulus is invalid")) => out.raw(&format!("!OK ctx_range_end {} refused-by-set_coeff_modulus # range-end", name)),
            Err(_) => out.raw(&format!("!FAIL ctx_range_end {} :: context creation panicked instead of reporting an error # range-end", name)),
        }
    }
}

pub fn run(out: &mut Out, thorough: bool, seed: u64, extra: &[String]) {
    let mut r = Rng::new(seed);
    if extra.len() >= 2 && extra[0] == "--case" {
        // replay of one recorded `ctx` case
        let tok: Vec<&str> = extra[1].split(' ').collect();
        if tok.len() == 8 && tok[0] == "ctx" {
            let q = match tok[3] { "-" => None, "_" => Some(vec![]), s => Some(s.split(',').map(|x| x.parse().unwrap_or(0)).collect()) };
            let s = Spec { scheme: tok[1].parse().unwrap_or(0), n: tok[2].parse().unwrap_or(0), q, t: tok[4].parse().unwrap_or(0),
                sec: tok[5].parse().unwrap_or(0), expand: tok[6] == "1", special: tok[7] == "1" };
            emit_ctx(out, &s, "replay");
        }
        return;
    }
    let part = extra.get(0).map(|s| s.as_str()).unwrap_or("all");
    if part == "all" || part == "gen" { generators(out, &mut r, thorough); range_ends(out); }
    if part == "all" || part == "ladder" { ladder_universe(out, thorough); }
    if part == "all" || part == "chain" { flags_universe(out, thorough); security_universe(out, thorough); }
    if part == "all" || part == "random" { random_universe(out, &mut r, thorough); }
    if part == "all" || part == "random" { let mut r2 = Rng::new(seed ^ 0xb0aa_0013); borrow_contexts(out, &mut r2, thorough); }
}
