//! C01: fresh encryptions decrypt to the plaintext (every scheme, mode, level the library allows).
use crate::ctx::*;
use crate::rng::Rng;
use crate::util::*;
use heathcliff::*;

fn boundary_plain(r: &mut Rng, n: usize, t: u64, kind: u64) -> Vec<u64> {
    match kind {
        0 => vec![0],
        1 => vec![t - 1; n],
        2 => (0..n).map(|i| if i % 2 == 0 { t / 2 } else { (t + 1) / 2 }).collect(),
        3 => vec![1],
        4 => { let l = r.range(1, n as u64) as usize; (0..l).map(|_| r.below(t)).collect() }
        5 => { let mut v = vec![0u64; n]; v[n - 1] = t - 1; v }
        _ => (0..n).map(|_| r.below(t)).collect(),
    }
}

/// 0 = public key, 1 = secret key, 2 = secret key with saved seed, expanded before use
/// a destination that has been USED before: a size-3 product moved one level down (BGV: correction factor != 1), for BFV sometimes left in
/// NTT form, for CKKS an object with another scale on the last level — encryption into it must not inherit any of that
fn dirty_destination(s: &Setup, r: &mut Rng) -> Ciphertext {
    let made = std::panic::catch_unwind(std::panic::AssertUnwindSafe(|| {
        let ev = &s.evaluator;
        if s.scheme == SchemeType::CKKS {
            let enc = CKKSEncoder::new(s.ctx.clone());
            let last = *s.levels().last().unwrap();
            let p = enc.encode_f64_single_new(1.0, Some(last), 8.0);
            let mut c = Ciphertext::new(); s.encryptor.encrypt_symmetric(&p, &mut c); c
        } else {
            let m: Vec<u64> = (0..s.n).map(|_| r.below(s.t)).collect();
            let mut p = Plaintext::new(); p.resize(s.n); p.data_mut().copy_from_slice(&m);
            let c = s.encryptor.encrypt_new(&p);
            let mut c = ev.multiply_new(&c, &c);
            if s.levels().len() >= 2 { c = ev.mod_switch_to_next_new(&c); }
            if s.scheme == SchemeType::BFV && r.chance(1, 2) { ev.transform_to_ntt_inplace(&mut c); }
            c
        } }));
    made.unwrap_or_else(|_| Ciphertext::new())
}
/// modes 3 / 4: public-key / secret-key encryption through the destination forms into a used destination
fn enc_reuse(s: &Setup, plain: &Plaintext, mode: i32, r: &mut Rng) -> Ciphertext {
    let mut d = dirty_destination(s, r);
    if mode == 3 { s.encryptor.encrypt(plain, &mut d); } else { s.encryptor.encrypt_symmetric(plain, &mut d); }
    d
}
/// a caller-supplied mask generator: random seed, 0 / a few / almost a whole buffer of bytes already consumed
fn u_prng(r: &mut Rng) -> heathcliff::util::BlakeRNG {
    use rand::{RngCore, SeedableRng};
    let mut seed = [0u8; 64]; for i in 0..8 { seed[8 * i..8 * i + 8].copy_from_slice(&r.next().to_le_bytes()); }
    let mut g = heathcliff::util::BlakeRNG::from_seed(heathcliff::util::PRNGSeed(seed));
    let mut skip = vec![0u8; *r.pick(&[0usize, 0, 3, 64, 4090, 4096])]; g.fill_bytes(&mut skip);
    g
}
/// modes 5..8: the `*_with_u_prng` entry points (5 public key value-returning, 6 public key into a used destination, 7 secret key into a used
/// destination, 8 secret key with saved seed, expanded); reported on the case line as modes 0 / 0 / 1 / 2
fn enc_uprng(s: &Setup, plain: &Plaintext, mode: i32, r: &mut Rng) -> Ciphertext {
    let mut g = u_prng(r);
    match mode {
        5 => s.encryptor.encrypt_new_with_u_prng(plain, &mut g),
        6 => { let mut d = dirty_destination(s, r); s.encryptor.encrypt_with_u_prng(plain, &mut g, &mut d); d }
        7 => { let mut d = dirty_destination(s, r); s.encryptor.encrypt_symmetric_with_u_prng(plain, &mut g, &mut d); d }
        _ => { let c = s.encryptor.encrypt_symmetric_new_with_u_prng(plain, &mut g); if c.contains_seed() { c.expand_seed(&s.ctx) } else { c } }
    }
}
/// encryptions of zero at a level: 0 / 1 the plain `_new_at` forms (public key / secret key + seed), 2..5 the `_at_with_u_prng` forms (public key into a
/// used destination, public key value-returning, secret key into a used destination, secret key + seed), 6 / 7 (first level) `encrypt_zero` and
/// `encrypt_zero_with_u_prng` into a used destination.  Returns (ciphertext, mode on the case line: 0 public key, 1 secret key)
fn enc_zero(s: &Setup, pid: &ParmsID, mode: i32, r: &mut Rng) -> (Ciphertext, i32) {
    let ex = |c: Ciphertext| if c.contains_seed() { c.expand_seed(&s.ctx) } else { c };
    let mut g = u_prng(r);
    match mode {
        0 => (s.encryptor.encrypt_zero_new_at(pid), 0),
        1 => (ex(s.encryptor.encrypt_zero_symmetric_new_at(pid)), 1),
        2 => { let mut d = dirty_destination(s, r); s.encryptor.encrypt_zero_at_with_u_prng(pid, &mut g, &mut d); (d, 0) }
        3 => (s.encryptor.encrypt_zero_new_at_with_u_prng(pid, &mut g), 0),
        4 => { let mut d = dirty_destination(s, r); s.encryptor.encrypt_zero_symmetric_at_with_u_prng(pid, &mut g, &mut d); (d, 1) }
        5 => (ex(s.encryptor.encrypt_zero_symmetric_new_at_with_u_prng(pid, &mut g)), 1),
        6 => { let mut d = dirty_destination(s, r); s.encryptor.encrypt_zero(&mut d); (d, 0) }
        _ => { let mut d = dirty_destination(s, r); s.encryptor.encrypt_zero_with_u_prng(&mut g, &mut d); (d, 0) }
    }
}
fn enc_mode(s: &Setup, plain: &Plaintext, mode: i32) -> Ciphertext {
    match mode {
        0 => s.encryptor.encrypt_new(plain),
        1 => { let mut c = Ciphertext::new(); s.encryptor.encrypt_symmetric(plain, &mut c); c }
        _ => { let c = s.encryptor.encrypt_symmetric_new(plain); if c.contains_seed() { c.expand_seed(&s.ctx) } else { c } }
    }
}

/// plaintext coefficients that sit on the boundaries of the word arithmetic inside `multiply_add_plain`:
/// (q mod t)·m + (t+1)/2 just below / at / above multiples of 2^64 (carry into the high word), and the usual extremes
pub fn carry_boundary_coeffs(r: &mut Rng, t: u64, q_mod_t: u64) -> Vec<u64> {
    let mut v = vec![0, 1, t - 1, t / 2, (t + 1) / 2, t.saturating_sub(2)];
    if q_mod_t > 0 {
        for k in 1u128..=6 {
            let base = ((k << 64) - 1) / q_mod_t as u128;
            for d in [0i128, -1, 1, -2, 2] { let m = base as i128 + d; if m >= 0 && (m as u128) < t as u128 { v.push(m as u64); } }
            let half = (t as u128 + 1) / 2;
            let b2 = ((k << 64) - half) / q_mod_t as u128;
            for d in [0i128, 1, 2] { let m = b2 as i128 + d; if m >= 0 && (m as u128) < t as u128 { v.push(m as u64); } }
        }
    }
    for _ in 0..6 { v.push(r.below(t)); }
    v
}

/// `multiply_add_plain` / `multiply_sub_plain` called directly (hook re-export) on wide and narrow plain moduli
fn scaling_cases(out: &mut Out, r: &mut Rng, thorough: bool) {
    use heathcliff::verif::scaling_variant as sv;
    for _ in 0..(if thorough { 60 } else { 10 }) {
        let lg = r.range(3, 5) as usize; let n = 1usize << lg;
        let k = r.range(1, 3) as usize;
        let bits: Vec<usize> = (0..k).map(|_| *r.pick(&[45usize, 58, 59, 60])).collect();
        let qs = match pick_primes(r, n, &bits) { Some(v) => v, None => continue };
        // wide plain moduli (> 2^32) as well as the usual ones; must stay below the product and coprime to it
        let t = match r.below(5) { 0 => 1u64 << r.range(33, 44), 1 => (3u64 << r.range(33, 42)) + 1, 2 => { let b = r.range(34, 44) as u32; r.bits(b) | 1 } 3 => 1u64 << r.range(2, 20), _ => pick_plain(r, n, 0, &qs) };
        if qs.iter().any(|&q| gcd(q, t) != 1) || (k == 1 && t >= qs[0]) { continue; }
        let s = match make(SchemeType::BFV, n, &qs, t, false, None) { Some(s) => s, None => continue };
        let cd = s.ctx.first_context_data().unwrap();
        let lqs = s.level_qs(cd.parms_id());
        let q_mod_t = cd.coeff_modulus_mod_plain_modulus();
        let cand = carry_boundary_coeffs(r, t, q_mod_t);
        let coeffs: Vec<u64> = (0..n).map(|i| cand[(i + r.below(3) as usize) % cand.len()]).collect();
        let mut plain = Plaintext::new(); plain.resize(n); plain.data_mut().copy_from_slice(&coeffs);
        let dest: Vec<Vec<u64>> = lqs.iter().map(|&q| (0..n).map(|_| if r.chance(1, 4) { q - 1 } else { r.below(q) }).collect()).collect();
        let flat: Vec<u64> = dest.iter().flatten().copied().collect();
        let cls = format!("scaling-t{}b-k{}", 64 - t.leading_zeros(), lqs.len());
        for sub in [false, true] {
            out.case(&format!("multiply_add_plain {} {} {} {} {} {}", sub as u8, n, fl(&lqs), t, fl(&coeffs), fl2(&dest)), &cls, || {
                let mut d = flat.clone(); if sub { sv::multiply_sub_plain(&plain, &cd, &mut d); } else { sv::multiply_add_plain(&plain, &cd, &mut d); }
                fl2(&d.chunks(n).map(|c| c.to_vec()).collect::<Vec<_>>()) });
        }
        // and end to end: fresh encryptions of these plaintexts must decrypt to them
        for mode in 0..2 {
            let ct = match std::panic::catch_unwind(std::panic::AssertUnwindSafe(|| enc_mode(&s, &plain, mode))) { Ok(c) => c, Err(_) => { let m = LAST_PANIC.with(|p| p.borrow().clone()); out.raw(&format!("!FAIL fresh_encrypt scaling mode={} :: encryption of a valid plaintext was refused / panicked: {} # encrypt-panic", mode, m.replace('\n', " "))); continue } };
            let trimmed = { let mut c = coeffs.clone(); while c.len() > 1 && *c.last().unwrap() == 0 { c.pop(); } c };
            out.case(&format!("fresh {} {} {}", s.ct_case(&ct), mode, fl(&trimmed)), &format!("{}-m{}", cls, mode), || s.dec_str(&ct));
        }
    }
}

/// The extremes of the admissible parameter ranges, checked against the plaintext inside the harness (the case lines of such contexts would
/// be megabytes long): the largest degrees (2^17 always, one more above the line-by-line range) and the largest number of coefficient primes
/// (HE_COEFF_MOD_COUNT_MAX = 64), every scheme, public-key / secret-key / seed-compressed-then-expanded encryption, first and lower levels.
fn extremes(out: &mut Out, r: &mut Rng, thorough: bool) {
    let mut worlds: Vec<(String, usize, Vec<usize>)> = vec![];
    let ks: Vec<usize> = if thorough { (8..=17).collect() } else { vec![17, r.range(8, 16) as usize] };
    for k in ks { worlds.push((format!("deg2^{}", k), 1usize << k, vec![50, 40, 60])); }
    // 64 primes = 1 mod 2N at N = 16 (eight sizes, eight primes each; the last one is the special prime)
    worlds.push(("primes64".into(), 16, (0..64).map(|i| [24usize, 30, 36, 42, 48, 54, 58, 60][i / 8]).rev().collect()));
    for (name, n, bits) in worlds {
        let mut qs: Vec<u64> = vec![];
        let mut sizes: Vec<usize> = bits.clone(); sizes.sort(); sizes.dedup();
        let mut pools: std::collections::BTreeMap<usize, Vec<u64>> = Default::default();
        for b in sizes { let need = bits.iter().filter(|&&x| x == b).count(); if let Ok(p) = std::panic::catch_unwind(|| heathcliff::util::get_primes(2 * n as u64, b, need)) { pools.insert(b, p.iter().map(|m| m.value()).collect()); } }
        for b in &bits { if let Some(v) = pools.get_mut(b) { if let Some(q) = v.pop() { qs.push(q); } } }
        if qs.len() != bits.len() { out.raw(&format!("!NOTE extremes {}: primes not available", name)); continue; }
        for scheme in [SchemeType::BFV, SchemeType::BGV, SchemeType::CKKS] {
            let t = if scheme == SchemeType::CKKS { 0 } else { match std::panic::catch_unwind(|| heathcliff::util::get_primes(2 * n as u64, 20, 1)[0].value()) { Ok(t) => t, Err(_) => 1 << 10 } };
            let cls = format!("extreme-{}-{}", name, scheme_name(scheme));
            let s = match make(scheme, n, &qs, t, true, None) { Some(s) => s, None => { out.raw(&format!("!FAIL fresh_extreme {} setup :: parameters inside the documented ranges were refused # {}", cls, cls)); continue } };
            let levels = s.levels();
            let lsel: Vec<usize> = { let mut v = vec![0, levels.len() / 2, levels.len() - 1]; v.dedup(); v };
            let mut ok = true;
            'lv: for &li in &lsel {
                let pid = levels[li];
                for mode in 0..3 {
                    let verdict = std::panic::catch_unwind(std::panic::AssertUnwindSafe(|| {
                        if scheme == SchemeType::CKKS {
                            let enc = CKKSEncoder::new(s.ctx.clone());
                            let vals: Vec<num_complex::Complex64> = (0..n / 2).map(|i| num_complex::Complex64::new(((i * 7 + li) % 33) as f64 / 8.0 - 2.0, ((i * 5 + mode as usize) % 17) as f64 / 16.0)).collect();
                            let plain = enc.encode_c64_array_new(&vals, Some(pid), 2f64.powi(if li == levels.len() - 1 { 14 } else { 30 }));
                            let ct = enc_mode(&s, &plain, mode);
                            let back = enc.decode_new(&s.decryptor.decrypt_new(&ct));
                            let err = (0..n / 2).map(|i| (back[i] - vals[i]).norm()).fold(0.0, f64::max);
                            // worst case: (fresh noise 21(2N+1) + rounding) * N / scale
                            let bound = (n as f64) * (21.0 * (2.0 * n as f64 + 1.0) + 1.0) / plain.scale() + 1e-6;
                            if err <= bound { None } else { Some(format!("decoded slots differ by {:.3e}, worst-case bound {:.3e}", err, bound)) }
                        } else {
                            // encryption below the first level exists for zero only (encrypt_zero_at); plaintexts are encrypted at the first level
                            if li == 0 {
                                let coeffs: Vec<u64> = (0..n).map(|i| match i % 5 { 0 => t - 1, 1 => 0, 2 => t / 2, _ => (i as u64 * 2654435761) % t }).collect();
                                let mut plain = Plaintext::new(); plain.resize(n); plain.data_mut().copy_from_slice(&coeffs);
                                let ct = enc_mode(&s, &plain, mode);
                                let d = s.decryptor.decrypt_new(&ct);
                                let mut got = d.data()[..d.coeff_count()].to_vec(); got.resize(n, 0);
                                if got == coeffs { None } else { Some("decryption differs from the plaintext".to_string()) }
                            } else {
                                let ct = if mode == 0 { s.encryptor.encrypt_zero_new_at(&pid) } else { let c = s.encryptor.encrypt_zero_symmetric_new_at(&pid); if c.contains_seed() { c.expand_seed(&s.ctx) } else { c } };
                                let d = s.decryptor.decrypt_new(&ct);
                                if d.data()[..d.coeff_count()].iter().all(|&x| x == 0) { None } else { Some("encryption of zero does not decrypt to zero".to_string()) }
                            }
                        } }));
                    match verdict {
                        Ok(None) => {}
                        Ok(Some(w)) => { out.raw(&format!("!FAIL fresh_extreme {} level={} mode={} :: {} # {}", cls, li, mode, w, cls)); ok = false; break 'lv; }
                        Err(_) => { let m = LAST_PANIC.with(|p| p.borrow().clone()); out.raw(&format!("!FAIL fresh_extreme {} level={} mode={} :: encryption / decryption on accepted parameters panicked: {} # {}", cls, li, mode, m.replace('\n', " "), cls)); ok = false; break 'lv; }
                    }
                }
            }
            if ok { out.raw(&format!("!OK fresh_extreme {} levels={} # {}", cls, levels.len(), cls)); }
        }
    }
}

pub fn run(out: &mut Out, thorough: bool, seed: u64, _extra: &[String]) {
    let mut r = Rng::new(seed);
    scaling_cases(out, &mut r, thorough);
    { let mut r2 = Rng::new(seed ^ 0x5eed_e87e); extremes(out, &mut r2, thorough); }
    // encryption itself against the model (`enc_op` lines, own generator: the cases below are unchanged)
    { let mut r3 = Rng::new(seed ^ 0x0e2c_0b5e); crate::c01e::enc_ops(out, &mut r3, thorough); }
    let reps = if thorough { 120 } else { 14 };
    for rep in 0..reps {
        let lg = r.range(1, if thorough { 7 } else { 5 }) as usize; let n = 1usize << lg;
        // the first three parameter sets: a SMALL first prime under two or three larger ones and a plain modulus several bits wider than it
        let wide_over_first = rep < 3;
        let k = if wide_over_first { 3 + (rep % 2) } else { r.range(1, if thorough { 6 } else { 4 }) as usize };
        let minb = lg + 2;
        let mut bits: Vec<usize> = (0..k).map(|_| (*r.pick(&[18usize, 25, 30, 36, 40, 50, 59, 60])).max(minb)).collect();
        match r.below(3) { 0 => bits.sort(), 1 => { bits.sort(); bits.reverse(); } _ => {} }
        if wide_over_first { bits = (0..k).map(|i| if i == 0 { (*r.pick(&[18usize, 20, 25])).max(minb) } else { *r.pick(&[32usize, 36, 40]) }).collect(); }
        let qs = match pick_primes(&mut r, n, &bits) { Some(v) => v, None => continue };
        let scheme = if wide_over_first { [SchemeType::BFV, SchemeType::BGV, SchemeType::BFV][rep % 3] } else { *r.pick(&[SchemeType::BFV, SchemeType::BGV, SchemeType::BFV, SchemeType::BGV, SchemeType::CKKS]) };
        let tk = if wide_over_first { 4 } else { r.below(5) };
        let t = if scheme == SchemeType::CKKS { 0 } else { pick_plain(&mut r, n, tk, &qs) };
        let sp = if r.chance(1, 3) { Some(r.chance(1, 2)) } else { None };
        let s = match make(scheme, n, &qs, t, true, sp) { Some(s) => s, None => { out.raw(&format!("!NOTE parameters rejected {} n={} bits={:?} t={}", scheme_name(scheme), n, bits, t)); continue } };
        let cls = format!("{}-n{}-k{}-t{}{}", scheme_name(scheme), n, k, tk, match sp { Some(true) => "-sp", Some(false) => "-nosp", None => "" });
        if scheme == SchemeType::CKKS {
            let enc = CKKSEncoder::new(s.ctx.clone());
            for pid in s.levels() {
                let lqs = s.level_qs(&pid);
                let logq: usize = lqs.iter().map(|q| 64 - q.leading_zeros() as usize).sum();
                let sb = r.range(8, (logq.saturating_sub(12)).max(9) as u64).min(50) as i32;
                let scale = 2f64.powi(sb);
                let vals: Vec<num_complex::Complex64> = (0..n / 2).map(|_| num_complex::Complex64::new(((r.below(2001) as f64) - 1000.0) / 8.0, ((r.below(2001) as f64) - 1000.0) / 8.0)).collect();
                let plain = match std::panic::catch_unwind(std::panic::AssertUnwindSafe(|| enc.encode_c64_array_new(&vals, Some(pid), scale))) { Ok(p) => p, Err(_) => continue };
                for mode in 0..9 {
                    let ct = match std::panic::catch_unwind(std::panic::AssertUnwindSafe(|| if mode < 3 { enc_mode(&s, &plain, mode) } else if mode < 5 { enc_reuse(&s, &plain, mode, &mut r) } else { enc_uprng(&s, &plain, mode, &mut r) })) { Ok(c) => c, Err(_) => { let m = LAST_PANIC.with(|p| p.borrow().clone()); out.raw(&format!("!FAIL fresh_encrypt {} mode={} :: encryption of a valid plaintext was refused / panicked: {} # encrypt-panic", cls, mode, m.replace('\n', " "))); continue } };
                    let (mode, rz) = if mode >= 5 { ([0, 0, 1, 2][mode as usize - 5], ["-uprng", "-uprng-reuse", "-uprng-reuse", "-uprng"][mode as usize - 5]) } else if mode >= 3 { (mode - 3, "-reuse") } else { (mode, "") };
                    let cls = format!("{}{}", cls, rz);
                    // `fresh`: ciphertext, the plaintext it was made from (RNS, NTT form), mode; impl = library decryption
                    let pk = plain.data().len() / n;
                    let pstr = (0..pk).map(|c| fl(&plain.data()[c * n..(c + 1) * n])).collect::<Vec<_>>().join(";");
                    out.case(&format!("fresh {} {} {}", s.ct_case(&ct), mode, pstr), &format!("{}-m{}", cls, mode), || s.dec_str(&ct));
                }
            }
            continue;
        }
        for pk in 0..7u64 {
            let coeffs = boundary_plain(&mut r, n, t, pk);
            let mut plain = Plaintext::new(); plain.resize(coeffs.len()); plain.data_mut().copy_from_slice(&coeffs);
            let trimmed = { let mut c = coeffs.clone(); while c.len() > 1 && *c.last().unwrap() == 0 { c.pop(); } c };
            for mode in 0..9 {
                let ct = match std::panic::catch_unwind(std::panic::AssertUnwindSafe(|| if mode < 3 { enc_mode(&s, &plain, mode) } else if mode < 5 { enc_reuse(&s, &plain, mode, &mut r) } else { enc_uprng(&s, &plain, mode, &mut r) })) { Ok(c) => c, Err(_) => { let m = LAST_PANIC.with(|p| p.borrow().clone()); out.raw(&format!("!FAIL fresh_encrypt {} mode={} :: encryption of a valid plaintext was refused / panicked: {} # encrypt-panic", cls, mode, m.replace('\n', " "))); continue } };
                let (mode, rz) = if mode >= 5 { ([0, 0, 1, 2][mode as usize - 5], ["-uprng", "-uprng-reuse", "-uprng-reuse", "-uprng"][mode as usize - 5]) } else if mode >= 3 { (mode - 3, "-reuse") } else { (mode, "") };
                let cls = format!("{}{}", cls, rz);
                out.case(&format!("fresh {} {} {}", s.ct_case(&ct), mode, fl(&trimmed)), &format!("{}-p{}-m{}", cls, pk, mode), || s.dec_str(&ct));
                if rep % 3 == 0 && pk == 6 {
                    let view = if ct.is_ntt_form() { s.evaluator.transform_from_ntt_new(&ct) } else { ct.clone() };
                    out.case(&format!("budget {}", s.ct_case(&view)), &format!("{}-m{}", cls, mode), || s.decryptor.invariant_noise_budget(&view).to_string());
                }
            }
            // encryptions of zero at every level
            if pk == 0 {
                for pid in s.levels() {
                    let first = pid == s.levels()[0];
                    for zmode in 0..(if first { 8 } else { 6 }) {
                        let mode = zmode;
                        let (ct, lm) = match std::panic::catch_unwind(std::panic::AssertUnwindSafe(|| enc_zero(&s, &pid, zmode, &mut r))) { Ok(c) => c, Err(_) => { out.raw(&format!("!FAIL fresh_encrypt {} zero mode={} :: encryption of zero was refused / panicked # encrypt-panic", cls, mode)); continue } };
                        if ct.parms_id() != &pid { out.raw(&format!("!FAIL fresh_level {} zero zmode={} :: the encryption of zero is not at the level that was asked for # {}-zero-level", cls, zmode, cls)); continue; }
                        out.case(&format!("fresh {} {} 0", s.ct_case(&ct), lm), &format!("{}-zero-m{}{}", cls, lm, ["", "", "-uprng-reuse", "-uprng", "-uprng-reuse", "-uprng", "-first-reuse", "-first-uprng-reuse"][zmode as usize]), || s.dec_str(&ct));
                    }
                }
            }
        }
    }
}
