//! C01: fresh encryptions decrypt to the plaintext (every scheme, mode, level the library allows).
use crate::ctx::*;
use crate::rng::Rng;
use crate::util::*;
use heathcliff::*;

fn boundary_plain(r: &mut Rng, n: usize, t: u64, kind: u64) -> Vec<u64> {
    match kind {
        0 => vec![0],
        1 => vec![t - 1; n],
        2 => (0..n).map(|i| if i % 2 == 0 { t / 2 } else { (t + 1) / 2 }).collect(),
        3 => vec![1],
        4 => { let l = r.range(1, n as u64) as usize; (0..l).map(|_| r.below(t)).collect() }
        5 => { let mut v = vec![0u64; n]; v[n - 1] = t - 1; v }
        _ => (0..n).map(|_| r.below(t)).collect(),
    }
}

/// 0 = public key, 1 = secret key, 2 = secret key with saved seed, expanded before use
fn enc_mode(s: &Setup, plain: &Plaintext, mode: i32) -> Ciphertext {
    match mode {
        0 => s.encryptor.encrypt_new(plain),
        1 => { let mut c = Ciphertext::new(); s.encryptor.encrypt_symmetric(plain, &mut c); c }
        _ => { let c = s.encryptor.encrypt_symmetric_new(plain); if c.contains_seed() { c.expand_seed(&s.ctx) } else { c } }
    }
}

pub fn run(out: &mut Out, thorough: bool, seed: u64, _extra: &[String]) {
    let mut r = Rng::new(seed);
    let reps = if thorough { 120 } else { 14 };
    for rep in 0..reps {
        let lg = r.range(1, if thorough { 7 } else { 5 }) as usize; let n = 1usize << lg;
        let k = r.range(1, if thorough { 6 } else { 4 }) as usize;
        let minb = lg + 2;
        let mut bits: Vec<usize> = (0..k).map(|_| (*r.pick(&[18usize, 25, 30, 36, 40, 50, 59, 60])).max(minb)).collect();
        match r.below(3) { 0 => bits.sort(), 1 => { bits.sort(); bits.reverse(); } _ => {} }
        let qs = match pick_primes(&mut r, n, &bits) { Some(v) => v, None => continue };
        let scheme = *r.pick(&[SchemeType::BFV, SchemeType::BGV, SchemeType::BFV, SchemeType::BGV, SchemeType::CKKS]);
        let tk = r.below(4);
        let t = if scheme == SchemeType::CKKS { 0 } else { pick_plain(&mut r, n, tk, &qs) };
        let sp = if r.chance(1, 3) { Some(r.chance(1, 2)) } else { None };
        let s = match make(scheme, n, &qs, t, true, sp) { Some(s) => s, None => { out.raw(&format!("!NOTE parameters rejected {} n={} bits={:?} t={}", scheme_name(scheme), n, bits, t)); continue } };
        let cls = format!("{}-n{}-k{}-t{}{}", scheme_name(scheme), n, k, tk, match sp { Some(true) => "-sp", Some(false) => "-nosp", None => "" });
        if scheme == SchemeType::CKKS {
            let enc = CKKSEncoder::new(s.ctx.clone());
            for pid in s.levels() {
                let lqs = s.level_qs(&pid);
                let logq: usize = lqs.iter().map(|q| 64 - q.leading_zeros() as usize).sum();
                let sb = r.range(8, (logq.saturating_sub(12)).max(9) as u64).min(50) as i32;
                let scale = 2f64.powi(sb);
                let vals: Vec<num_complex::Complex64> = (0..n / 2).map(|_| num_complex::Complex64::new(((r.below(2001) as f64) - 1000.0) / 8.0, ((r.below(2001) as f64) - 1000.0) / 8.0)).collect();
                let plain = match std::panic::catch_unwind(std::panic::AssertUnwindSafe(|| enc.encode_c64_array_new(&vals, Some(pid), scale))) { Ok(p) => p, Err(_) => continue };
                for mode in 0..3 {
                    let ct = enc_mode(&s, &plain, mode);
                    // `fresh`: ciphertext, the plaintext it was made from (RNS, NTT form), mode; impl = library decryption
                    let pk = plain.data().len() / n;
                    let pstr = (0..pk).map(|c| fl(&plain.data()[c * n..(c + 1) * n])).collect::<Vec<_>>().join(";");
                    out.case(&format!("fresh {} {} {}", s.ct_case(&ct), mode, pstr), &format!("{}-m{}", cls, mode), || s.dec_str(&ct));
                }
            }
            continue;
        }
        for pk in 0..7u64 {
            let coeffs = boundary_plain(&mut r, n, t, pk);
            let mut plain = Plaintext::new(); plain.resize(coeffs.len()); plain.data_mut().copy_from_slice(&coeffs);
            let trimmed = { let mut c = coeffs.clone(); while c.len() > 1 && *c.last().unwrap() == 0 { c.pop(); } c };
            for mode in 0..3 {
                let ct = enc_mode(&s, &plain, mode);
                out.case(&format!("fresh {} {} {}", s.ct_case(&ct), mode, fl(&trimmed)), &format!("{}-p{}-m{}", cls, pk, mode), || s.dec_str(&ct));
                if rep % 3 == 0 && pk == 6 {
                    out.case(&format!("budget {}", s.ct_case(&ct)), &format!("{}-m{}", cls, mode), || s.decryptor.invariant_noise_budget(&{ let mut c = ct.clone(); if c.is_ntt_form() { s.evaluator.transform_from_ntt_inplace(&mut c); } c }).to_string());
                }
            }
            // encryptions of zero at every level
            if pk == 0 {
                for pid in s.levels() {
                    for mode in 0..2 {
                        let ct = if mode == 0 { s.encryptor.encrypt_zero_new_at(&pid) } else { let c = s.encryptor.encrypt_zero_symmetric_new_at(&pid); if c.contains_seed() { c.expand_seed(&s.ctx) } else { c } };
                        out.case(&format!("fresh {} {} 0", s.ct_case(&ct), mode), &format!("{}-zero-m{}", cls, mode), || s.dec_str(&ct));
                    }
                }
            }
        }
    }
}
