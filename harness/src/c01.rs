//! C01: fresh encryptions decrypt to the plaintext (every scheme, mode, level the library allows).
use crate::ctx::*;
use crate::rng::Rng;
use crate::util::*;
use heathcliff::*;

fn boundary_plain(r: &mut Rng, n: usize, t: u64, kind: u64) -> Vec<u64> {
    match kind {
        0 => vec![0],
        1 => vec![t - 1; n],
        2 => (0..n).map(|i| if i % 2 == 0 { t / 2 } else { (t + 1) / 2 }).collect(),
        3 => vec![1],
        4 => { let l = r.range(1, n as u64) as usize; (0..l).map(|_| r.below(t)).collect() }
        5 => { let mut v = vec![0u64; n]; v[n - 1] = t - 1; v }
        _ => (0..n).map(|_| r.below(t)).collect(),
    }
}

/// 0 = public key, 1 = secret key, 2 = secret key with saved seed, expanded before use
/// a destination that has been USED before: a size-3 product moved one level down (BGV: correction factor != 1), for BFV sometimes left in
/// NTT form, for CKKS an object with another scale on the last level — encryption into it must not inherit any of that
fn dirty_destination(s: &Setup, r: &mut Rng) -> Ciphertext {
    let made = std::panic::catch_unwind(std::panic::AssertUnwindSafe(|| {
        let ev = &s.evaluator;
        if s.scheme == SchemeType::CKKS {
            let enc = CKKSEncoder::new(s.ctx.clone());
            let last = *s.levels().last().unwrap();
            let p = enc.encode_f64_single_new(1.0, Some(last), 8.0);
            let mut c = Ciphertext::new(); s.encryptor.encrypt_symmetric(&p, &mut c); c
        } else {
            let m: Vec<u64> = (0..s.n).map(|_| r.below(s.t)).collect();
            let mut p = Plaintext::new(); p.resize(s.n); p.data_mut().copy_from_slice(&m);
            let c = s.encryptor.encrypt_new(&p);
            let mut c = ev.multiply_new(&c, &c);
            if s.levels().len() >= 2 { c = ev.mod_switch_to_next_new(&c); }
            if s.scheme == SchemeType::BFV && r.chance(1, 2) { ev.transform_to_ntt_inplace(&mut c); }
            c
        } }));
    made.unwrap_or_else(|_| Ciphertext::new())
}
/// modes 3 / 4: public-key / secret-key encryption through the destination forms into a used destination
fn enc_reuse(s: &Setup, plain: &Plaintext, mode: i32, r: &mut Rng) -> Ciphertext {
    let mut d = dirty_destination(s, r);
    if mode == 3 { s.encryptor.encrypt(plain, &mut d); } else { s.encryptor.encrypt_symmetric(plain, &mut d); }
    d
}
fn enc_mode(s: &Setup, plain: &Plaintext, mode: i32) -> Ciphertext {
    match mode {
        0 => s.encryptor.encrypt_new(plain),
        1 => { let mut c = Ciphertext::new(); s.encryptor.encrypt_symmetric(plain, &mut c); c }
        _ => { let c = s.encryptor.encrypt_symmetric_new(plain); if c.contains_seed() { c.expand_seed(&s.ctx) } else { c } }
    }
}

/// plaintext coefficients that sit on the boundaries of the word arithmetic inside `multiply_add_plain`:
/// (q mod t)·m + (t+1)/2 just below / at / above multiples of 2^64 (carry into the high word), and the usual extremes
pub fn carry_boundary_coeffs(r: &mut Rng, t: u64, q_mod_t: u64) -> Vec<u64> {
    let mut v = vec![0, 1, t - 1, t / 2, (t + 1) / 2, t.saturating_sub(2)];
    if q_mod_t > 0 {
        for k in 1u128..=6 {
            let base = ((k << 64) - 1) / q_mod_t as u128;
            for d in [0i128, -1, 1, -2, 2] { let m = base as i128 + d; if m >= 0 && (m as u128) < t as u128 { v.push(m as u64); } }
            let half = (t as u128 + 1) / 2;
            let b2 = ((k << 64) - half) / q_mod_t as u128;
            for d in [0i128, 1, 2] { let m = b2 as i128 + d; if m >= 0 && (m as u128) < t as u128 { v.push(m as u64); } }
        }
    }
    for _ in 0..6 { v.push(r.below(t)); }
    v
}

/// `multiply_add_plain` / `multiply_sub_plain` called directly (hook re-export) on wide and narrow plain moduli
fn scaling_cases(out: &mut Out, r: &mut Rng, thorough: bool) {
    use heathcliff::verif::scaling_variant as sv;
    for _ in 0..(if thorough { 60 } else { 10 }) {
        let lg = r.range(3, 5) as usize; let n = 1usize << lg;
        let k = r.range(1, 3) as usize;
        let bits: Vec<usize> = (0..k).map(|_| *r.pick(&[45usize, 58, 59, 60])).collect();
        let qs = match pick_primes(r, n, &bits) { Some(v) => v, None => continue };
        // wide plain moduli (> 2^32) as well as the usual ones; must stay below the product and coprime to it
        let t = match r.below(5) { 0 => 1u64 << r.range(33, 44), 1 => (3u64 << r.range(33, 42)) + 1, 2 => { let b = r.range(34, 44) as u32; r.bits(b) | 1 } 3 => 1u64 << r.range(2, 20), _ => pick_plain(r, n, 0, &qs) };
        if qs.iter().any(|&q| gcd(q, t) != 1) || (k == 1 && t >= qs[0]) { continue; }
        let s = match make(SchemeType::BFV, n, &qs, t, false, None) { Some(s) => s, None => continue };
        let cd = s.ctx.first_context_data().unwrap();
        let lqs = s.level_qs(cd.parms_id());
        let q_mod_t = cd.coeff_modulus_mod_plain_modulus();
        let cand = carry_boundary_coeffs(r, t, q_mod_t);
        let coeffs: Vec<u64> = (0..n).map(|i| cand[(i + r.below(3) as usize) % cand.len()]).collect();
        let mut plain = Plaintext::new(); plain.resize(n); plain.data_mut().copy_from_slice(&coeffs);
        let dest: Vec<Vec<u64>> = lqs.iter().map(|&q| (0..n).map(|_| if r.chance(1, 4) { q - 1 } else { r.below(q) }).collect()).collect();
        let flat: Vec<u64> = dest.iter().flatten().copied().collect();
        let cls = format!("scaling-t{}b-k{}", 64 - t.leading_zeros(), lqs.len());
        for sub in [false, true] {
            out.case(&format!("multiply_add_plain {} {} {} {} {} {}", sub as u8, n, fl(&lqs), t, fl(&coeffs), fl2(&dest)), &cls, || {
                let mut d = flat.clone(); if sub { sv::multiply_sub_plain(&plain, &cd, &mut d); } else { sv::multiply_add_plain(&plain, &cd, &mut d); }
                fl2(&d.chunks(n).map(|c| c.to_vec()).collect::<Vec<_>>()) });
        }
        // and end to end: fresh encryptions of these plaintexts must decrypt to them
        for mode in 0..2 {
            let ct = match std::panic::catch_unwind(std::panic::AssertUnwindSafe(|| enc_mode(&s, &plain, mode))) { Ok(c) => c, Err(_) => { let m = LAST_PANIC.with(|p| p.borrow().clone()); out.raw(&format!("!FAIL fresh_encrypt scaling mode={} :: encryption of a valid plaintext was refused / panicked: {} # encrypt-panic", mode, m.replace('\n', " "))); continue } };
            let trimmed = { let mut c = coeffs.clone(); while c.len() > 1 && *c.last().unwrap() == 0 { c.pop(); } c };
            out.case(&format!("fresh {} {} {}", s.ct_case(&ct), mode, fl(&trimmed)), &format!("{}-m{}", cls, mode), || s.dec_str(&ct));
        }
    }
}

pub fn run(out: &mut Out, thorough: bool, seed: u64, _extra: &[String]) {
    let mut r = Rng::new(seed);
    scaling_cases(out, &mut r, thorough);
    let reps = if thorough { 120 } else { 14 };
    for rep in 0..reps {
        let lg = r.range(1, if thorough { 7 } else { 5 }) as usize; let n = 1usize << lg;
        let k = r.range(1, if thorough { 6 } else { 4 }) as usize;
        let minb = lg + 2;
        let mut bits: Vec<usize> = (0..k).map(|_| (*r.pick(&[18usize, 25, 30, 36, 40, 50, 59, 60])).max(minb)).collect();
        match r.below(3) { 0 => bits.sort(), 1 => { bits.sort(); bits.reverse(); } _ => {} }
        let qs = match pick_primes(&mut r, n, &bits) { Some(v) => v, None => continue };
        let scheme = *r.pick(&[SchemeType::BFV, SchemeType::BGV, SchemeType::BFV, SchemeType::BGV, SchemeType::CKKS]);
        let tk = r.below(4);
        let t = if scheme == SchemeType::CKKS { 0 } else { pick_plain(&mut r, n, tk, &qs) };
        let sp = if r.chance(1, 3) { Some(r.chance(1, 2)) } else { None };
        let s = match make(scheme, n, &qs, t, true, sp) { Some(s) => s, None => { out.raw(&format!("!NOTE parameters rejected {} n={} bits={:?} t={}", scheme_name(scheme), n, bits, t)); continue } };
        let cls = format!("{}-n{}-k{}-t{}{}", scheme_name(scheme), n, k, tk, match sp { Some(true) => "-sp", Some(false) => "-nosp", None => "" });
        if scheme == SchemeType::CKKS {
            let enc = CKKSEncoder::new(s.ctx.clone());
            for pid in s.levels() {
                let lqs = s.level_qs(&pid);
                let logq: usize = lqs.iter().map(|q| 64 - q.leading_zeros() as usize).sum();
                let sb = r.range(8, (logq.saturating_sub(12)).max(9) as u64).min(50) as i32;
                let scale = 2f64.powi(sb);
                let vals: Vec<num_complex::Complex64> = (0..n / 2).map(|_| num_complex::Complex64::new(((r.below(2001) as f64) - 1000.0) / 8.0, ((r.below(2001) as f64) - 1000.0) / 8.0)).collect();
                let plain = match std::panic::catch_unwind(std::panic::AssertUnwindSafe(|| enc.encode_c64_array_new(&vals, Some(pid), scale))) { Ok(p) => p, Err(_) => continue };
                for mode in 0..5 {
                    let ct = match std::panic::catch_unwind(std::panic::AssertUnwindSafe(|| if mode < 3 { enc_mode(&s, &plain, mode) } else { enc_reuse(&s, &plain, mode, &mut r) })) { Ok(c) => c, Err(_) => { let m = LAST_PANIC.with(|p| p.borrow().clone()); out.raw(&format!("!FAIL fresh_encrypt {} mode={} :: encryption of a valid plaintext was refused / panicked: {} # encrypt-panic", cls, mode, m.replace('\n', " "))); continue } };
                    let (mode, rz) = if mode >= 3 { (mode - 3, "-reuse") } else { (mode, "") };
                    let cls = format!("{}{}", cls, rz);
                    // `fresh`: ciphertext, the plaintext it was made from (RNS, NTT form), mode; impl = library decryption
                    let pk = plain.data().len() / n;
                    let pstr = (0..pk).map(|c| fl(&plain.data()[c * n..(c + 1) * n])).collect::<Vec<_>>().join(";");
                    out.case(&format!("fresh {} {} {}", s.ct_case(&ct), mode, pstr), &format!("{}-m{}", cls, mode), || s.dec_str(&ct));
                }
            }
            continue;
        }
        for pk in 0..7u64 {
            let coeffs = boundary_plain(&mut r, n, t, pk);
            let mut plain = Plaintext::new(); plain.resize(coeffs.len()); plain.data_mut().copy_from_slice(&coeffs);
            let trimmed = { let mut c = coeffs.clone(); while c.len() > 1 && *c.last().unwrap() == 0 { c.pop(); } c };
            for mode in 0..5 {
                let ct = match std::panic::catch_unwind(std::panic::AssertUnwindSafe(|| if mode < 3 { enc_mode(&s, &plain, mode) } else { enc_reuse(&s, &plain, mode, &mut r) })) { Ok(c) => c, Err(_) => { let m = LAST_PANIC.with(|p| p.borrow().clone()); out.raw(&format!("!FAIL fresh_encrypt {} mode={} :: encryption of a valid plaintext was refused / panicked: {} # encrypt-panic", cls, mode, m.replace('\n', " "))); continue } };
                let (mode, rz) = if mode >= 3 { (mode - 3, "-reuse") } else { (mode, "") };
                let cls = format!("{}{}", cls, rz);
                out.case(&format!("fresh {} {} {}", s.ct_case(&ct), mode, fl(&trimmed)), &format!("{}-p{}-m{}", cls, pk, mode), || s.dec_str(&ct));
                if rep % 3 == 0 && pk == 6 {
                    let view = if ct.is_ntt_form() { s.evaluator.transform_from_ntt_new(&ct) } else { ct.clone() };
                    out.case(&format!("budget {}", s.ct_case(&view)), &format!("{}-m{}", cls, mode), || s.decryptor.invariant_noise_budget(&view).to_string());
                }
            }
            // encryptions of zero at every level
            if pk == 0 {
                for pid in s.levels() {
                    for mode in 0..2 {
                        let ct = match std::panic::catch_unwind(std::panic::AssertUnwindSafe(|| if mode == 0 { s.encryptor.encrypt_zero_new_at(&pid) } else { let c = s.encryptor.encrypt_zero_symmetric_new_at(&pid); if c.contains_seed() { c.expand_seed(&s.ctx) } else { c } })) { Ok(c) => c, Err(_) => { out.raw(&format!("!FAIL fresh_encrypt {} zero mode={} :: encryption of zero was refused / panicked # encrypt-panic", cls, mode)); continue } };
                        out.case(&format!("fresh {} {} 0", s.ct_case(&ct), mode), &format!("{}-zero-m{}", cls, mode), || s.dec_str(&ct));
                    }
                }
            }
        }
    }
}
