//! C01 `enc_op` lines: ENCRYPTION itself against the model (Lean `Model/Encrypt.lean`).
//! The sampling tape (hook H2) is armed around one encryption; the line carries the key material, the polynomials the
//! library drew (`ternary` / `centered_binomial` / `uniform`, in the samplers' RNS encoding), the plaintext and, for
//! seed-compressed ciphertexts, the stored seed with the BLAKE3 blocks the model needs to expand it.  The implementation's
//! output is the resulting ciphertext (`ntt cf polys`); the driver recomputes it with the model bit for bit.
//! Degrees <= 16 to keep the lines short.
use crate::ctx::*;
use crate::rng::Rng;
use crate::util::*;
use heathcliff::verif::rng_hooks as hk;
use heathcliff::*;

const BS: usize = 4096;
fn hex(b: &[u8]) -> String { b.iter().map(|x| format!("{:02x}", x)).collect() }
/// independent recomputation of one generator buffer: BLAKE3 of seed ++ counter (8 bytes LE), XOF output 4096 bytes
fn block(seed: &[u8; 64], counter: u64) -> Vec<u8> {
    let mut h = blake3::Hasher::new();
    h.update(seed); h.update(&counter.to_le_bytes());
    let mut b = vec![0u8; BS]; h.finalize_xof().fill(&mut b); b
}
fn xofdata(seed: &[u8; 64], bytes: usize) -> String {
    let nb = bytes / BS + 2;
    format!("{}:{}", hex(seed), (0..nb).map(|c| hex(&block(seed, c as u64))).collect::<Vec<_>>().join(";"))
}
fn stored_seed(ct: &Ciphertext) -> Option<[u8; 64]> {
    if !ct.contains_seed() { return None; }
    let w = &ct.poly(1)[1..9];
    let mut s = [0u8; 64];
    for i in 0..8 { s[8 * i..8 * i + 8].copy_from_slice(&w[i].to_le_bytes()); }
    Some(s)
}

struct Smp { kind: &'static str, n: usize, moduli: Vec<u64>, data: Vec<u64> }
impl Smp { fn comps(&self) -> String { let k = self.moduli.len(); fl2(&(0..k).map(|j| self.data[j * self.n..(j + 1) * self.n].to_vec()).collect::<Vec<_>>()) } }

/// run one library call with the sampling tape armed; None if the call panicked
fn taped<T>(f: impl FnOnce() -> T) -> (Option<T>, Vec<Smp>) {
    hk::arm_tape();
    let r = std::panic::catch_unwind(std::panic::AssertUnwindSafe(f)).ok();
    let tape = hk::take_tape();
    let smp = tape.into_iter().filter_map(|r| match r { hk::Rec::Sample { kind, degree, moduli, data } => Some(Smp { kind, n: degree, moduli, data }), _ => None }).collect();
    (r, smp)
}

fn rns_str(data: &[u64], n: usize) -> String { let k = data.len() / n; (0..k).map(|c| fl(&data[c * n..(c + 1) * n])).collect::<Vec<_>>().join(";") }

fn pk_str(s: &Setup) -> String {
    let c = s.encryptor.public_key().as_ciphertext();
    (0..c.size()).map(|i| rns_str(c.poly(i), s.n)).collect::<Vec<_>>().join("|")
}

/// moduli of the previous level of `pid` (the level public-key encryption is made at), if there is one
fn prev_qs(s: &Setup, pid: &ParmsID) -> Option<Vec<u64>> {
    s.ctx.get_context_data(pid).unwrap().prev_context_data().map(|p| p.parms().coeff_modulus().iter().map(|m| m.value()).collect())
}

/// one line.  `mode`: pk / sk / seed; `plain`: "-" for an encryption of zero
fn emit(out: &mut Out, s: &Setup, cls: &str, pid: &ParmsID, mode: &str, plain: &str, ct: Option<Ciphertext>, smp: &[Smp]) {
    let want: &[&str] = if mode == "pk" { &["ternary", "centered_binomial", "centered_binomial"] } else { &["uniform", "centered_binomial"] };
    let ct = match ct { Some(c) => c, None => { out.raw(&format!("!FAIL enc_op {} {} :: encryption was refused / panicked # {}", cls, mode, cls)); return } };
    if smp.len() != want.len() || smp.iter().zip(want.iter()).any(|(a, b)| a.kind != *b) {
        out.raw(&format!("!FAIL enc_op {} {} :: the encryption drew {:?}, expected {:?} # {}", cls, mode, smp.iter().map(|x| x.kind).collect::<Vec<_>>(), want, cls)); return;
    }
    let prev = if mode == "pk" { prev_qs(s, pid) } else { None };
    let drawn = smp.iter().map(|x| x.comps()).collect::<Vec<_>>().join("|");
    // seed-compressed: the stored seed + its BLAKE3 blocks; the implementation's output is the EXPANDED ciphertext
    let (seedinfo, ct) = match stored_seed(&ct) {
        Some(seed) => { let k = s.level_qs(pid).len();
            (format!("{}@{}", hex(&seed), xofdata(&seed, 8 * s.n * k * 13 / 10 + 256)), match std::panic::catch_unwind(std::panic::AssertUnwindSafe(|| ct.expand_seed(&s.ctx))) { Ok(c) => c, Err(_) => { out.raw(&format!("!FAIL enc_op {} {} :: expand_seed panicked # {}", cls, mode, cls)); return } }) }
        None => ("-".to_string(), ct),
    };
    let lhs = format!("enc_op {} {} {} {} {} {} {} {} {} {} {} {}", scheme_name(s.scheme), s.n, fl(&key_qs(s)), s.t, s.sk_str(), fl(&s.level_qs(pid)),
        prev.map(|p| fl(&p)).unwrap_or("-".into()), mode, if mode == "pk" { pk_str(s) } else { "-".into() }, drawn, plain, seedinfo);
    if ct.parms_id() != pid { out.raw(&format!("!FAIL enc_op {} {} :: the ciphertext is not at the requested level # {}", cls, mode, cls)); return; }
    out.case(&lhs, &format!("{}-{}{}", cls, mode, if plain == "-" { "-zero" } else { "" }), || s.ct_str(&ct));
}

/// a destination that carries a history (BGV: correction factor != 1; BFV: NTT flag) — as in c01.rs
fn used_destination(s: &Setup, r: &mut Rng) -> Ciphertext {
    std::panic::catch_unwind(std::panic::AssertUnwindSafe(|| {
        let ev = &s.evaluator;
        if s.scheme == SchemeType::CKKS {
            let enc = CKKSEncoder::new(s.ctx.clone());
            let last = *s.levels().last().unwrap();
            let p = enc.encode_f64_single_new(1.0, Some(last), 8.0);
            let mut c = Ciphertext::new(); s.encryptor.encrypt_symmetric(&p, &mut c); c
        } else {
            let m: Vec<u64> = (0..s.n).map(|_| r.below(s.t)).collect();
            let mut p = Plaintext::new(); p.resize(s.n); p.data_mut().copy_from_slice(&m);
            let c = s.encryptor.encrypt_new(&p);
            let mut c = ev.multiply_new(&c, &c);
            if s.levels().len() >= 2 { c = ev.mod_switch_to_next_new(&c); }
            if s.scheme == SchemeType::BFV && r.chance(1, 2) { ev.transform_to_ntt_inplace(&mut c); }
            c
        } })).unwrap_or_else(|_| Ciphertext::new())
}

/// `keygen_op` lines: KEY GENERATION against the model (`genSecretKey`, `genPublicKey`): a fresh generator on the setup's context with
/// the sampling tape armed; the line carries the ternary sample, the (a, e) the public key drew, and for a saved seed the stored seed.
/// Output: the stored secret key (NTT form, key level) and the public key as a ciphertext (`ntt cf polys`, seed expanded).
fn keygen_lines(out: &mut Out, s: &Setup, cls: &str) {
    let (kg, smp) = taped(|| KeyGenerator::new(s.ctx.clone()));
    let kg = match kg { Some(k) => k, None => { out.raw(&format!("!FAIL keygen_op {} :: KeyGenerator::new panicked # {}", cls, cls)); return } };
    if smp.len() != 1 || smp[0].kind != "ternary" { out.raw(&format!("!FAIL keygen_op {} :: secret key generation drew {:?}, expected [ternary] # {}", cls, smp.iter().map(|x| x.kind).collect::<Vec<_>>(), cls)); return; }
    let tern = smp[0].comps();
    let kq = key_qs(s);
    for mode in ["sk", "seed"] {
        let (pk, smp) = taped(|| kg.create_public_key(mode == "seed"));
        let pk = match pk { Some(p) => p, None => { out.raw(&format!("!FAIL keygen_op {} {} :: create_public_key panicked # {}", cls, mode, cls)); return } };
        if smp.len() != 2 || smp[0].kind != "uniform" || smp[1].kind != "centered_binomial" { out.raw(&format!("!FAIL keygen_op {} {} :: public key generation drew {:?} # {}", cls, mode, smp.iter().map(|x| x.kind).collect::<Vec<_>>(), cls)); return; }
        let drawn = smp.iter().map(|x| x.comps()).collect::<Vec<_>>().join("|");
        let ct = pk.as_ciphertext().clone();
        if ct.parms_id() != s.ctx.key_parms_id() { out.raw(&format!("!FAIL keygen_op {} {} :: the public key is not at the key level # {}", cls, mode, cls)); return; }
        let (seedinfo, ct) = match stored_seed(&ct) {
            Some(seed) => (format!("{}@{}", hex(&seed), xofdata(&seed, 8 * s.n * kq.len() * 13 / 10 + 256)), match std::panic::catch_unwind(std::panic::AssertUnwindSafe(|| ct.expand_seed(&s.ctx))) { Ok(c) => c, Err(_) => { out.raw(&format!("!FAIL keygen_op {} {} :: expand_seed panicked # {}", cls, mode, cls)); return } }),
            None => ("-".to_string(), ct),
        };
        let lhs = format!("keygen_op {} {} {} {} {} {} {} {}", scheme_name(s.scheme), s.n, fl(&kq), s.t, mode, tern, drawn, seedinfo);
        let skd = rns_str(kg.secret_key().data(), s.n);
        out.case(&lhs, &format!("{}-keygen-{}", cls, mode), || format!("{} {}", skd, s.ct_str(&ct)));
    }
}

pub fn enc_ops(out: &mut Out, r: &mut Rng, thorough: bool) {
    let reps = if thorough { 40 } else { 12 };
    for rep in 0..reps {
        // N = 8 with >= 2 components (flag + seed spill into the second component), N = 4 (seed not saved), N = 16
        let n = match rep % 4 { 0 => 8usize, 1 => 16, 2 => 4, _ => *r.pick(&[2usize, 8, 16]) };
        let lg = n.trailing_zeros() as usize;
        let k = if rep % 4 == 0 { r.range(2, 3) as usize } else { r.range(1, 3) as usize };
        let scheme = [SchemeType::BFV, SchemeType::BGV, SchemeType::CKKS][(rep / 2) % 3];
        let mut bits: Vec<usize> = (0..k).map(|_| (*r.pick(&[18usize, 20, 25, 30, 36, 40])).max(lg + 2)).collect();
        match r.below(3) { 0 => bits.sort(), 1 => { bits.sort(); bits.reverse(); } _ => {} }
        let qs = match pick_primes(r, n, &bits) { Some(v) => v, None => continue };
        // plain modulus kinds: batching prime / 2^k / 3 / LARGER than a coefficient prime (no fast plain lift)
        let tk = if scheme == SchemeType::BGV && rep % 2 == 1 { 3 } else { r.below(4) };
        let t = if scheme == SchemeType::CKKS { 0 } else { pick_plain(r, n, tk, &qs) };
        let sp = match rep % 3 { 0 => None, 1 => Some(false), _ => Some(true) };
        let s = match make(scheme, n, &qs, t, true, sp) { Some(s) => s, None => { out.raw(&format!("!NOTE enc_op parameters rejected {} n={} bits={:?} t={}", scheme_name(scheme), n, bits, t)); continue } };
        let cls = format!("enc-{}-n{}-k{}-t{}{}", scheme_name(scheme), n, k, tk, match sp { Some(true) => "-sp", Some(false) => "-nosp", None => "" });
        let levels = s.levels();
        let first = levels[0];
        keygen_lines(out, &s, &cls);
        // --- plaintext encryptions (first level; CKKS: every level)
        if scheme == SchemeType::CKKS {
            let enc = CKKSEncoder::new(s.ctx.clone());
            for pid in &levels {
                let vals: Vec<num_complex::Complex64> = (0..n / 2).map(|_| num_complex::Complex64::new(((r.below(201) as f64) - 100.0) / 8.0, ((r.below(201) as f64) - 100.0) / 8.0)).collect();
                let plain = match std::panic::catch_unwind(std::panic::AssertUnwindSafe(|| enc.encode_c64_array_new(&vals, Some(*pid), 2f64.powi(10)))) { Ok(p) => p, Err(_) => continue };
                let pstr = rns_str(plain.data(), n);
                let (c, smp) = taped(|| s.encryptor.encrypt_new(&plain)); emit(out, &s, &cls, pid, "pk", &pstr, c, &smp);
                let (c, smp) = taped(|| { let mut c = Ciphertext::new(); s.encryptor.encrypt_symmetric(&plain, &mut c); c }); emit(out, &s, &cls, pid, "sk", &pstr, c, &smp);
                let (c, smp) = taped(|| s.encryptor.encrypt_symmetric_new(&plain)); emit(out, &s, &cls, pid, "seed", &pstr, c, &smp);
                let mut d = used_destination(&s, r);
                let (c, smp) = taped(|| { s.encryptor.encrypt(&plain, &mut d); d }); emit(out, &s, &format!("{}-reuse", cls), pid, "pk", &pstr, c, &smp);
            }
        } else {
            for pk in 0..3 {
                // full random / boundary values (upper and lower half mixed) / short
                let coeffs: Vec<u64> = match pk { 0 => (0..n).map(|_| r.below(t)).collect(),
                    1 => (0..n).map(|i| match i % 4 { 0 => t - 1, 1 => (t + 1) / 2, 2 => t / 2 - (t / 2).min(1), _ => 1 }).collect(),
                    _ => { let l = r.range(1, n as u64) as usize; (0..l).map(|_| r.below(t)).collect() } };
                let mut plain = Plaintext::new(); plain.resize(coeffs.len()); plain.data_mut().copy_from_slice(&coeffs);
                let pstr = fl(&coeffs);
                let (c, smp) = taped(|| s.encryptor.encrypt_new(&plain)); emit(out, &s, &cls, &first, "pk", &pstr, c, &smp);
                let (c, smp) = taped(|| { let mut c = Ciphertext::new(); s.encryptor.encrypt_symmetric(&plain, &mut c); c }); emit(out, &s, &cls, &first, "sk", &pstr, c, &smp);
                let (c, smp) = taped(|| s.encryptor.encrypt_symmetric_new(&plain)); emit(out, &s, &cls, &first, "seed", &pstr, c, &smp);
                if pk == 0 {
                    let mut d = used_destination(&s, r);
                    let (c, smp) = taped(|| { s.encryptor.encrypt(&plain, &mut d); d }); emit(out, &s, &format!("{}-reuse", cls), &first, "pk", &pstr, c, &smp);
                    let mut d = used_destination(&s, r);
                    let (c, smp) = taped(|| { s.encryptor.encrypt_symmetric(&plain, &mut d); d }); emit(out, &s, &format!("{}-reuse", cls), &first, "sk", &pstr, c, &smp);
                }
            }
        }
        // --- encryptions of zero at every level, three modes (+ public key into a used destination)
        for pid in &levels {
            let (c, smp) = taped(|| s.encryptor.encrypt_zero_new_at(pid)); emit(out, &s, &cls, pid, "pk", "-", c, &smp);
            let (c, smp) = taped(|| { let mut c = Ciphertext::new(); s.encryptor.encrypt_zero_symmetric_at(pid, &mut c); c }); emit(out, &s, &cls, pid, "sk", "-", c, &smp);
            let (c, smp) = taped(|| s.encryptor.encrypt_zero_symmetric_new_at(pid)); emit(out, &s, &cls, pid, "seed", "-", c, &smp);
            let mut d = used_destination(&s, r);
            let (c, smp) = taped(|| { s.encryptor.encrypt_zero_at(pid, &mut d); d }); emit(out, &s, &format!("{}-reuse", cls), pid, "pk", "-", c, &smp);
        }
    }
}
