//! C05: moving down the modulus chain — every (source, target) pair, every API form, termination under a deadline.
use crate::ctx::*;
use crate::c02::{plain_of, rand_msg, trim};
use crate::rng::Rng;
use crate::util::*;
use heathcliff::*;
use std::sync::mpsc;
use std::time::Duration;

/// run `f` on its own thread; a call that does not return within the deadline is a violation (non-termination)
fn with_deadline<T: Send + 'static>(secs: u64, f: impl FnOnce() -> T + Send + 'static) -> Result<T, String> {
    let (tx, rx) = mpsc::channel();
    std::thread::spawn(move || { let r = std::panic::catch_unwind(std::panic::AssertUnwindSafe(f)); let _ = tx.send(r); });
    match rx.recv_timeout(Duration::from_secs(secs)) {
        Ok(Ok(v)) => Ok(v),
        Ok(Err(_)) => Err("refused".to_string()),
        Err(_) => Err("timeout".to_string()),
    }
}

fn ct_eq(a: &Ciphertext, b: &Ciphertext) -> bool {
    a.data() == b.data() && a.parms_id() == b.parms_id() && a.size() == b.size() && a.is_ntt_form() == b.is_ntt_form()
        && a.scale().to_bits() == b.scale().to_bits() && a.correction_factor() == b.correction_factor()
}

/// NTT-form PLAINTEXTS down the chain: every (source, target) pair, all six API forms (to-next / to-target x in-place / destination /
/// returning).  Levels drop the last prime, so the plaintext on the target level is the source truncated to the target's RNS components
/// (the definition: the same polynomial reduced modulo the remaining primes); it must carry the target's parms id, exactly
/// N x |target primes| words, the unchanged scale, and must be accepted by a plaintext operation on that level with the unchanged meaning.
/// Chains include SHORT ones (BFV/BGV with a plain modulus wider than the small primes: the chain stops before a single prime is left, so
/// the chain index of a level is not its prime count minus one).
fn plain_switch_cases(out: &mut Out, r: &mut Rng, thorough: bool) {
    let reps = if thorough { 18 } else { 6 };
    for rep in 0..reps {
        let lg = r.range(2, 5) as usize; let n = 1usize << lg;
        let scheme = [SchemeType::BFV, SchemeType::BGV, SchemeType::CKKS][rep % 3];
        let short = scheme != SchemeType::CKKS && rep % 2 == 0;
        let k = if short { 4 + (rep / 3) % 2 } else { 2 + rep % 4 };
        let bits: Vec<usize> = (0..k + 1).map(|_| if short { 30usize } else { *r.pick(&[30usize, 36, 40, 50]) }).collect();
        let qs = match pick_primes(r, n, &bits) { Some(v) => v, None => continue };
        let t = if scheme == SchemeType::CKKS { 0 } else if short { let mut t = (1u64 << r.range(38, 42)) + 1 + 2 * r.below(1 << 20); while qs.iter().any(|&q| gcd(q, t) != 1) { t += 2; } t } else { let tk = r.below(2); pick_plain(r, n, tk, &qs) };
        let s = match make(scheme, n, &qs, t, true, None) { Some(s) => s, None => continue };
        let ev = &s.evaluator; let levels = s.levels(); let nl = levels.len();
        let sn = format!("{}{}", scheme_name(scheme), if short { "-short" } else { "" });
        let kcount = |pid: &ParmsID| s.level_qs(pid).len();
        if short && kcount(&levels[nl - 1]) == 1 { out.raw(&format!("!NOTE plain_switch {} chain is not short (reaches a single prime)", sn)); }
        for src in 0..nl {
            let m = rand_msg(r, n, if t == 0 { 1 << 20 } else { t });
            let built = std::panic::catch_unwind(std::panic::AssertUnwindSafe(|| if scheme == SchemeType::CKKS {
                let enc = CKKSEncoder::new(s.ctx.clone()); enc.encode_f64_single_new(1.25 + src as f64, Some(levels[src]), 2f64.powi(12))
            } else { ev.transform_plain_to_ntt_new(&plain_of(&m), &levels[src]) }));
            let p = match built { Ok(p) => p, Err(_) => continue };
            let check = |out: &mut Out, nm: &str, tgt: usize, res: &Plaintext| {
                let kt = kcount(&levels[tgt]);
                let mut why = vec![];
                if res.parms_id() != &levels[tgt] { why.push("not on the requested level".to_string()); }
                if res.data().len() != n * kt { why.push(format!("{} words for {} primes x degree {}", res.data().len(), kt, n)); }
                if res.data().len() >= n * kt && res.data()[..n * kt] != p.data()[..n * kt] { why.push("data is not the source truncated to the target's RNS components".to_string()); }
                if res.scale().to_bits() != p.scale().to_bits() { why.push("scale changed".to_string()); }
                if !res.is_ntt_form() { why.push("left NTT form".to_string()); }
                if why.is_empty() && scheme != SchemeType::CKKS {
                    // usable with the unchanged meaning: a ciphertext on the target level times the switched plaintext decrypts like the product
                    // with the same plaintext brought to that level directly
                    let ok = std::panic::catch_unwind(std::panic::AssertUnwindSafe(|| { let z = s.encryptor.encrypt_zero_new_at(&levels[tgt]); let z = if z.is_ntt_form() { z } else { ev.transform_to_ntt_new(&z) };
                        let direct = ev.transform_plain_to_ntt_new(&plain_of(&m), &levels[tgt]);
                        ev.multiply_plain_new(&z, res).data() == ev.multiply_plain_new(&z, &direct).data() }));
                    match ok { Ok(true) => {}, Ok(false) => why.push("multiply_plain with the switched plaintext differs from the plaintext brought to the level directly".into()), Err(_) => why.push("multiply_plain refuses the switched plaintext".into()) }
                }
                if why.is_empty() { out.raw(&format!("!OK plain_switch {} L{} {}->{} {} # plain-{}", sn, nl, src, tgt, nm, sn)); }
                else { out.raw(&format!("!FAIL plain_switch {} L{} {}->{} {} :: {} # plain-{}", sn, nl, src, tgt, nm, why.join("; "), sn)); }
            };
            // to-next, three forms
            type F<'a> = Box<dyn Fn() -> Plaintext + 'a>;
            let nexts: Vec<(&str, F)> = vec![("to_next_new", Box::new(|| ev.mod_switch_to_next_plain_new(&p))), ("to_next_dest", Box::new(|| { let mut d = Plaintext::new(); ev.mod_switch_to_next_plain(&p, &mut d); d })), ("to_next_inplace", Box::new(|| { let mut x = p.clone(); ev.mod_switch_to_next_plain_inplace(&mut x); x }))];
            for (nm, f) in nexts {
                match std::panic::catch_unwind(std::panic::AssertUnwindSafe(|| f())) {
                    Ok(res) => { if src + 1 < nl { check(out, nm, src + 1, &res); } else { out.raw(&format!("!FAIL plain_switch {} L{} {} past the last level :: computed instead of refused # plain-refuse", sn, nl, nm)); } }
                    Err(_) => { if src + 1 < nl { out.raw(&format!("!FAIL plain_switch {} L{} {}->{} {} :: a legal switch was refused # plain-{}", sn, nl, src, src + 1, nm, sn)); } else { out.raw(&format!("!OK plain_switch {} L{} {} past the last level refused # plain-refuse", sn, nl, nm)); } }
                }
            }
            // the walk against the Lean model (plan of `mod_switch_plain_to_inplace` = the code regenerated from source, data by `plainWalkData`):
            // levels as chain indices (0 = last), prime counts by chain index
            { let kcs: Vec<u64> = (0..nl).map(|j| kcount(&levels[nl - 1 - j]) as u64).collect();
              for tgt in 0..nl {
                  let (ci, ti) = (nl - 1 - src, nl - 1 - tgt);
                  out.case(&format!("plain_switch_to 1 1 {} {} {} {} {}", ci, ti, n, fl(&kcs), fl(p.data())), &format!("plain-walk-{}-{}", sn, if tgt < src { "up" } else if tgt == src { "same" } else { "down" }), || {
                      let res = ev.mod_switch_plain_to_new(&p, &levels[tgt]);
                      let idx = s.ctx.get_context_data(res.parms_id()).unwrap().chain_index();
                      format!("{}:{}", idx, fl(res.data())) });
              }
              if scheme != SchemeType::CKKS && src + 1 < nl {
                  let pc = plain_of(&m);
                  out.case(&format!("plain_switch_to 1 0 {} {} {} {} {}", nl - 1 - src, nl - 2 - src, n, fl(&kcs), fl(pc.data())), &format!("plain-walk-{}-coef", sn), || {
                      let res = ev.mod_switch_plain_to_new(&pc, &levels[src + 1]); format!("{}:{}", s.ctx.get_context_data(res.parms_id()).unwrap().chain_index(), fl(res.data())) });
              } }
            // to-target, three forms, every target (upward must be refused, same level is the identity)
            for tgt in 0..nl {
                let tos: Vec<(&str, F)> = vec![("to_new", Box::new(|| ev.mod_switch_plain_to_new(&p, &levels[tgt]))), ("to_dest", Box::new(|| { let mut d = Plaintext::new(); ev.mod_switch_plain_to(&p, &levels[tgt], &mut d); d })), ("to_inplace", Box::new(|| { let mut x = p.clone(); ev.mod_switch_plain_to_inplace(&mut x, &levels[tgt]); x }))];
                for (nm, f) in tos {
                    match std::panic::catch_unwind(std::panic::AssertUnwindSafe(|| f())) {
                        Ok(res) => { if tgt >= src { check(out, nm, tgt, &res); } else { out.raw(&format!("!FAIL plain_switch {} L{} {}->{} {} upward :: computed instead of refused # plain-refuse", sn, nl, src, tgt, nm)); } }
                        Err(_) => { if tgt >= src { out.raw(&format!("!FAIL plain_switch {} L{} {}->{} {} :: a legal switch was refused # plain-{}", sn, nl, src, tgt, nm, sn)); } else { out.raw(&format!("!OK plain_switch {} L{} {}->{} {} upward refused # plain-refuse", sn, nl, src, tgt, nm)); } }
                    }
                }
            }
        }
        // a coefficient-form plaintext is refused
        if scheme != SchemeType::CKKS && nl >= 2 {
            let pc = plain_of(&rand_msg(r, n, t));
            if std::panic::catch_unwind(std::panic::AssertUnwindSafe(|| { let _ = ev.mod_switch_plain_to_new(&pc, &levels[nl - 1]); })).is_err() { out.raw(&format!("!OK plain_switch {} coefficient-form plaintext refused # plain-refuse", sn)); }
            else { out.raw(&format!("!FAIL plain_switch {} coefficient-form plaintext :: switched instead of refused # plain-refuse", sn)); }
        }
    }
}

pub fn run(out: &mut Out, thorough: bool, seed: u64, _extra: &[String]) {
    let mut r = Rng::new(seed);
    { let mut r2 = Rng::new(seed ^ 0x91a1_5717); plain_switch_cases(out, &mut r2, thorough); }
    let reps = if thorough { 40 } else { 7 };
    for rep in 0..reps {
        let lg = r.range(2, 5) as usize; let n = 1usize << lg;
        let k = (rep % 6) + 1 + (if rep % 6 == 0 { 1 } else { 0 });          // chains of 1..6 data levels (+ key level)
        let bits: Vec<usize> = (0..k.min(6) + 1).map(|_| *r.pick(&[30usize, 36, 40, 45, 50])).collect();
        let mut qs = match pick_primes(&mut r, n, &bits) { Some(v) => v, None => continue };
        // every fourth chain: ADJACENT-WIDTH data primes — bottom-of-range b-bit primes followed by a top-of-range (b+1)-bit prime that is dropped
        // first (ratio between 2 and 4; single conditional subtractions valid only below 2x fail here), then the key prime
        if rep % 4 == 2 {
            let b = *r.pick(&[29usize, 39, 49]).max(&(lg + 3));
            let lows = crate::c10::ntt_primes_low(n, &[b, b]);
            if let (2, Ok(tp)) = (lows.len(), std::panic::catch_unwind(|| heathcliff::util::get_primes(2 * n as u64, b + 1, 1)[0].value())) {
                if tp >= 2 * lows[0] { if let Some(sp) = pick_primes(&mut r, n, &[55]) { qs = vec![lows[0], lows[1], tp, sp[0]]; } } }
        }
        for scheme in [SchemeType::BFV, SchemeType::BGV, SchemeType::CKKS] {
            let tk = r.below(2); let t = if scheme == SchemeType::CKKS { 0 } else { pick_plain(&mut r, n, tk, &qs) };
            // every third chain (BFV/BGV): all primes after the first are 1 modulo t (the `create_with_plain_modulus` shape: q^-1 mod t = 1, the
            // BGV correction factor stays 1 and the guarded fast paths of the division routines are taken)
            let mut qs = qs.clone();
            if scheme != SchemeType::CKKS && rep % 3 == 1 && t >= 3 {
                for i in 1..qs.len() { if let Some(p) = prime_one_mod(n, t, 45, &qs) { qs[i] = p; } }
            }
            if scheme != SchemeType::CKKS && qs.iter().any(|&q| gcd(q, t) != 1) { continue; }
            let s = match make(scheme, n, &qs, t, true, None) { Some(s) => std::sync::Arc::new(s), None => continue };
            let levels = s.levels();
            let nl = levels.len();
            // CKKS plain switching with a scale between the next level's modulus and the current one: the value cannot survive the switch, so the
            // request must be refused — or, if accepted, the result must still decode to the value (an accepted switch keeps the message)
            if scheme == SchemeType::CKKS && nl >= 2 {
                let enc = CKKSEncoder::new(s.ctx.clone());
                for src in 0..nl - 1 {
                    let bits_next = s.ctx.get_context_data(&levels[src + 1]).unwrap().total_coeff_modulus_bit_count() as i32;
                    let bits_cur = s.ctx.get_context_data(&levels[src]).unwrap().total_coeff_modulus_bit_count() as i32;
                    for sb in [bits_next - 1, bits_next, bits_next + 1] {
                        if sb + 3 >= bits_cur || sb < 2 { continue; }
                        let p = match std::panic::catch_unwind(std::panic::AssertUnwindSafe(|| enc.encode_f64_single_new(0.75, Some(levels[src]), 2f64.powi(sb)))) { Ok(p) => p, Err(_) => continue };
                        let mut c = Ciphertext::new(); s.encryptor.encrypt_symmetric(&p, &mut c);
                        let fits = sb < bits_next;
                        for form in 0..3 {
                            let r = std::panic::catch_unwind(std::panic::AssertUnwindSafe(|| match form { 0 => s.evaluator.mod_switch_to_next_new(&c), 1 => { let mut d = Ciphertext::new(); s.evaluator.mod_switch_to_next(&c, &mut d); d } _ => { let mut x = c.clone(); s.evaluator.mod_switch_to_next_inplace(&mut x); x } }));
                            let lhs = format!("ckks_drop_scale_bound L{} {}->{} scale=2^{} next={}bits form{}", nl, src, src + 1, sb, bits_next, form);
                            match r {
                                Err(_) => { if fits { out.raw(&format!("!FAIL {} :: a switch whose scale fits the next level was refused # ckks-drop-bound", lhs)); } else { out.raw(&format!("!OK {} refused # ckks-drop-bound", lhs)); } }
                                Ok(res) => {
                                    let dec = std::panic::catch_unwind(std::panic::AssertUnwindSafe(|| enc.decode_new(&s.decryptor.decrypt_new(&res))));
                                    // the value is only claimed when the scaled value really fits below half the TRUE target modulus (with bottom-of-range
                                    // primes bits(Q) overstates log2 Q by up to one bit per prime: an encoding that wraps is the caller's overflow)
                                    let lq_next: f64 = s.level_qs(&levels[src + 1]).iter().map(|&q| (q as f64).log2()).sum();
                                    let claim = (sb as f64) + 1.0 < lq_next - 1.0;
                                    let good = res.parms_id() == &levels[src + 1] && res.scale().to_bits() == c.scale().to_bits() && (!claim || dec.map(|d| (d[0].re - 0.75).abs() < 1e-2).unwrap_or(false));
                                    if !fits { out.raw(&format!("!FAIL {} :: the switch was accepted although the scale does not fit the target level's modulus (must be refused) # ckks-drop-bound", lhs)); }
                                    else if good { out.raw(&format!("!OK {} accepted, value kept # ckks-drop-bound", lhs)); }
                                    else { out.raw(&format!("!FAIL {} :: the switch was accepted but the result no longer decodes to the value (scale does not fit the target level) # ckks-drop-bound", lhs)); }
                                }
                            }
                        }
                    }
                }
            }
            // source ciphertexts of size 2..4 at the first level (products without relinearisation), moved to each source level
            for size in 2..=(if rep % 2 == 0 { 3 } else { 4 }) {
                let (ct0, msg): (Ciphertext, Vec<u64>) = if scheme == SchemeType::CKKS {
                    let enc = CKKSEncoder::new(s.ctx.clone());
                    let vals: Vec<num_complex::Complex64> = (0..n / 2).map(|_| num_complex::Complex64::new(((r.below(401) as f64) - 200.0) / 16.0, ((r.below(401) as f64) - 200.0) / 16.0)).collect();
                    let mut c = s.encryptor.encrypt_new(&enc.encode_c64_array_new(&vals, None, 2f64.powi(20)));
                    for _ in 2..size { let one = s.encryptor.encrypt_new(&enc.encode_c64_array_new(&vec![num_complex::Complex64::new(1.0, 0.0); n / 2], None, 2f64.powi(2))); c = s.evaluator.multiply_new(&c, &one); }
                    (c, vec![])
                } else {
                    let m = rand_msg(&mut r, n, t);
                    let mut c = s.encryptor.encrypt_new(&plain_of(&m));
                    let mut mm = m.clone();
                    for _ in 2..size { let o = { let mut v = vec![0u64; n]; v[0] = 1; v }; let one = s.encryptor.encrypt_new(&plain_of(&o)); c = s.evaluator.multiply_new(&c, &one); mm = crate::c02::shadow_mul(&mm, &o, t); }
                    (c, mm)
                };
                for src in 0..nl {
                    let src_ct = { let s2 = s.clone(); let c = ct0.clone(); let pid = levels[src];
                        match with_deadline(20, move || s2.evaluator.mod_switch_to_new(&c, &pid)) { Ok(c) => c, Err(e) => { out.raw(&format!("!FAIL mod_switch_to {} 0->{} :: {} # setup", scheme_name(scheme), src, e)); continue } } };
                    for tgt in 0..nl {
                        let cls = format!("{}-L{}-s{}-{}to{}", scheme_name(scheme), nl, size, src, tgt);
                        let pid = levels[tgt];
                        // --- mod_switch_to: three API forms
                        let forms: Vec<(&str, Result<Ciphertext, String>)> = vec![
                            ("new", { let s2 = s.clone(); let c = src_ct.clone(); with_deadline(20, move || s2.evaluator.mod_switch_to_new(&c, &pid)) }),
                            ("inplace", { let s2 = s.clone(); let mut c = src_ct.clone(); with_deadline(20, move || { s2.evaluator.mod_switch_to_inplace(&mut c, &pid); c }) }),
                            ("dest", { let s2 = s.clone(); let c = src_ct.clone(); with_deadline(20, move || { let mut d = Ciphertext::new(); s2.evaluator.mod_switch_to(&c, &pid, &mut d); d }) }),
                        ];
                        let lhs = format!("mod_switch_to {} L{} size{} {}->{}", scheme_name(scheme), nl, size, src, tgt);
                        if tgt < src {
                            // upward: every form must refuse (and terminate)
                            for (name, res) in &forms { match res {
                                Err(e) if e == "refused" => out.raw(&format!("!OK {} {} # {}-up", lhs, name, cls)),
                                Err(e) => out.raw(&format!("!FAIL {} {} :: {} # {}-up", lhs, name, e, cls)),
                                Ok(_) => out.raw(&format!("!FAIL {} {} :: upward switch was computed instead of refused # {}-up", lhs, name, cls)) } }
                        } else {
                            let mut ok_forms: Vec<&Ciphertext> = vec![];
                            for (name, res) in &forms { match res {
                                Ok(c) => { if c.parms_id() == &pid { ok_forms.push(c); } else { out.raw(&format!("!FAIL {} {} :: result is not on the requested level # {}", lhs, name, cls)); } }
                                Err(e) => out.raw(&format!("!FAIL {} {} :: {} # {}", lhs, name, e, cls)) } }
                            if ok_forms.len() == 3 {
                                if ct_eq(ok_forms[0], ok_forms[1]) && ct_eq(ok_forms[0], ok_forms[2]) { out.raw(&format!("!OK {} forms-agree # {}", lhs, cls)); }
                                else { out.raw(&format!("!FAIL {} :: in-place / destination / returning forms differ # {}", lhs, cls)); }
                                let res = ok_forms[0];
                                if scheme == SchemeType::CKKS {
                                    out.case(&format!("ckks_switch drop {} {} {} {} | {}", src_ct.scale().to_bits(), res.scale().to_bits(), tgt - src, s.ct_case(&src_ct), s.ct_case(res)), &cls, || "ok".to_string());
                                } else {
                                    // the exact-decryption claim is made only where the message can survive: the source budget, and the room left on the
                                    // target level (log2 Q' - log2 t - size*log2 N - 8: rounding noise of size-`size` switching involves s^(size-1))
                                    let tgt_bits: f64 = s.level_qs(&pid).iter().map(|&q| (q as f64).log2()).sum();
                                    let pred = (crate::c02::lib_budget(&s, &ct0).min(tgt_bits - (t as f64).log2() - (size as f64) * (n as f64).log2() - 8.0) - 2.0).floor() as i64;
                                    out.case(&format!("prog {} {} {}", s.ct_case(res), pred, fl(&trim(&msg))), &format!("{}-{}", cls, if pred >= 4 { "claimed" } else { "noclaim" }), || s.dec_str(res));
                                }
                            }
                        }
                        // --- rescale_to (CKKS only; refused for BFV/BGV)
                        let rforms: Vec<(&str, Result<Ciphertext, String>)> = vec![
                            ("new", { let s2 = s.clone(); let c = src_ct.clone(); with_deadline(20, move || s2.evaluator.rescale_to_new(&c, &pid)) }),
                            ("inplace", { let s2 = s.clone(); let mut c = src_ct.clone(); with_deadline(20, move || { s2.evaluator.rescale_to_inplace(&mut c, &pid); c }) }),
                            ("dest", { let s2 = s.clone(); let c = src_ct.clone(); with_deadline(20, move || { let mut d = Ciphertext::new(); s2.evaluator.rescale_to(&c, &pid, &mut d); d }) }),
                        ];
                        let lhs = format!("rescale_to {} L{} size{} {}->{}", scheme_name(scheme), nl, size, src, tgt);
                        if scheme != SchemeType::CKKS || tgt < src {
                            for (name, res) in &rforms { match res {
                                Err(e) if e == "refused" => out.raw(&format!("!OK {} {} # {}-refuse", lhs, name, cls)),
                                Err(e) => out.raw(&format!("!FAIL {} {} :: {} # {}-refuse", lhs, name, e, cls)),
                                Ok(_) => out.raw(&format!("!FAIL {} {} :: computed instead of refused # {}-refuse", lhs, name, cls)) } }
                        } else {
                            let mut ok_forms: Vec<&Ciphertext> = vec![];
                            for (name, res) in &rforms { match res {
                                Ok(c) => { if c.parms_id() == &pid { ok_forms.push(c); } else { out.raw(&format!("!FAIL {} {} :: result is not on the requested level # {}", lhs, name, cls)); } }
                                Err(e) => out.raw(&format!("!FAIL {} {} :: {} # {}", lhs, name, e, cls)) } }
                            if ok_forms.len() == 3 {
                                if ct_eq(ok_forms[0], ok_forms[1]) && ct_eq(ok_forms[0], ok_forms[2]) { out.raw(&format!("!OK {} forms-agree # {}", lhs, cls)); }
                                else { out.raw(&format!("!FAIL {} :: in-place / destination / returning forms differ # {}", lhs, cls)); }
                                let res = ok_forms[0];
                                out.case(&format!("ckks_switch rescale {} {} {} {} | {}", src_ct.scale().to_bits(), res.scale().to_bits(), tgt - src, s.ct_case(&src_ct), s.ct_case(res)), &cls, || "ok".to_string());
                            }
                        }
                    }
                    // to-next forms at this source level (incl. refusal past the last level)
                    let lhs = format!("mod_switch_to_next {} L{} size{} at{}", scheme_name(scheme), nl, size, src);
                    let nx = { let s2 = s.clone(); let c = src_ct.clone(); with_deadline(20, move || s2.evaluator.mod_switch_to_next_new(&c)) };
                    let nxi = { let s2 = s.clone(); let mut c = src_ct.clone(); with_deadline(20, move || { s2.evaluator.mod_switch_to_next_inplace(&mut c); c }) };
                    match (&nx, &nxi, src + 1 < nl) {
                        (Ok(a), Ok(b), true) => { if ct_eq(a, b) && a.parms_id() == &levels[src + 1] { out.raw(&format!("!OK {} # next", lhs)); } else { out.raw(&format!("!FAIL {} :: forms differ or wrong level # next", lhs)); } }
                        (Err(a), Err(b), false) if a == "refused" && b == "refused" => out.raw(&format!("!OK {} refused-past-last # next", lhs)),
                        _ => out.raw(&format!("!FAIL {} :: unexpected outcome {:?} {:?} # next", lhs, nx.as_ref().map(|_| "ok"), nxi.as_ref().map(|_| "ok"))),
                    }
                }
            }
        }
    }
}
