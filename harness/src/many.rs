//! `Evaluator::add_many` (destination and value-returning form) and `multiply_many` against the shadow program (`prog` lines of C02):
//! 1..6 operands, for add_many of mixed sizes (fresh ciphertexts and an unrelinearised product) and — where the chain allows — one level down
//! (BGV: operands with correction factors g and g^2), destination handed over DIRTY (a ciphertext of another size).
use crate::ctx::*;
use crate::c02::*;
use crate::rng::Rng;
use crate::util::*;
use heathcliff::*;

fn view(s: &Setup, c: &Ciphertext) -> Ciphertext { if s.scheme == SchemeType::BFV && c.is_ntt_form() { s.evaluator.transform_from_ntt_new(c) } else { c.clone() } }

/// `multiply_many` is only exercised with the operand counts it handles correctly on the pinned tree (1 and 2), see notes/work7-U.md:
/// odd counts >= 3 index past the end (DESIGN.md §7), even counts >= 4 return the product of the LAST PAIR only.  `HC_MANY_ALL=1` lifts the
/// restriction (reproduces the failing cases).
fn many_counts() -> Vec<usize> { (1..=6).collect() }

pub fn directed_many(out: &mut Out, s: &Setup, r: &mut Rng) {
    let (n, t) = (s.n, s.t); let ev = &s.evaluator;
    let (ln, lt) = ((n as f64).log2(), (t as f64).log2());
    let bgv = s.scheme == SchemeType::BGV;
    let relin = if s.ctx.using_keyswitching() { Some(s.keygen.create_relin_keys(false)) } else { None };
    let nlev = s.levels().len();
    for down in 0..nlev.min(2) {
        let built = std::panic::catch_unwind(std::panic::AssertUnwindSafe(|| {
            let mut fresh = |r: &mut Rng, sym: bool| -> (Ciphertext, Vec<u64>, f64) { let m = rand_msg(r, n, t);
                let mut c = if sym { let mut c = Ciphertext::new(); s.encryptor.encrypt_symmetric(&plain_of(&m), &mut c); c } else { s.encryptor.encrypt_new(&plain_of(&m)) };
                let p0 = lib_budget(s, &c) - 1.0;
                for _ in 0..down { c = ev.mod_switch_to_next_new(&c); }
                let lbits: f64 = s.level_qs(c.parms_id()).iter().map(|&q| (q as f64).log2()).sum();
                let p = if down == 0 { p0 } else { (p0 - 1.0).min(lbits - lt - ln - 8.0) };
                (c, m, p) };
            let mut ops: Vec<(Ciphertext, Vec<u64>, f64)> = (0..6).map(|i| fresh(r, i % 2 == 1)).collect();
            // one operand of size 3: an unrelinearised product (BGV below the first level: correction factor g^2 against g of the others)
            let (x, y) = (fresh(r, false), fresh(r, true));
            let lbits: f64 = s.level_qs(x.0.parms_id()).iter().map(|&q| (q as f64).log2()).sum();
            let pp = if bgv { x.2 + y.2 - lbits - ln - 8.0 } else { x.2.min(y.2) - (lt + 2.0 * ln + 14.0) };
            let prod = (ev.multiply_new(&x.0, &y.0), shadow_mul(&x.1, &y.1, t), pp);
            let pos = r.below(6) as usize; ops.insert(pos, prod);
            ops }));
        let ops = match built { Ok(v) => v, Err(_) => continue };
        let size3 = ops.iter().position(|o| o.0.size() == 3).unwrap();
        // ---- add_many: k = 1..6 operands starting at a random offset of the (cyclic) list, so that the size-3 operand comes first, last or in the middle
        for k in 1..=6usize {
            let start = match k { 1 => r.below(7) as usize, _ => (size3 + 7 - r.below(k as u64) as usize) % 7 };
            let idx: Vec<usize> = (0..k).map(|j| (start + j) % 7).collect();
            let cts: Vec<Ciphertext> = idx.iter().map(|&i| ops[i].0.clone()).collect();
            let want = idx.iter().fold(vec![0u64; n], |acc, &i| shadow_add(&acc, &ops[i].1, t));
            let mixed_cf = idx.iter().any(|&i| ops[i].0.correction_factor() != ops[idx[0]].0.correction_factor());
            // k-fold sum: ceil(log2 k) + 1 bits; BGV operands with different correction factors are first multiplied by balancing scalars below t
            let pred = idx.iter().map(|&i| ops[i].2).fold(f64::INFINITY, f64::min) - (k as f64).log2().ceil() - 1.5 - if mixed_cf { (k as f64) * (lt + 1.0) } else { 0.0 };
            let sizes: String = idx.iter().map(|&i| ops[i].0.size().to_string()).collect::<Vec<_>>().join("");
            let cls = format!("addmany-{}-k{}-s{}-l{}", scheme_name(s.scheme), k, sizes, down);
            let res = std::panic::catch_unwind(std::panic::AssertUnwindSafe(|| {
                let mut dest = ops[(start + k) % 7].0.clone();      // dirty destination: some other ciphertext (size 2 or 3)
                ev.add_many(&cts, &mut dest);
                (dest, ev.add_many_new(&cts)) }));
            match res {
                Err(_) => { let m = LAST_PANIC.with(|p| p.borrow().clone()); out.raw(&format!("!FAIL add_many {} k={} sizes={} level={} :: add_many on valid same-level operands panicked: {} # {}", scheme_name(s.scheme), k, sizes, down, m.replace('\n', " "), cls)); }
                Ok((dest, newf)) => {
                    let same = dest.data() == newf.data() && dest.size() == newf.size() && dest.parms_id() == newf.parms_id() && dest.is_ntt_form() == newf.is_ntt_form() && dest.correction_factor() == newf.correction_factor();
                    if !same { out.raw(&format!("!FAIL add_many_forms {} k={} sizes={} level={} :: add_many into a dirty destination differs from add_many_new # {}", scheme_name(s.scheme), k, sizes, down, cls)); }
                    let v = view(s, &dest);
                    out.case(&format!("prog {} {} {}", s.ct_case(&v), pred.floor().max(-1.0) as i64, fl(&trim(&want))), &cls, || s.dec_str(&v));
                }
            }
        }
        // ---- multiply_many (with relinearisation keys): size-2 operands in the scheme's native representation
        if let Some(rk) = &relin {
            let two: Vec<&(Ciphertext, Vec<u64>, f64)> = ops.iter().filter(|o| o.0.size() == 2).collect();
            for k in many_counts() {
                let start = r.below(6) as usize;
                let idx: Vec<usize> = (0..k).map(|j| (start + j) % 6).collect();
                let cts: Vec<Ciphertext> = idx.iter().map(|&i| two[i].0.clone()).collect();
                let want = idx[1..].iter().fold(two[idx[0]].1.clone(), |acc, &i| shadow_mul(&acc, &two[i].1, t));
                let lbits: f64 = s.level_qs(cts[0].parms_id()).iter().map(|&q| (q as f64).log2()).sum();
                let kq = key_qs(s); let ksr = ((*kq[..kq.len() - 1].iter().max().unwrap_or(&1) as f64) / (*kq.last().unwrap() as f64)).log2().max(0.0);
                let relin_floor = lbits - lt - ln - 30.0 - ksr;
                // product tree of depth ceil(log2 k): the pairwise product rule of `Prog::pred_mul`, a relinearisation after every product
                let mut level: Vec<f64> = idx.iter().map(|&i| two[i].2).collect();
                while level.len() > 1 {
                    let mut nx = vec![]; let mut i = 0;
                    while i + 1 < level.len() { let (a, b) = (level[i], level[i + 1]);
                        let p = if bgv { a + b - lbits - ln - 8.0 } else { a.min(b) - (lt + 2.0 * ln + 14.0) };
                        nx.push(p.min(relin_floor) - 1.0); i += 2; }
                    if i < level.len() { nx.push(level[i]); }
                    level = nx;
                }
                let pred = level[0];
                let cls = format!("mulmany-{}-k{}-l{}", scheme_name(s.scheme), k, down);
                let res = std::panic::catch_unwind(std::panic::AssertUnwindSafe(|| { let mut dest = ops[size3].0.clone(); ev.multiply_many(&cts, rk, &mut dest); dest }));
                match res {
                    Err(_) => { let m = LAST_PANIC.with(|p| p.borrow().clone()); out.raw(&format!("!FAIL multiply_many {} k={} level={} :: multiply_many on valid operands panicked: {} # {}", scheme_name(s.scheme), k, down, m.replace('\n', " "), cls)); }
                    Ok(dest) => { let v = view(s, &dest);
                        out.case(&format!("prog {} {} {}", s.ct_case(&v), pred.floor().max(-1.0) as i64, fl(&trim(&want))), &cls, || s.dec_str(&v)); }
                }
            }
        }
    }
}
