//! polysmallmod wrappers: every `_p` (all RNS components of one polynomial) and `_ps` (several polynomials) wrapper must equal its
//! single-component kernel applied block by block — for 1..4 polynomials, 1..3 components, DIRTY destinations.  The kernels themselves
//! are compared with the Lean model line by line (C08 / C09 / C02 / C10); this oracle covers the offset arithmetic around them.
//! (The macros below paste the wrapper names, so a textual search for a call does not find them: `binary!` calls pm::add_p(..), pm::add_ps(..),
//! pm::sub_p(..), pm::sub_ps(..) and the dyadic family, `tr!` calls pm::ntt_p(..), pm::ntt_ps(..), pm::intt_p(..), pm::intt_ps(..) and the lazy forms.)
use crate::rng::Rng;
use crate::util::*;
use heathcliff::util as hu;
use heathcliff::verif::polysmallmod as pm;
use heathcliff::Modulus;

const DIRTY: u64 = 0xDEAD_BEEF_0BAD_F00D;

pub fn run(out: &mut Out, r: &mut Rng, reps: usize, ntt_family: bool) {
    for rep in 0..reps {
        let lg = r.range(1, 4) as usize; let n = 1usize << lg;
        let k = 1 + rep % 3; let pc = 1 + (rep / 3) % 4;
        let bitsv: Vec<usize> = (0..k).map(|_| *r.pick(&[20usize, 30, 45, 59, 60])).collect();
        let qs = crate::c10::ntt_primes(r, n, &bitsv);
        if qs.len() != k { continue; }
        let ms: Vec<Modulus> = qs.iter().map(|&q| Modulus::new(q)).collect();
        let d = n * k; let len = d * pc;
        let rnd = |r: &mut Rng| -> Vec<u64> { (0..len).map(|i| { let q = qs[(i / n) % k]; match r.below(6) { 0 => 0, 1 => q - 1, _ => r.below(q) } }).collect() };
        let (a, b) = (rnd(r), rnd(r));
        let scalar = r.below(*qs.iter().min().unwrap());
        let cls = format!("wrap-n{}k{}p{}", n, k, pc);
        let mut bad: Vec<String> = vec![];
        // reference: kernel per block
        let blockwise = |f: &dyn Fn(&[u64], &[u64], &Modulus, &mut [u64])| -> Vec<u64> {
            let mut res = vec![DIRTY; len];
            for p in 0..pc { for c in 0..k { let o = p * d + c * n; f(&a[o..o + n], &b[o..o + n], &ms[c], &mut res[o..o + n]); } }
            res };
        macro_rules! chk { ($name:expr, $want:expr, $got:expr) => {{
            let g = std::panic::catch_unwind(std::panic::AssertUnwindSafe(|| $got));
            match g { Ok(g) => if g != $want { bad.push(format!("{} differs from the kernel applied block by block", $name)); }, Err(_) => bad.push(format!("{} panicked on well-shaped operands", $name)) } }} }
        if !ntt_family {
            // binary, out of place and in place
            macro_rules! binary { ($f:ident, $fp:ident, $fps:ident, $fi:ident, $fip:ident, $fips:ident) => {{
                let want = blockwise(&|x, y, m, res| pm::$f(x, y, m, res));
                chk!(stringify!($fps), want, { let mut res = vec![DIRTY; len]; pm::$fps(&a, &b, pc, n, &ms, &mut res); res });
                chk!(stringify!($fp), want, { let mut res = vec![DIRTY; len]; for p in 0..pc { let o = p * d; pm::$fp(&a[o..o + d], &b[o..o + d], n, &ms, &mut res[o..o + d]); } res });
                chk!(stringify!($fi), want, { let mut x = a.clone(); for p in 0..pc { for c in 0..k { let o = p * d + c * n; pm::$fi(&mut x[o..o + n], &b[o..o + n], &ms[c]); } } x });
                chk!(stringify!($fip), want, { let mut x = a.clone(); for p in 0..pc { let o = p * d; pm::$fip(&mut x[o..o + d], &b[o..o + d], n, &ms); } x });
                chk!(stringify!($fips), want, { let mut x = a.clone(); pm::$fips(&mut x, &b, pc, n, &ms); x });
            }} }
            binary!(add, add_p, add_ps, add_inplace, add_inplace_p, add_inplace_ps);
            binary!(sub, sub_p, sub_ps, sub_inplace, sub_inplace_p, sub_inplace_ps);
            binary!(dyadic_product, dyadic_product_p, dyadic_product_ps, dyadic_product_inplace, dyadic_product_inplace_p, dyadic_product_inplace_ps);
            // unary
            macro_rules! unary { ($f:ident, $fp:ident, $fps:ident) => {{
                let want = blockwise(&|x, _y, m, res| pm::$f(x, m, res));
                chk!(stringify!($fps), want, { let mut res = vec![DIRTY; len]; pm::$fps(&a, pc, n, &ms, &mut res); res });
                chk!(stringify!($fp), want, { let mut res = vec![DIRTY; len]; for p in 0..pc { let o = p * d; pm::$fp(&a[o..o + d], n, &ms, &mut res[o..o + d]); } res });
            }} }
            unary!(negate, negate_p, negate_ps);
            unary!(modulo, modulo_p, modulo_ps);
            { let want = blockwise(&|x, _y, m, res| pm::negate(x, m, res));
              chk!("negate_inplace_ps", want, { let mut x = a.clone(); pm::negate_inplace_ps(&mut x, pc, n, &ms); x });
              chk!("negate_inplace_p", want, { let mut x = a.clone(); for p in 0..pc { let o = p * d; pm::negate_inplace_p(&mut x[o..o + d], n, &ms); } x }); }
            // scalar
            macro_rules! scal { ($f:ident, $fp:ident, $fps:ident, $fip:ident, $fips:ident) => {{
                let want = blockwise(&|x, _y, m, res| pm::$f(x, scalar, m, res));
                chk!(stringify!($fps), want, { let mut res = vec![DIRTY; len]; pm::$fps(&a, scalar, pc, n, &ms, &mut res); res });
                chk!(stringify!($fp), want, { let mut res = vec![DIRTY; len]; for p in 0..pc { let o = p * d; pm::$fp(&a[o..o + d], scalar, n, &ms, &mut res[o..o + d]); } res });
                chk!(stringify!($fips), want, { let mut x = a.clone(); pm::$fips(&mut x, scalar, pc, n, &ms); x });
                chk!(stringify!($fip), want, { let mut x = a.clone(); for p in 0..pc { let o = p * d; pm::$fip(&mut x[o..o + d], scalar, n, &ms); } x });
            }} }
            scal!(add_scalar, add_scalar_p, add_scalar_ps, add_scalar_inplace_p, add_scalar_inplace_ps);
            scal!(sub_scalar, sub_scalar_p, sub_scalar_ps, sub_scalar_inplace_p, sub_scalar_inplace_ps);
            scal!(multiply_scalar, multiply_scalar_p, multiply_scalar_ps, multiply_scalar_inplace_p, multiply_scalar_inplace_ps);
            { let sh = r.below(2 * n as u64) as usize;
              let want = blockwise(&|x, _y, m, res| pm::negacyclic_shift(x, sh, m, res));
              chk!("negacyclic_shift_ps", want, { let mut res = vec![DIRTY; len]; pm::negacyclic_shift_ps(&a, sh, pc, n, &ms, &mut res); res });
              chk!("negacyclic_shift_p", want, { let mut res = vec![DIRTY; len]; for p in 0..pc { let o = p * d; pm::negacyclic_shift_p(&a[o..o + d], sh, n, &ms, &mut res[o..o + d]); } res }); }
        } else {
            let tables = match hu::NTTTables::create_ntt_tables(lg, &ms) { Ok(t) => t, Err(_) => continue };
            macro_rules! tr { ($f:ident, $fp:ident, $fps:ident, $lim:expr) => {{
                let src: Vec<u64> = (0..len).map(|i| { let q = qs[(i / n) % k]; r.below($lim * q) }).collect();
                let want = { let mut x = src.clone(); for p in 0..pc { for c in 0..k { let o = p * d + c * n; pm::$f(&mut x[o..o + n], &tables[c]); } } x };
                chk!(stringify!($fps), want, { let mut x = src.clone(); pm::$fps(&mut x, pc, n, &tables); x });
                chk!(stringify!($fp), want, { let mut x = src.clone(); for p in 0..pc { let o = p * d; pm::$fp(&mut x[o..o + d], n, &tables); } x });
            }} }
            tr!(ntt, ntt_p, ntt_ps, 1); tr!(ntt_lazy, ntt_lazy_p, ntt_lazy_ps, 4); tr!(intt, intt_p, intt_ps, 1); tr!(intt_lazy, intt_lazy_p, intt_lazy_ps, 2);
        }
        if bad.is_empty() { out.raw(&format!("!OK poly_wrappers {} {} # {}", if ntt_family { "ntt" } else { "arith" }, fl(&qs), cls)); }
        else { out.raw(&format!("!FAIL poly_wrappers {} n={} k={} polys={} {} :: {} # {}", if ntt_family { "ntt" } else { "arith" }, n, k, pc, fl(&qs), bad.join("; "), cls)); }
    }
}

/// The precomputed-operand and monomial families: `multiply_operand{,_inplace}_{p,ps}` against the kernel `multiply_operand` and
/// `negacyclic_multiply_mononomial{,s}{,_inplace}_{p,ps}` against the kernel `negacyclic_multiply_mononomial` (itself compared with the Lean
/// model and the definition "times c X^k modulo (X^N + 1, q)" by the `negacyclic_monomial` lines of C09), block by block, DIRTY destinations.
/// The `mononomials` forms take one coefficient PER MODULUS; the single-operand forms hand the same `MultiplyU64ModOperand` to every component
/// (as the library's callers do for values below every modulus), so the reference does the same.
pub fn run_mono(out: &mut Out, r: &mut Rng, reps: usize) {
    for rep in 0..reps {
        let lg = r.range(1, 4) as usize; let n = 1usize << lg;
        let k = 1 + rep % 3; let pc = 1 + (rep / 3) % 4;
        let bitsv: Vec<usize> = (0..k).map(|_| *r.pick(&[20usize, 30, 45, 59, 60])).collect();
        let qs = crate::c10::ntt_primes(r, n, &bitsv);
        if qs.len() != k { continue; }
        let ms: Vec<Modulus> = qs.iter().map(|&q| Modulus::new(q)).collect();
        let d = n * k; let len = d * pc;
        let a: Vec<u64> = (0..len).map(|i| { let q = qs[(i / n) % k]; match r.below(6) { 0 => 0, 1 => q - 1, _ => r.below(q) } }).collect();
        let qmin = *qs.iter().min().unwrap();
        let scalar = match r.below(4) { 0 => 1, 1 => qmin - 1, _ => r.below(qmin) };
        let coeffs: Vec<u64> = qs.iter().map(|&q| match r.below(4) { 0 => 1, 1 => q - 1, _ => r.below(q) }).collect();
        let sh = match r.below(4) { 0 => 0, 1 => n, 2 => 2 * n - 1, _ => r.below(2 * n as u64) as usize };
        let cls = format!("wrap-mono-n{}k{}p{}", n, k, pc);
        let mut bad: Vec<String> = vec![];
        let blockwise = |f: &dyn Fn(&[u64], usize, &Modulus, &mut [u64])| -> Vec<u64> {
            let mut res = vec![DIRTY; len];
            for p in 0..pc { for c in 0..k { let o = p * d + c * n; f(&a[o..o + n], c, &ms[c], &mut res[o..o + n]); } }
            res };
        macro_rules! chk { ($name:expr, $want:expr, $got:expr) => {{
            let g = std::panic::catch_unwind(std::panic::AssertUnwindSafe(|| $got));
            match g { Ok(g) => if g != $want { bad.push(format!("{} differs from the kernel applied block by block", $name)); }, Err(_) => bad.push(format!("{} panicked on well-shaped operands", $name)) } }} }
        // precomputed operand (built for the first modulus; with one modulus the result is the exact product, checked against u128 arithmetic too)
        let op = hu::MultiplyU64ModOperand::new(scalar, &ms[0]);
        { let want = blockwise(&|x, _c, m, res| pm::multiply_operand(x, &op, m, res));
          if k == 1 { let exact: Vec<u64> = a.iter().map(|&x| ((x as u128 * scalar as u128) % qs[0] as u128) as u64).collect();
              if want != exact { bad.push("multiply_operand is not the product modulo q".to_string()); } }
          chk!("multiply_operand_ps", want, { let mut res = vec![DIRTY; len]; pm::multiply_operand_ps(&a, &op, pc, n, &ms, &mut res); res });
          chk!("multiply_operand_p", want, { let mut res = vec![DIRTY; len]; for p in 0..pc { let o = p * d; pm::multiply_operand_p(&a[o..o + d], &op, n, &ms, &mut res[o..o + d]); } res });
          chk!("multiply_operand_inplace", want, { let mut x = a.clone(); for p in 0..pc { for c in 0..k { let o = p * d + c * n; pm::multiply_operand_inplace(&mut x[o..o + n], &op, &ms[c]); } } x });
          chk!("multiply_operand_inplace_p", want, { let mut x = a.clone(); for p in 0..pc { let o = p * d; pm::multiply_operand_inplace_p(&mut x[o..o + d], &op, n, &ms); } x });
          chk!("multiply_operand_inplace_ps", want, { let mut x = a.clone(); pm::multiply_operand_inplace_ps(&mut x, &op, pc, n, &ms); x }); }
        // one monomial coefficient for all components
        { let want = blockwise(&|x, _c, m, res| pm::negacyclic_multiply_mononomial(x, scalar, sh, m, res));
          chk!("negacyclic_multiply_mononomial_ps", want, { let mut res = vec![DIRTY; len]; pm::negacyclic_multiply_mononomial_ps(&a, scalar, sh, pc, n, &ms, &mut res); res });
          chk!("negacyclic_multiply_mononomial_p", want, { let mut res = vec![DIRTY; len]; for p in 0..pc { let o = p * d; pm::negacyclic_multiply_mononomial_p(&a[o..o + d], scalar, sh, n, &ms, &mut res[o..o + d]); } res });
          chk!("negacyclic_multiply_mononomial_inplace", want, { let mut x = a.clone(); for p in 0..pc { for c in 0..k { let o = p * d + c * n; pm::negacyclic_multiply_mononomial_inplace(&mut x[o..o + n], scalar, sh, &ms[c]); } } x });
          chk!("negacyclic_multiply_mononomial_inplace_p", want, { let mut x = a.clone(); for p in 0..pc { let o = p * d; pm::negacyclic_multiply_mononomial_inplace_p(&mut x[o..o + d], scalar, sh, n, &ms); } x });
          chk!("negacyclic_multiply_mononomial_inplace_ps", want, { let mut x = a.clone(); pm::negacyclic_multiply_mononomial_inplace_ps(&mut x, scalar, sh, pc, n, &ms); x }); }
        // one coefficient per modulus
        { let want = blockwise(&|x, c, m, res| pm::negacyclic_multiply_mononomial(x, coeffs[c], sh, m, res));
          chk!("negacyclic_multiply_mononomials_ps", want, { let mut res = vec![DIRTY; len]; pm::negacyclic_multiply_mononomials_ps(&a, &coeffs, sh, pc, n, &ms, &mut res); res });
          chk!("negacyclic_multiply_mononomials_p", want, { let mut res = vec![DIRTY; len]; for p in 0..pc { let o = p * d; pm::negacyclic_multiply_mononomials_p(&a[o..o + d], &coeffs, sh, n, &ms, &mut res[o..o + d]); } res });
          chk!("negacyclic_multiply_mononomials_inplace_p", want, { let mut x = a.clone(); for p in 0..pc { let o = p * d; pm::negacyclic_multiply_mononomials_inplace_p(&mut x[o..o + d], &coeffs, sh, n, &ms); } x });
          chk!("negacyclic_multiply_mononomials_inplace_ps", want, { let mut x = a.clone(); pm::negacyclic_multiply_mononomials_inplace_ps(&mut x, &coeffs, sh, pc, n, &ms); x }); }
        if bad.is_empty() { out.raw(&format!("!OK poly_wrappers mono {} {} {} {} # {}", fl(&qs), scalar, fl(&coeffs), sh, cls)); }
        else { out.raw(&format!("!FAIL poly_wrappers mono n={} k={} polys={} {} scalar={} coeffs={} shift={} :: {} # {}", n, k, pc, fl(&qs), scalar, fl(&coeffs), sh, bad.join("; "), cls)); }
    }
}
