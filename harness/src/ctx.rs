//! Shared set-up for ciphertext-level properties: contexts built by hand (SecurityLevel::None, small N),
//! key material, and the canonical text dump of levels / ciphertexts / secret keys used on case lines.
use std::sync::Arc;
use heathcliff::*;
use heathcliff::util as hu;
use crate::util::*;
use crate::rng::Rng;

pub struct Setup {
    pub scheme: SchemeType,
    pub n: usize,
    pub t: u64,
    pub ctx: Arc<HeContext>,
    pub keygen: KeyGenerator,
    pub encryptor: Encryptor,
    pub decryptor: Decryptor,
    pub evaluator: Evaluator,
    pub sk: Vec<i64>,
}

pub fn scheme_name(s: SchemeType) -> &'static str { match s { SchemeType::BFV => "bfv", SchemeType::BGV => "bgv", SchemeType::CKKS => "ckks", _ => "none" } }

pub fn make(scheme: SchemeType, n: usize, qs: &[u64], t: u64, expand: bool, special_prime: Option<bool>) -> Option<Setup> {
    let ms: Vec<Modulus> = qs.iter().map(|&q| Modulus::new(q)).collect();
    let mut parms = EncryptionParameters::new(scheme).set_poly_modulus_degree(n).set_coeff_modulus(&ms);
    if scheme != SchemeType::CKKS { parms = parms.set_plain_modulus(&Modulus::new(t)); }
    if let Some(sp) = special_prime { parms = parms.set_use_special_prime_for_encryption(sp); }
    let ctx = HeContext::new(parms, expand, SecurityLevel::None);
    if !ctx.parameters_set() { return None; }
    // key generation on parameters the context ACCEPTED must not fail: a panic here is reported as a failing case of whatever property is running
    let made = std::panic::catch_unwind(std::panic::AssertUnwindSafe(|| { let keygen = KeyGenerator::new(ctx.clone()); let pk = keygen.create_public_key(false); (keygen, pk) }));
    let (keygen, pk) = match made { Ok(x) => x, Err(_) => {
        let m = crate::util::LAST_PANIC.with(|p| p.borrow().clone());
        println!("!FAIL setup_keygen {} {} {} {} :: key generation on accepted parameters panicked: {} # setup-panic", scheme_name(scheme), n, fl(qs), t, m.replace('\n', " "));
        return None; } };
    let encryptor = Encryptor::new(ctx.clone()).set_public_key(pk).set_secret_key(keygen.secret_key().clone());
    let decryptor = Decryptor::new(ctx.clone(), keygen.secret_key().clone());
    let evaluator = Evaluator::new(ctx.clone());
    // secret key: NTT form at key level; coefficient form of component 0, centred
    let kd = ctx.key_context_data().unwrap();
    let q0 = kd.parms().coeff_modulus()[0].value();
    let mut s0 = keygen.secret_key().data()[..n].to_vec();
    kd.small_ntt_tables()[0].inverse_ntt_negacyclic_harvey(&mut s0);
    let sk: Vec<i64> = s0.iter().map(|&x| if x > q0 / 2 { x as i64 - q0 as i64 } else { x as i64 }).collect();
    Some(Setup { scheme, n, t: if scheme == SchemeType::CKKS { 0 } else { t }, ctx, keygen, encryptor, decryptor, evaluator, sk })
}

impl Setup {
    pub fn level_qs(&self, pid: &ParmsID) -> Vec<u64> {
        self.ctx.get_context_data(pid).unwrap().parms().coeff_modulus().iter().map(|m| m.value()).collect()
    }
    /// all data levels, first to last
    pub fn levels(&self) -> Vec<ParmsID> {
        let mut v = vec![]; let mut cur = self.ctx.first_context_data();
        while let Some(c) = cur { v.push(*c.parms_id()); cur = c.next_context_data(); }
        v
    }
    pub fn head(&self, pid: &ParmsID) -> String { format!("{} {} {} {}", scheme_name(self.scheme), self.n, fl(&self.level_qs(pid)), self.t) }
    pub fn sk_str(&self) -> String { fli(&self.sk) }
    /// `ntt cf polys` of a ciphertext (polys `|`-separated, components `;`-separated)
    pub fn ct_str(&self, ct: &Ciphertext) -> String {
        let k = ct.coeff_modulus_size(); let n = self.n;
        let polys: Vec<String> = (0..ct.size()).map(|i| { let p = ct.poly(i); (0..k).map(|c| fl(&p[c * n..(c + 1) * n])).collect::<Vec<_>>().join(";") }).collect();
        format!("{} {} {}", ct.is_ntt_form() as u8, ct.correction_factor(), if polys.is_empty() { "-".to_string() } else { polys.join("|") })
    }
    /// full case prefix for a ciphertext: `scheme n qs t sk ntt cf polys`
    pub fn ct_case(&self, ct: &Ciphertext) -> String { format!("{} {} {}", self.head(ct.parms_id()), self.sk_str(), self.ct_str(ct)) }
    /// decrypted plaintext as printed on case lines: BFV/BGV trimmed coefficient list; CKKS the RNS plaintext (NTT form)
    pub fn dec_str(&self, ct: &Ciphertext) -> String {
        let p = self.decryptor.decrypt_new(ct);
        if self.scheme == SchemeType::CKKS {
            let k = p.data().len() / self.n;
            (0..k).map(|c| fl(&p.data()[c * self.n..(c + 1) * self.n])).collect::<Vec<_>>().join(";")
        } else { fl(&p.data()[..p.coeff_count()]) }
    }
}

/// key-switching key dump for `ks_op` lines: polynomials j-major (two per decomposition index), all key-level components
pub fn kskey_str(s: &Setup, keys: &Vec<PublicKey>) -> String {
    let n = s.n;
    keys.iter().flat_map(|pk| { let c = pk.as_ciphertext(); let k = c.coeff_modulus_size();
        (0..c.size()).map(move |i| { let p = c.poly(i); (0..k).map(|cc| fl(&p[cc * n..(cc + 1) * n])).collect::<Vec<_>>().join(";") }).collect::<Vec<_>>() }).collect::<Vec<_>>().join("|")
}
pub fn key_qs(s: &Setup) -> Vec<u64> { s.level_qs(s.ctx.key_parms_id()) }

/// parameter families: NTT-friendly primes of the given bit sizes (key level = all of them)
pub fn pick_primes(r: &mut Rng, n: usize, bits: &[usize]) -> Option<Vec<u64>> {
    let v = crate::c10::ntt_primes(r, n, bits);
    if v.len() == bits.len() { Some(v) } else { None }
}

/// plain modulus kinds: 0 batching prime, 1 power of two, 2 small odd (3), 3 larger than some coefficient prime
pub fn pick_plain(r: &mut Rng, n: usize, kind: u64, qs: &[u64]) -> u64 {
    let lg = (n.trailing_zeros() + 1) as usize;
    match kind {
        0 => { let b = (lg + 2).max(r.range(5, 22) as usize); std::panic::catch_unwind(|| hu::get_primes(2 * n as u64, b, 1)[0].value()).unwrap_or(3) }
        1 => 1u64 << r.range(1, 20),
        2 => 3,
        // several bits wider than the FIRST coefficient prime: q mod t then exceeds q_0 for almost every chain (constants derived from
        // q mod t / the upper-half increment must be the full values, not their residues mod q_0)
        4 => { let mut t = ((qs[0] << r.range(2, 9)) + 1 + 2 * r.below(1 << 12)).min((1u64 << 59) + 1); while qs.iter().any(|&q| gcd(q, t) != 1) { t += 2; } t }
        _ => { let m = *qs.iter().min().unwrap(); let mut t = m + 2 + 2 * r.below(50); while qs.iter().any(|&q| gcd(q, t) != 1) { t += 1; } t }
    }
}
/// an NTT-friendly prime of about `bits` bits that is 1 modulo the plain modulus (the shape `create_with_plain_modulus` produces): dropping it
/// leaves a BGV correction factor unchanged (q^-1 mod t = 1), the guarded fast paths of the switching routines are taken
pub fn prime_one_mod(n: usize, t: u64, bits: usize, avoid: &[u64]) -> Option<u64> {
    let f = (2 * n as u64).checked_mul(t)?;
    if (64 - f.leading_zeros() as usize) + 2 > bits { return None; }
    let ps = std::panic::catch_unwind(|| hu::get_primes(f, bits, 8)).ok()?;
    ps.iter().map(|m| m.value()).find(|p| !avoid.contains(p))
}
pub fn gcd(a: u64, b: u64) -> u64 { if b == 0 { a } else { gcd(b, a % b) } }
