//! C16: seeded generator (BlakeRNG), samplers, and where encryption / key generation obtain generators;
//! real code vs model/spec.  The BLAKE3 blocks the model needs are recomputed here with the `blake3`
//! crate (independently of `BlakeRNG::refill_buffer`) and shipped on the case line.
use crate::rng::Rng;
use crate::util::*;
use heathcliff::util::rlwe::sample;
use heathcliff::util::{BlakeRNG, PRNGSeed};
use heathcliff::verif::rng_hooks as hk;
use heathcliff::{Ciphertext, CoeffModulus, EncryptionParameters, Encryptor, ExpandSeed, HeContext, KeyGenerator, Modulus, Plaintext,
                 PlainModulus, SchemeType, SecurityLevel};
use rand::{RngCore, SeedableRng};
use std::collections::HashSet;
use std::sync::Arc;

const BS: usize = 4096;
type Seed = [u8; 64];

fn hex(b: &[u8]) -> String { if b.is_empty() { "-".into() } else { b.iter().map(|x| format!("{:02x}", x)).collect() } }
fn unhex(s: &str) -> Vec<u8> {
    if s == "-" { return vec![]; }
    (0..s.len() / 2).map(|i| u8::from_str_radix(&s[2 * i..2 * i + 2], 16).unwrap_or(0)).collect()
}

/// independent recomputation of one buffer: BLAKE3 (unkeyed) of seed ++ counter (8 bytes LE), XOF output 4096 bytes
fn block(seed: &Seed, counter: u64) -> Vec<u8> {
    let mut h = blake3::Hasher::new();
    h.update(seed);
    h.update(&counter.to_le_bytes());
    let mut b = vec![0u8; BS];
    h.finalize_xof().fill(&mut b);
    b
}
fn stream(seed: &Seed, n: usize) -> Vec<u8> {
    let mut v = Vec::with_capacity(n + BS);
    let mut c = 0u64;
    while v.len() < n { v.extend_from_slice(&block(seed, c)); c += 1; }
    v.truncate(n); v
}
/// `seedhex:blk;blk/seedhex:blk…` — blocks 0..count of each seed
fn xofdata(entries: &[(Seed, usize)]) -> String {
    entries.iter().map(|(s, bytes)| {
        let nb = bytes / BS + 2;
        format!("{}:{}", hex(s), (0..nb).map(|c| hex(&block(s, c as u64))).collect::<Vec<_>>().join(";"))
    }).collect::<Vec<_>>().join("/")
}

fn seed_from(r: &mut Rng) -> Seed {
    let mut s = [0u8; 64];
    match r.below(12) {
        0 => {}
        1 => s = [0xff; 64],
        2 => s = [1; 64],
        3 => { s[r.below(64) as usize] = 1 << r.below(8); }
        _ => { for i in 0..8 { s[8 * i..8 * i + 8].copy_from_slice(&r.next().to_le_bytes()); } }
    }
    s
}
fn rand_seed(r: &mut Rng) -> Seed {
    let mut s = [0u8; 64];
    for i in 0..8 { s[8 * i..8 * i + 8].copy_from_slice(&r.next().to_le_bytes()); }
    s
}

// ------------------------------------------------------------------------------------------------ generator ops

#[derive(Clone, Debug)]
enum Op { F(usize), U32, U64 }

fn ops_str(ops: &[Op]) -> String {
    if ops.is_empty() { return "-".into(); }
    ops.iter().map(|o| match o { Op::F(n) => format!("f{}", n), Op::U32 => "u32".into(), Op::U64 => "u64".into() }).collect::<Vec<_>>().join(",")
}
fn parse_ops(s: &str) -> Vec<Op> {
    if s == "-" { return vec![]; }
    s.split(',').map(|t| if t == "u32" { Op::U32 } else if t == "u64" { Op::U64 } else { Op::F(t[1..].parse().unwrap_or(0)) }).collect()
}
fn ops_upper(ops: &[Op]) -> usize { ops.iter().map(|o| match o { Op::F(n) => *n, Op::U32 => 7, Op::U64 => 15 }).sum::<usize>() + 32 }

fn apply(g: &mut BlakeRNG, o: &Op) -> String {
    match o {
        Op::F(n) => { let mut b = vec![0u8; *n]; g.fill_bytes(&mut b); format!("x{}", hex(&b)) }
        Op::U32 => g.next_u32().to_string(),
        Op::U64 => g.next_u64().to_string(),
    }
}
/// outputs of the ops, then 16 probe bytes (observes the final state)
fn run_ops(seed: &Seed, ops: &[Op]) -> String {
    let mut g = BlakeRNG::from_seed(PRNGSeed(*seed));
    let mut v: Vec<String> = ops.iter().map(|o| apply(&mut g, o)).collect();
    v.push(apply(&mut g, &Op::F(16)));
    v.join(",")
}

fn gen_ops(r: &mut Rng, style: u64) -> (Vec<Op>, &'static str) {
    let mut ops = vec![];
    let small = |r: &mut Rng| -> usize { *r.pick(&[0usize, 1, 1, 2, 3, 3, 5, 6, 6, 7, 8, 9, 11, 13, 16, 17, 31, 33, 64]) };
    match style {
        0 => { // chunkings straddling the refill with unaligned sizes
            let a = r.below(24) as usize;
            ops.push(Op::F(BS - a.min(BS)));
            for _ in 0..r.range(2, 8) { ops.push(Op::F(small(r))); }
            let b = r.below(16) as usize;
            ops.push(Op::F(BS - b));
            for _ in 0..r.range(1, 5) { ops.push(Op::F(small(r))); }
            (ops, "chunks-straddle-refill")
        }
        1 => { // whole-buffer sizes and their neighbours, with empty reads at the boundary
            for _ in 0..r.range(1, 3) {
                ops.push(Op::F(*r.pick(&[BS - 1, BS, BS + 1, 2 * BS - 1, 2 * BS, 2 * BS + 1, 3 * BS + 5])));
                if r.chance(1, 2) { ops.push(Op::F(0)); }
                if r.chance(1, 2) { ops.push(Op::F(small(r))); }
            }
            (ops, "chunks-buffer-multiples")
        }
        2 => { // words right at the end of the buffer: alignment skip + refill
            let a = r.below(13) as usize;
            ops.push(Op::F(BS - a));
            for _ in 0..r.range(1, 6) {
                ops.push(match r.below(3) { 0 => Op::U32, 1 => Op::U64, _ => Op::F(small(r)) });
            }
            (ops, "words-at-buffer-end")
        }
        3 => { // interleaved unaligned reads
            for _ in 0..r.range(4, 40) {
                ops.push(match r.below(4) { 0 => Op::U32, 1 => Op::U64, _ => Op::F(small(r)) });
            }
            (ops, "interleaved-unaligned")
        }
        4 => { // enough words to cross a refill
            let (o, k) = if r.chance(1, 2) { (Op::U32, 1030) } else { (Op::U64, 520) };
            if r.chance(1, 2) { ops.push(Op::F(r.range(1, 7) as usize)); }
            for _ in 0..k { ops.push(o.clone()); }
            (ops, "words-cross-refill")
        }
        5 => { // random walk over several refills
            let mut total = 0usize;
            while total < 3 * BS {
                let o = match r.below(6) { 0 => Op::U32, 1 => Op::U64, 2 => Op::F(r.range(1000, 3000) as usize), _ => Op::F(small(r) * 7) };
                if let Op::F(n) = &o { total += n; } else { total += 8; }
                ops.push(o);
            }
            (ops, "walk-several-refills")
        }
        _ => { ops.push(Op::F(small(r))); (ops, "trivial-short") }
    }
}

// ------------------------------------------------------------------------------------------------ samplers

fn gen_moduli(r: &mut Rng, count: usize) -> Vec<u64> {
    (0..count).map(|_| match r.below(12) {
        0 => *r.pick(&[22u64, 23, 24, 31, 32, 33, 255, 256, 257]),
        1 => (1u64 << 61) - 1,
        2 => 1u64 << r.range(5, 60),
        3 => (1u64 << 60) + 1 + 2 * r.below(1000),             // 2^64 mod q close to q: frequent rejections
        4 => (1u64 << 59) + (1u64 << 58) + 1 + r.below(1 << 20),
        5 => 0x1fffffffffe00001,
        6 => (1u64 << 61) - 1 - r.below(1 << 30),
        _ => { let b = r.range(6, 61) as u32; r.bits(b) }
    }).collect()
}
fn parms_for(n: usize, moduli: &[u64]) -> EncryptionParameters {
    let ms: Vec<Modulus> = moduli.iter().map(|&q| Modulus::new(q)).collect();
    EncryptionParameters::new(SchemeType::CKKS).set_poly_modulus_degree(n).set_coeff_modulus(&ms)
}
fn comps(data: &[u64], n: usize, k: usize) -> String {
    fl2(&(0..k).map(|j| data[j * n..(j + 1) * n].to_vec()).collect::<Vec<_>>())
}
fn run_sampler(kind: &str, seed: &Seed, pre: usize, n: usize, moduli: &[u64]) -> String {
    let parms = parms_for(n, moduli);
    let mut g = BlakeRNG::from_seed(PRNGSeed(*seed));
    let mut skip = vec![0u8; pre]; g.fill_bytes(&mut skip);
    let mut dest = vec![0u64; n * moduli.len()];
    match kind {
        "sample_ternary" => sample::ternary(&mut g, &parms, &mut dest),
        "sample_cbd" => sample::centered_binomial(&mut g, &parms, &mut dest),
        _ => sample::uniform(&mut g, &parms, &mut dest),
    }
    let mut probe = [0u8; 8]; g.fill_bytes(&mut probe);
    format!("{}~{}", comps(&dest, n, moduli.len()), hex(&probe))
}
fn sampler_bytes(kind: &str, n: usize, k: usize) -> usize {
    match kind { "sample_ternary" => 4 * n + 64, "sample_cbd" => 6 * n + 64, _ => 8 * n * k * 13 / 10 + 256 }
}

// ------------------------------------------------------------------------------------------------ contexts / histories

struct Cx { ctx: Arc<HeContext>, scheme: SchemeType, n: usize }

fn make_ctx(scheme: SchemeType, n: usize, bits: Vec<usize>) -> Option<Cx> {
    let r = std::panic::catch_unwind(|| {
        let cm = CoeffModulus::create(n, bits);
        let mut p = EncryptionParameters::new(scheme).set_poly_modulus_degree(n).set_coeff_modulus(&cm);
        if scheme != SchemeType::CKKS { p = p.set_plain_modulus(&PlainModulus::batching(n, 13)); }
        HeContext::new(p, true, SecurityLevel::None)
    });
    match r { Ok(ctx) if ctx.parameters_set() => Some(Cx { ctx, scheme, n }), _ => None }
}

fn with_hooks<T>(seeds: &[Seed], f: impl FnOnce() -> T) -> (T, Vec<hk::Rec>, usize) {
    hk::set_entropy_override(seeds.to_vec());
    hk::arm_tape();
    let r = f();
    let tape = hk::take_tape();
    let left = hk::clear_entropy_override();
    (r, tape, seeds.len() - left)
}

struct Sample { kind: &'static str, n: usize, moduli: Vec<u64>, data: Vec<u64> }
fn split_tape(tape: Vec<hk::Rec>) -> (Vec<(Seed, bool)>, Vec<Sample>) {
    let mut gens = vec![]; let mut samples = vec![];
    for r in tape {
        match r {
            hk::Rec::Generator { seed, overridden } => gens.push((seed, overridden)),
            hk::Rec::Sample { kind, degree, moduli, data } => samples.push(Sample { kind, n: degree, moduli, data }),
        }
    }
    (gens, samples)
}

/// well-formedness of one recorded sample (the property's clause on sampled polynomials); None = fine
fn sample_defect(s: &Sample) -> Option<String> {
    let (n, k) = (s.n, s.moduli.len());
    if s.data.len() != n * k { return Some(format!("length {} != {}*{}", s.data.len(), n, k)); }
    for i in 0..n {
        match s.kind {
            "uniform" => for j in 0..k { if s.data[j * n + i] >= s.moduli[j] { return Some(format!("uniform coeff {} comp {} = {} >= q", i, j, s.data[j * n + i])); } },
            kind => {
                let bound: i64 = if kind == "ternary" { 1 } else { 21 };
                let q0 = s.moduli[0]; let x0 = s.data[i];
                let v: i64 = if x0 <= bound as u64 { x0 as i64 } else if x0 < q0 && q0 - x0 <= bound as u64 { -((q0 - x0) as i64) } else {
                    return Some(format!("{} coeff {} comp 0 = {} is not a value of magnitude <= {}", kind, i, x0, bound)); };
                for j in 0..k {
                    let want = if v >= 0 { v as u64 } else { s.moduli[j] - (-v) as u64 };
                    if s.data[j * n + i] != want { return Some(format!("{} coeff {}: comp 0 carries {} but comp {} holds {}", kind, i, v, j, s.data[j * n + i])); }
                }
            }
        }
    }
    None
}

fn stored_seed(ct: &Ciphertext) -> Option<Seed> {
    if !ct.contains_seed() { return None; }
    let w = &ct.poly(1)[1..9];
    let mut s = [0u8; 64];
    for i in 0..8 { s[8 * i..8 * i + 8].copy_from_slice(&w[i].to_le_bytes()); }
    Some(s)
}

/// what the history verdicts accumulate
#[derive(Default)]
struct Hist { factory_seeds: Vec<Seed>, stored_seeds: Vec<Seed>, masks: Vec<Vec<u64>>, secrets: Vec<Vec<u64>>, ops: usize, samples: usize, defects: Vec<String> }

/// emit the model line of one symmetric group (two factory generators or an explicit c1 generator)
fn emit_sym(out: &mut Out, cls: &str, ent: &[Seed], explicit: Option<(Seed, usize)>, pubseed: Option<Seed>, used: usize,
            uni: &Sample, cbd: &Sample, probe: Option<Vec<u8>>) {
    let (n, k) = (uni.n, uni.moduli.len());
    let c1seed = explicit.map(|e| e.0).unwrap_or(ent[0]);
    let pre = explicit.map(|e| e.1).unwrap_or(0);
    let ps: Seed = { let s = stream(&c1seed, pre + 64); let mut a = [0u8; 64]; a.copy_from_slice(&s[pre..pre + 64]); a };
    let noise_seed = if explicit.is_some() { ent[0] } else { ent[1] };
    let xd = xofdata(&[(c1seed, pre + 64 + 16), (ps, sampler_bytes("sample_uniform", n, k)), (noise_seed, 6 * n + 64)]);
    let op = match explicit { None => "S".to_string(), Some((g, p)) => format!("Sw:{}:{}", hex(&g), p) };
    let lhs = format!("hop {} {} {} 2 {} {}", xd, n, fl(&uni.moduli), ent.iter().map(|s| hex(s)).collect::<Vec<_>>().join(","), op);
    let res = format!("{}~{}~{}~{}~{}", used, pubseed.map(|s| hex(&s)).unwrap_or("-".into()), comps(&uni.data, n, k), comps(&cbd.data, n, k),
                      probe.map(|p| hex(&p)).unwrap_or("-".into()));
    out.case(&lhs, cls, || res);
}

fn emit_asym(out: &mut Out, cls: &str, ent: &[Seed], explicit: Option<(Seed, usize)>, used: usize, ter: &Sample, noises: &[&Sample], probe: Option<Vec<u8>>) {
    let (n, k) = (ter.n, ter.moduli.len());
    let useed = explicit.map(|e| e.0).unwrap_or(ent[0]);
    let pre = explicit.map(|e| e.1).unwrap_or(0);
    let noise_seed = if explicit.is_some() { ent[0] } else { ent[1] };
    let xd = xofdata(&[(useed, pre + 4 * n + 64), (noise_seed, 6 * n * noises.len() + 64)]);
    let op = match explicit { None => "A".to_string(), Some((g, p)) => format!("Aw:{}:{}", hex(&g), p) };
    let lhs = format!("hop {} {} {} {} {} {}", xd, n, fl(&ter.moduli), noises.len(), ent.iter().map(|s| hex(s)).collect::<Vec<_>>().join(","), op);
    let res = format!("{}~-~{}~{}~{}", used, comps(&ter.data, n, k), noises.iter().map(|s| comps(&s.data, n, k)).collect::<Vec<_>>().join("/"),
                      probe.map(|p| hex(&p)).unwrap_or("-".into()));
    out.case(&lhs, cls, || res);
}

fn verdict(out: &mut Out, ok: bool, what: &str, cls: &str, why: &str) {
    if ok { out.raw(&format!("!OK {} # {}", what, cls)); } else { out.raw(&format!("!FAIL {} :: {} # {}", what, why, cls)); }
}

fn explicit_gen(seed: &Seed, pre: usize) -> BlakeRNG {
    let mut g = BlakeRNG::from_seed(PRNGSeed(*seed));
    let mut skip = vec![0u8; pre]; g.fill_bytes(&mut skip);
    g
}
fn probe8(g: &mut BlakeRNG) -> Vec<u8> { let mut p = vec![0u8; 8]; g.fill_bytes(&mut p); p }

/// "operations handed the same explicit mask-generator state derive exactly the same mask" — and different states different masks — for EVERY
/// `*_with_u_prng` entry point of the encryptor: two calls with generators in the same state (same seed, same number of bytes consumed), one
/// with another state (four more bytes consumed) and one with another seed.  Symmetric forms: the mask is c1 (after expansion) — compared on the
/// API-visible object.  Public-key forms: the mask is the ternary u (recorded sample); API-visible for BFV at the first level, where
/// c1 - c1' = e1 - e1' has coefficients of magnitude <= 2 * 21.
fn same_state(out: &mut Out, r: &mut Rng, cx: &Cx, enc: &Encryptor, levels: &[heathcliff::ParmsID], plain: &Plaintext, cls: &str) {
    let ctx = &cx.ctx;
    let expand = |c: Ciphertext| if c.contains_seed() { c.expand_seed(ctx) } else { c };
    let names = ["encrypt_zero_symmetric_with_u_prng", "encrypt_zero_symmetric_new_with_u_prng", "encrypt_zero_symmetric_at_with_u_prng", "encrypt_zero_symmetric_new_at_with_u_prng",
        "encrypt_symmetric_with_u_prng", "encrypt_symmetric_new_with_u_prng", "encrypt_zero_with_u_prng", "encrypt_zero_new_with_u_prng", "encrypt_zero_at_with_u_prng",
        "encrypt_zero_new_at_with_u_prng", "encrypt_with_u_prng", "encrypt_new_with_u_prng",
        // the routines underneath, called directly (no level switching around them)
        "rlwe::encrypt_zero::symmetric_with_c1_prng", "rlwe::encrypt_zero::asymmetric_with_u_prng"];
    let ntt_native = cx.scheme != SchemeType::BFV;
    for (vi, name) in names.iter().enumerate() {
        if cx.scheme == SchemeType::CKKS && name.starts_with("encrypt_") && !name.starts_with("encrypt_zero") { continue; }
        let pid = levels[r.below(levels.len() as u64) as usize];
        let gseed = seed_from(r); let pre = *r.pick(&[0usize, 1, 5, 64, 4090, 4096]);
        let call = |g: &mut BlakeRNG| -> Ciphertext { let mut c = Ciphertext::new(); match vi {
            0 => enc.encrypt_zero_symmetric_with_u_prng(g, &mut c), 1 => return enc.encrypt_zero_symmetric_new_with_u_prng(g),
            2 => enc.encrypt_zero_symmetric_at_with_u_prng(&pid, g, &mut c), 3 => return enc.encrypt_zero_symmetric_new_at_with_u_prng(&pid, g),
            4 => enc.encrypt_symmetric_with_u_prng(plain, g, &mut c), 5 => return enc.encrypt_symmetric_new_with_u_prng(plain, g),
            6 => enc.encrypt_zero_with_u_prng(g, &mut c), 7 => return enc.encrypt_zero_new_with_u_prng(g),
            8 => enc.encrypt_zero_at_with_u_prng(&pid, g, &mut c), 9 => return enc.encrypt_zero_new_at_with_u_prng(&pid, g),
            10 => enc.encrypt_with_u_prng(plain, g, &mut c), 11 => return enc.encrypt_new_with_u_prng(plain, g),
            12 => heathcliff::util::rlwe::encrypt_zero::symmetric_with_c1_prng(enc.secret_key(), ctx, &pid, ntt_native, g, false, &mut c),
            _ => heathcliff::util::rlwe::encrypt_zero::asymmetric_with_u_prng(enc.public_key(), ctx, &pid, ntt_native, g, &mut c) } c };
        let mut run = |r: &mut Rng, seed: &Seed, pre: usize| -> (Ciphertext, Vec<Sample>) {
            let ent: Vec<Seed> = (0..4).map(|_| rand_seed(r)).collect();
            let mut g = explicit_gen(seed, pre);
            let (c, tape, _) = with_hooks(&ent, || call(&mut g));
            (expand(c), split_tape(tape).1) };
        let other_seed = { let mut o = rand_seed(r); if o == gseed { o[0] ^= 1; } o };
        // (another state = four more bytes consumed: the u32 draws of the ternary sampler first align the position to 4 bytes, so positions 5..8 are ONE state for it)
        let res = std::panic::catch_unwind(std::panic::AssertUnwindSafe(|| (run(r, &gseed, pre), run(r, &gseed, pre), run(r, &gseed, pre + 4), run(r, &other_seed, pre))));
        let ((a, sa), (b, sb), (c, sc), (d, sd)) = match res { Ok(x) => x, Err(_) => { let m = LAST_PANIC.with(|p| p.borrow().clone()); out.raw(&format!("!FAIL same_state_same_mask {} :: refused: {} # samestate-{}", name, m.replace('\n', " "), cls)); continue } };
        let id = format!("{} scheme={} n={} seed={} consumed={}", name, cx.scheme as u8, cx.n, hex(&gseed[..8]), pre);
        if vi < 6 || vi == 12 {
            // symmetric: c1 is the mask
            let same = a.poly(1) == b.poly(1) && a.parms_id() == b.parms_id();
            let diff = a.poly(1) != c.poly(1) && a.poly(1) != d.poly(1);
            // fresh error all the same: c0 differs between the two equal-state calls (the error generator is not the caller's)
            let fresh_err = a.poly(0) != b.poly(0) || cx.n < 16;
            verdict(out, same, &format!("same_state_same_mask {}", id), &format!("samestate-{}", cls), "two calls handed generators in the same state produced different c1");
            verdict(out, diff, &format!("different_state_different_mask {}", id), &format!("samestate-{}", cls), "a generator in another state (one more byte consumed / another seed) produced the same c1");
            verdict(out, fresh_err, &format!("same_state_fresh_error {}", id), &format!("samestate-{}", cls), "two calls share c0: the error was not drawn afresh");
        } else {
            let u = |s: &Vec<Sample>| s.iter().find(|x| x.kind == "ternary").map(|x| x.data.clone());
            let (ua, ub, uc, ud) = (u(&sa), u(&sb), u(&sc), u(&sd));
            verdict(out, ua.is_some() && ua == ub, &format!("same_state_same_mask {}", id), &format!("samestate-{}", cls), "two calls handed generators in the same state drew different ternary masks u");
            // (3^N masks: coincidences by chance below N = 32 are not counted, as in the history verdicts)
            if cx.n >= 32 { verdict(out, ua != uc && ua != ud, &format!("different_state_different_mask {}", id), &format!("samestate-{}", cls), "a generator in another state drew the same ternary mask u"); }
            if cx.scheme == SchemeType::BFV && a.parms_id() == &levels[0] && !a.is_ntt_form() && vi != 13 {
                let qs: Vec<u64> = ctx.first_context_data().unwrap().parms().coeff_modulus().iter().map(|m| m.value()).collect();
                let n = cx.n;
                let small = |x: &Ciphertext, y: &Ciphertext| (0..qs.len()).all(|j| (0..n).all(|i| { let q = qs[j]; let dlt = (x.poly(1)[j * n + i] + q - y.poly(1)[j * n + i]) % q; dlt <= 42 || q - dlt <= 42 }));
                verdict(out, small(&a, &b), &format!("same_state_c1_differs_by_errors_only {}", id), &format!("samestate-{}", cls), "c1 of two equal-state public-key encryptions differ by more than two error polynomials");
                if cx.n >= 32 { verdict(out, !small(&a, &d), &format!("different_state_c1_far {}", id), &format!("samestate-{}", cls), "c1 under another mask state is within error distance"); }
            }
            // fresh errors all the same (recorded samples: below the key level the switch down by the special prime rounds the error term away, so
            // c0 of two equal-state calls may well coincide there)
            let e = |s: &Vec<Sample>| s.iter().filter(|x| x.kind == "centered_binomial").map(|x| x.data.clone()).collect::<Vec<_>>();
            verdict(out, (e(&sa).len() == 2 && e(&sa) != e(&sb)) || cx.n < 16, &format!("same_state_fresh_error {}", id), &format!("samestate-{}", cls), "two calls drew the same error polynomials");
        }
    }
}

/// one history of key generations / encryptions on one context, entropy overridden (replayable), tape armed
fn history(out: &mut Out, r: &mut Rng, cx: &Cx, tag: &str, len: usize) {
    let mut h = Hist::default();
    let ctx = &cx.ctx;
    let key_moduli: Vec<u64> = ctx.key_context_data().unwrap().parms().coeff_modulus().iter().map(|m| m.value()).collect();
    let first_moduli: Vec<u64> = ctx.first_context_data().unwrap().parms().coeff_modulus().iter().map(|m| m.value()).collect();
    let cls = format!("{}-k{}", tag, key_moduli.len());
    let fresh = |r: &mut Rng, c: usize| -> Vec<Seed> { (0..c).map(|_| rand_seed(r)).collect() };
    let mut note = |h: &mut Hist, gens: &[(Seed, bool)], samples: &[Sample]| {
        for (s, ov) in gens { h.factory_seeds.push(*s); if !ov { h.defects.push("a generator was created from real entropy although the override queue was not empty".into()); } }
        for s in samples { h.samples += 1; if let Some(d) = sample_defect(s) { h.defects.push(d); } }
        h.ops += 1;
    };
    // key generation first
    let ent = fresh(r, 4);
    let (kg, tape, used) = with_hooks(&ent, || KeyGenerator::new(ctx.clone()));
    let (gens, samples) = split_tape(tape);
    note(&mut h, &gens, &samples);
    if samples.len() == 1 && samples[0].kind == "ternary" {
        let s = &samples[0];
        let xd = xofdata(&[(ent[0], 4 * s.n + 64)]);
        let lhs = format!("hop {} {} {} 0 {} K", xd, s.n, fl(&s.moduli), ent.iter().map(|x| hex(x)).collect::<Vec<_>>().join(","));
        let res = format!("{}~-~{}~-~-", used, comps(&s.data, s.n, s.moduli.len()));
        out.case(&lhs, &format!("keygen-{}", cls), || res);
        h.secrets.push(s.data.clone());
        verdict(out, s.moduli == key_moduli, &format!("keygen_parms {} {}", tag, h.ops), &cls, "secret key not sampled at key-level parameters");
    } else { h.defects.push(format!("KeyGenerator::new recorded {} samples", samples.len())); }
    let ent = fresh(r, 4);
    let (pk, _, _) = with_hooks(&ent, || kg.create_public_key(false));
    let enc = Encryptor::new(ctx.clone()).set_secret_key(kg.secret_key().clone()).set_public_key(pk);
    let levels: Vec<heathcliff::ParmsID> = { let mut v = vec![]; let mut cur = ctx.first_context_data(); while let Some(c) = cur { v.push(*c.parms_id()); cur = c.next_context_data(); } v };
    let small_plain = { let mut p = Plaintext::new(); p.resize(3.min(cx.n)); for (i, x) in p.data_mut().iter_mut().enumerate() { *x = 1 + i as u64; } p };
    // destination forms write into a USED ciphertext (made outside the recorded window)
    let dirty_ct = { let (c, _, _) = with_hooks(&fresh(r, 4), || enc.encrypt_zero_symmetric_new_at(levels.last().unwrap())); if c.contains_seed() { c.expand_seed(ctx) } else { c } };
    same_state(out, r, cx, &enc, &levels, &small_plain, &cls);
    for _ in 0..len {
        let ent = fresh(r, 4);
        let gseed = seed_from(r); let pre = *r.pick(&[0usize, 0, 1, 5, 64, 4090, 4096]);
        let choice = r.below(9);
        match choice {
            0 | 1 | 2 | 3 => {
                // symmetric encryption of zero / public key; seeded or not; factory generators or an explicit one
                let seeded = r.chance(1, 2); let explicit = choice >= 2; let as_pk = choice % 2 == 1;
                let mut g = explicit_gen(&gseed, pre);
                // which entry point: 0 = zero at the first level, 1 = zero `_at` a level of the chain, 2 = a plaintext (integer schemes)
                let var = if as_pk { 0 } else { let v = r.below(3); if v == 2 && cx.scheme == SchemeType::CKKS { 1 } else { v } };
                let pid = if var == 1 { levels[r.below(levels.len() as u64) as usize] } else { levels[0] };
                let level_moduli: Vec<u64> = ctx.get_context_data(&pid).unwrap().parms().coeff_modulus().iter().map(|m| m.value()).collect();
                let (ct, tape, used) = with_hooks(&ent, || -> Ciphertext {
                    if as_pk {
                        let pk = if explicit { kg.create_public_key_with_u_prng(seeded, &mut g) } else { kg.create_public_key(seeded) };
                        pk.as_ciphertext().clone()
                    } else if seeded {
                        match (explicit, var) {
                            (true, 0) => enc.encrypt_zero_symmetric_new_with_u_prng(&mut g), (false, 0) => enc.encrypt_zero_symmetric_new(),
                            (true, 1) => enc.encrypt_zero_symmetric_new_at_with_u_prng(&pid, &mut g), (false, 1) => enc.encrypt_zero_symmetric_new_at(&pid),
                            (true, _) => enc.encrypt_symmetric_new_with_u_prng(&small_plain, &mut g), (false, _) => enc.encrypt_symmetric_new(&small_plain),
                        }
                    } else {
                        let mut c = Ciphertext::new();
                        match (explicit, var) {
                            (true, 0) => enc.encrypt_zero_symmetric_with_u_prng(&mut g, &mut c), (false, 0) => enc.encrypt_zero_symmetric(&mut c),
                            (true, 1) => enc.encrypt_zero_symmetric_at_with_u_prng(&pid, &mut g, &mut c), (false, 1) => enc.encrypt_zero_symmetric_at(&pid, &mut c),
                            (true, _) => enc.encrypt_symmetric_with_u_prng(&small_plain, &mut g, &mut c), (false, _) => enc.encrypt_symmetric(&small_plain, &mut c),
                        }
                        c
                    }
                });
                let (gens, samples) = split_tape(tape);
                note(&mut h, &gens, &samples);
                let want_gens = if explicit { 1 } else { 2 };
                if gens.len() != want_gens || samples.len() != 2 || samples[0].kind != "uniform" || samples[1].kind != "centered_binomial" {
                    h.defects.push(format!("symmetric op: {} generators, samples {:?}", gens.len(), samples.iter().map(|s| s.kind).collect::<Vec<_>>()));
                    continue;
                }
                let ps = stored_seed(&ct);
                // (the library keeps a seed only when c1 has room for the flag word and the 8 seed words: N * k >= 9 at the object's level)
                let room = ct.data().len() / ct.size().max(1) >= 9;
                verdict(out, ps.is_some() == (seeded && room), &format!("seed_saved_iff_requested {} {}", tag, h.ops), &cls, "seed flag does not match the request");
                // API-visible c1 is the recorded uniform sample (after expansion when seeded)
                let c1: Vec<u64> = if ct.contains_seed() { ct.clone().expand_seed(ctx).poly(1).to_vec() } else { ct.poly(1).to_vec() };
                // (BFV without seed: the draw is taken as NTT form and c1 is its inverse transform — not compared here)
                // (likewise when a seed was requested but the level has no room for it: the library then falls back to the unseeded path)
                if (seeded && (room || as_pk)) || as_pk || cx.scheme != SchemeType::BFV {
                    verdict(out, c1 == samples[0].data, &format!("c1_is_expansion_of_seed {} {} seeded={}", tag, h.ops, seeded), &cls, "c1 of the ciphertext differs from the uniform polynomial drawn for it");
                }
                let want_moduli = if as_pk { &key_moduli } else { &level_moduli };
                verdict(out, &samples[0].moduli == want_moduli, &format!("sym_parms {} {}", tag, h.ops), &cls, "sampled at unexpected parameters");
                if let (Some(s), false) = (ps, explicit) { h.stored_seeds.push(s); }
                if !explicit { h.masks.push(samples[0].data.clone()); }
                let probe = if explicit { Some(probe8(&mut g)) } else { None };
                emit_sym(out, &format!("sym{}{}{}-{}", if seeded { "-seeded" } else { "" }, if explicit { "-explicit" } else { "" }, ["", "-at", "-plain"][var as usize], cls), &ent,
                         if explicit { Some((gseed, pre)) } else { None }, ps, used, &samples[0], &samples[1], probe);
            }
            4 | 5 | 6 => {
                let explicit = choice == 6;
                let mut g = explicit_gen(&gseed, pre);
                // which entry point: 0 = zero (value-returning), 1 = zero into a destination, 2 / 3 = zero `_at` a level (below the first level the mask is
                // drawn one level up and the result switched down), 4 / 5 = a plaintext (integer schemes)
                let var = { let v = r.below(6); if v >= 4 && cx.scheme == SchemeType::CKKS { v - 2 } else { v } };
                let pid = if var == 2 || var == 3 { levels[r.below(levels.len() as u64) as usize] } else { levels[0] };
                let (ct, tape, used) = with_hooks(&ent, || -> Ciphertext {
                    let mut c = dirty_ct.clone();
                    match (explicit, var) {
                        (true, 0) => return enc.encrypt_zero_new_with_u_prng(&mut g), (false, 0) => return enc.encrypt_zero_new(),
                        (true, 1) => enc.encrypt_zero_with_u_prng(&mut g, &mut c), (false, 1) => enc.encrypt_zero(&mut c),
                        (true, 2) => return enc.encrypt_zero_new_at_with_u_prng(&pid, &mut g), (false, 2) => return enc.encrypt_zero_new_at(&pid),
                        (true, 3) => enc.encrypt_zero_at_with_u_prng(&pid, &mut g, &mut c), (false, 3) => enc.encrypt_zero_at(&pid, &mut c),
                        (true, 4) => return enc.encrypt_new_with_u_prng(&small_plain, &mut g), (false, 4) => return enc.encrypt_new(&small_plain),
                        (true, _) => enc.encrypt_with_u_prng(&small_plain, &mut g, &mut c), (false, _) => enc.encrypt(&small_plain, &mut c),
                    }
                    c });
                let (gens, samples) = split_tape(tape);
                note(&mut h, &gens, &samples);
                let want_gens = if explicit { 1 } else { 2 };
                if gens.len() != want_gens || samples.len() != 3 || samples[0].kind != "ternary" || samples[1..].iter().any(|s| s.kind != "centered_binomial") {
                    h.defects.push(format!("asymmetric op: {} generators, samples {:?}", gens.len(), samples.iter().map(|s| s.kind).collect::<Vec<_>>()));
                    continue;
                }
                // (with a caller-supplied u generator equal states give equal u, and after the modulus switch usually equal c1: by design, not counted)
                // (the ternary mask u lives in a space of 3^N polynomials: for N < 32 two of a few dozen draws coincide by chance, so u is only
                // counted as a mask from N = 32 on.  c1 = a*u + e1 is NOT more random than u where the public-key encryption goes through the
                // special-prime division: round((a*u + e1)/P) is a function of u alone except at rounding boundaries (|e1| <= 21 << P), so equal
                // u give equal c1 — found by a thorough run on the unchanged tree (N = 8, 61 operations: two of ~30 ternary draws coincided).
                // Both are therefore counted from N = 32 on only; the uniform masks of symmetric encryptions and keys are counted at every N.)
                if !explicit && cx.n >= 32 { h.masks.push(samples[0].data.clone()); h.masks.push(ct.poly(1).to_vec()); }
                let probe = if explicit { Some(probe8(&mut g)) } else { None };
                emit_asym(out, &format!("asym{}{}-{}", if explicit { "-explicit" } else { "" }, ["", "-dest", "-at", "-at-dest", "-plain", "-plain-dest"][var as usize], cls), &ent, if explicit { Some((gseed, pre)) } else { None }, used,
                          &samples[0], &samples[1..].iter().collect::<Vec<_>>(), probe);
            }
            7 => {
                // relinearization keys: one symmetric encryption per decomposition modulus, all generators from the factory
                if !ctx.using_keyswitching() { continue; }
                let seeded = r.chance(1, 2);
                let d = first_moduli.len();
                let ent = fresh(r, 2 * d + 2);
                let (rk, tape, used) = with_hooks(&ent, || kg.create_relin_keys(seeded));
                let (gens, samples) = split_tape(tape);
                note(&mut h, &gens, &samples);
                if gens.len() != 2 * d || samples.len() != 2 * d || used != 2 * d { h.defects.push(format!("relin keys: {} generators {} samples for {} moduli", gens.len(), samples.len(), d)); continue; }
                let keys = rk.as_kswitch_keys().data()[0].clone();
                for i in 0..d {
                    let ct = keys[i].as_ciphertext();
                    let ps = stored_seed(ct);
                    if let Some(s) = ps { h.stored_seeds.push(s); }
                    let c1: Vec<u64> = if ct.contains_seed() { ct.clone().expand_seed(ctx).poly(1).to_vec() } else { ct.poly(1).to_vec() };
                    verdict(out, c1 == samples[2 * i].data && ps.is_some() == seeded, &format!("kswitch_c1_is_expansion_of_seed {} {} {}", tag, h.ops, i), &cls, "key c1 differs from its uniform draw");
                    h.masks.push(samples[2 * i].data.clone());
                    emit_sym(out, &format!("relin{}-{}", if seeded { "-seeded" } else { "" }, cls), &ent[2 * i..2 * i + 2], None, ps, 2, &samples[2 * i], &samples[2 * i + 1], None);
                }
            }
            _ => {
                // another key generator on the same context
                let (kg2, tape, _) = with_hooks(&ent, || KeyGenerator::new(ctx.clone()));
                let (gens, samples) = split_tape(tape);
                note(&mut h, &gens, &samples);
                if samples.len() == 1 { h.secrets.push(samples[0].data.clone()); }
                drop(kg2);
            }
        }
    }
    // history verdicts
    let distinct = |v: &Vec<Vec<u8>>| v.iter().collect::<HashSet<_>>().len() == v.len();
    let fs: Vec<Vec<u8>> = h.factory_seeds.iter().map(|s| s.to_vec()).collect();
    let ss: Vec<Vec<u8>> = h.stored_seeds.iter().map(|s| s.to_vec()).collect();
    let ms: Vec<Vec<u8>> = h.masks.iter().map(|m| m.iter().flat_map(|x| x.to_le_bytes()).collect()).collect();
    let sk: Vec<Vec<u8>> = h.secrets.iter().map(|m| m.iter().flat_map(|x| x.to_le_bytes()).collect()).collect();
    let id = format!("{} scheme={:?} n={} ops={} gens={} samples={}", tag, cx.scheme as u8, cx.n, h.ops, fs.len(), h.samples);
    verdict(out, h.defects.is_empty(), &format!("history_samples_wellformed {}", id), &cls, &h.defects.first().cloned().unwrap_or_default());
    verdict(out, distinct(&fs), &format!("history_factory_seeds_distinct {}", id), &cls, "two generators of one history share a seed");
    verdict(out, distinct(&ss), &format!("history_stored_seeds_distinct {} stored={}", id, ss.len()), &cls, "two seeded objects share their stored seed");
    verdict(out, distinct(&ms), &format!("history_masks_distinct {} masks={}", id, ms.len()), &cls, "two outputs share their mask polynomial");
    if sk.first().map(|v| v.len() >= 16).unwrap_or(true) { verdict(out, distinct(&sk), &format!("history_secrets_distinct {} keys={}", id, sk.len()), &cls, "two key generators drew the same secret"); }
}

/// real entropy (no override): freshness of what the API shows
fn history_real_entropy(out: &mut Out, cx: &Cx, tag: &str, len: usize) {
    let ctx = &cx.ctx;
    hk::clear_entropy_override();
    hk::arm_tape();
    let kg = KeyGenerator::new(ctx.clone());
    let pk = kg.create_public_key(false);
    let enc = Encryptor::new(ctx.clone()).set_secret_key(kg.secret_key().clone()).set_public_key(pk);
    let mut seeds: Vec<Vec<u8>> = vec![]; let mut c1s: Vec<Vec<u64>> = vec![]; let mut c0s: Vec<Vec<u64>> = vec![];
    for i in 0..len {
        match i % 4 {
            0 => { let ct = enc.encrypt_zero_symmetric_new(); seeds.push(stored_seed(&ct).map(|s| s.to_vec()).unwrap_or_default()); c0s.push(ct.poly(0).to_vec()); }
            1 => { let mut ct = Ciphertext::new(); enc.encrypt_zero_symmetric(&mut ct); c1s.push(ct.poly(1).to_vec()); c0s.push(ct.poly(0).to_vec()); }
            2 => { let ct = enc.encrypt_zero_new(); c1s.push(ct.poly(1).to_vec()); c0s.push(ct.poly(0).to_vec()); }
            _ => { let p = kg.create_public_key(true); seeds.push(stored_seed(p.as_ciphertext()).map(|s| s.to_vec()).unwrap_or_default()); }
        }
    }
    let (gens, samples) = split_tape(hk::take_tape());
    let g: Vec<Vec<u8>> = gens.iter().map(|(s, _)| s.to_vec()).collect();
    let cls = format!("real-entropy-{}", tag);
    let id = format!("{} n={} ops={} gens={}", tag, cx.n, len, g.len());
    verdict(out, gens.iter().all(|(_, ov)| !ov) && g.iter().collect::<HashSet<_>>().len() == g.len(), &format!("entropy_factory_seeds_distinct {}", id), &cls, "two generators got the same entropy seed");
    verdict(out, seeds.iter().all(|s| s.len() == 64) && seeds.iter().collect::<HashSet<_>>().len() == seeds.len(), &format!("entropy_stored_seeds_distinct {}", id), &cls, "two seeded objects share their stored seed");
    verdict(out, c1s.iter().collect::<HashSet<_>>().len() == c1s.len(), &format!("entropy_c1_distinct {}", id), &cls, "two ciphertexts share c1");
    verdict(out, c0s.iter().collect::<HashSet<_>>().len() == c0s.len(), &format!("entropy_c0_distinct {}", id), &cls, "two ciphertexts share c0");
    let bad = samples.iter().filter_map(sample_defect).next();
    verdict(out, bad.is_none(), &format!("entropy_samples_wellformed {} samples={}", id, samples.len()), &cls, &bad.unwrap_or_default());
}

/// real entropy across THREADS: every generator created anywhere in the process draws fresh entropy, so the k-th object made by one thread
/// never coincides with the k-th object made by another (threads run one after the other, then concurrently; shared context)
fn history_real_entropy_threads(out: &mut Out, cx: &Cx, tag: &str) {
    let work = |ctx: std::sync::Arc<HeContext>| -> (Vec<Vec<u8>>, Vec<u64>, Vec<u8>, Vec<u64>) {
        hk::clear_entropy_override();
        hk::arm_tape();
        let kg = KeyGenerator::new(ctx.clone());
        let pk = kg.create_public_key(false);
        let enc = Encryptor::new(ctx.clone()).set_secret_key(kg.secret_key().clone()).set_public_key(pk);
        let seeded = enc.encrypt_zero_symmetric_new();
        let asym = enc.encrypt_zero_new();
        let (gens, _) = split_tape(hk::take_tape());
        (gens.iter().map(|(s, _)| s.to_vec()).collect(), kg.secret_key().data().to_vec(), stored_seed(&seeded).map(|s| s.to_vec()).unwrap_or_default(), asym.poly(1).to_vec())
    };
    for mode in ["sequential", "concurrent"] {
        let mut res = vec![];
        if mode == "sequential" { for _ in 0..3 { let c = cx.ctx.clone(); res.push(std::thread::spawn(move || work(c)).join()); } }
        else { let hs: Vec<_> = (0..3).map(|_| { let c = cx.ctx.clone(); std::thread::spawn(move || work(c)) }).collect(); for h in hs { res.push(h.join()); } }
        let res: Vec<_> = match res.into_iter().collect::<Result<Vec<_>, _>>() { Ok(r) => r, Err(_) => { out.raw(&format!("!FAIL entropy_threads {} {} :: a worker thread panicked # real-entropy-threads", tag, mode)); continue } };
        let cls = format!("real-entropy-threads-{}", mode);
        let id = format!("{} {} n={} threads={}", tag, mode, cx.n, res.len());
        let all_gens: Vec<&Vec<u8>> = res.iter().flat_map(|r| r.0.iter()).collect();
        verdict(out, all_gens.iter().collect::<HashSet<_>>().len() == all_gens.len(), &format!("entropy_threads_factory_seeds_distinct {} gens={}", id, all_gens.len()), &cls, "generators created on different threads got the same entropy seed");
        verdict(out, res.iter().map(|r| &r.1).collect::<HashSet<_>>().len() == res.len(), &format!("entropy_threads_secrets_distinct {}", id), &cls, "key generators on different threads drew the same secret key");
        verdict(out, res.iter().all(|r| r.2.len() == 64) && res.iter().map(|r| &r.2).collect::<HashSet<_>>().len() == res.len(), &format!("entropy_threads_stored_seeds_distinct {}", id), &cls, "seeded ciphertexts made on different threads share their stored seed");
        verdict(out, res.iter().map(|r| &r.3).collect::<HashSet<_>>().len() == res.len(), &format!("entropy_threads_c1_distinct {}", id), &cls, "public-key encryptions made on different threads share c1");
    }
}

// ------------------------------------------------------------------------------------------------ empirical (labelled tests)

fn empirical(out: &mut Out, r: &mut Rng, thorough: bool) {
    let cls = "empirical-test";
    // BLAKE3 known answer (empty input) — the external crate is what it claims to be
    let kat = blake3::hash(b"").to_hex().to_string();
    verdict(out, kat == "af1349b9f5f9a1a6a0404dea36dcc9499bcb25c9adc112b7cc9a93cae41f3262", "blake3_known_answer empty-input", cls, &kat);
    // non-repetition within the explored length; streams of different seeds differ
    let len = if thorough { 64 << 20 } else { 4 << 20 };
    let seed = rand_seed(r);
    let mut g = BlakeRNG::from_seed(PRNGSeed(seed));
    let mut buf = vec![0u8; len]; g.fill_bytes(&mut buf);
    let mut seen = HashSet::with_capacity(len / 16);
    let rep = buf.chunks(16).any(|c| !seen.insert(c.to_vec()));
    verdict(out, !rep, &format!("stream_no_repeated_16byte_window seed={} len={}", hex(&seed[..8]), len), cls, "a 16-byte window repeats");
    let blocks_distinct = buf.chunks(BS).collect::<HashSet<_>>().len() == buf.chunks(BS).count();
    verdict(out, blocks_distinct, &format!("stream_blocks_distinct seed={} len={}", hex(&seed[..8]), len), cls, "two 4096-byte buffers coincide");
    verdict(out, buf[..8 * BS] == stream(&seed, 8 * BS)[..], &format!("stream_is_blake3_of_seed_counter seed={}", hex(&seed[..8])), cls, "stream differs from blake3(seed ++ counter_le)");
    for bit in [0usize, 7, 255, 511] {
        let mut s2 = seed; s2[bit / 8] ^= 1 << (bit % 8);
        let mut g2 = BlakeRNG::from_seed(PRNGSeed(s2));
        let mut b2 = vec![0u8; 1 << 16]; g2.fill_bytes(&mut b2);
        let common = b2.chunks(16).zip(buf.chunks(16)).filter(|(a, b)| a == b).count();
        verdict(out, common == 0, &format!("streams_of_different_seeds_differ seed={} flipped_bit={}", hex(&seed[..8]), bit), cls, "seeds differing in one bit share stream windows");
    }
    // distributions
    let cnt = if thorough { 600_000 } else { 120_000 };
    let n = 1000usize; let q = (1u64 << 40) + 15;
    let parms = parms_for(n, &[q]);
    let mut g = BlakeRNG::from_seed(PRNGSeed(rand_seed(r)));
    let mut dest = vec![0u64; n];
    let mut tern = [0usize; 3]; let mut hist = vec![0usize; 43]; let mut uni = [0usize; 16];
    for _ in 0..cnt / n {
        sample::ternary(&mut g, &parms, &mut dest);
        for &x in &dest { tern[if x == 0 { 1 } else if x == 1 { 2 } else { 0 }] += 1; }
        sample::centered_binomial(&mut g, &parms, &mut dest);
        for &x in &dest { let v: i64 = if x <= 21 { x as i64 } else { -((q - x) as i64) }; hist[(v + 21).clamp(0, 42) as usize] += 1; }
        sample::uniform(&mut g, &parms, &mut dest);
        for &x in &dest { uni[((x as u128 * 16) / q as u128) as usize] += 1; }
    }
    let total = (cnt / n * n) as f64;
    let chi = |obs: &[usize], exp: &[f64]| -> f64 { obs.iter().zip(exp).filter(|(_, e)| **e >= 10.0).map(|(o, e)| (*o as f64 - e).powi(2) / e).sum() };
    let c3 = chi(&tern, &[total / 3.0; 3]);
    verdict(out, c3 < 60.0, &format!("ternary_distribution chi2<60 samples={}", total), cls, &format!("chi2={:.1} counts={:?}", c3, tern));
    // pmf of Bin(21,1/2) - Bin(21,1/2) = Bin(42,1/2) - 21
    let mut pmf = vec![0f64; 43]; let mut c = 1f64;
    for k in 0..43 { pmf[k] = c / 2f64.powi(42); c = c * (42 - k) as f64 / (k + 1) as f64; }
    let exp: Vec<f64> = pmf.iter().map(|p| p * total).collect();
    let c43 = chi(&hist, &exp);
    let mean: f64 = hist.iter().enumerate().map(|(i, c)| (i as f64 - 21.0) * *c as f64).sum::<f64>() / total;
    let var: f64 = hist.iter().enumerate().map(|(i, c)| (i as f64 - 21.0 - mean).powi(2) * *c as f64).sum::<f64>() / total;
    verdict(out, c43 < 150.0 && (var - 10.5).abs() < 0.5 && mean.abs() < 0.1, &format!("cbd_distribution chi2<150 var~10.5 samples={}", total), cls, &format!("chi2={:.1} mean={:.3} var={:.3}", c43, mean, var));
    let c16 = chi(&uni, &[total / 16.0; 16]);
    verdict(out, c16 < 100.0, &format!("uniform_distribution chi2<100 samples={}", total), cls, &format!("chi2={:.1}", c16));
}

// ------------------------------------------------------------------------------------------------ entry

fn replay(out: &mut Out, case: &str) {
    let t: Vec<&str> = case.split(' ').collect();
    let first_seed = |xd: &str| -> Seed { let mut s = [0u8; 64]; let b = unhex(xd.split(':').next().unwrap_or("")); s[..b.len().min(64)].copy_from_slice(&b[..b.len().min(64)]); s };
    match t[0] {
        "hamming_weight" if t.len() == 2 => { let x: u8 = t[1].parse().unwrap_or(0); out.case(case, "replay", || heathcliff::util::hamming_weight(x).to_string()); }
        "rng_ops" if t.len() == 3 => { let s = first_seed(t[1]); let ops = parse_ops(t[2]); out.case(case, "replay", || run_ops(&s, &ops)); }
        "sample_ternary" | "sample_cbd" | "sample_uniform" if t.len() == 5 => {
            let s = first_seed(t[1]); let pre: usize = t[2].parse().unwrap_or(0); let n: usize = t[3].parse().unwrap_or(0);
            let moduli: Vec<u64> = t[4].split(',').filter_map(|x| x.parse().ok()).collect();
            out.case(case, "replay", || run_sampler(t[0], &s, pre, n, &moduli));
        }
        _ => out.raw(&format!("!NOTE replay of `{}` cases needs the recorded history; rerun ./check C16 with the same VERIF_SEED", t[0])),
    }
}

/// informational (`hcharness C16 quick 1 tiny`): contexts whose coefficient modulus does not exceed the error bound 21
fn tiny(out: &mut Out) {
    for (n, q) in [(2usize, 5u64), (2, 13), (2, 17), (4, 17), (2, 29), (2, 37)] {
        let res = guard(|| {
            let p = EncryptionParameters::new(SchemeType::CKKS).set_poly_modulus_degree(n).set_coeff_modulus(&[Modulus::new(q)]);
            let ctx = HeContext::new(p, true, SecurityLevel::None);
            if !ctx.parameters_set() { return "context-refused".to_string(); }
            let mut worst = 0u64; let mut panics = 0;
            for _ in 0..200 {
                let r = std::panic::catch_unwind(|| { let kg = KeyGenerator::new(ctx.clone()); let pk = kg.create_public_key(false); pk.as_ciphertext().data().iter().cloned().max().unwrap_or(0) });
                match r { Ok(m) => worst = worst.max(m), Err(_) => panics += 1 }
            }
            format!("context-accepted panics={}/200 max-coefficient={}", panics, worst)
        });
        out.raw(&format!("!NOTE tiny-modulus n={} q={} {}", n, q, res));
    }
}

/// Collective relinearisation-key generation (the two-round protocol of src/multiparty): the key has one RLWE sample per decomposition
/// modulus, each built on its own common mask a_j drawn from the parties' shared generator.  "No two outputs share their mask polynomial":
/// (a) exactly one uniform polynomial per component is drawn from the common generator by every party (recorded on the sampling tape) and
/// they are pairwise distinct, identical across parties; (b) output-based: c1_j - c1_k of the finished key is NOT small — with a shared mask
/// the difference is a sum of error polynomials (|coefficients| <= 2 * 21 * 2 * parties), with fresh masks it is uniform.
fn multiparty_masks(out: &mut Out, r: &mut Rng, thorough: bool) {
    use heathcliff::multiparty::participant::*; use heathcliff::RelinKeys;
    let cfgs: Vec<(SchemeType, usize, Vec<usize>, usize)> = vec![(SchemeType::BFV, 32, vec![30, 30, 36], 2), (SchemeType::BGV, 16, vec![27, 29, 31, 36], 3), (SchemeType::CKKS, 64, vec![30, 32, 34, 40], 2)];
    for (ci, (scheme, n, bits, cnt)) in cfgs.into_iter().enumerate() {
        if !thorough && ci == 2 && r.chance(0, 1) { continue; }
        let cx = match make_ctx(scheme, n, bits.clone()) { Some(c) => c, None => continue };
        if !cx.ctx.using_keyswitching() { continue; }
        let key_qs: Vec<u64> = cx.ctx.key_context_data().unwrap().parms().coeff_modulus().iter().map(|m| m.value()).collect();
        let kc = key_qs.len() - 1;
        let common = rand_seed(r);
        let cls = format!("mp-rlk-s{}n{}k{}p{}", scheme as u8, n, kc, cnt);
        let res = std::panic::catch_unwind(std::panic::AssertUnwindSafe(|| {
            let mut parties: Vec<Participant> = (0..cnt).map(|i| Participant::new(cnt, i, cx.ctx.clone(), BlakeRNG::from_seed(PRNGSeed(common)))).collect();
            hk::arm_tape();
            let mut protos: Vec<_> = parties.iter_mut().map(|p| p.generate_relin_keys()).collect();
            let tape = hk::take_tape();
            let m1: Vec<Vec<u8>> = protos.iter().map(|p| { let mut m = vec![]; p.send_step1(&mut m).unwrap(); m }).collect();
            for rr in 0..cnt { for ss in 0..cnt { if ss != rr { protos[rr].receive_step1(ss, &mut m1[ss].as_slice()).unwrap(); } } }
            for p in protos.iter_mut() { p.step2(); }
            let m2: Vec<Vec<u8>> = protos.iter().map(|p| { let mut m = vec![]; p.send_step2(&mut m).unwrap(); m }).collect();
            for rr in 0..cnt { for ss in 0..cnt { if ss != rr { protos[rr].receive_step2(ss, &mut m2[ss].as_slice()).unwrap(); } } }
            let keys: Vec<RelinKeys> = protos.into_iter().map(|p| p.finish()).collect();
            (tape, keys) }));
        let (tape, keys) = match res { Ok(x) => x, Err(_) => { out.raw(&format!("!NOTE multiparty_masks {} protocol refused", cls)); continue } };
        let (_g, samples) = split_tape(tape);
        let uni: Vec<&Sample> = samples.iter().filter(|s| s.kind == "uniform").collect();
        let mut why = vec![];
        if uni.len() != cnt * kc { why.push(format!("{} uniform mask polynomials drawn by {} parties for {} key components (one per component and party expected)", uni.len(), cnt, kc)); }
        else {
            for j in 0..kc { for k2 in j + 1..kc { if uni[j].data == uni[k2].data { why.push(format!("components {} and {} use the same common mask", j, k2)); } } }
            for p in 1..cnt { for j in 0..kc { if uni[p * kc + j].data != uni[j].data { why.push(format!("party {} derives a different common mask {} than party 0", p, j)); } } }
        }
        // output based: differences of the c1 components modulo the first key prime, centred
        let q0 = key_qs[0]; let bound = (2 * 21 * 2 * cnt as u64 + 2) * 4;
        let c1 = |j: usize| -> Vec<u64> { let ct = keys[0].as_kswitch_keys().data()[0][j].as_ciphertext(); let mut v = ct.poly(1)[..n].to_vec();
            let t = heathcliff::util::NTTTables::new(n.trailing_zeros() as usize, &Modulus::new(q0)).unwrap(); heathcliff::verif::polysmallmod::intt(&mut v, &t); v };
        for j in 0..kc { for k2 in j + 1..kc {
            let (a, b) = (c1(j), c1(k2));
            let small = (0..n).all(|i| { let d = (a[i] + q0 - b[i]) % q0; d <= bound || q0 - d <= bound });
            if small { why.push(format!("key components {} and {} share their mask polynomial: c1_{} - c1_{} has only coefficients of magnitude <= {}", j, k2, j, k2, bound)); }
        } }
        if why.is_empty() { out.raw(&format!("!OK multiparty_masks {} # {}", cls, cls)); } else { out.raw(&format!("!FAIL multiparty_masks {} common-seed={} :: {} # {}", cls, hex(&common[..8]), why.join("; "), cls)); }
    }
}

pub fn run(out: &mut Out, thorough: bool, seed: u64, extra: &[String]) {
    if extra.first().map(|s| s == "--case").unwrap_or(false) && extra.len() >= 2 { replay(out, &extra[1]); return; }
    let mut r = Rng::new(seed);
    if extra.first().map(|s| s == "tiny").unwrap_or(false) { tiny(out); return; }
    // ---- hamming_weight on all 256 bytes
    for x in 0..=255u8 { out.case(&format!("hamming_weight {}", x), if x == 0 { "trivial-zero" } else { "byte" }, || heathcliff::util::hamming_weight(x).to_string()); }
    // ---- generator: chunkings and interleavings
    let reps = if thorough { 300 } else { 42 };
    for rep in 0..reps {
        for style in 0..7u64 {
            if style == 6 && rep > 2 { continue; }
            if style >= 4 && style != 6 && rep % 3 != 0 && !thorough { continue; }
            let s = seed_from(&mut r);
            let (ops, cls) = gen_ops(&mut r, style);
            let lhs = format!("rng_ops {} {}", xofdata(&[(s, ops_upper(&ops))]), ops_str(&ops));
            out.case(&lhs, cls, || run_ops(&s, &ops));
            // the generator FACTORY with a fixed seed hands out that very generator, every time (`get_rng`, `get_rng_rc`), and `set_seed` replaces the seed
            if rep % 6 == 0 {
                use heathcliff::util::BlakeRNGFactory;
                let run_gen = |mut g: BlakeRNG| -> String { let mut v: Vec<String> = ops.iter().map(|o| apply(&mut g, o)).collect(); v.push(apply(&mut g, &Op::F(16))); v.join(",") };
                let f = BlakeRNGFactory::from_seed(PRNGSeed(s));
                out.case(&lhs, &format!("factory-{}", cls), || run_gen(f.get_rng()));
                out.case(&lhs, &format!("factory-second-{}", cls), || { let _ = f.get_rng(); run_gen(f.get_rng_rc()) });
                out.case(&lhs, &format!("factory-set-seed-{}", cls), || { let mut f2 = BlakeRNGFactory::from_seed(PRNGSeed([0x5a; 64])); f2.set_seed(PRNGSeed(s)); run_gen(f2.get_rng()) });
            }
            if style <= 1 {
                // the same total read in one piece, and in two other chunkings (harness-side oracle, independent blake3 recomputation)
                let total: usize = ops.iter().map(|o| if let Op::F(n) = o { *n } else { 0 }).sum();
                let want = stream(&s, total);
                let mut g = BlakeRNG::from_seed(PRNGSeed(s));
                let mut got = vec![];
                for o in &ops { if let Op::F(n) = o { let mut b = vec![0u8; *n]; g.fill_bytes(&mut b); got.extend_from_slice(&b); } }
                let mut g1 = BlakeRNG::from_seed(PRNGSeed(s)); let mut one = vec![0u8; total]; g1.fill_bytes(&mut one);
                let mut g2 = BlakeRNG::from_seed(PRNGSeed(s)); let mut bytewise = vec![0u8; total.min(5000)];
                for b in bytewise.iter_mut() { let mut x = [0u8; 1]; g2.fill_bytes(&mut x); *b = x[0]; }
                verdict(out, got == want && one == want && bytewise[..] == want[..bytewise.len()], &format!("chunking_invariant seed={} chunks={}", hex(&s[..8]), ops_str(&ops)), cls,
                        "chunked / single / bytewise reads or the blake3 recomputation disagree");
            }
        }
    }
    // ---- samplers on 1..6 moduli, generator at aligned and unaligned positions, also across a refill
    let sreps = if thorough { 80 } else { 12 };
    for rep in 0..sreps {
        for k in 1..=6usize {
            for kind in ["sample_ternary", "sample_cbd", "sample_uniform"] {
                let s = seed_from(&mut r);
                let n = *r.pick(&[1usize, 2, 3, 7, 8, 16, 33, 64, 100]);
                let n = if rep == 0 && kind != "sample_uniform" { 1100 } else if rep == 0 { 520 / k + 1 } else { n };   // rep 0: cross the first refill
                let pre = *r.pick(&[0usize, 0, 1, 2, 3, 5, 6, 4089, 4093, 4096]);
                let moduli = gen_moduli(&mut r, k);
                let lhs = format!("{} {} {} {} {}", kind, xofdata(&[(s, pre + sampler_bytes(kind, n, k))]), pre, n, fl(&moduli));
                out.case(&lhs, &format!("{}-k{}{}", kind, k, if pre % 8 != 0 { "-unaligned" } else { "" }), || run_sampler(kind, &s, pre, n, &moduli));
            }
        }
        // moduli not above the error bound 21: |e| is reduced mod q first (ordinary cases since the repair of the underflow)
        let s = seed_from(&mut r);
        let moduli = vec![*r.pick(&[2u64, 3, 5, 13, 17, 21]), 1 << 30];
        let lhs = format!("sample_cbd {} 0 64 {}", xofdata(&[(s, sampler_bytes("sample_cbd", 64, 2))]), fl(&moduli));
        out.case(&lhs, "small-modulus", || run_sampler("sample_cbd", &s, 0, 64, &moduli));
        // all moduli small, several components
        let s = seed_from(&mut r);
        let k = r.range(1, 6) as usize;
        let moduli: Vec<u64> = (0..k).map(|_| *r.pick(&[2u64, 3, 4, 5, 7, 11, 13, 16, 17, 19, 20, 21, 22])).collect();
        let n = *r.pick(&[16usize, 64, 200]);
        let lhs = format!("sample_cbd {} 3 {} {}", xofdata(&[(s, 3 + sampler_bytes("sample_cbd", n, k))]), n, fl(&moduli));
        out.case(&lhs, "small-modulus", || run_sampler("sample_cbd", &s, 3, n, &moduli));
    }
    // ---- histories on real contexts: 1..6 coefficient primes (+ special prime where key switching is on), three schemes
    let schemes = [SchemeType::BFV, SchemeType::CKKS, SchemeType::BGV];
    let hl = if thorough { 60 } else { 16 };
    for k in 1..=6usize {
        for (si, &scheme) in schemes.iter().enumerate() {
            if !thorough && (k + si) % 3 != 0 && k != 1 && k != 6 && !(k >= 3 && (k + si) % 2 == 1 && k <= 4) { continue; }
            // small degrees too: for N <= 8 the 8 seed words stored in a seeded object run past the first RNS component of c1 (N*k >= 9 words are needed)
            let n = if k >= 3 && (k + si) % 2 == 1 { 8 } else if k == 2 && si == 1 { 8 } else { *r.pick(&[32usize, 64, 128]) };
            let bits: Vec<usize> = (0..k).map(|i| if i == k - 1 && k > 1 { 34 } else { 27 + (i % 3) * 2 }).collect();
            let cx = match make_ctx(scheme, n, bits.clone()) { Some(c) => c, None => { out.raw(&format!("!NOTE context scheme={} n={} bits={:?} not accepted", scheme as u8, n, bits)); continue; } };
            let tag = format!("s{}n{}k{}", scheme as u8, n, k);
            history(out, &mut r, &cx, &tag, hl);
            // (the distinctness oracles are probabilistic: not meaningful in the tiny sample spaces of N < 16)
            if n >= 16 && (si == k % 3 || thorough) { history_real_entropy(out, &cx, &tag, if thorough { 200 } else { 40 }); }
            if n >= 32 && (k == 1 || k == 6 || thorough) { history_real_entropy_threads(out, &cx, &tag); }
        }
    }
    // ---- collective (multiparty) key generation draws fresh randomness per output component too
    { let mut r2 = Rng::new(seed ^ 0x16_c011); multiparty_masks(out, &mut r2, thorough); }
    // ---- parameter sets the context accepts whose modulus does not exceed the error bound: errors must be reduced, never refused
    {
      for (n, q) in [(2usize, 5u64), (2, 13), (4, 17)] {
        let built = std::panic::catch_unwind(|| {
            let p = EncryptionParameters::new(SchemeType::CKKS).set_poly_modulus_degree(n).set_coeff_modulus(&[Modulus::new(q)]);
            HeContext::new(p, true, SecurityLevel::None)
        });
        match built {
            Ok(ctx) if ctx.parameters_set() => {
                let (mut panics, mut unreduced) = (0, 0);
                for _ in 0..300 {
                    match std::panic::catch_unwind(|| { let kg = KeyGenerator::new(ctx.clone()); kg.create_public_key(false).as_ciphertext().data().iter().any(|&x| x >= q) }) {
                        Ok(true) => unreduced += 1, Ok(false) => {}, Err(_) => panics += 1,
                    }
                }
                verdict(out, panics == 0 && unreduced == 0, &format!("error_sample_below_modulus scheme=CKKS n={} q={} keygen+public_key x300", n, q), "small-modulus-context",
                        &format!("{} of 300 public-key generations panicked (q - |e| underflow), {} produced an unreduced coefficient", panics, unreduced));
            }
            _ => out.raw(&format!("!OK error_sample_below_modulus scheme=CKKS n={} q={} context refused # small-modulus-context", n, q)),
        }
      }
    }
    empirical(out, &mut r, thorough);
}
