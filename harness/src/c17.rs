//! C17: shared Decryptor / KeyGenerator / Evaluator under ALL interleavings of the synchronization-relevant points
//! of the two lazily filled caches (secret-key powers, Galois permutation tables).
//!
//! Real threads run the real library calls under a token-passing scheduler: hook H4
//! (`heathcliff::verif::sched::yield_at`) hands control to the scheduler at every point between two lock phases
//! (never while a lock is held), exactly one thread runs at a time, and the controller enumerates depth-first
//! every order in which the threads can be resumed.  After each step the harness observes the cache (length /
//! set of generated tables).  One case line per schedule:
//!   skcache  <obj> <n0> <wants> <schedule>               => <trace>;eq=<0|1>
//!   galcache <obj> <n> <prefilled> <programs> <schedule> => <trace>;eq=<0|1>
//! and per scenario the size of the explored space (compared with the model's own exploration):
//!   skspace / galspace … => schedules=S,states=X,transitions=Y
//! The Lean driver replays the schedule in the model (model column) and evaluates the property on the observed
//! trace (spec column).  A run that does not finish within the watchdog time is a deadlock (`ERR:timeout`).
use crate::rng::Rng;
use crate::util::*;
use heathcliff::*;
use std::cell::RefCell;
use std::collections::HashSet;
use std::sync::{Arc, Condvar, Mutex, Once};
use std::time::{Duration, Instant};

// ------------------------------------------------------------------------------------------------ scheduler

#[derive(Clone, Copy, PartialEq, Debug)]
enum Pos { Fresh, Waiting(u32), Running(u32), Done }

struct Inner { turn: Option<usize>, pos: Vec<Pos>, log: Vec<String>, uses: Vec<usize> }

struct Sched { m: Mutex<Inner>, cv: Condvar, observe: Box<dyn Fn() -> String + Send + Sync> }

thread_local! { static CTX: RefCell<Option<(Arc<Sched>, usize)>> = RefCell::new(None); }
static INSTALL: Once = Once::new();

fn install_hook() {
    INSTALL.call_once(|| {
        heathcliff::verif::sched::install(Box::new(|id| {
            let c = CTX.with(|c| c.borrow().clone());
            if let Some((s, tid)) = c { s.at_yield(tid, id) }
        }));
    });
}

/// stop reporting yield points of this thread (post-processing of a job's result uses the library again)
fn detach_scheduler() { CTX.with(|c| *c.borrow_mut() = None); }

fn phase_name(from: u32) -> &'static str {
    match from { 0 => "R", 1 => "C", 2 => "W", 4 => "U", 10 => "K", 11 => "G", 12 => "U", _ => "?" }
}

impl Sched {
    fn new(k: usize, observe: Box<dyn Fn() -> String + Send + Sync>) -> Arc<Sched> {
        Arc::new(Sched { m: Mutex::new(Inner { turn: None, pos: vec![Pos::Fresh; k], log: vec![], uses: vec![0; k] }), cv: Condvar::new(), observe })
    }
    fn end_step(&self, g: &mut Inner, tid: usize, bang: &str) {
        if let Pos::Running(from) = g.pos[tid] {
            let obs = (self.observe)();
            if from == 12 { g.uses[tid] += 1; }
            g.log.push(format!("{}:{}{}:{}", tid, phase_name(from), bang, obs));
        }
    }
    /// called by a library thread at a yield point (it holds no lock there)
    fn at_yield(&self, tid: usize, id: u32) {
        if id == 3 { return; } // "after the write phase": same observation as the next point of this thread; not a scheduling point
        let mut g = self.m.lock().unwrap();
        self.end_step(&mut g, tid, "");
        g.pos[tid] = Pos::Waiting(id);
        g.turn = None;
        self.cv.notify_all();
        while g.turn != Some(tid) { g = self.cv.wait(g).unwrap(); }
        g.pos[tid] = Pos::Running(id);
    }
    fn finish(&self, tid: usize, panicked: bool) {
        let mut g = self.m.lock().unwrap();
        self.end_step(&mut g, tid, if panicked { "!" } else { "" });
        g.pos[tid] = Pos::Done;
        g.turn = None;
        self.cv.notify_all();
    }
}

fn pos_code(p: Pos, uses: usize, gal: bool) -> String {
    let c = match p { Pos::Waiting(id) => phase_name(id), Pos::Done => "D", _ => "?" };
    if gal { format!("{}{}", c, uses) } else { c.to_string() }
}

pub struct Job { pub run: Box<dyn FnOnce() -> Vec<u8> + Send> }
pub struct Setup { pub observe: Box<dyn Fn() -> String + Send + Sync>, pub jobs: Vec<Job> }

pub struct Outcome { pub schedule: Vec<usize>, pub trace: Vec<String>, pub results: Vec<Option<Vec<u8>>>, pub timeout: bool,
                     pub states: Vec<String>, pub enabled: Vec<Vec<usize>> }

/// run one schedule; `choose(depth, enabled)` picks the thread to resume
fn run_once(setup: Setup, gal: bool, watchdog: Duration, choose: &mut dyn FnMut(usize, &[usize]) -> Option<usize>) -> Outcome {
    install_hook();
    let k = setup.jobs.len();
    let s = Sched::new(k, setup.observe);
    let results: Arc<Mutex<Vec<Option<Vec<u8>>>>> = Arc::new(Mutex::new(vec![None; k]));
    let mut handles = vec![];
    for (tid, job) in setup.jobs.into_iter().enumerate() {
        let s2 = s.clone(); let res = results.clone();
        handles.push(std::thread::spawn(move || {
            CTX.with(|c| *c.borrow_mut() = Some((s2.clone(), tid)));
            let r = std::panic::catch_unwind(std::panic::AssertUnwindSafe(job.run));
            let panicked = r.is_err();
            if let Ok(v) = r { res.lock().unwrap()[tid] = Some(v); }
            CTX.with(|c| *c.borrow_mut() = None);
            s2.finish(tid, panicked);
        }));
    }
    let mut schedule = vec![]; let mut states = vec![]; let mut enabled_log = vec![];
    let mut timeout = false;
    loop {
        let mut g = s.m.lock().unwrap();
        let deadline = Instant::now() + watchdog;
        while g.turn.is_some() || g.pos.iter().any(|p| matches!(p, Pos::Fresh | Pos::Running(_))) {
            let now = Instant::now();
            if now >= deadline { timeout = true; break; }
            let (gg, _) = s.cv.wait_timeout(g, deadline - now).unwrap();
            g = gg;
        }
        if timeout { break; }
        let enabled: Vec<usize> = (0..k).filter(|&t| matches!(g.pos[t], Pos::Waiting(_))).collect();
        let obs = (s.observe)();
        let st = format!("{}|{}", obs, (0..k).map(|t| pos_code(g.pos[t], g.uses[t], gal)).collect::<Vec<_>>().join(""));
        states.push(st);
        enabled_log.push(enabled.clone());
        if enabled.is_empty() { break; }
        let t = match choose(schedule.len(), &enabled) { Some(t) => t, None => { timeout = true; break; } };
        schedule.push(t);
        g.turn = Some(t);
        s.cv.notify_all();
    }
    if !timeout { for h in handles { let _ = h.join(); } } // stuck threads are leaked
    let trace = s.m.lock().unwrap().log.clone();
    let results = results.lock().unwrap().clone();
    Outcome { schedule, trace, results, timeout, states, enabled: enabled_log }
}

// ------------------------------------------------------------------------------------------------ exploration

pub trait Scenario {
    fn lhs(&self) -> String;                 // `skcache obj n0 wants` / `galcache obj n pre progs`
    fn gal(&self) -> bool;
    fn class(&self) -> String;
    fn threads(&self) -> usize;
    fn setup(&self) -> Setup;                // fresh shared object + one job per thread
    fn expected(&self) -> Vec<Vec<u8>>;      // results of the sequential execution in call order
}

fn outcome_str(o: &Outcome, expected: &[Vec<u8>]) -> String {
    if o.timeout { return "ERR:timeout".to_string(); }
    let eq = o.results.len() == expected.len() && o.results.iter().zip(expected).all(|(r, e)| r.as_ref() == Some(e));
    format!("{};eq={}", o.trace.join(","), if eq { 1 } else { 0 })
}

pub struct Budget { pub watchdog: Duration, pub timeouts: usize }

/// all maximal schedules, depth first
fn explore_all(out: &mut Out, sc: &dyn Scenario, b: &mut Budget) {
    let expected = sc.expected();
    let mut stack: Vec<(usize, usize)> = vec![];
    let mut states: HashSet<String> = HashSet::new();
    let mut trans: HashSet<(String, usize)> = HashSet::new();
    let mut leaves = 0usize;
    loop {
        let mut depth_seen = 0usize;
        let o = {
            let st = &mut stack;
            let ds = &mut depth_seen;
            run_once(sc.setup(), sc.gal(), b.watchdog, &mut |d, en| {
                *ds = d + 1;
                if d < st.len() { Some(en[st[d].0.min(en.len() - 1)]) } else { st.push((0, en.len())); Some(en[0]) }
            })
        };
        stack.truncate(depth_seen);
        for (i, s) in o.states.iter().enumerate() {
            states.insert(s.clone());
            if i < o.schedule.len() { trans.insert((s.clone(), o.schedule[i])); }
        }
        leaves += 1;
        let lhs = format!("{} {}", sc.lhs(), fl(&o.schedule.iter().map(|&x| x as u64).collect::<Vec<_>>()));
        let timed_out = o.timeout;
        out.case(&lhs, &sc.class(), || outcome_str(&o, &expected));
        if timed_out { b.timeouts += 1; return; }
        // backtrack
        loop {
            match stack.last_mut() {
                None => {
                    let sp = sc.lhs().replacen("cache", "space", 1);
                    out.case(&sp, "trivial-space", || format!("schedules={},states={},transitions={}", leaves, states.len(), trans.len()));
                    out.raw(&format!("!NOTE space {} :: schedules={} states={} transitions={}", sc.lhs(), leaves, states.len(), trans.len()));
                    return;
                }
                Some(top) => { if top.0 + 1 < top.1 { top.0 += 1; break; } else { stack.pop(); } }
            }
        }
    }
}

/// `count` random schedules
fn explore_sampled(out: &mut Out, sc: &dyn Scenario, b: &mut Budget, r: &mut Rng, count: usize) {
    let expected = sc.expected();
    for _ in 0..count {
        let o = run_once(sc.setup(), sc.gal(), b.watchdog, &mut |_, en| Some(en[r.below(en.len() as u64) as usize]));
        let lhs = format!("{} {}", sc.lhs(), fl(&o.schedule.iter().map(|&x| x as u64).collect::<Vec<_>>()));
        let timed_out = o.timeout;
        out.case(&lhs, &format!("{}-sampled", sc.class()), || outcome_str(&o, &expected));
        if timed_out { b.timeouts += 1; return; }
    }
}

/// one forced schedule (replay)
fn explore_forced(out: &mut Out, sc: &dyn Scenario, b: &mut Budget, sched: &[usize]) {
    let expected = sc.expected();
    let o = run_once(sc.setup(), sc.gal(), b.watchdog, &mut |d, en| {
        if d < sched.len() && en.contains(&sched[d]) { Some(sched[d]) } else { None } });
    let lhs = format!("{} {}", sc.lhs(), fl(&sched.iter().map(|&x| x as u64).collect::<Vec<_>>()));
    out.case(&lhs, "replay", || if o.schedule.len() == sched.len() && !o.timeout { outcome_str(&o, &expected) } else { "ERR:other".to_string() });
}

// ------------------------------------------------------------------------------------------------ scenarios

fn bytes_u64(v: &[u64]) -> Vec<u8> { v.iter().flat_map(|x| x.to_le_bytes()).collect() }
fn plain_bytes(p: &Plaintext) -> Vec<u8> {
    let mut b = bytes_u64(p.data());
    b.extend_from_slice(&bytes_u64(&p.parms_id()[..]));
    b.extend_from_slice(&p.scale().to_bits().to_le_bytes());
    b.extend_from_slice(&(p.coeff_count() as u64).to_le_bytes());
    b
}
fn cipher_bytes(c: &Ciphertext) -> Vec<u8> {
    let mut b = bytes_u64(c.data());
    b.extend_from_slice(&bytes_u64(&c.parms_id()[..]));
    b.extend_from_slice(&(c.size() as u64).to_le_bytes());
    b.push(c.is_ntt_form() as u8);
    b.extend_from_slice(&c.scale().to_bits().to_le_bytes());
    b.extend_from_slice(&c.correction_factor().to_le_bytes());
    b
}

/// everything that is built once per scheme
pub struct World {
    pub name: &'static str,
    pub parms: EncryptionParameters,
    pub context: Arc<HeContext>,
    pub keygen: Arc<KeyGenerator>,
    pub sk: SecretKey,
    pub evaluator: Arc<Evaluator>,
    pub cts: Vec<Ciphertext>,          // cts[k] has size k + 2 (k = 0..=3): products without relinearization
    pub n: usize,
}

fn make_world(name: &'static str, scheme: SchemeType, n: usize, bits: Vec<usize>, plain_bits: usize, deep: bool, r: &mut Rng) -> World {
    let mut parms = EncryptionParameters::new(scheme).set_poly_modulus_degree(n).set_coeff_modulus(&CoeffModulus::create(n, bits));
    if scheme != SchemeType::CKKS { parms = parms.set_plain_modulus(&PlainModulus::batching(n, plain_bits)); }
    let context = HeContext::new(parms.clone(), true, SecurityLevel::None);
    let keygen = KeyGenerator::new(context.clone());
    let sk = keygen.secret_key().clone();
    let encryptor = Encryptor::new(context.clone()).set_public_key(keygen.create_public_key(false)).set_secret_key(sk.clone());
    let evaluator = Evaluator::new(context.clone());
    let fresh = |r: &mut Rng| -> Ciphertext {
        if scheme == SchemeType::CKKS {
            let enc = CKKSEncoder::new(context.clone());
            let v: Vec<f64> = (0..n).map(|_| (r.below(7) as f64) - 3.0).collect();
            encryptor.encrypt_new(&enc.encode_f64_polynomial_new(&v, None, 16.0))
        } else {
            let enc = BatchEncoder::new(context.clone());
            let t = parms.plain_modulus().value();
            let v: Vec<u64> = (0..n).map(|_| r.below(t)).collect();
            encryptor.encrypt_new(&enc.encode_new(&v))
        }
    };
    // sizes 2..5: a, a*b, (a*b)*(c*d) would be 5; keep operands of equal size where possible: 3 = 2x2, 5 = 3x3, 4 = 3x2
    let a = fresh(r); let b = fresh(r); let c = fresh(r); let d = fresh(r);
    let cts = if deep {
        let ab = evaluator.multiply_new(&a, &b);
        let cd = evaluator.multiply_new(&c, &d);
        let abcd = evaluator.multiply_new(&ab, &cd);
        // size 4: (a*b)*c for CKKS; BFV multiplication of operands of unequal size is defective on this tree
        // (DESIGN.md §7, property C02: it panics), so the BFV size-4 ciphertext is the size-5 one cut to 4 polynomials
        // (decryption is defined for any valid ciphertext data)
        let abc = if scheme == SchemeType::CKKS { evaluator.multiply_new(&ab, &c) } else {
            let mut t = abcd.clone(); t.resize(&context, &abcd.parms_id().clone(), 4); t };
        vec![a, ab, abc, abcd]
    } else { vec![a] };
    for (k, ct) in cts.iter().enumerate() { assert_eq!(ct.size(), k + 2); }
    World { name, parms, context, keygen: Arc::new(keygen), sk, evaluator: Arc::new(evaluator), cts, n }
}

/// concurrent `Decryptor::decrypt` of ciphertexts of sizes want+1 on one shared Decryptor
struct DecScenario<'a> { w: &'a World, n0: usize, wants: Vec<usize> }
impl<'a> DecScenario<'a> {
    fn fresh_decryptor(&self) -> Decryptor {
        let d = Decryptor::new(self.w.context.clone(), self.w.sk.clone());
        if self.n0 > 1 { let _ = d.decrypt_new(&self.w.cts[self.n0 - 1]); } // pre-grow sequentially (no scheduler on this thread)
        assert_eq!(d.verif_sk_array_powers(), self.n0);
        d
    }
}
impl<'a> Scenario for DecScenario<'a> {
    fn lhs(&self) -> String { format!("skcache dec_{} {} {}", self.w.name, self.n0, fl(&self.wants.iter().map(|&x| x as u64).collect::<Vec<_>>())) }
    fn gal(&self) -> bool { false }
    fn class(&self) -> String {
        let grow = self.wants.iter().filter(|&&w| w > self.n0).count();
        format!("{}dec-{}-T{}-grow{}", if grow == 0 { "trivial-" } else { "" }, self.w.name, self.wants.len(), grow)
    }
    fn threads(&self) -> usize { self.wants.len() }
    fn setup(&self) -> Setup {
        let d = Arc::new(self.fresh_decryptor());
        let d0 = d.clone();
        let jobs = self.wants.iter().map(|&w| {
            let d = d.clone(); let ct = self.w.cts[w - 1].clone();
            Job { run: Box::new(move || plain_bytes(&d.decrypt_new(&ct))) }
        }).collect();
        Setup { observe: Box::new(move || d0.verif_sk_array_powers().to_string()), jobs }
    }
    fn expected(&self) -> Vec<Vec<u8>> {
        let d = self.fresh_decryptor();
        self.wants.iter().map(|&w| plain_bytes(&d.decrypt_new(&self.w.cts[w - 1]))).collect()
    }
}

/// concurrent relinearization-key generation (`generate_rlk(count)`, want = count + 1) on one shared KeyGenerator.
/// Key generation is randomized: a result is "the sequential result" when the keys relinearize a ciphertext of
/// size want+1 to one that decrypts to the same plaintext bytes as the unrelinearized ciphertext.
struct KgScenario<'a> { w: &'a World, n0: usize, wants: Vec<usize> }
impl<'a> KgScenario<'a> {
    fn fresh_keygen(&self) -> KeyGenerator {
        let kg = KeyGenerator::from_sk(self.w.context.clone(), self.w.sk.clone());
        if self.n0 > 1 { let _ = kg.verif_generate_rlk(self.n0 - 1, false); }
        assert_eq!(kg.verif_sk_array_powers(), self.n0);
        kg
    }
}
impl<'a> Scenario for KgScenario<'a> {
    fn lhs(&self) -> String { format!("skcache kg_{} {} {}", self.w.name, self.n0, fl(&self.wants.iter().map(|&x| x as u64).collect::<Vec<_>>())) }
    fn gal(&self) -> bool { false }
    fn class(&self) -> String {
        let grow = self.wants.iter().filter(|&&w| w > self.n0).count();
        format!("{}kg-{}-T{}-grow{}", if grow == 0 { "trivial-" } else { "" }, self.w.name, self.wants.len(), grow)
    }
    fn threads(&self) -> usize { self.wants.len() }
    fn setup(&self) -> Setup {
        let kg = Arc::new(self.fresh_keygen());
        let kg0 = kg.clone();
        let jobs = self.wants.iter().map(|&w| {
            let kg = kg.clone(); let ct = self.w.cts[w - 1].clone(); let ev = self.w.evaluator.clone();
            let ctx = self.w.context.clone(); let sk = self.w.sk.clone();
            Job { run: Box::new(move || {
                let rlk = kg.verif_generate_rlk(w - 1, false);
                detach_scheduler();
                // judged after the last yield point (still this thread's last step): functional validity of the keys
                let relin = ev.relinearize_new(&ct, &rlk);
                let d = Decryptor::new(ctx, sk);
                let ok = relin.size() == 2 && plain_bytes(&d.decrypt_new(&relin)) == plain_bytes(&d.decrypt_new(&ct));
                if ok { b"valid".to_vec() } else { b"INVALID".to_vec() }
            }) }
        }).collect();
        Setup { observe: Box::new(move || kg0.verif_sk_array_powers().to_string()), jobs }
    }
    fn expected(&self) -> Vec<Vec<u8>> { self.wants.iter().map(|_| b"valid".to_vec()).collect() }
}

/// concurrent operations on the Galois table cache of one shared context: `rot` = `Evaluator::apply_galois` on an
/// NTT-form ciphertext (two `apply_ntt` per data modulus), `kgal` = `KeyGenerator::create_galois_keys_from_elts`
/// (one `apply_ntt` per key modulus).
struct GalScenario<'a> { w: &'a World, direct: bool, keygen_op: bool, pre: Vec<usize>, elts: Vec<usize>, gk: Arc<GaloisKeys>, ct: Ciphertext }
impl<'a> GalScenario<'a> {
    fn calls_per_op(&self) -> usize {
        if self.direct { 1 } else if self.keygen_op { self.w.context.key_context_data().unwrap().parms().coeff_modulus().len() }
        else { 2 * self.w.context.first_context_data().unwrap().parms().coeff_modulus().len() }
    }
    fn fresh_context(&self) -> Arc<HeContext> {
        let c = HeContext::new(self.w.parms.clone(), true, SecurityLevel::None);
        let kd = c.key_context_data().unwrap();
        let tool = kd.verif_galois_tool();
        for &i in &self.pre { // prefill sequentially
            let x = vec![0u64; self.w.n]; let mut y = vec![0u64; self.w.n];
            tool.apply_ntt(&x, 2 * i + 1, &mut y);
        }
        c
    }
}
fn filled_str(c: &HeContext) -> String {
    let f = c.key_context_data().unwrap().verif_galois_tool().verif_filled_tables();
    if f.is_empty() { "_".to_string() } else { f.iter().map(|x| x.to_string()).collect::<Vec<_>>().join("+") }
}
impl<'a> Scenario for GalScenario<'a> {
    fn lhs(&self) -> String {
        let k = self.calls_per_op();
        let progs: Vec<Vec<u64>> = self.elts.iter().map(|&e| vec![((e - 1) / 2) as u64; k]).collect();
        format!("galcache {}_{} {} {} {}", if self.direct { "ntt" } else if self.keygen_op { "kgal" } else { "rot" }, self.w.name, self.w.n,
            fl(&self.pre.iter().map(|&x| x as u64).collect::<Vec<_>>()), fl2(&progs))
    }
    fn gal(&self) -> bool { true }
    fn class(&self) -> String {
        let same = self.elts.iter().collect::<HashSet<_>>().len() < self.elts.len();
        format!("{}-{}-T{}-{}{}", if self.direct { "ntt" } else if self.keygen_op { "kgal" } else { "rot" }, self.w.name, self.elts.len(), if same { "same-elt" } else { "distinct-elts" },
            if self.pre.is_empty() { "" } else { "-prefilled" })
    }
    fn threads(&self) -> usize { self.elts.len() }
    fn setup(&self) -> Setup {
        let c = self.fresh_context();
        let c0 = c.clone();
        let jobs: Vec<Job> = if self.direct {
            // `GaloisTool::apply_ntt` itself (crate-internal; every rotation / Galois key generation goes through it)
            self.elts.iter().map(|&e| {
                let c = c.clone(); let n = self.w.n;
                Job { run: Box::new(move || {
                    let x: Vec<u64> = (0..n as u64).map(|i| 1000 + i).collect(); let mut y = vec![0u64; n];
                    c.key_context_data().unwrap().verif_galois_tool().apply_ntt(&x, e, &mut y);
                    bytes_u64(&y)
                }) }
            }).collect()
        } else if self.keygen_op {
            let kg = Arc::new(KeyGenerator::from_sk(c.clone(), self.w.sk.clone()));
            self.elts.iter().map(|&e| {
                let kg = kg.clone(); let ct = self.ct.clone(); let c = c.clone(); let sk = self.w.sk.clone();
                Job { run: Box::new(move || {
                    let gk = kg.create_galois_keys_from_elts(&[e], false);
                    detach_scheduler();
                    let ev = Evaluator::new(c.clone());
                    let d = Decryptor::new(c, sk);
                    plain_bytes(&d.decrypt_new(&ev.apply_galois_new(&ct, e, &gk)))
                }) }
            }).collect()
        } else {
            let ev = Arc::new(Evaluator::new(c.clone()));
            self.elts.iter().map(|&e| {
                let ev = ev.clone(); let ct = self.ct.clone(); let gk = self.gk.clone();
                Job { run: Box::new(move || cipher_bytes(&ev.apply_galois_new(&ct, e, &gk))) }
            }).collect()
        };
        Setup { observe: Box::new(move || filled_str(&c0)), jobs }
    }
    fn expected(&self) -> Vec<Vec<u8>> {
        let c = self.fresh_context();
        let ev = Evaluator::new(c.clone());
        if self.direct {
            let n = self.w.n;
            self.elts.iter().map(|&e| {
                let x: Vec<u64> = (0..n as u64).map(|i| 1000 + i).collect(); let mut y = vec![0u64; n];
                c.key_context_data().unwrap().verif_galois_tool().apply_ntt(&x, e, &mut y);
                bytes_u64(&y)
            }).collect()
        } else if self.keygen_op {
            let d = Decryptor::new(c.clone(), self.w.sk.clone());
            self.elts.iter().map(|&e| plain_bytes(&d.decrypt_new(&ev.apply_galois_new(&self.ct, e, &self.gk)))).collect()
        } else {
            self.elts.iter().map(|&e| cipher_bytes(&ev.apply_galois_new(&self.ct, e, &self.gk))).collect()
        }
    }
}

// ------------------------------------------------------------------------------------------------ driver

fn tuples(k: usize, lo: usize, hi: usize, sorted: bool) -> Vec<Vec<usize>> {
    let mut res = vec![vec![]];
    for _ in 0..k {
        let mut next = vec![];
        for t in &res { for v in lo..=hi { if !sorted || t.last().map_or(true, |&l| l <= v) { let mut u: Vec<usize> = t.clone(); u.push(v); next.push(u); } } }
        res = next;
    }
    res
}

fn parse_list(s: &str) -> Vec<usize> { if s == "-" { vec![] } else { s.split(',').map(|x| x.parse().unwrap_or(0)).collect() } }

pub fn run(out: &mut Out, thorough: bool, seed: u64, extra: &[String]) {
    // a panic of the harness itself (not of a scheduled library call) must be visible
    let r = std::panic::catch_unwind(std::panic::AssertUnwindSafe(|| run_inner(out, thorough, seed, extra)));
    if r.is_err() {
        let m = LAST_PANIC.with(|p| p.borrow().clone());
        eprintln!("c17 harness panicked outside a scheduled call: {}", m);
        out.flush();
        std::process::exit(3);
    }
}

/// Free-running threads (no scheduler installed: the OS interleaves, also INSIDE lock regions, which the token scheduler never does): several
/// threads share one evaluator and apply Galois automorphisms to one NTT-form plaintext — first use of many different elements while other
/// threads keep reading a cached one.  Every result must be byte for byte the sequential one; no thread may panic.  Nondeterministic coverage,
/// deterministic verdict (the sequential bytes are unique), so it cannot raise an alarm on correct code.
fn free_running(out: &mut Out, thorough: bool) {
    use std::sync::atomic::{AtomicBool, AtomicUsize, Ordering};
    for round in 0..(if thorough { 8 } else { 3 }) {
        let n = if round % 2 == 0 { 1024usize } else { 256 };
        *crate::util::CURRENT.lock().unwrap() = Some((format!("free_running galois_plain n={} round={} (eight threads on one Evaluator)", n, round), std::time::Instant::now() + std::time::Duration::from_secs(60)));
        let verdict = std::panic::catch_unwind(|| -> Result<usize, String> {
            let mk = || { let p = EncryptionParameters::new(SchemeType::CKKS).set_poly_modulus_degree(n).set_coeff_modulus(&CoeffModulus::create(n, vec![40, 40, 40])); HeContext::new(p, true, SecurityLevel::None) };
            let ctx_seq = mk(); let ev_seq = Evaluator::new(ctx_seq.clone());
            let enc = CKKSEncoder::new(ctx_seq.clone());
            let values: Vec<f64> = (0..n).map(|i| ((i * 37 + 11) % 1000) as f64 - 500.0).collect();
            let plain = enc.encode_f64_polynomial_new(&values, None, (1u64 << 20) as f64);
            let elts: Vec<usize> = (1..n).map(|k| 2 * k + 1).collect();
            let reference: Vec<Vec<u64>> = elts.iter().map(|&e| ev_seq.apply_galois_plain_new(&plain, e).data().clone()).collect();
            let ctx = mk(); let ev = Evaluator::new(ctx.clone());
            if ev.apply_galois_plain_new(&plain, elts[0]).data() != &reference[0] { return Err("sequential warm-up differs".into()); }
            let (stop, bad, done) = (AtomicBool::new(false), AtomicUsize::new(0), AtomicUsize::new(0));
            let workers = 6usize;
            let panicked = std::thread::scope(|s| {
                let mut hs = vec![];
                for _ in 0..2 { hs.push(s.spawn(|| { while !stop.load(Ordering::Relaxed) { if ev.apply_galois_plain_new(&plain, elts[0]).data() != &reference[0] { bad.fetch_add(1, Ordering::Relaxed); } } })); }
                let mut ws = vec![];
                for w in 0..workers { let (ev, plain, elts, reference, bad, done) = (&ev, &plain, &elts, &reference, &bad, &done);
                    ws.push(s.spawn(move || { let m = elts.len(); for j in 0..m { let i = (j * (2 * w + 1) + w * 97) % m; if ev.apply_galois_plain_new(plain, elts[i]).data() != &reference[i] { bad.fetch_add(1, Ordering::Relaxed); } } done.fetch_add(1, Ordering::Relaxed); })); }
                let mut p = 0; for h in ws { if h.join().is_err() { p += 1; } }
                stop.store(true, Ordering::Relaxed);
                for h in hs { if h.join().is_err() { p += 1; } }
                p });
            if panicked > 0 { return Err(format!("{} thread(s) panicked", panicked)); }
            Ok(bad.load(Ordering::Relaxed)) });
        match verdict {
            Ok(Ok(0)) => out.raw(&format!("!OK free_running galois_plain n={} round={} # free-running", n, round)),
            Ok(Ok(b)) => out.raw(&format!("!FAIL free_running galois_plain n={} round={} :: {} concurrent results differ from the sequential bytes # free-running", n, round, b)),
            Ok(Err(m)) => out.raw(&format!("!FAIL free_running galois_plain n={} round={} :: {} # free-running", n, round, m)),
            Err(_) => out.raw(&format!("!FAIL free_running galois_plain n={} round={} :: the run panicked # free-running", n, round)),
        }
        *crate::util::CURRENT.lock().unwrap() = None;
    }
}

/// Free-running threads on one shared Decryptor: ciphertexts of very different sizes (the cache of secret-key powers is extended by several
/// powers at once while another thread extends it by fewer), followed by sizes in between and above; every decryption must be byte for byte
/// the one a fresh single-threaded decryptor returns, and no thread may panic.
fn free_running_decryptor(out: &mut Out, thorough: bool) {
    let n = 32usize;
    let built = std::panic::catch_unwind(|| {
        let p = EncryptionParameters::new(SchemeType::BFV).set_poly_modulus_degree(n).set_coeff_modulus(&CoeffModulus::create(n, vec![50, 50, 50])).set_plain_modulus(&PlainModulus::batching(n, 9));
        let ctx = HeContext::new(p, false, SecurityLevel::None);
        let kg = KeyGenerator::new(ctx.clone());
        let enc = Encryptor::new(ctx.clone()).set_secret_key(kg.secret_key().clone());
        let ev = Evaluator::new(ctx.clone());
        let mut pl = Plaintext::new(); pl.resize(n); for (i, x) in pl.data_mut().iter_mut().enumerate() { *x = (i as u64 * 7 + 3) % 257; }
        let mut base = Ciphertext::new(); enc.encrypt_symmetric(&pl, &mut base); let base = if base.contains_seed() { base.expand_seed(&ctx) } else { base };
        let mut cts = vec![base.clone()];                       // sizes 2, 3, ..., 14
        for _ in 0..12 { let last = cts.last().unwrap().clone(); cts.push(ev.multiply_new(&last, &base)); }
        (ctx, kg, cts) });
    let (ctx, kg, cts) = match built { Ok(x) => x, Err(_) => { out.raw("!FAIL free_running decryptor setup :: building ciphertexts of sizes 2..14 panicked # free-running"); return; } };
    let reference: Vec<Vec<u64>> = cts.iter().map(|c| Decryptor::new(ctx.clone(), kg.secret_key().clone()).decrypt_new(c).data().clone()).collect();
    let rounds = if thorough { 2000 } else { 300 };
    let (mut bad, mut panics) = (0usize, 0usize);
    for round in 0..rounds {
        let dec = Decryptor::new(ctx.clone(), kg.secret_key().clone());      // fresh cache every round
        let (big, small) = (10 + round % 3, 2 + round % 4);                   // indices into cts: sizes 12..14 against 4..7
        // (scoped threads: a thread that deadlocks would block this function for ever — the process watchdog of util.rs turns a round that does
        // not return into a `!FAIL … non-termination` line and ends the run; found with a seeded self-deadlock under the write lock)
        *crate::util::CURRENT.lock().unwrap() = Some((format!("free_running decryptor mixed-sizes round={} sizes={},{},{} (three threads on one fresh Decryptor)", round, big + 2, small + 2, small + 3), std::time::Instant::now() + std::time::Duration::from_secs(30)));
        let r = std::thread::scope(|s| {
            let hs: Vec<_> = [big, small, small + 1].into_iter().map(|i| { let (dec, cts, reference) = (&dec, &cts, &reference);
                s.spawn(move || dec.decrypt_new(&cts[i]).data() == &reference[i]) }).collect();
            hs.into_iter().map(|h| h.join()).collect::<Vec<_>>() });
        for x in r { match x { Ok(true) => {}, Ok(false) => bad += 1, Err(_) => panics += 1 } }
        // afterwards, sequentially: every size (in particular the ones between and above the two concurrent requests)
        for i in 0..cts.len() { match std::panic::catch_unwind(std::panic::AssertUnwindSafe(|| dec.decrypt_new(&cts[i]).data() == &reference[i])) { Ok(true) => {}, Ok(false) => bad += 1, Err(_) => panics += 1 } }
        *crate::util::CURRENT.lock().unwrap() = None;
    }
    if bad == 0 && panics == 0 { out.raw(&format!("!OK free_running decryptor mixed-sizes rounds={} # free-running", rounds)); }
    else { out.raw(&format!("!FAIL free_running decryptor mixed-sizes rounds={} :: {} decryptions differ from the sequential result, {} panicked # free-running", rounds, bad, panics)); }
}

fn run_inner(out: &mut Out, thorough: bool, seed: u64, extra: &[String]) {
    if extra.first().map(|s| s == "freerun").unwrap_or(false) { free_running(out, thorough); free_running_decryptor(out, thorough); return; }
    let mut r = Rng::new(seed);
    let mut b = Budget { watchdog: Duration::from_secs(if thorough { 10 } else { 5 }), timeouts: 0 };
    let part = |p: &str| extra.is_empty() || extra[0] == "--case" || extra.iter().any(|e| e == p);
    let n = 32usize;
    // worlds (deterministic from the seed except for the library's own key/encryption randomness, which no output depends on)
    let bfv = make_world("bfv", SchemeType::BFV, n, vec![50, 50, 50], 9, true, &mut r);
    let ckks = make_world("ckks", SchemeType::CKKS, n, vec![40, 40, 40], 0, true, &mut r);
    let ng = if thorough { 16 } else { 8 };
    let grot = make_world("ckks", SchemeType::CKKS, ng, vec![30, 30], 0, false, &mut r);
    let gbfv = make_world("bfv", SchemeType::BFV, ng, vec![40, 40], 8, false, &mut r);
    let all_elts: Vec<usize> = (0..ng).map(|i| 2 * i + 1).collect();
    let gk_rot = Arc::new(grot.keygen.create_galois_keys_from_elts(&all_elts, false));
    let gk_bfv = Arc::new(gbfv.keygen.create_galois_keys_from_elts(&all_elts, false));

    if extra.len() >= 2 && extra[0] == "--case" {
        // replay: `skcache obj n0 wants sched` / `galcache obj n pre progs sched`
        let tok: Vec<&str> = extra[1].split(' ').collect();
        if tok.len() == 5 && tok[0] == "skcache" {
            let n0: usize = tok[2].parse().unwrap_or(1); let wants = parse_list(tok[3]); let sched = parse_list(tok[4]);
            match tok[1] {
                "dec_bfv" => explore_forced(out, &DecScenario { w: &bfv, n0, wants }, &mut b, &sched),
                "dec_ckks" => explore_forced(out, &DecScenario { w: &ckks, n0, wants }, &mut b, &sched),
                _ => explore_forced(out, &KgScenario { w: &bfv, n0, wants }, &mut b, &sched),
            }
        } else if tok.len() == 6 && tok[0] == "galcache" {
            let pre = parse_list(tok[3]); let sched = parse_list(tok[5]);
            let elts: Vec<usize> = tok[4].split(';').map(|p| 2 * parse_list(p).first().copied().unwrap_or(0) + 1).collect();
            if tok[1].starts_with("ntt") { explore_forced(out, &GalScenario { w: &grot, direct: true, keygen_op: false, pre, elts, gk: gk_rot.clone(), ct: grot.cts[0].clone() }, &mut b, &sched) }
            else if tok[1].starts_with("kgal") { explore_forced(out, &GalScenario { w: &gbfv, direct: false, keygen_op: true, pre, elts, gk: gk_bfv.clone(), ct: gbfv.cts[0].clone() }, &mut b, &sched) }
            else { explore_forced(out, &GalScenario { w: &grot, direct: false, keygen_op: false, pre, elts, gk: gk_rot.clone(), ct: grot.cts[0].clone() }, &mut b, &sched) }
        }
        return;
    }

    // ---- secret-key power caches
    if part("sk2") {
        // two threads, every ordered pair of requested powers 1..4 (ciphertext sizes 2..5), fresh and pre-grown caches
        for n0 in 1..=2usize {
            for wants in tuples(2, 1, 4, false) {
                for w in [&bfv, &ckks] { explore_all(out, &DecScenario { w, n0, wants: wants.clone() }, &mut b); if b.timeouts > 2 { return; } }
                if wants.iter().all(|&x| x >= 2) { explore_all(out, &KgScenario { w: &bfv, n0, wants: wants.clone() }, &mut b); }
                if b.timeouts > 2 { return; }
            }
        }
    }
    if part("sk3") {
        if thorough {
            // three threads exhaustively; thread ids are symmetric, so sorted triples cover all combinations
            for wants in tuples(3, 1, 4, true) {
                explore_all(out, &DecScenario { w: &ckks, n0: 1, wants: wants.clone() }, &mut b);
                if b.timeouts > 2 { return; }
            }
            for wants in tuples(3, 2, 3, true) {
                explore_all(out, &DecScenario { w: &bfv, n0: 1, wants: wants.clone() }, &mut b);
                explore_all(out, &KgScenario { w: &bfv, n0: 1, wants: wants.clone() }, &mut b);
                if b.timeouts > 2 { return; }
            }
        } else {
            for wants in [vec![2, 3, 4], vec![4, 2, 3], vec![3, 3, 2]] {
                explore_sampled(out, &DecScenario { w: &ckks, n0: 1, wants: wants.clone() }, &mut b, &mut r, 60);
                explore_sampled(out, &KgScenario { w: &bfv, n0: 1, wants: wants.clone() }, &mut b, &mut r, 20);
            }
        }
    }
    if part("sk4") {
        let cnt = if thorough { 1500 } else { 40 };
        for _ in 0..(if thorough { 12 } else { 3 }) {
            let wants: Vec<usize> = (0..4).map(|_| r.range(1, 4) as usize).collect();
            explore_sampled(out, &DecScenario { w: if r.chance(1, 2) { &ckks } else { &bfv }, n0: 1, wants: wants.clone() }, &mut b, &mut r, cnt);
            if b.timeouts > 2 { return; }
        }
    }
    // ---- Galois table cache
    if part("gal2") {
        for &e0 in &all_elts { for &e1 in &all_elts {
            explore_all(out, &GalScenario { w: &grot, direct: false, keygen_op: false, pre: vec![], elts: vec![e0, e1], gk: gk_rot.clone(), ct: grot.cts[0].clone() }, &mut b);
            if b.timeouts > 2 { return; }
        } }
        for &e0 in &all_elts { for &e1 in &all_elts {
            explore_all(out, &GalScenario { w: &grot, direct: true, keygen_op: false, pre: vec![], elts: vec![e0, e1], gk: gk_rot.clone(), ct: grot.cts[0].clone() }, &mut b);
            if b.timeouts > 2 { return; }
        } }
        // prefilled table of one of the two elements; key generation racing key generation
        let few: Vec<usize> = if thorough { all_elts.clone() } else { vec![1, 3, 2 * ng - 1] };
        for &e0 in &few { for &e1 in &few {
            explore_all(out, &GalScenario { w: &grot, direct: false, keygen_op: false, pre: vec![(e0 - 1) / 2], elts: vec![e0, e1], gk: gk_rot.clone(), ct: grot.cts[0].clone() }, &mut b);
            explore_all(out, &GalScenario { w: &gbfv, direct: false, keygen_op: true, pre: vec![], elts: vec![e0, e1], gk: gk_bfv.clone(), ct: gbfv.cts[0].clone() }, &mut b);
            if b.timeouts > 2 { return; }
        } }
    }
    if part("gal3") {
        // three threads exhaustively on `apply_ntt` itself (one call each); thread ids are symmetric: sorted triples
        let sub: Vec<usize> = if thorough { vec![1, 3, 5, 7, 2 * ng - 1] } else { vec![3, 2 * ng - 1] };
        for i0 in 0..sub.len() { for i1 in i0..sub.len() { for i2 in i1..sub.len() {
            let es = vec![sub[i0], sub[i1], sub[i2]];
            explore_all(out, &GalScenario { w: &grot, direct: true, keygen_op: false, pre: vec![], elts: es.clone(), gk: gk_rot.clone(), ct: grot.cts[0].clone() }, &mut b);
            if thorough && i0 == i1 { explore_all(out, &GalScenario { w: &grot, direct: true, keygen_op: false, pre: vec![(sub[i2] - 1) / 2], elts: es, gk: gk_rot.clone(), ct: grot.cts[0].clone() }, &mut b); }
            if b.timeouts > 2 { return; }
        } } }
        let cnt = if thorough { 2000 } else { 60 };
        for k in 3..=4usize {
            for _ in 0..(if thorough { 6 } else { 2 }) {
                let es: Vec<usize> = (0..k).map(|_| *r.pick(&all_elts)).collect();
                explore_sampled(out, &GalScenario { w: &grot, direct: false, keygen_op: false, pre: vec![], elts: es, gk: gk_rot.clone(), ct: grot.cts[0].clone() }, &mut b, &mut r, cnt);
                if b.timeouts > 2 { return; }
            }
        }
    }
}
