//! C06: results stay valid; the in-place / destination / returning forms agree bit for bit and leave read-only operands
//! untouched; invalid, seeded, level-mismatched or wrongly represented operands are refused.
use crate::ctx::*;
use crate::c02::*;
use crate::rng::Rng;
use crate::util::*;
use heathcliff::*;

fn ct_eq(a: &Ciphertext, b: &Ciphertext) -> bool {
    a.data() == b.data() && a.parms_id() == b.parms_id() && a.size() == b.size() && a.is_ntt_form() == b.is_ntt_form()
        && a.scale().to_bits() == b.scale().to_bits() && a.correction_factor() == b.correction_factor()
}
/// the plaintext operand at the level of `a` (CKKS plaintexts are level-bound; BFV/BGV coefficient plaintexts are level-free)
fn plain_at(s: &Setup, plain: &Plaintext, a: &Ciphertext) -> Plaintext {
    if s.scheme != SchemeType::CKKS { return plain.clone(); }
    let mut p = plain.clone(); if p.parms_id() != a.parms_id() { if std::panic::catch_unwind(std::panic::AssertUnwindSafe(|| { let pid = *a.parms_id(); s.evaluator.mod_switch_plain_to_inplace(&mut p, &pid) })).is_err() { } } p
}
fn refused<F: FnOnce() + std::panic::UnwindSafe>(f: F) -> bool { std::panic::catch_unwind(f).is_err() }

fn valid_line(out: &mut Out, s: &Setup, ct: &Ciphertext, kind: &str, cls: &str) {
    let v = std::panic::catch_unwind(std::panic::AssertUnwindSafe(|| ct.is_valid_for(&s.ctx))).unwrap_or(false);
    out.case(&format!("valid {} {} {}", s.ct_case(ct), ct.scale().to_bits(), kind), cls, || (v as u8).to_string());
}

/// the three forms of a unary / binary / plaintext operation on identical operands
fn forms(out: &mut Out, name: &str, cls: &str, a: &Ciphertext, other: Option<&Ciphertext>,
         newf: &dyn Fn(&Ciphertext) -> Ciphertext, destf: &dyn Fn(&Ciphertext, &mut Ciphertext), inpf: &dyn Fn(&mut Ciphertext)) {
    let a0 = a.clone(); let o0 = other.cloned();
    let r = std::panic::catch_unwind(std::panic::AssertUnwindSafe(|| {
        let r1 = newf(a);
        // destination pre-filled with an unrelated object: the result must not depend on its old content
        let mut r2 = other.cloned().unwrap_or_else(Ciphertext::new); destf(a, &mut r2);
        let mut r3 = a.clone(); inpf(&mut r3);
        (r1, r2, r3) }));
    match r {
        Err(_) => out.raw(&format!("!NOTE forms {} refused on these operands", name)),
        Ok((r1, r2, r3)) => {
            let same = ct_eq(&r1, &r2) && ct_eq(&r1, &r3);
            let untouched = ct_eq(a, &a0) && other.map(|o| ct_eq(o, o0.as_ref().unwrap())).unwrap_or(true);
            if same && untouched { out.raw(&format!("!OK forms {} # {}", name, cls)); }
            else { out.raw(&format!("!FAIL forms {} :: forms-agree={} operands-untouched={} # {}", name, same, untouched, cls)); }
        }
    }
}

/// the three forms of a PLAINTEXT-valued operation (value-returning, destination pre-filled with an unrelated plaintext, in place)
fn plain_forms(out: &mut Out, name: &str, cls: &str, p: &Plaintext, dirty: &Plaintext,
               newf: &dyn Fn(&Plaintext) -> Plaintext, destf: &dyn Fn(&Plaintext, &mut Plaintext), inpf: &dyn Fn(&mut Plaintext)) {
    let pt_eq = |a: &Plaintext, b: &Plaintext| a.data() == b.data() && a.parms_id() == b.parms_id() && a.coeff_count() == b.coeff_count() && a.scale().to_bits() == b.scale().to_bits() && a.is_ntt_form() == b.is_ntt_form();
    let p0 = p.clone();
    let r = std::panic::catch_unwind(std::panic::AssertUnwindSafe(|| { let r1 = newf(p); let mut r2 = dirty.clone(); destf(p, &mut r2); let mut r3 = p.clone(); inpf(&mut r3); (r1, r2, r3) }));
    match r {
        Err(_) => out.raw(&format!("!NOTE forms {} refused on these operands", name)),
        Ok((r1, r2, r3)) => {
            let same = pt_eq(&r1, &r2) && pt_eq(&r1, &r3); let untouched = pt_eq(p, &p0);
            if same && untouched { out.raw(&format!("!OK forms {} # {}", name, cls)); }
            else { out.raw(&format!("!FAIL forms {} :: forms-agree={} operands-untouched={} # {}", name, same, untouched, cls)); }
        }
    }
}

/// forms that the table in `run` lacked (API census): `transform_plain_to_ntt` at every level, `apply_galois_plain` (coefficient-form, NTT-form and CKKS
/// plaintexts), `add_many` (destination / value-returning) on operands of mixed sizes, `multiply_many` (one form only: the result must not depend on the
/// old content of the destination), `apply_keyswitching`; read-only operands untouched
fn census_forms(out: &mut Out, s: &Setup, cls: &str, c1: &Ciphertext, c2: &Ciphertext, prod: &Ciphertext, plain: &Plaintext, relin: &RelinKeys) {
    let ev = &s.evaluator; let n = s.n;
    if s.scheme == SchemeType::CKKS {
        let other = { let enc = CKKSEncoder::new(s.ctx.clone()); enc.encode_f64_single_new(2.5, Some(*s.levels().last().unwrap()), 16.0) };
        for g in [3usize, 2 * n - 1] { plain_forms(out, &format!("apply_galois_plain-ckks-g{}", g), cls, plain, &other, &|p| ev.apply_galois_plain_new(p, g), &|p, d| ev.apply_galois_plain(p, g, d), &|p| ev.apply_galois_plain_inplace(p, g)); }
    } else {
        // (full-length plaintext: GaloisTool::apply indexes one past a SHORT operand — recorded in DESIGN.md §7, outside every property)
        let pfull = { let mut p = plain.clone(); p.resize(n); p };
        let mut prev: Plaintext = plain.clone();
        for (li, pid) in s.levels().iter().enumerate() {
            plain_forms(out, &format!("transform_plain_to_ntt@{}", li), cls, &pfull, &prev, &|p| ev.transform_plain_to_ntt_new(p, pid), &|p, d| ev.transform_plain_to_ntt(p, pid, d), &|p| ev.transform_plain_to_ntt_inplace(p, pid));
            plain_forms(out, &format!("transform_plain_to_ntt-short@{}", li), cls, plain, &prev, &|p| ev.transform_plain_to_ntt_new(p, pid), &|p, d| ev.transform_plain_to_ntt(p, pid, d), &|p| ev.transform_plain_to_ntt_inplace(p, pid));
            if let Ok(pn) = std::panic::catch_unwind(std::panic::AssertUnwindSafe(|| ev.transform_plain_to_ntt_new(&pfull, pid))) {
                for g in [3usize, 2 * n - 1] { plain_forms(out, &format!("apply_galois_plain-ntt@{}-g{}", li, g), cls, &pn, &pfull, &|p| ev.apply_galois_plain_new(p, g), &|p, d| ev.apply_galois_plain(p, g, d), &|p| ev.apply_galois_plain_inplace(p, g)); }
                prev = pn;
            }
        }
        for g in [3usize, 2 * n - 1] { plain_forms(out, &format!("apply_galois_plain-g{}", g), cls, &pfull, &prev, &|p| ev.apply_galois_plain_new(p, g), &|p, d| ev.apply_galois_plain(p, g, d), &|p| ev.apply_galois_plain_inplace(p, g)); }
    }
    // add_many: 1..4 operands, sizes 2 and 3 mixed, destination = an unrelated ciphertext of the other size
    // (CKKS: the product carries the squared scale and may not be added to fresh ciphertexts — sizes are not mixed there)
    let pool = if s.scheme == SchemeType::CKKS { [c1.clone(), c2.clone(), c2.clone(), c1.clone()] } else { [c1.clone(), prod.clone(), c2.clone(), c1.clone()] };
    for k in 1..=4usize {
        let ops: Vec<Ciphertext> = pool[..k].to_vec(); let before = ops.clone();
        let r = std::panic::catch_unwind(std::panic::AssertUnwindSafe(|| { let a = ev.add_many_new(&ops); let mut d = if k % 2 == 0 { c2.clone() } else { prod.clone() }; ev.add_many(&ops, &mut d); let mut f = Ciphertext::new(); ev.add_many(&ops, &mut f); (a, d, f) }));
        match r {
            Err(_) => out.raw(&format!("!NOTE forms add_many-k{} refused on these operands", k)),
            Ok((a, d, f)) => { let same = ct_eq(&a, &d) && ct_eq(&a, &f); let untouched = ops.iter().zip(&before).all(|(x, y)| ct_eq(x, y));
                if same && untouched { out.raw(&format!("!OK forms add_many-k{} # {}", k, cls)); } else { out.raw(&format!("!FAIL forms add_many-k{} :: forms-agree={} operands-untouched={} # {}", k, same, untouched, cls)); } }
        }
    }
    if s.scheme != SchemeType::CKKS {
        for k in 1..=2usize {
            let ops: Vec<Ciphertext> = [c1.clone(), c2.clone()][..k].to_vec(); let before = ops.clone();
            let r = std::panic::catch_unwind(std::panic::AssertUnwindSafe(|| { let mut f = Ciphertext::new(); ev.multiply_many(&ops, relin, &mut f); let mut d = prod.clone(); ev.multiply_many(&ops, relin, &mut d); (f, d) }));
            match r {
                Err(_) => out.raw(&format!("!NOTE forms multiply_many-k{} refused on these operands", k)),
                Ok((f, d)) => { let same = ct_eq(&f, &d); let untouched = ops.iter().zip(&before).all(|(x, y)| ct_eq(x, y));
                    if same && untouched { out.raw(&format!("!OK forms multiply_many-k{} # {}", k, cls)); } else { out.raw(&format!("!FAIL forms multiply_many-k{} :: fresh-and-used-destination-agree={} operands-untouched={} # {}", k, same, untouched, cls)); } }
            }
        }
    }
    // key switching from another secret key to this generator's key (no randomness is drawn: all forms bit-identical)
    if s.ctx.using_keyswitching() {
        let made = std::panic::catch_unwind(std::panic::AssertUnwindSafe(|| {
            let kg2 = KeyGenerator::new(s.ctx.clone());
            let ksk = s.keygen.create_keyswitching_key(kg2.secret_key(), false);
            let enc2 = Encryptor::new(s.ctx.clone()).set_secret_key(kg2.secret_key().clone());
            let mut ct2 = Ciphertext::new(); enc2.encrypt_zero_symmetric(&mut ct2);
            (ksk, ct2) }));
        if let Ok((ksk, ct2)) = made {
            forms(out, "apply_keyswitching", cls, &ct2, Some(prod), &|a| ev.apply_keyswitching_new(a, &ksk), &|a, d| ev.apply_keyswitching(a, &ksk, d), &|a| ev.apply_keyswitching_inplace(a, &ksk));
            if let Ok(lower) = std::panic::catch_unwind(std::panic::AssertUnwindSafe(|| ev.mod_switch_to_next_new(&ct2))) {
                forms(out, "apply_keyswitching@1", cls, &lower, Some(c2), &|a| ev.apply_keyswitching_new(a, &ksk), &|a, d| ev.apply_keyswitching(a, &ksk, d), &|a| ev.apply_keyswitching_inplace(a, &ksk)); }
        }
    }
}

/// Larger degrees with 59/60-bit primes (lazy reductions inside the transforms only leave unreduced words when the values are close to
/// the word size and enough butterfly layers accumulate): every result of every operation must still be valid (canonical residues, consistent
/// metadata) — decided by `is_valid_for` and by acceptance of the result as an operand; the case lines of such ciphertexts would be too long
fn large_degree_validity(out: &mut Out, r: &mut Rng, thorough: bool) {
    for n in if thorough { vec![64usize, 256, 1024] } else { vec![64usize, 512] } {
        let qs = match pick_primes(r, n, &[60, 59, 60, 60]) { Some(v) => v, None => continue };
        for scheme in [SchemeType::BFV, SchemeType::BGV, SchemeType::CKKS] {
            let t = if scheme == SchemeType::CKKS { 0 } else { pick_plain(r, n, 0, &qs) };
            let s = match make(scheme, n, &qs, t, true, None) { Some(s) => s, None => continue };
            let ev = &s.evaluator; let sn = scheme_name(scheme);
            let cls = format!("large-n{}-{}", n, sn);
            let res = std::panic::catch_unwind(std::panic::AssertUnwindSafe(|| -> Vec<(String, Ciphertext)> {
                let relin = s.keygen.create_relin_keys(false);
                let (c1, c2, plain): (Ciphertext, Ciphertext, Plaintext) = if scheme == SchemeType::CKKS {
                    let enc = CKKSEncoder::new(s.ctx.clone());
                    let v1: Vec<num_complex::Complex64> = (0..n / 2).map(|i| num_complex::Complex64::new((i % 7) as f64 + 0.5, -((i % 5) as f64))).collect();
                    let p = enc.encode_c64_array_new(&v1, None, 2f64.powi(30));
                    (s.encryptor.encrypt_new(&p), { let mut c = Ciphertext::new(); s.encryptor.encrypt_symmetric(&p, &mut c); c }, p)
                } else { (s.encryptor.encrypt_new(&plain_of(&rand_msg(r, n, t))), s.encryptor.encrypt_new(&plain_of(&rand_msg(r, n, t))), plain_of(&rand_msg(r, n, t))) };
                let prod = ev.multiply_new(&c1, &c2);
                let mut v: Vec<(String, Ciphertext)> = vec![("negate".into(), ev.negate_new(&c1)), ("add".into(), ev.add_new(&c1, &c2)), ("sub".into(), ev.sub_new(&c1, &c2)),
                    ("multiply".into(), prod.clone()), ("square".into(), ev.square_new(&c1)), ("relinearize".into(), ev.relinearize_new(&prod, &relin)),
                    ("mod_switch".into(), ev.mod_switch_to_next_new(&c1)), ("mod_switch_prod".into(), ev.mod_switch_to_next_new(&prod)),
                    ("add_plain".into(), ev.add_plain_new(&c1, &plain)), ("sub_plain".into(), ev.sub_plain_new(&c1, &plain)), ("multiply_plain".into(), ev.multiply_plain_new(&c1, &plain))];
                if scheme == SchemeType::CKKS { v.push(("rescale".into(), ev.rescale_to_next_new(&prod))); }
                else {
                    let (cc, cn) = if c1.is_ntt_form() { (ev.transform_from_ntt_new(&c1), c1.clone()) } else { (c1.clone(), ev.transform_to_ntt_new(&c1)) };
                    v.push(("to_or_from_ntt".into(), if c1.is_ntt_form() { cc.clone() } else { cn.clone() }));
                    for rep in 0..3 {
                        let pc = plain_of(&rand_msg(r, n, t));
                        let pn = { let mut x = pc.clone(); ev.transform_plain_to_ntt_inplace(&mut x, c1.parms_id()); x };
                        for (a, ct_) in [("coef", &cc), ("ntt", &cn)] { for (b, pt_) in [("coef", &pc), ("ntt", &pn)] {
                            if let Ok(x) = std::panic::catch_unwind(std::panic::AssertUnwindSafe(|| ev.multiply_plain_new(ct_, pt_))) { v.push((format!("multiply_plain-ct{}-pt{}-{}", a, b, rep), x)); } } }
                    }
                }
                v }));
            let results = match res { Ok(v) => v, Err(_) => { let m = LAST_PANIC.with(|p| p.borrow().clone()); out.raw(&format!("!FAIL valid_large {} :: an operation on valid operands panicked: {} # {}", cls, m.replace('\n', " "), cls)); continue } };
            for (nm, c) in &results {
                let valid = std::panic::catch_unwind(std::panic::AssertUnwindSafe(|| c.is_valid_for(&s.ctx))).unwrap_or(false);
                let usable = !refused(std::panic::AssertUnwindSafe(|| { let _ = ev.negate_new(c); }));
                if valid && usable { out.raw(&format!("!OK valid_large {} {} # {}", cls, nm, cls)); }
                else { out.raw(&format!("!FAIL valid_large {} {} :: the result of a public operation on valid inputs is not valid for the context (is_valid_for={}, accepted by negate={}) # {}", cls, nm, valid, usable, cls)); }
            }
        }
    }
}

pub fn run(out: &mut Out, thorough: bool, seed: u64, _extra: &[String]) {
    let mut r = Rng::new(seed);
    { let mut r2 = Rng::new(seed ^ 0x1a26e); large_degree_validity(out, &mut r2, thorough); }
    let programs = if thorough { 120 } else { 12 };
    for pi in 0..programs {
        let scheme = [SchemeType::BFV, SchemeType::BGV, SchemeType::CKKS][pi % 3];
        let lg = r.range(2, 4) as usize; let n = 1usize << lg;
        let fam1 = scheme != SchemeType::CKKS && (pi / 3) % 2 == 1;     // family with a prime that is 1 mod t (three data levels)
        let bits: Vec<usize> = (0..(if fam1 { 4 } else { r.range(3, 4) as usize })).map(|_| *r.pick(&[40usize, 50, 59, 60])).collect();
        let qs = match pick_primes(&mut r, n, &bits) { Some(v) => v, None => continue };
        let t = if scheme == SchemeType::CKKS { 0 } else { pick_plain(&mut r, n, 0, &qs) };
        // every other BFV/BGV parameter set has a middle prime that is 1 modulo t (dropping it leaves the BGV correction factor unchanged)
        let mut qs = qs;
        // (the prime dropped SECOND: the source then already carries a correction factor != 1 while q^-1 mod t = 1 for this step)
        if fam1 && qs.len() >= 4 { if let Some(p) = prime_one_mod(n, t, 50, &qs) { let mid = qs.len() - 3; qs[mid] = p; } }
        // every fourth BFV/BGV program runs on the shared parameter families of C02 (a coefficient prime below the plain modulus, wide plain moduli)
        let s = if scheme != SchemeType::CKKS && pi % 4 == 2 { match (0..20).find_map(|_| setup(&mut r, thorough, scheme).filter(|s| s.n <= 16 && s.levels().len() >= 2 && s.levels().iter().any(|p| s.level_qs(p).iter().any(|&q| q < s.t)))) { Some(s) => s, None => continue } }
                else { match make(scheme, n, &qs, t, true, None) { Some(s) => s, None => continue } };
        let (n, t) = (s.n, s.t);
        let ev = &s.evaluator;
        let relin = s.keygen.create_relin_keys(false);
        let gal = s.keygen.create_galois_keys(false);
        let sn = scheme_name(scheme);
        let batching = s.ctx.first_context_data().unwrap().qualifiers().using_batching;
        // ---------- (a) validity of everything a program produces, (b) API forms on the same operands
        let (c1, c2, plain): (Ciphertext, Ciphertext, Plaintext) = if scheme == SchemeType::CKKS {
            let enc = CKKSEncoder::new(s.ctx.clone());
            let v1: Vec<num_complex::Complex64> = (0..n / 2).map(|i| num_complex::Complex64::new(i as f64 + 0.5, -(i as f64))).collect();
            let p = enc.encode_c64_array_new(&v1, None, 2f64.powi(30));
            (s.encryptor.encrypt_new(&p), { let mut c = Ciphertext::new(); s.encryptor.encrypt_symmetric(&p, &mut c); c }, p)
        } else {
            let m1 = rand_msg(&mut r, n, t); let m2 = rand_msg(&mut r, n, t);
            (s.encryptor.encrypt_new(&plain_of(&m1)), { let mut c = Ciphertext::new(); s.encryptor.encrypt_symmetric(&plain_of(&m2), &mut c); c }, plain_of(&rand_msg(&mut r, n, t)))
        };
        valid_line(out, &s, &c1, "r", &format!("{}-fresh-pk", sn)); valid_line(out, &s, &c2, "r", &format!("{}-fresh-sk", sn));
        let prod = ev.multiply_new(&c1, &c2);
        let mut results: Vec<(String, Ciphertext)> = vec![
            ("negate".into(), ev.negate_new(&c1)), ("add".into(), ev.add_new(&c1, &c2)), ("sub".into(), ev.sub_new(&c1, &c2)),
            ("multiply".into(), prod.clone()), ("square".into(), ev.square_new(&c1)), ("add3x2".into(), ev.add_new(&prod, &ev.relinearize_new(&prod, &relin))), ("sub2x3".into(), ev.sub_new(&ev.relinearize_new(&prod, &relin), &prod)),
            ("relinearize".into(), ev.relinearize_new(&prod, &relin)), ("mod_switch".into(), ev.mod_switch_to_next_new(&c1)),
            ("multiply_plain".into(), ev.multiply_plain_new(&c1, &plain)), ("add_plain".into(), ev.add_plain_new(&c1, &plain)), ("sub_plain".into(), ev.sub_plain_new(&c1, &plain)),
        ];
        if scheme == SchemeType::CKKS {
            results.push(("rescale".into(), ev.rescale_to_next_new(&prod)));
            results.push(("rotate_vector".into(), ev.rotate_vector_new(&c1, 1, &gal)));
            results.push(("conjugate".into(), ev.complex_conjugate_new(&c1, &gal)));
        } else {
            if batching { results.push(("rotate_rows".into(), ev.rotate_rows_new(&c1, 1, &gal))); results.push(("rotate_columns".into(), ev.rotate_columns_new(&c1, &gal))); }
            results.push(("mod_switch_prod".into(), ev.mod_switch_to_next_new(&prod)));
        }
        if scheme == SchemeType::BFV { let nt = ev.transform_to_ntt_new(&c1); results.push(("from_ntt".into(), ev.transform_from_ntt_new(&nt))); results.push(("to_ntt".into(), nt)); }
        // multiply_plain converts between representations by itself: every combination (ciphertext coefficient / NTT form x plaintext
        // coefficient / NTT form) must return a VALID ciphertext (canonical residues), several times (the reductions inside are data dependent)
        if scheme != SchemeType::CKKS {
            for rep2 in 0..3 {
                let m = rand_msg(&mut r, n, t); let pc = plain_of(&m);
                let cbase = if rep2 == 0 { c1.clone() } else { s.encryptor.encrypt_new(&plain_of(&rand_msg(&mut r, n, t))) };
                let pn = { let mut x = pc.clone(); ev.transform_plain_to_ntt_inplace(&mut x, cbase.parms_id()); x };
                let (cc, cn) = if cbase.is_ntt_form() { (ev.transform_from_ntt_new(&cbase), cbase.clone()) } else { (cbase.clone(), ev.transform_to_ntt_new(&cbase)) };
                for (cn_, ct_) in [("coef", &cc), ("ntt", &cn)] { for (pn_, pt_) in [("coef", &pc), ("ntt", &pn)] {
                    match std::panic::catch_unwind(std::panic::AssertUnwindSafe(|| ev.multiply_plain_new(ct_, pt_))) {
                        Ok(res) => results.push((format!("multiply_plain-ct{}-pt{}-{}", cn_, pn_, rep2), res)),
                        Err(_) => out.raw(&format!("!NOTE multiply_plain {} ct-{} x plain-{} refused", sn, cn_, pn_)),
                    }
                } }
            }
        }
        for (nm, c) in &results { valid_line(out, &s, c, "r", &format!("{}-{}", sn, nm)); }
        // every result is accepted by a subsequent operation
        for (nm, c) in &results { if refused(std::panic::AssertUnwindSafe(|| { let _ = ev.negate_new(c); })) { out.raw(&format!("!FAIL accepted_by_next {} {} :: a result of a public operation was refused by negate # next", sn, nm)); } else { out.raw(&format!("!OK accepted_by_next {} {} # next", sn, nm)); } }
        // ---------- growth to the maximal size: unrelinearized products of every size 2..=16 stay valid and usable,
        // and a product that would exceed the maximum is refused
        if pi < 6 {
            let base = if scheme == SchemeType::CKKS { let enc = CKKSEncoder::new(s.ctx.clone()); s.encryptor.encrypt_new(&enc.encode_f64_single_new(1.5, None, 4.0)) } else { c1.clone() };
            let mut acc = base.clone();
            while acc.size() < 16 {
                let nx = match std::panic::catch_unwind(std::panic::AssertUnwindSafe(|| ev.multiply_new(&acc, &base))) { Ok(c) => c, Err(_) => { out.raw(&format!("!FAIL grow {} size {}x2 :: product of valid operands within the size limit refused # grow", sn, acc.size())); break } };
                valid_line(out, &s, &nx, "r", &format!("{}-grow-size{}", sn, nx.size()));
                if refused(std::panic::AssertUnwindSafe(|| { let _ = ev.negate_new(&nx); let _ = ev.add_new(&nx, &nx); let _ = s.decryptor.decrypt_new(&nx); })) { out.raw(&format!("!FAIL accepted_by_next {} grow-size{} :: a result of a public operation was refused by negate/add/decrypt # next", sn, nx.size())); } else { out.raw(&format!("!OK accepted_by_next {} grow-size{} # next", sn, nx.size())); }
                acc = nx;
            }
            if acc.size() == 16 {
                if refused(std::panic::AssertUnwindSafe(|| { let _ = ev.multiply_new(&acc, &base); })) { out.raw(&format!("!OK refuse {} size-overflow multiply # refuse-size", sn)); } else { out.raw(&format!("!FAIL refuse {} size-overflow multiply :: a product of size 17 was computed # refuse-size", sn)); }
                // 9 x 8 lands exactly on the maximum
                let mut a9 = base.clone(); while a9.size() < 9 { a9 = ev.multiply_new(&a9, &base); }
                let mut a8 = base.clone(); while a8.size() < 8 { a8 = ev.multiply_new(&a8, &base); }
                if let Ok(c) = std::panic::catch_unwind(std::panic::AssertUnwindSafe(|| ev.multiply_new(&a9, &a8))) { valid_line(out, &s, &c, "r", &format!("{}-grow-9x8", sn)); } else { out.raw(&format!("!FAIL grow {} 9x8 :: product of size 16 refused # grow", sn)); }
            }
        }
        let cls = format!("{}-forms", sn);
        forms(out, "negate", &cls, &c1, None, &|a| ev.negate_new(a), &|a, d| ev.negate(a, d), &|a| ev.negate_inplace(a));
        forms(out, "add", &cls, &c1, Some(&c2), &|a| ev.add_new(a, &c2), &|a, d| ev.add(a, &c2, d), &|a| ev.add_inplace(a, &c2));
        let two = ev.relinearize_new(&prod, &relin);
        forms(out, "sub", &cls, &two, Some(&prod), &|a| ev.sub_new(a, &prod), &|a, d| ev.sub(a, &prod, d), &|a| ev.sub_inplace(a, &prod));
        forms(out, "multiply", &cls, &c1, Some(&c2), &|a| ev.multiply_new(a, &c2), &|a, d| ev.multiply(a, &c2, d), &|a| ev.multiply_inplace(a, &c2));
        forms(out, "square", &cls, &c1, Some(&c2), &|a| ev.square_new(a), &|a, d| ev.square(a, d), &|a| ev.square_inplace(a));
        forms(out, "relinearize", &cls, &prod, Some(&c2), &|a| ev.relinearize_new(a, &relin), &|a, d| ev.relinearize(a, &relin, d), &|a| ev.relinearize_inplace(a, &relin));
        forms(out, "mod_switch_to_next", &cls, &c1, Some(&c2), &|a| ev.mod_switch_to_next_new(a), &|a, d| ev.mod_switch_to_next(a, d), &|a| ev.mod_switch_to_next_inplace(a));
        // the same switching forms one and two levels down: source correction factor != 1 (BGV), destination pre-filled with a top-level object
        { let mut cur = c1.clone(); let mut depth = 1;
          while s.ctx.get_context_data(cur.parms_id()).unwrap().next_context_data().is_some() && depth <= 2 {
              cur = ev.mod_switch_to_next_new(&cur);
              if s.ctx.get_context_data(cur.parms_id()).unwrap().next_context_data().is_none() { break; }
              let c = cur.clone();
              forms(out, &format!("mod_switch_to_next@{}", depth), &cls, &c, Some(&c2), &|a| ev.mod_switch_to_next_new(a), &|a, d| ev.mod_switch_to_next(a, d), &|a| ev.mod_switch_to_next_inplace(a));
              forms(out, &format!("negate@{}", depth), &cls, &c, Some(&c2), &|a| ev.negate_new(a), &|a, d| ev.negate(a, d), &|a| ev.negate_inplace(a));
              forms(out, &format!("add_plain@{}", depth), &cls, &c, Some(&c2), &|a| ev.add_plain_new(a, &plain_at(&s, &plain, a)), &|a, d| ev.add_plain(a, &plain_at(&s, &plain, a), d), &|a| ev.add_plain_inplace(a, &plain_at(&s, &plain, a)));
              // binary forms on operands of DIFFERENT sizes and (BGV) different correction factors, in both operand orders:
              // a switched ciphertext (factor c) against its own unrelinearised square (size 3, factor c^2)
              if let Ok(sq) = std::panic::catch_unwind(std::panic::AssertUnwindSafe(|| ev.multiply_new(&c, &c))) {
                  forms(out, &format!("add-2+3@{}", depth), &cls, &c, Some(&sq), &|a| ev.add_new(a, &sq), &|a, d| ev.add(a, &sq, d), &|a| ev.add_inplace(a, &sq));
                  forms(out, &format!("add-3+2@{}", depth), &cls, &sq, Some(&c), &|a| ev.add_new(a, &c), &|a, d| ev.add(a, &c, d), &|a| ev.add_inplace(a, &c));
                  forms(out, &format!("sub-2-3@{}", depth), &cls, &c, Some(&sq), &|a| ev.sub_new(a, &sq), &|a, d| ev.sub(a, &sq, d), &|a| ev.sub_inplace(a, &sq));
                  forms(out, &format!("sub-3-2@{}", depth), &cls, &sq, Some(&c), &|a| ev.sub_new(a, &c), &|a, d| ev.sub(a, &c, d), &|a| ev.sub_inplace(a, &c));
                  if scheme != SchemeType::CKKS {
                      forms(out, &format!("multiply-2x3@{}", depth), &cls, &c, Some(&sq), &|a| ev.multiply_new(a, &sq), &|a, d| ev.multiply(a, &sq, d), &|a| ev.multiply_inplace(a, &sq));
                      forms(out, &format!("multiply-3x2@{}", depth), &cls, &sq, Some(&c), &|a| ev.multiply_new(a, &c), &|a, d| ev.multiply(a, &c, d), &|a| ev.multiply_inplace(a, &c));
                  }
              }
              valid_line(out, &s, &c, "r", &format!("{}-switched{}", sn, depth));
              depth += 1;
          } }
        forms(out, "add_plain", &cls, &c1, Some(&c2), &|a| ev.add_plain_new(a, &plain), &|a, d| ev.add_plain(a, &plain, d), &|a| ev.add_plain_inplace(a, &plain));
        forms(out, "sub_plain", &cls, &c1, Some(&c2), &|a| ev.sub_plain_new(a, &plain), &|a, d| ev.sub_plain(a, &plain, d), &|a| ev.sub_plain_inplace(a, &plain));
        forms(out, "multiply_plain", &cls, &c1, Some(&c2), &|a| ev.multiply_plain_new(a, &plain), &|a, d| ev.multiply_plain(a, &plain, d), &|a| ev.multiply_plain_inplace(a, &plain));
        if scheme == SchemeType::CKKS {
            forms(out, "rescale_to_next", &cls, &prod, Some(&c2), &|a| ev.rescale_to_next_new(a), &|a, d| ev.rescale_to_next(a, d), &|a| ev.rescale_to_next_inplace(a));
            forms(out, "rotate_vector", &cls, &c1, Some(&c2), &|a| ev.rotate_vector_new(a, 1, &gal), &|a, d| ev.rotate_vector(a, 1, &gal, d), &|a| ev.rotate_vector_inplace(a, 1, &gal));
            forms(out, "complex_conjugate", &cls, &c1, Some(&c2), &|a| ev.complex_conjugate_new(a, &gal), &|a, d| ev.complex_conjugate(a, &gal, d), &|a| ev.complex_conjugate_inplace(a, &gal));
        } else if batching {
            forms(out, "rotate_rows", &cls, &c1, Some(&c2), &|a| ev.rotate_rows_new(a, 1, &gal), &|a, d| ev.rotate_rows(a, 1, &gal, d), &|a| ev.rotate_rows_inplace(a, 1, &gal));
            forms(out, "rotate_columns", &cls, &c1, Some(&c2), &|a| ev.rotate_columns_new(a, &gal), &|a, d| ev.rotate_columns(a, &gal, d), &|a| ev.rotate_columns_inplace(a, &gal));
            forms(out, "apply_galois", &cls, &c1, Some(&c2), &|a| ev.apply_galois_new(a, 3, &gal), &|a, d| ev.apply_galois(a, 3, &gal, d), &|a| ev.apply_galois_inplace(a, 3, &gal));
        }
        if scheme == SchemeType::BFV {
            let nt = ev.transform_to_ntt_new(&c1);
            forms(out, "transform_to_ntt", &cls, &c1, Some(&c2), &|a| ev.transform_to_ntt_new(a), &|a, d| ev.transform_to_ntt(a, d), &|a| ev.transform_to_ntt_inplace(a));
            forms(out, "transform_from_ntt", &cls, &nt, Some(&c2), &|a| ev.transform_from_ntt_new(a), &|a, d| ev.transform_from_ntt(a, d), &|a| ev.transform_from_ntt_inplace(a));
        }
        census_forms(out, &s, &cls, &c1, &c2, &prod, &plain, &relin);
        // ---------- (c) single-field corruptions of an otherwise valid operand must be refused by every operation
        let levels = s.levels();
        let q0 = s.level_qs(c1.parms_id())[0];
        let mut bad: Vec<(String, Ciphertext)> = vec![];
        { let mut c = c1.clone(); c.data_mut()[0] = q0; bad.push(("residue=q".into(), c)); }
        { let mut c = c1.clone(); let k = c.data().len() - 1; let ql = *s.level_qs(c1.parms_id()).last().unwrap(); c.data_mut()[k] = ql + 5; bad.push(("last-residue>q".into(), c)); }
        { let mut c = c1.clone(); c.set_parms_id([0xdead_beef, 1, 2, 3]); bad.push(("foreign-parms-id".into(), c)); }
        { let mut c = c1.clone(); c.set_parms_id(*s.ctx.key_parms_id()); bad.push(("key-level-parms-id".into(), c)); }
        if scheme == SchemeType::CKKS { let mut c = c1.clone(); c.set_scale(0.0); bad.push(("scale=0".into(), c)); let mut c = c1.clone(); c.set_correction_factor(2); bad.push(("cf!=1".into(), c)); }
        else { let mut c = c1.clone(); c.set_scale(2.0); bad.push(("scale!=1".into(), c)); }
        if scheme == SchemeType::BGV { let mut c = c1.clone(); c.set_correction_factor(0); bad.push(("cf=0".into(), c)); let mut c = c1.clone(); c.set_correction_factor(t + 1); bad.push(("cf>t".into(), c));
            // the boundary: a factor EQUAL to t is ≡ 0 mod t, a non-unit; valid range is 1 ≤ cf ≤ t − 1
            let mut c = c1.clone(); c.set_correction_factor(t); bad.push(("cf=t".into(), c)); }
        if scheme == SchemeType::BFV { let mut c = c1.clone(); c.set_correction_factor(3); bad.push(("cf!=1".into(), c)); }
        { let mut c = c1.clone(); c.data_mut().pop(); bad.push(("buffer-short".into(), c)); }
        for (what, b) in &bad {
            valid_line(out, &s, &{ let mut v = b.clone(); if v.data().len() != c1.data().len() { v = c1.clone(); v.data_mut()[0] = q0; } if s.ctx.get_context_data(v.parms_id()).map(|d| d.chain_index() <= s.ctx.first_context_data().unwrap().chain_index()).unwrap_or(false) { v } else { let mut w = c1.clone(); w.data_mut()[0] = q0; w } }, "c", &format!("{}-corrupt", sn));
            // (a truncated buffer makes the checker itself index out of range: a panic, i.e. still a refusal)
            if std::panic::catch_unwind(std::panic::AssertUnwindSafe(|| b.is_valid_for(&s.ctx))).unwrap_or(false) { out.raw(&format!("!FAIL is_valid_for {} {} :: corrupted object reported valid # corrupt", sn, what)); }
            let ops: Vec<(&str, Box<dyn Fn() + '_>)> = vec![
                ("negate", Box::new(|| { let _ = ev.negate_new(b); })), ("add-left", Box::new(|| { let _ = ev.add_new(b, &c2); })), ("add-right", Box::new(|| { let _ = ev.add_new(&c2, b); })),
                ("sub-right", Box::new(|| { let _ = ev.sub_new(&c2, b); })), ("multiply-left", Box::new(|| { let _ = ev.multiply_new(b, &c2); })), ("multiply-right", Box::new(|| { let _ = ev.multiply_new(&c2, b); })),
                ("square", Box::new(|| { let _ = ev.square_new(b); })), ("add_plain", Box::new(|| { let _ = ev.add_plain_new(b, &plain); })), ("multiply_plain", Box::new(|| { let _ = ev.multiply_plain_new(b, &plain); })),
                ("mod_switch_to_next", Box::new(|| { let _ = ev.mod_switch_to_next_new(b); })), ("decrypt", Box::new(|| { let _ = s.decryptor.decrypt_new(b); })),
                ("relinearize", Box::new(|| { let mut x = b.clone(); ev.relinearize_inplace(&mut x, &relin); })),
            ];
            for (opn, f) in ops {
                if refused(std::panic::AssertUnwindSafe(|| f())) { out.raw(&format!("!OK refuse {} {} {} # refuse-{}", sn, what, opn, what)); }
                else { out.raw(&format!("!FAIL refuse {} {} {} :: operation computed on an operand that is invalid for the context # refuse-{}", sn, what, opn, what)); }
            }
        }
        // ---------- (c') a WELL-FORMED ciphertext at the pure key level (all primes incl. the special one; what a public key or an encryption of
        // zero at the key level is) is not a valid evaluator / decryptor operand when the chain has data levels below it
        if s.ctx.key_parms_id() != s.ctx.first_parms_id() {
            let pkc = s.keygen.create_public_key(false).as_ciphertext().clone();
            let mut keyc: Vec<(&str, Ciphertext)> = vec![("public-key-as-ciphertext", pkc)];
            if let Ok(z) = std::panic::catch_unwind(std::panic::AssertUnwindSafe(|| s.encryptor.encrypt_zero_new_at(s.ctx.key_parms_id()))) { keyc.push(("encrypt-zero-at-key-level", z)); }
            for (what, b) in &keyc {
                if std::panic::catch_unwind(std::panic::AssertUnwindSafe(|| b.is_valid_for(&s.ctx))).unwrap_or(false) { out.raw(&format!("!FAIL is_valid_for {} {} :: key-level ciphertext reported valid as a ciphertext operand # keylevel", sn, what)); }
                else { out.raw(&format!("!OK is_valid_for {} {} refused # keylevel", sn, what)); }
                let ops: Vec<(&str, Box<dyn Fn() + '_>)> = vec![
                    ("negate", Box::new(|| { let _ = ev.negate_new(b); })), ("add", Box::new(|| { let _ = ev.add_new(b, b); })), ("sub", Box::new(|| { let _ = ev.sub_new(b, b); })),
                    ("multiply", Box::new(|| { let _ = ev.multiply_new(b, b); })), ("square", Box::new(|| { let _ = ev.square_new(b); })),
                    ("mod_switch_to_next", Box::new(|| { let _ = ev.mod_switch_to_next_new(b); })), ("decrypt", Box::new(|| { let _ = s.decryptor.decrypt_new(b); })),
                    ("transform", Box::new(|| { let _ = if b.is_ntt_form() { ev.transform_from_ntt_new(b) } else { ev.transform_to_ntt_new(b) }; })),
                ];
                for (opn, f) in ops {
                    if refused(std::panic::AssertUnwindSafe(|| f())) { out.raw(&format!("!OK refuse {} {} {} # refuse-keylevel", sn, what, opn)); }
                    else { out.raw(&format!("!FAIL refuse {} {} {} :: operation computed on a key-level ciphertext (invalid operand for the context) # refuse-keylevel", sn, what, opn)); }
                }
            }
        }
        // different levels, wrong representation, unexpanded seed
        if levels.len() >= 2 {
            let low = ev.mod_switch_to_next_new(&c1);
            for (opn, f) in [("add", Box::new(|| { let _ = ev.add_new(&low, &c2); }) as Box<dyn Fn() + '_>), ("sub", Box::new(|| { let _ = ev.sub_new(&c2, &low); })), ("multiply", Box::new(|| { let _ = ev.multiply_new(&low, &c2); }))] {
                if refused(std::panic::AssertUnwindSafe(|| f())) { out.raw(&format!("!OK refuse {} level-mismatch {} # refuse-level", sn, opn)); } else { out.raw(&format!("!FAIL refuse {} level-mismatch {} :: ciphertexts of different levels were combined # refuse-level", sn, opn)); }
            }
        }
        if scheme == SchemeType::BFV {
            let nt = ev.transform_to_ntt_new(&c1);
            for (opn, f) in [("multiply-ntt", Box::new(|| { let _ = ev.multiply_new(&nt, &nt); }) as Box<dyn Fn() + '_>), ("add-mixed", Box::new(|| { let _ = ev.add_new(&nt, &c2); })), ("add_plain-ntt", Box::new(|| { let _ = ev.add_plain_new(&nt, &plain); })),
                             ("to_ntt-twice", Box::new(|| { let _ = ev.transform_to_ntt_new(&nt); })), ("from_ntt-coef", Box::new(|| { let _ = ev.transform_from_ntt_new(&c1); })), ("decrypt-ntt", Box::new(|| { let _ = s.decryptor.decrypt_new(&nt); })), ("mod_switch-ntt", Box::new(|| { let _ = ev.mod_switch_to_next_new(&nt); }))] {
                if refused(std::panic::AssertUnwindSafe(|| f())) { out.raw(&format!("!OK refuse {} wrong-representation {} # refuse-repr", sn, opn)); } else { out.raw(&format!("!FAIL refuse {} wrong-representation {} :: operand in a representation the operation does not accept was computed on # refuse-repr", sn, opn)); }
            }
        }
        if scheme != SchemeType::BFV {
            // CKKS / BGV work in NTT form: a (valid) coefficient-form copy must be refused by every operation that needs NTT form, alone or mixed
            let cfm = ev.transform_from_ntt_new(&c1);
            // (multiply_plain accepts every combination of representations by design: it converts)
            for (opn, f) in [("multiply-coef-ntt", Box::new(|| { let _ = ev.multiply_new(&cfm, &c2); }) as Box<dyn Fn() + '_>), ("multiply-ntt-coef", Box::new(|| { let _ = ev.multiply_new(&c2, &cfm); })),
                             ("multiply-coef-coef", Box::new(|| { let _ = ev.multiply_new(&cfm, &cfm); })), ("square-coef", Box::new(|| { let _ = ev.square_new(&cfm); })),
                             ("multiply-inplace-ntt-coef", Box::new(|| { let mut x = c2.clone(); ev.multiply_inplace(&mut x, &cfm); })),
                             ("add-mixed", Box::new(|| { let _ = ev.add_new(&cfm, &c2); })), ("sub-mixed", Box::new(|| { let _ = ev.sub_new(&c2, &cfm); })),
                             ("mod_switch-coef", Box::new(|| { let _ = ev.mod_switch_to_next_new(&cfm); })),
                             ("decrypt-coef", Box::new(|| { let _ = s.decryptor.decrypt_new(&cfm); })), ("from_ntt-twice", Box::new(|| { let _ = ev.transform_from_ntt_new(&cfm); }))] {
                if refused(std::panic::AssertUnwindSafe(|| f())) { out.raw(&format!("!OK refuse {} wrong-representation {} # refuse-repr", sn, opn)); } else { out.raw(&format!("!FAIL refuse {} wrong-representation {} :: operand in a representation the operation does not accept was computed on # refuse-repr", sn, opn)); }
            }
            // the refused in-place call must leave its operand untouched
            { let mut x = c2.clone(); let _ = std::panic::catch_unwind(std::panic::AssertUnwindSafe(|| ev.multiply_inplace(&mut x, &cfm))); if !ct_eq(&x, &c2) { out.raw(&format!("!FAIL refuse {} wrong-representation multiply-inplace :: the refused operation modified its in-place operand # refuse-repr", sn)); } }
        }
        {
            let seeded = s.encryptor.encrypt_symmetric_new(&plain);
            if seeded.contains_seed() {
                for (opn, f) in [("decrypt", Box::new(|| { let _ = s.decryptor.decrypt_new(&seeded); }) as Box<dyn Fn() + '_>), ("negate", Box::new(|| { let _ = ev.negate_new(&seeded); })), ("add", Box::new(|| { let _ = ev.add_new(&seeded, &c2); })),
                                 ("multiply", Box::new(|| { let _ = ev.multiply_new(&c2, &seeded); })), ("multiply_plain", Box::new(|| { let _ = ev.multiply_plain_new(&seeded, &plain); })), ("mod_switch", Box::new(|| { let _ = ev.mod_switch_to_next_new(&seeded); }))] {
                    if refused(std::panic::AssertUnwindSafe(|| f())) { out.raw(&format!("!OK refuse {} unexpanded-seed {} # refuse-seed", sn, opn)); } else { out.raw(&format!("!FAIL refuse {} unexpanded-seed {} :: a still seed-compressed ciphertext was computed on # refuse-seed", sn, opn)); }
                }
            }
        }
        // corrupted plaintext operands
        if scheme != SchemeType::CKKS {
            let mut pb = plain.clone(); pb.data_mut()[0] = t;
            for (opn, f) in [("add_plain", Box::new(|| { let _ = ev.add_plain_new(&c1, &pb); }) as Box<dyn Fn() + '_>), ("multiply_plain", Box::new(|| { let _ = ev.multiply_plain_new(&c1, &pb); })), ("encrypt", Box::new(|| { let _ = s.encryptor.encrypt_new(&pb); }))] {
                if refused(std::panic::AssertUnwindSafe(|| f())) { out.raw(&format!("!OK refuse {} plain-coeff=t {} # refuse-plain", sn, opn)); } else { out.raw(&format!("!FAIL refuse {} plain-coeff=t {} :: plaintext with a coefficient >= t was accepted # refuse-plain", sn, opn)); }
            }
        }
    }
}
