//! C03: CKKS evaluation — every operation checked on the exact phases of operands and result (integer level),
//! scale bookkeeping by bit pattern, refusals, decoded slots against a complex shadow program.
use crate::ctx::*;
use crate::rng::Rng;
use crate::util::*;
use heathcliff::*;
use num_complex::Complex64;

/// `eb`: worst-case absolute slot error of `ct` against `v`, propagated through the program from the noise sources
/// (fresh encryption noise <= 21(2N+1) per coefficient — C01 `fresh_noise_bound`; encoder rounding 1/2 per coefficient; key-switch noise
/// `bks` — the bound of the C04 oracle; rescale rounding (1 + N + … + N^(size-1))/2), a coefficient error E giving a slot error <= N*E/scale
struct Item { ct: Ciphertext, v: Vec<Complex64>, eb: f64 }
fn vmag(v: &[Complex64]) -> f64 { v.iter().map(|x| x.norm()).fold(0.0, f64::max) }

fn plain_case(s: &Setup, p: &Plaintext, pid: &ParmsID) -> String {
    // a plaintext printed as a pseudo ciphertext case with ONE polynomial (NTT form)
    let n = s.n; let k = p.data().len() / n;
    let poly = (0..k).map(|c| fl(&p.data()[c * n..(c + 1) * n])).collect::<Vec<_>>().join(";");
    format!("{} {} 1 1 {}", s.head(pid), s.sk_str(), poly)
}

fn bits(ct: &Ciphertext) -> u64 { ct.scale().to_bits() }

pub fn run(out: &mut Out, thorough: bool, seed: u64, _extra: &[String]) {
    let mut r = Rng::new(seed);
    let programs = if thorough { 150 } else { 10 };
    for _pi in 0..programs {
        let lg = r.range(2, if thorough { 5 } else { 4 }) as usize; let n = 1usize << lg; let row = n / 2;
        let k = r.range(2, 6) as usize;
        let bits_v: Vec<usize> = (0..k).map(|_| *r.pick(&[30usize, 32, 36, 40, 45, 59])).collect();
        let qs = match pick_primes(&mut r, n, &bits_v) { Some(v) => v, None => continue };
        let s = match make(SchemeType::CKKS, n, &qs, 0, true, None) { Some(s) => s, None => continue };
        let ev = &s.evaluator;
        let enc = CKKSEncoder::new(s.ctx.clone());
        let relin = s.keygen.create_relin_keys(false);
        let p_special = *qs.last().unwrap();
        let sb = *r.pick(&[20i32, 25, 28]);
        let scale = 2f64.powi(sb);
        let nf = n as f64;
        let fresh_eb = nf * (21.0 * (2.0 * nf + 1.0) + 1.0) / scale;
        let qmax = *qs[..qs.len() - 1].iter().max().unwrap() as f64;
        let bks = (21.0 * nf * (qs.len() - 1) as f64 * (qmax / p_special as f64).ceil() + nf + 2.0) * (lg as f64 + 2.0);
        let mkv = |r: &mut Rng| -> Vec<Complex64> { (0..row).map(|_| match r.below(4) {
            0 => Complex64::new(0.0, ((r.below(33) as f64) - 16.0) / 4.0),          // purely imaginary
            1 => Complex64::new(-((r.below(17) as f64) / 2.0), 0.0),                // negative real
            _ => Complex64::new(((r.below(65) as f64) - 32.0) / 8.0, ((r.below(65) as f64) - 32.0) / 8.0) }).collect() };
        // (a first level too small for the values at this scale is a legitimate encoder refusal: skip the parameter set)
        let mut pool: Vec<Item> = match std::panic::catch_unwind(std::panic::AssertUnwindSafe(|| (0..3).map(|_| { let v = mkv(&mut r); Item { ct: s.encryptor.encrypt_new(&enc.encode_c64_array_new(&v, None, scale)), v, eb: fresh_eb } }).collect::<Vec<Item>>())) { Ok(p) => p, Err(_) => continue };
        let mut steps = 0; let mut tries = 0;
        while steps < (if thorough { 12 } else { 9 }) && tries < 80 {
            tries += 1;
            let ia = r.below(pool.len() as u64) as usize;
            let cands: Vec<usize> = (0..pool.len()).filter(|&j| pool[j].ct.parms_id() == pool[ia].ct.parms_id()).collect();
            let ib = cands[r.below(cands.len() as u64) as usize];
            let (a, b) = (&pool[ia], &pool[ib]);
            let same_scale = a.ct.scale().to_bits() == b.ct.scale().to_bits();
            let lvl = s.ctx.get_context_data(a.ct.parms_id()).unwrap().chain_index();
            let op = if pool[ia].ct.scale() >= 2f64.powi(38) && r.chance(2, 3) { 9 } else { r.below(10) };
            let total_bits = s.ctx.get_context_data(a.ct.parms_id()).unwrap().total_coeff_modulus_bit_count();
            let res: Option<(String, String, Item)> = std::panic::catch_unwind(std::panic::AssertUnwindSafe(|| -> Option<(String, String, Item)> { match op {
                0 => { let c = ev.negate_new(&a.ct); Some(("negate".into(), format!("{} {} {} | {} | {} | {}", bits(&a.ct), 0, bits(&c), s.ct_case(&a.ct), s.ct_case(&a.ct), s.ct_case(&c)), Item { ct: c, v: a.v.iter().map(|x| -x).collect(), eb: a.eb })) }
                1 | 2 => { if !same_scale { return None; } let sub = op == 2; let c = if sub { ev.sub_new(&a.ct, &b.ct) } else { ev.add_new(&a.ct, &b.ct) };
                    Some((if sub { "sub" } else { "add" }.into(), format!("{} {} {} | {} | {} | {}", bits(&a.ct), bits(&b.ct), bits(&c), s.ct_case(&a.ct), s.ct_case(&b.ct), s.ct_case(&c)),
                        Item { ct: c, v: a.v.iter().zip(&b.v).map(|(x, y)| if sub { x - y } else { x + y }).collect(), eb: a.eb + b.eb })) }
                3 | 4 => { if a.ct.size() + b.ct.size() - 1 > 4 { return None; }
                    let rs = a.ct.scale() * b.ct.scale(); if !(rs.log2() < total_bits as f64 - 1.0) { return None; }
                    let c = ev.multiply_new(&a.ct, &b.ct);
                    Some(("multiply".into(), format!("{} {} {} | {} | {} | {}", bits(&a.ct), bits(&b.ct), bits(&c), s.ct_case(&a.ct), s.ct_case(&b.ct), s.ct_case(&c)),
                        Item { ct: c, v: a.v.iter().zip(&b.v).map(|(x, y)| x * y).collect(), eb: vmag(&a.v) * b.eb + vmag(&b.v) * a.eb + a.eb * b.eb })) }
                5 => { if 2 * a.ct.size() - 1 > 4 { return None; } let rs = a.ct.scale() * a.ct.scale(); if !(rs.log2() < total_bits as f64 - 1.0) { return None; }
                    let c = ev.square_new(&a.ct);
                    Some(("square".into(), format!("{} {} {} | {} | {} | {}", bits(&a.ct), bits(&a.ct), bits(&c), s.ct_case(&a.ct), s.ct_case(&a.ct), s.ct_case(&c)), Item { ct: c, v: a.v.iter().map(|x| x * x).collect(), eb: 2.0 * vmag(&a.v) * a.eb + a.eb * a.eb })) }
                6 => { let pv = mkv(&mut r); let ps = 2f64.powi(*r.pick(&[10i32, 15, 20]));
                    let rs = a.ct.scale() * ps; if !(rs.log2() < total_bits as f64 - 1.0) { return None; }
                    let p = match std::panic::catch_unwind(std::panic::AssertUnwindSafe(|| enc.encode_c64_array_new(&pv, Some(*a.ct.parms_id()), ps))) { Ok(p) => p, Err(_) => return None };
                    let c = ev.multiply_plain_new(&a.ct, &p);
                    Some(("multiply_plain".into(), format!("{} {} {} | {} | {} | {}", bits(&a.ct), p.scale().to_bits(), bits(&c), s.ct_case(&a.ct), plain_case(&s, &p, a.ct.parms_id()), s.ct_case(&c)),
                        Item { ct: c, v: a.v.iter().zip(&pv).map(|(x, y)| x * y).collect(), eb: vmag(&pv) * a.eb + (vmag(&a.v) + a.eb) * (nf * 0.5 / ps) })) }
                7 => { let pv = mkv(&mut r); let p = match std::panic::catch_unwind(std::panic::AssertUnwindSafe(|| enc.encode_c64_array_new(&pv, Some(*a.ct.parms_id()), a.ct.scale()))) { Ok(p) => p, Err(_) => return None }; let sub = r.chance(1, 2);
                    let c = if sub { ev.sub_plain_new(&a.ct, &p) } else { ev.add_plain_new(&a.ct, &p) };
                    Some((if sub { "sub_plain" } else { "add_plain" }.into(), format!("{} {} {} | {} | {} | {}", bits(&a.ct), p.scale().to_bits(), bits(&c), s.ct_case(&a.ct), plain_case(&s, &p, a.ct.parms_id()), s.ct_case(&c)),
                        Item { ct: c, v: a.v.iter().zip(&pv).map(|(x, y)| if sub { x - y } else { x + y }).collect(), eb: a.eb + nf * 0.5 / a.ct.scale() })) }
                8 => { if a.ct.size() != 3 { return None; } let c = ev.relinearize_new(&a.ct, &relin);
                    Some(("relinearize".into(), format!("{} {} {} | {} | {} | {}", bits(&a.ct), p_special, bits(&c), s.ct_case(&a.ct), s.ct_case(&a.ct), s.ct_case(&c)), Item { eb: a.eb + nf * bks / c.scale(), ct: c, v: a.v.clone() })) }
                _ => { // rescale (checked by the C05 handler `ckks_switch`)
                    if lvl == 0 { return None; } let nb = (total_bits + (qs[lvl].leading_zeros() as usize)).saturating_sub(64);
                    if !((a.ct.scale() / qs[lvl] as f64).log2() < nb as f64 - 1.0) || a.ct.scale() / (qs[lvl] as f64) < 256.0 { return None; }
                    let c = ev.rescale_to_next_new(&a.ct);
                    Some(("rescale".into(), format!("ckks_switch rescale {} {} 1 {} | {}", bits(&a.ct), bits(&c), s.ct_case(&a.ct), s.ct_case(&c)), Item { eb: a.eb + nf * 0.5 * (0..a.ct.size()).map(|i| nf.powi(i as i32)).sum::<f64>() / c.scale(), ct: c, v: a.v.clone() })) }
            } })).unwrap_or_else(|_| { let m = LAST_PANIC.with(|p| p.borrow().clone()); out.raw(&format!("!FAIL ckks_step op{} :: operation on valid, compatible operands refused: {} # panic", op, m.replace('\n', " "))); None });
            let (name, line, item) = match res { Some(x) => x, None => continue };
            steps += 1;
            let cls = format!("{}-s{}-l{}", name, item.ct.size(), s.ctx.get_context_data(item.ct.parms_id()).unwrap().chain_index());
            if name == "relinearize" && n <= 16 {
                let src = line.split(" | ").nth(1).unwrap_or("").to_string();
                out.case(&format!("ks_op relin 0 {} | {} | {} | {}", fl(&key_qs(&s)), src, kskey_str(&s, relin.key(2)), s.ct_case(&item.ct)), &format!("ks-{}", cls), || "ok".to_string());
            }
            if name == "rescale" { out.case(&line, &cls, || "ok".to_string()); } else { out.case(&format!("ct_op {} {}", name, line), &cls, || "ok".to_string()); }
            // decoded slots against the complex shadow program (tolerance: relative 2^-9 of the magnitudes involved + absolute 2^-9; a labelled test)
            let dec = enc.decode_new(&s.decryptor.decrypt_new(&item.ct));
            let mag = item.v.iter().map(|x| x.norm()).fold(1.0, f64::max);
            let err = (0..row).map(|i| (dec[i] - item.v[i]).norm()).fold(0.0, f64::max);
            // only claim when the scale still resolves the values and the scaled values fit the level's modulus
            // (|coefficient| <= max|slot| * scale; beyond Q/2 the decoding wraps — that is the caller's overflow, not a defect)
            let lvl_bits = s.ctx.get_context_data(item.ct.parms_id()).unwrap().total_coeff_modulus_bit_count() as f64;
            let tol = 2.0 * item.eb + mag * 1e-9 + 1e-9;
            if !(mag.log2() + item.ct.scale().log2() + 3.0 < lvl_bits) { out.raw(&format!("!NOTE ckks_slots {} skipped: scaled values do not fit the level", name)); }
            else if tol > mag / 4.0 + 0.25 { out.raw(&format!("!NOTE ckks_slots {} skipped: worst-case error bound {:.3e} exceeds the values", name, tol)); }
            else if err <= tol { out.raw(&format!("!OK ckks_slots {} err={:.3e} bound={:.3e} # slots-{}", name, err, tol, name)); }
            else { out.raw(&format!("!FAIL ckks_slots {} :: decoded slots differ from the complex shadow program by {:.3e}, worst-case bound {:.3e} (magnitude {:.3e}, scale 2^{:.1}) # slots-{}", name, err, tol, mag, item.ct.scale().log2(), name)); }
            // results whose scaled values no longer fit are not reused (their descendants would differ from the shadow by the wrap-around)
            if !(mag.log2() + item.ct.scale().log2() + 3.0 < lvl_bits) { continue; }
            if pool.len() < 8 { pool.push(item); } else { let k2 = r.below(pool.len() as u64) as usize; pool[k2] = item; }
        }
        // ---- refusals: different levels, scales that disagree, resulting scale that no longer fits
        let a = &pool[0].ct;
        let base = match std::panic::catch_unwind(std::panic::AssertUnwindSafe(|| s.encryptor.encrypt_new(&enc.encode_c64_array_new(&pool[0].v, None, scale)))) { Ok(b) => b, Err(_) => continue };
        if s.levels().len() >= 2 {
            let low = ev.mod_switch_to_next_new(&base);
            for (nm, f) in [("add", Box::new(|| { let _ = ev.add_new(&low, &base); }) as Box<dyn Fn() + '_>), ("sub", Box::new(|| { let _ = ev.sub_new(&base, &low); })), ("multiply", Box::new(|| { let _ = ev.multiply_new(&low, &base); }))] {
                if std::panic::catch_unwind(std::panic::AssertUnwindSafe(|| f())).is_err() { out.raw(&format!("!OK ckks_refuse level-mismatch {} # refuse", nm)); } else { out.raw(&format!("!FAIL ckks_refuse level-mismatch {} :: ciphertexts of different levels were combined # refuse", nm)); }
            }
        }
        if let Ok(other) = std::panic::catch_unwind(std::panic::AssertUnwindSafe(|| s.encryptor.encrypt_new(&enc.encode_c64_array_new(&pool[0].v, None, scale * 2.0)))) {
        for (nm, f) in [("add", Box::new(|| { let _ = ev.add_new(&other, &base); }) as Box<dyn Fn() + '_>), ("sub", Box::new(|| { let _ = ev.sub_new(&base, &other); }))] {
            if std::panic::catch_unwind(std::panic::AssertUnwindSafe(|| f())).is_err() { out.raw(&format!("!OK ckks_refuse scale-mismatch {} # refuse", nm)); } else { out.raw(&format!("!FAIL ckks_refuse scale-mismatch {} :: operands whose scales disagree were added # refuse", nm)); }
        }
        }
        // scale bound: products whose scale reaches 2^bits(Q) must be refused, just below it accepted (rule = model `ckksScaleOk`)
        let tb = s.ctx.first_context_data().unwrap().total_coeff_modulus_bit_count();
        for e in [tb as i32 - 2, tb as i32 - 1, tb as i32, tb as i32 + 1] {
            let ps = 2f64.powi(e - sb);
            if !(ps > 0.0) || !ps.is_finite() { continue; }
            let p = match std::panic::catch_unwind(std::panic::AssertUnwindSafe(|| enc.encode_f64_single_new(1.0, None, ps))) { Ok(p) => p, Err(_) => continue };
            let refused = std::panic::catch_unwind(std::panic::AssertUnwindSafe(|| { let _ = ev.multiply_plain_new(&base, &p); })).is_err();
            let rs = base.scale() * ps;
            out.case(&format!("ckks_scale_ok {} {}", rs.to_bits(), tb), "scale-bound", || ((!refused) as u8).to_string());
        }
        // the same rule at EVERY level, for ciphertext products and squares: the bound is the modulus of the OPERANDS' level (a product whose
        // scale fits the first level but not the operands' level must be refused).  Scales are set directly (exact powers of two, product = 2^e).
        {
            let mut cur = base.clone();
            loop {
                let cd = s.ctx.get_context_data(cur.parms_id()).unwrap();
                let (lvl, tbl) = (cd.chain_index(), cd.total_coeff_modulus_bit_count() as i32);
                for e in [tbl - 2, tbl - 1, tbl, tbl + 1] {
                    let (mut x, mut y) = (cur.clone(), cur.clone());
                    x.set_scale(2f64.powi(e / 2)); y.set_scale(2f64.powi(e - e / 2));
                    let rs = x.scale() * y.scale();
                    let acc = std::panic::catch_unwind(std::panic::AssertUnwindSafe(|| { let _ = ev.multiply_new(&x, &y); })).is_ok();
                    out.case(&format!("ckks_scale_ok {} {}", rs.to_bits(), tbl), &format!("scale-bound-mul-l{}-{}", lvl, if e >= tbl { "over" } else { "under" }), || (acc as u8).to_string());
                    let mut z = cur.clone(); z.set_scale(2f64.powf(e as f64 / 2.0));
                    let rq = z.scale() * z.scale();
                    let accq = std::panic::catch_unwind(std::panic::AssertUnwindSafe(|| { let _ = ev.square_new(&z); })).is_ok();
                    out.case(&format!("ckks_scale_ok {} {}", rq.to_bits(), tbl), &format!("scale-bound-sq-l{}-{}", lvl, if e >= tbl { "over" } else { "under" }), || (accq as u8).to_string());
                    if let Ok(p) = std::panic::catch_unwind(std::panic::AssertUnwindSafe(|| enc.encode_f64_single_new(1.0, Some(*cur.parms_id()), 2f64.powi(e - sb)))) {
                        let accp = std::panic::catch_unwind(std::panic::AssertUnwindSafe(|| { let _ = ev.multiply_plain_new(&cur, &p); })).is_ok();
                        out.case(&format!("ckks_scale_ok {} {}", (cur.scale() * p.scale()).to_bits(), tbl), &format!("scale-bound-mulplain-l{}-{}", lvl, if e >= tbl { "over" } else { "under" }), || (accp as u8).to_string());
                    }
                }
                if lvl == 0 { break; }
                // moving down WITHOUT rescaling keeps the scale: it is refused exactly when the scale does not fit the modulus of the TARGET level
                if let Some(nd) = cd.next_context_data() {
                    let tbn = nd.total_coeff_modulus_bit_count() as i32;
                    for e in [tbn - 2, tbn - 1, tbn, tbn + 1] {
                        if e >= tbl { continue; }
                        let mut x = cur.clone(); x.set_scale(2f64.powi(e));
                        for (form, nm) in [(0, "next"), (1, "to")] {
                            let acc = std::panic::catch_unwind(std::panic::AssertUnwindSafe(|| { let _ = if form == 0 { ev.mod_switch_to_next_new(&x) } else { ev.mod_switch_to_new(&x, nd.parms_id()) }; })).is_ok();
                            out.case(&format!("ckks_scale_ok {} {}", x.scale().to_bits(), tbn), &format!("scale-bound-switch-{}-l{}-{}", nm, lvl, if e >= tbn { "over" } else { "under" }), || (acc as u8).to_string());
                        }
                    }
                }
                cur = match std::panic::catch_unwind(std::panic::AssertUnwindSafe(|| ev.mod_switch_to_next_new(&cur))) { Ok(c) => c, Err(_) => break };
            }
        }
        let _ = a;
    }
    deep_rescale(out, &mut r, thorough);
    scale_agreement(out, &mut r);
}

/// Directed depth programs: square → relinearize → rescale down the whole chain on chains of mixed prime
/// sizes, with the scale near the middle primes, so that from the second rescale on the scale is not a
/// power of two and the recorded scale must be the correctly rounded quotient (bit-exact against the model).
fn deep_rescale(out: &mut Out, r: &mut Rng, thorough: bool) {
    let mut chains: Vec<(Vec<usize>, i32)> = vec![(vec![50, 34, 34, 50], 34), (vec![45, 40, 34, 50], 32), (vec![50, 38, 32, 50], 30), (vec![59, 40, 36, 45, 59], 40)];
    for _ in 0..(if thorough { 40 } else { 4 }) {
        let k = r.range(3, 6) as usize;
        let b: Vec<usize> = (0..k + 1).map(|i| if i == 0 || i == k { *r.pick(&[45usize, 50, 59]) } else { *r.pick(&[30usize, 32, 34, 36, 38, 40]) }).collect();
        let sb = *r.pick(&[30i32, 32, 34, 36]);
        chains.push((b, sb));
    }
    for (bits_v, sb) in chains {
        let n = 8usize; let row = n / 2;
        let qs = match pick_primes(r, n, &bits_v) { Some(v) => v, None => continue };
        let s = match make(SchemeType::CKKS, n, &qs, 0, true, None) { Some(s) => s, None => continue };
        let ev = &s.evaluator;
        let enc = CKKSEncoder::new(s.ctx.clone());
        let relin = s.keygen.create_relin_keys(false);
        let p_special = *qs.last().unwrap();
        let v: Vec<Complex64> = (0..row).map(|_| Complex64::new(((r.below(17) as f64) - 8.0) / 8.0, ((r.below(17) as f64) - 8.0) / 16.0)).collect();
        let nf = n as f64; let lgf = (n.trailing_zeros()) as f64;
        let qmax = *qs[..qs.len() - 1].iter().max().unwrap() as f64;
        let bks = (21.0 * nf * (qs.len() - 1) as f64 * (qmax / p_special as f64).ceil() + nf + 2.0) * (lgf + 2.0);
        // scale bookkeeping of rescale on ARBITRARY scales (random mantissas): the recorded scale must be the correctly rounded quotient
        // scale / q_last whatever the scale is (the ciphertext data plays no role in this rule; scales arising naturally in short programs
        // are too structured to separate, e.g., `s / q` from `s * (1 / q)`)
        { let base = s.encryptor.encrypt_new(&enc.encode_c64_array_new(&v, None, 2f64.powi(sb)));
          let ql = *qs[..qs.len() - 1].last().unwrap() as f64;
          for _ in 0..12 {
              let mant = 1.0 + (r.below(1u64 << 52) as f64) / (1u64 << 52) as f64;
              let sc = mant * 2f64.powi(r.range(10, 40) as i32) * ql;
              let mut c = base.clone(); c.set_scale(sc);
              if let Ok(res) = std::panic::catch_unwind(std::panic::AssertUnwindSafe(|| ev.rescale_to_next_new(&c))) {
                  out.case(&format!("ckks_switch rescale {} {} 1 {} | {}", bits(&c), bits(&res), s.ct_case(&c), s.ct_case(&res)), "deep-rescale-random-scale", || "ok".to_string());
              }
          } }
        let mut cur = Item { ct: s.encryptor.encrypt_new(&enc.encode_c64_array_new(&v, None, 2f64.powi(sb))), v, eb: nf * (21.0 * (2.0 * nf + 1.0) + 1.0) / 2f64.powi(sb) };
        loop {
            let cd = s.ctx.get_context_data(cur.ct.parms_id()).unwrap();
            let lvl = cd.chain_index(); let total_bits = cd.total_coeff_modulus_bit_count();
            if lvl == 0 { break; }
            if !((cur.ct.scale() * cur.ct.scale()).log2() + 3.0 < total_bits as f64 - 1.0) { break; }
            let step = std::panic::catch_unwind(std::panic::AssertUnwindSafe(|| {
                let sq = ev.square_new(&cur.ct);
                let rl = ev.relinearize_new(&sq, &relin);
                let rs = ev.rescale_to_next_new(&rl);
                (sq, rl, rs) }));
            let (sq, rl, rs) = match step { Ok(x) => x, Err(_) => { let m = LAST_PANIC.with(|p| p.borrow().clone()); out.raw(&format!("!FAIL ckks_step deep :: square/relinearize/rescale on a valid operand refused: {} # panic", m.replace('\n', " "))); break; } };
            out.case(&format!("ct_op square {} {} {} | {} | {} | {}", bits(&cur.ct), bits(&cur.ct), bits(&sq), s.ct_case(&cur.ct), s.ct_case(&cur.ct), s.ct_case(&sq)), &format!("deep-square-l{}", lvl), || "ok".to_string());
            out.case(&format!("ct_op relinearize {} {} {} | {} | {} | {}", bits(&sq), p_special, bits(&rl), s.ct_case(&sq), s.ct_case(&sq), s.ct_case(&rl)), &format!("deep-relin-l{}", lvl), || "ok".to_string());
            out.case(&format!("ckks_switch rescale {} {} 1 {} | {}", bits(&rl), bits(&rs), s.ct_case(&rl), s.ct_case(&rs)), &format!("deep-rescale-l{}-{}", lvl, if rl.scale().log2().fract() == 0.0 { "pow2" } else { "nonpow2" }), || "ok".to_string());
            let nv: Vec<Complex64> = cur.v.iter().map(|x| x * x).collect();
            let dec = enc.decode_new(&s.decryptor.decrypt_new(&rs));
            let err = (0..row).map(|i| (dec[i] - nv[i]).norm()).fold(0.0, f64::max);
            let mag = vmag(&cur.v);
            let eb = (2.0 * mag * cur.eb + cur.eb * cur.eb) + nf * bks / rl.scale() + nf * 0.5 * (1.0 + nf) / rs.scale();
            let tol = 2.0 * eb + 1e-9;
            if tol > 0.25 { out.raw("!NOTE ckks_slots deep skipped: worst-case error bound exceeds the values"); }
            else if err <= tol { out.raw(&format!("!OK ckks_slots deep err={:.3e} bound={:.3e} # slots-deep", err, tol)); }
            else { out.raw(&format!("!FAIL ckks_slots deep :: decoded slots differ from the complex shadow program by {:.3e}, worst-case bound {:.3e} (scale 2^{:.1}) # slots-deep", err, tol, rs.scale().log2())); }
            cur = Item { ct: rs, v: nv, eb };
        }
    }
}

/// Directed: "operands whose scales disagree are refused" on the scales that arise NATURALLY — a rescaled product carries scale s^2/q,
/// a fresh (or switched-down) operand the nominal s; with q a few parts in 10^10 below a power of two the two differ by a relative
/// 2^-45 .. 2^-27, far more than f64 rounding of the bookkeeping (2^-52) and enough to shift a slot of magnitude 10^6 by more than the
/// worst-case noise.  Claimed: refusal whenever the relative difference is >= 2^-45; acceptance of bit-identical scales; and, if an
/// operation on disagreeing scales is computed after all, the decoded slots are compared with the shadow sum against the noise bound.
fn scale_agreement(out: &mut Out, r: &mut Rng) {
    for &(lg, pb, sb) in &[(4usize, 40usize, 40i32), (3, 36, 36), (5, 45, 45)] {
        let n = 1usize << lg; let row = n / 2; let nf = n as f64;
        let qs = match pick_primes(r, n, &[pb, pb, pb, pb.max(45)]) { Some(v) => v, None => continue };
        let s = match make(SchemeType::CKKS, n, &qs, 0, true, None) { Some(s) => s, None => continue };
        let ev = &s.evaluator; let enc = CKKSEncoder::new(s.ctx.clone());
        let relin = s.keygen.create_relin_keys(false);
        let scale = 2f64.powi(sb);
        let small: Vec<Complex64> = (0..row).map(|_| Complex64::new(((r.below(9) as f64) - 4.0) / 2.0, 0.0)).collect();
        let big: Vec<Complex64> = (0..row).map(|_| Complex64::new(1.0e6 + r.below(1000) as f64, -(7.0e5 + r.below(1000) as f64))).collect();
        let step = std::panic::catch_unwind(std::panic::AssertUnwindSafe(|| {
            let x = s.encryptor.encrypt_new(&enc.encode_c64_array_new(&small, None, scale));
            let y = s.encryptor.encrypt_new(&enc.encode_c64_array_new(&small, None, scale));
            let p = ev.rescale_to_next_new(&ev.relinearize_new(&ev.multiply_new(&x, &y), &relin));
            let p2 = ev.rescale_to_next_new(&ev.relinearize_new(&ev.multiply_new(&y, &x), &relin));
            let z = ev.mod_switch_to_next_new(&s.encryptor.encrypt_new(&enc.encode_c64_array_new(&big, None, scale)));
            let zp = enc.encode_c64_array_new(&big, Some(*p.parms_id()), scale);
            (p, p2, z, zp) }));
        let (p, p2, z, zp) = match step { Ok(v) => v, Err(_) => { out.raw("!NOTE ckks_scale_agree parameter set skipped (setup refused)"); continue } };
        let (s1, s2) = (p.scale(), z.scale());
        let rel = ((s1 - s2) / s2).abs();
        let cls = format!("scale-agree-n{}-b{}", n, pb);
        // bit-identical scales must be accepted
        if p.scale().to_bits() == p2.scale().to_bits() {
            if std::panic::catch_unwind(std::panic::AssertUnwindSafe(|| { let _ = ev.add_new(&p, &p2); let _ = ev.sub_new(&p, &p2); })).is_ok() { out.raw(&format!("!OK ckks_scale_agree equal-scales add/sub accepted # {}", cls)); }
            else { out.raw(&format!("!FAIL ckks_scale_agree equal-scales :: add/sub of two ciphertexts with bit-identical scales refused # {}", cls)); }
        }
        if !(rel >= 2f64.powi(-45)) { out.raw(&format!("!NOTE ckks_scale_agree rescaled-vs-nominal scales differ by {:.3e} relative only: no claim", rel)); continue; }
        let prod: Vec<Complex64> = small.iter().map(|a| a * a).collect();
        let tol = 64.0 * nf * nf * (21.0 * (2.0 * nf + 1.0) + 1.0) / scale.min(s1) * 8.0 + 1e-3 * 0.0;
        type Op<'a> = (&'static str, Box<dyn Fn() -> Ciphertext + 'a>, bool);
        let ops: Vec<Op> = vec![
            ("add(rescaled,nominal)", Box::new(|| ev.add_new(&p, &z)), false), ("add(nominal,rescaled)", Box::new(|| ev.add_new(&z, &p)), false),
            ("sub(rescaled,nominal)", Box::new(|| ev.sub_new(&p, &z)), true), ("add_plain(rescaled,nominal)", Box::new(|| ev.add_plain_new(&p, &zp)), false),
            ("sub_plain(rescaled,nominal)", Box::new(|| ev.sub_plain_new(&p, &zp)), true)];
        for (nm, f, sub) in ops {
            match std::panic::catch_unwind(std::panic::AssertUnwindSafe(|| f())) {
                Err(_) => out.raw(&format!("!OK ckks_scale_agree {} refused (relative scale difference {:.2e}) # {}", nm, rel, cls)),
                Ok(c) => {
                    let dec = enc.decode_new(&s.decryptor.decrypt_new(&c));
                    let err = (0..row).map(|i| { let want = if sub { prod[i] - big[i] } else { prod[i] + big[i] }; (dec[i] - want).norm() }).fold(0.0, f64::max);
                    out.raw(&format!("!FAIL ckks_scale_agree {} :: operands whose scales disagree by {:.3e} relative ({} vs {}) were combined instead of refused; decoded slots off by {:.3e} (noise bound {:.3e}) # {}",
                        nm, rel, s1.to_bits(), s2.to_bits(), err, tol, cls)); }
            }
        }
    }
}
