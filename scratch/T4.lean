import Heathcliff.Model.Matmul
open HC HC.MM
#eval BoltCp.new 5 9 4 32
#eval BoltCp.new 3 9 9 32
#eval BoltCp.new 2 9 9 64
#eval BoltCp.new 1 30 30 64
#eval BoltCp.new 3 2 3 8
