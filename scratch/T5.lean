import Heathcliff.Proofs.C20M
open HC HC.MM
#check @boltSumAll.go
#check @boltSpread.go
#check @c20_ceilTwoPower_go_le
example {α} (add : α → α → α) (z : α) (N f rc : Nat) (a : Array α) : boltSumAll.go add z N (f+1) rc a = if rc = N then a else boltSumAll.go add z N f (2*rc) (slotZip add z N a (if rc < N/2 then rotRows z N rc a else swapRows z N a)) := rfl
