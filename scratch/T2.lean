import Heathcliff.Proofs.C20L
#check @HC.c20_boltColMajorDecode_spec
#print axioms HC.c20_boltColMajorDecode_spec
#print axioms HC.c20_colMajorArr_get
