import Heathcliff.Model.Matmul
open HC HC.MM

def tt : Nat := 97
def xf (i : Nat) : Nat := (i * 7 + 3) % tt
def wf (i : Nat) : Nat := (i * 11 + 5) % tt
def addm (a b : Nat) : Nat := (a + b) % tt
def mulm (a b : Nat) : Nat := (a * b) % tt

def expect (m r n : Nat) : Array Nat := Array.ofFn (n := m * n) fun p =>
  (List.range r).foldl (fun acc k => (acc + xf (p.val / n * r + k) * wf (k * n + p.val % n)) % tt) 0

def runCp (m r n N : Nat) : R (Array Nat) := do
  let h ← BoltCp.new m r n N
  let X ← boltCpEncodeInputs h 0 xf (m * r)
  let W ← boltCpEncodeWeights h 0 wf (r * n)
  let Y ← boltCpMultiply h addm mulm 0 X W
  boltCpDecodeOutputs h 0 Y

def runCr (m r n N : Nat) : R (Array Nat) := do
  let h ← BoltCc.newCr m r n N
  let X ← boltCrEncodeInputs h 0 xf (m * r)
  let W ← boltCrEncodeWeights h 0 wf (r * n)
  let Y ← boltCrMultiply h addm mulm 0 X W
  boltCrDecodeOutputs h 0 Y

def runDc (m r n N : Nat) : R (Array Nat) := do
  let h ← BoltCc.newDc m r n N
  let X ← boltDcEncodeInputs h 0 xf (m * r)
  let W ← boltDcEncodeWeights h 0 wf (r * n)
  let Y ← boltDcMultiply h addm mulm 0 X W
  boltDcDecodeOutputs h 0 Y

def check (name : String) (run : Nat → Nat → Nat → Nat → R (Array Nat)) (newOk : Nat → Nat → Nat → Nat → Bool) : IO Unit := do
  let mut bad := 0
  let mut tot := 0
  let mut rej := 0
  for N in [1, 2, 4, 8, 16, 32] do
    for m in List.range 8 do
      for r in List.range 8 do
        for n in List.range 8 do
          if newOk m r n N then
            tot := tot + 1
            match run m r n N with
            | .ok out =>
              if out != expect m r n then
                bad := bad + 1
                if bad < 15 then IO.println s!"{name} MISMATCH m={m} r={r} n={n} N={N} got {out} want {expect m r n}"
            | .error e =>
              bad := bad + 1
              if bad < 15 then IO.println s!"{name} ERROR m={m} r={r} n={n} N={N} {repr e}"
          else rej := rej + 1
  IO.println s!"{name}: total accepted {tot}, rejected {rej}, bad {bad}"

def okOf {α} (x : R α) : Bool := match x with | .ok _ => true | .error _ => false

#eval check "cp" runCp (fun m r n N => okOf (BoltCp.new m r n N))
#eval check "cr" runCr (fun m r n N => okOf (BoltCc.newCr m r n N))
#eval check "dc" runDc (fun m r n N => okOf (BoltCc.newDc m r n N))

def check2 : IO Unit := do
  let mut bad := 0
  for N in [2, 4, 8, 16, 32, 64] do
    for m in List.range 10 do
      for r in [1,2,3,4,5,6,7,8,9,17,33] do
        for n in List.range 10 do
          if okOf (BoltCc.newDc m r n N) then
            match runDc m r n N with
            | .ok out => if out != expect m r n then bad := bad + 1; IO.println s!"dc MISMATCH m={m} r={r} n={n} N={N}"
            | .error e => bad := bad + 1; IO.println s!"dc ERROR m={m} r={r} n={n} N={N} {repr e}"
          if okOf (BoltCc.newCr m r n N) then
            match runCr m r n N with
            | .ok out => if out != expect m r n then bad := bad + 1; IO.println s!"cr MISMATCH m={m} r={r} n={n} N={N}"
            | .error e => bad := bad + 1; IO.println s!"cr ERROR m={m} r={r} n={n} N={N} {repr e}"
          if okOf (BoltCp.new m r n N) then
            match runCp m r n N with
            | .ok out => if out != expect m r n then bad := bad + 1; IO.println s!"cp MISMATCH m={m} r={r} n={n} N={N}"
            | .error e => bad := bad + 1; IO.println s!"cp ERROR m={m} r={r} n={n} N={N} {repr e}"
  IO.println s!"bad {bad}"
#eval check2
#eval (BoltCc.newDc 1 0 1 2)
#eval (BoltCc.newDc 0 3 1 4)
#eval (BoltCc.newCr 0 3 2 4)
