import Heathcliff.Proofs.C20N
open HC HC.MM
example {α} (add : α → α → α) (z : α) (N f rc sid : Nat) (a : Array α) : boltSpread.go add z N (f+1) rc sid a = if rc = N then a else boltSpread.go add z N f (2*rc) (sid/2) (slotZip add z N a (if rc < N/2 then (if sid % 2 = 0 then rotRows z N (N/2 - rc) a else rotRows z N rc a) else swapRows z N a)) := rfl
#check @Nat.mod_mul
#check @Nat.div_div_eq_div_mul
#check @List.sum_reverse
#check @List.range_succ_eq_map
