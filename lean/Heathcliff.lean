import Heathcliff.Model.Word
