import Driver.Util
import Driver.C08
import Driver.C09
import Driver.C10
import Driver.C12
import Driver.Scheme
import Driver.C01
import Driver.C01E
import Driver.C02
import Driver.C03
import Driver.C04
import Driver.C05
import Driver.C06
import Driver.KS
import Driver.C13
import Driver.C14
import Driver.C15
import Driver.C16
import Driver.C17
import Driver.C18
import Driver.C19
import Driver.C20
open Drv

def handlers : List (String → Handler) := [Drv.C08.handle, Drv.C09.handle, Drv.C10.handle, Drv.C12.handle, Drv.Sch.handle, Drv.C01.handle, Drv.C01E.handle, Drv.C02.handle, Drv.C03.handle, Drv.C05.handle, Drv.C04.handle, Drv.C06.handle, Drv.KS.handle, Drv.C13.handle, Drv.C14.handle, Drv.C15.handle, Drv.C16.handle, Drv.C17.handle, Drv.C18.handle, Drv.C19.handle, Drv.C20.handle]

def answer (line : String) : String :=
  let (lhs, impl) := match line.trimAscii.toString.splitOn " => " with
    | [l, r] => (l, r)
    | l :: _ => (l, "")
    | [] => ("", "")
  match lhs.splitOn " " with
  | [] => "BAD"
  | fn :: args =>
    match handlers.findSome? (fun h => h fn args impl) with
    | some (m, s) => m ++ " | " ++ s
    | none => "BAD " ++ fn

partial def loop (h : IO.FS.Stream) (out : IO.FS.Stream) : IO Unit := do
  let line ← h.getLine
  if line.isEmpty then return ()
  out.putStrLn (answer line)
  loop h out

def main : IO Unit := do
  let out ← IO.getStdout
  loop (← IO.getStdin) out
  out.flush
