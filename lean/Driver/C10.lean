import Driver.Util
import Driver.C09
import Heathcliff.Spec.RNS
namespace Drv.C10
open HC Drv

def pPoly (s : String) : RnsPoly := ((pList2 s).map List.toArray).toArray
def fPoly (p : RnsPoly) : String := fList2 (p.toList.map Array.toList)

def mkMods (qs : List Nat) : R (List Modulus) := qs.mapM Modulus.mk?
def mkBase (qs : List Nat) : R RNSBase := do RNSBase.new (← mkMods qs)

def auxPrimes (n count : Nat) : R (List Modulus) := mkMods (Spec.getPrimes (2*n) 61 count)

def mkTool (n : Nat) (qs : List Nat) (t : Nat) : R RNSTool := do
  let q ← mkBase qs
  let tm ← Modulus.mk? t
  let aux ← auxPrimes n (q.size + 4)
  RNSTool.new n q tm aux

def mkTablesAll (k : Nat) (qs : List Nat) : R (Array NTTTables) := do
  let l ← qs.mapM (fun q => Drv.C09.mkTables k q)
  pure l.toArray

def col (p : RnsPoly) (j : Nat) : List Nat := p.toList.map (fun c => c.getD j 0)

/-- per-coefficient spec helper: apply `f` to the column of residues of coefficient j -/
def perCoeff (n comps : Nat) (f : Nat → List Nat) : RnsPoly :=
  let cols := (List.range n).map f
  Array.ofFn (n := comps) fun i => (cols.map (fun c => c.getD i.val 0)).toArray

def toolSummary (r : RNSTool) : String :=
  let ops (a : Array MulOperand) := fList (a.toList.map (·.operand))
  s!"B={fList (r.baseB.base.toList.map (·.value))}/msk={r.mSk.value}/gamma={r.gamma.value}/mt={r.mTilde.value}" ++
  s!"/pBq={fList r.prodBModQ.toList}/ipqBsk={ops r.invProdQModBsk}/ipBmsk={r.invProdBModMsk.operand}" ++
  s!"/iqlq={ops r.invQLastModQ}/iqlt={r.invQLastModT}"

def handle (fn : String) : Handler := fun a impl =>
  match fn, a with
  | "rns_decompose", [qs, v] =>
    let qs := pList qs; let v := pNat v
    some (fR (fun (x : Array Nat) => fList x.toList) (do let b ← mkBase qs; b.decompose v),
          fList (qs.map (fun q => v % q)))
  | "rns_compose", [qs, rs] =>
    let qs := pList qs; let rs := pList rs
    some (fR toString (do let b ← mkBase qs; b.compose rs.toArray), toString (Spec.crt qs rs))
  | "fast_convert", [iqs, oqs, n, p] =>
    let iqs := pList iqs; let oqs := pList oqs; let n := pNat n; let p := pPoly p
    let out := pPoly impl
    let Q := Spec.prodL iqs
    -- relational spec: for every coefficient one alpha < k with out_j = (x + alpha Q) mod p_j for all j
    let ok := (List.range n).all fun j =>
      let x := Spec.crt iqs (col p j)
      (List.range iqs.length).any fun al =>
        (List.range oqs.length).all fun i => (out.getD i #[]).getD j 0 = (x + al * Q) % oqs.getD i 1
    some (fR fPoly (do let ib ← mkBase iqs; let ob ← mkBase oqs; let c ← BaseConverter.new ib ob; c.fastConvertArray p n),
          relSpec impl (out.size = oqs.length ∧ ok) "x + alpha*Q, 0 <= alpha < k")
  | "exact_convey", [iqs, pq, n, p] =>
    let iqs := pList iqs; let pq := pNat pq; let n := pNat n; let p := pPoly p
    let Q := Spec.prodL iqs
    -- spec: centred value mod p; no claim (and no model comparison) where a double cannot decide the rounding
    let amb := match (do let ib ← mkBase iqs; let ob ← mkBase [pq]; let c ← BaseConverter.new ib ob
                         (List.range n).mapM (fun j => do let t ← c.scaled (col p j).toArray; pure (exactRoundAmbiguous c t))) with
      | .ok l => l.any id
      | .error _ => false
    let model := fR (fun (x : List Nat) => fList x) (do
        let ib ← mkBase iqs; let ob ← mkBase [pq]; let c ← BaseConverter.new ib ob
        (List.range n).mapM (fun j => c.exactConvey (col p j).toArray))
    let spec := fList ((List.range n).map fun j => Spec.imod (Spec.centred (Spec.crt iqs (col p j)) Q) pq)
    some (if amb then "ANY" else model, if amb then "ANY" else spec)
  | "tool_new", [n, qs, t] =>
    let n := pNat n; let qs := pList qs; let t := pNat t
    -- spec: sizing inequality 2^32·t·Q < B·m_sk·(one more prime's worth is in the rule), auxiliary primes = getPrimes
    let Q := Spec.prodL qs
    let spec := match mkTool n qs t with
      | .error _ => "ERR:refused"
      | .ok r =>
        let B := Spec.prodL (r.baseB.base.toList.map (·.value))
        let okSize := 2^32 * (max t 1) * Q < B * r.mSk.value
        let aux := Spec.getPrimes (2*n) 61 (r.baseB.size + 2)
        let okAux := aux = [r.mSk.value, r.gamma.value] ++ r.baseB.base.toList.map (·.value)
        let okInv := (List.range r.baseBsk.size).all fun i =>
            let b := (r.baseBsk.q i).value
            ((r.invProdQModBsk.getD i default).operand * (Q % b)) % b = 1
        let okLast := (List.range (qs.length - 1)).all fun i =>
            let b := qs.getD i 1
            ((r.invQLastModQ.getD i default).operand * (qs.getD (qs.length - 1) 1)) % b = 1 % b
        relSpec (toolSummary r) (okSize ∧ okAux ∧ okInv ∧ okLast) s!"constants size={decide okSize} aux={decide okAux} inv={okInv} last={okLast}"
    some (fR toolSummary (mkTool n qs t), spec)
  | "div_round_last", [n, qs, t, p] =>
    let n := pNat n; let qs := pList qs; let t := pNat t; let p := pPoly p
    let k := qs.length; let qL := qs.getD (k-1) 1
    let spec := perCoeff n (k-1) fun j =>
      let x := Spec.crt qs (col p j)
      let y := (x + qL / 2) / qL
      (qs.take (k-1)).map (fun q => y % q)
    some (fR (fun (o : RnsPoly) => fPoly (o.extract 0 (k-1))) (do let r ← mkTool n qs t; r.divideAndRoundQLast p), fPoly spec)
  | "div_round_last_ntt", [n, qs, t, p] =>
    -- input given in NTT form; spec: NTT of the rounded quotient of the underlying polynomial
    let n := pNat n; let qs := pList qs; let t := pNat t; let p := pPoly p
    let k := qs.length; let qL := qs.getD (k-1) 1; let lg := Nat.log2 n
    let spec : R String := do
      let tb ← mkTablesAll lg qs
      let coeff : RnsPoly := Array.ofFn (n := k) fun i => intt (tb.getD i.val dT) (p.getD i.val #[])
      let sc := perCoeff n (k-1) fun j =>
        let x := Spec.crt qs (col coeff j)
        let y := (x + qL / 2) / qL
        (qs.take (k-1)).map (fun q => y % q)
      let outp : RnsPoly := Array.ofFn (n := k-1) fun i => ntt (tb.getD i.val dT) (sc.getD i.val #[])
      pure (fPoly outp)
    some (fR (fun (o : RnsPoly) => fPoly (o.extract 0 (k-1))) (do
            let r ← mkTool n qs t; let tb ← mkTablesAll lg qs; r.divideAndRoundQLastNtt tb p),
          fR id spec)
  | "fastbconv_m_tilde", [n, qs, t, p] =>
    let n := pNat n; let qs := pList qs; let t := pNat t; let p := pPoly p
    let out := pPoly impl
    let Q := Spec.prodL qs
    let spec := match mkTool n qs t with
      | .error _ => "ERR:refused"
      | .ok r =>
        let obs := r.baseBsk.base.toList.map (·.value) ++ [r.mTilde.value]
        let ok := (List.range n).all fun j =>
          let x := (Spec.crt qs (col p j) * r.mTilde.value) % Q
          -- Bsk part and m_tilde part are two separate fast conversions (each with its own alpha)
          let chk (idxs : List Nat) := (List.range qs.length).any fun al =>
            idxs.all fun i => (out.getD i #[]).getD j 0 = (x + al * Q) % obs.getD i 1
          chk (List.range r.baseBsk.size) ∧ chk [r.baseBsk.size]
        relSpec impl (out.size = obs.length ∧ ok) "m_tilde*x + alpha*q"
    some (fR fPoly (do let r ← mkTool n qs t; r.fastbconvMTilde p), spec)
  | "sm_mrq", [n, qs, t, p] =>
    let n := pNat n; let qs := pList qs; let t := pNat t; let p := pPoly p
    let Q := Spec.prodL qs
    let spec := match mkTool n qs t with
      | .error _ => "ERR:refused"
      | .ok r =>
        let bs := r.baseBsk.base.toList.map (·.value)
        let mt := r.mTilde.value
        fPoly (perCoeff n bs.length fun j =>
          let ym := (p.getD bs.length #[]).getD j 0
          -- r_mt = centred( -y * q^-1 mod m_tilde )
          let r0 := ((mt - ym % mt) % mt * Spec.invMod (Q % mt) mt) % mt
          let rm : Int := if r0 ≥ mt / 2 then (r0 : Int) - mt else r0   -- representative in [-m̃/2, m̃/2) (m̃ is a power of two)
          (List.range bs.length).map fun i =>
            let b := bs.getD i 1
            let y := (p.getD i #[]).getD j 0
            Spec.imod (((y : Int) + (Q : Int) * rm) * (Spec.invMod (mt % b) b : Nat)) b)
    some (fR fPoly (do let r ← mkTool n qs t; r.smMrq p), spec)
  | "fast_floor", [n, qs, t, p] =>
    let n := pNat n; let qs := pList qs; let t := pNat t; let p := pPoly p
    let out := pPoly impl
    let Q := Spec.prodL qs; let k := qs.length
    let spec := match mkTool n qs t with
      | .error _ => "ERR:refused"
      | .ok r =>
        let bs := r.baseBsk.base.toList.map (·.value)
        let ok := (List.range n).all fun j =>
          let x := Spec.crt qs ((col p j).take k)
          (List.range k).any fun al =>
            (List.range bs.length).all fun i =>
              let b := bs.getD i 1
              let y := (p.getD (k + i) #[]).getD j 0
              (out.getD i #[]).getD j 0 = Spec.imod (((y : Int) - (x + al * Q : Nat)) * (Spec.invMod (Q % b) b : Nat)) b
        relSpec impl (out.size = bs.length ∧ ok) "(y - (x + alpha q))/q"
    some (fR fPoly (do let r ← mkTool n qs t; r.fastFloor p), spec)
  | "fastbconv_sk", [n, qs, t, p] =>
    let n := pNat n; let qs := pList qs; let t := pNat t; let p := pPoly p
    let spec := match mkTool n qs t with
      | .error _ => "ERR:refused"
      | .ok r =>
        let bsk := r.baseBsk.base.toList.map (·.value)
        let P := Spec.prodL bsk
        let B := Spec.prodL (r.baseB.base.toList.map (·.value))
        -- exact for |V| < B·(m_sk/2 - k): outside that range the spec makes no claim
        let vs := (List.range n).map fun j => Spec.centred (Spec.crt bsk (col p j)) P
        if vs.all (fun v => 2 * v.natAbs + 2 * r.baseB.size * B < B * r.mSk.value) then
          fPoly (perCoeff n qs.length fun j => qs.map (fun q => Spec.imod (vs.getD j 0) q))
        else "ANY"
    some (fR fPoly (do let r ← mkTool n qs t; r.fastbconvSk p), spec)
  | "scale_and_round", [n, qs, t, p] =>
    let n := pNat n; let qs := pList qs; let t := pNat t; let p := pPoly p
    let Q := Spec.prodL qs
    let xs := (List.range n).map fun j => Spec.centred (Spec.crt qs (col p j)) Q
    -- BEHZ condition: t·x/q at least k/gamma (we take 2^-40) away from a rounding boundary
    let safe := xs.all fun x => Spec.roundMargin (t * x) Q * 2^40 > 2 * Q
    let spec := if safe then fList (xs.map fun x => Spec.imod (Spec.roundDiv (t * x) Q) t) else "ANY"
    some (fR (fun (o : Poly) => fList o.toList) (do let r ← mkTool n qs t; r.decryptScaleAndRound p), spec)
  | "mod_t_div_last", [n, qs, t, p] =>
    let n := pNat n; let qs := pList qs; let t := pNat t; let p := pPoly p
    let k := qs.length; let qL := qs.getD (k-1) 1
    let spec := perCoeff n (k-1) fun j =>
      let x := Spec.crt qs (col p j)
      let xL := x % qL
      let neg := ((t - xL % t) % t * Spec.invMod (qL % t) t) % t
      let y : Int := ((x - xL) / qL : Nat) - (neg : Int)
      (qs.take (k-1)).map (fun q => Spec.imod y q)
    some (fR (fun (o : RnsPoly) => fPoly (o.extract 0 (k-1))) (do let r ← mkTool n qs t; r.modTAndDivideQLast p), fPoly spec)
  | "mod_t_div_last_ntt", [n, qs, t, p] =>
    let n := pNat n; let qs := pList qs; let t := pNat t; let p := pPoly p
    let k := qs.length; let qL := qs.getD (k-1) 1; let lg := Nat.log2 n
    let spec : R String := do
      let tb ← mkTablesAll lg qs
      let coeff : RnsPoly := Array.ofFn (n := k) fun i => intt (tb.getD i.val dT) (p.getD i.val #[])
      let sc := perCoeff n (k-1) fun j =>
        let x := Spec.crt qs (col coeff j)
        let xL := x % qL
        let neg := ((t - xL % t) % t * Spec.invMod (qL % t) t) % t
        let y : Int := ((x - xL) / qL : Nat) - (neg : Int)
        (qs.take (k-1)).map (fun q => Spec.imod y q)
      let outp : RnsPoly := Array.ofFn (n := k-1) fun i => ntt (tb.getD i.val dT) (sc.getD i.val #[])
      pure (fPoly outp)
    some (fR (fun (o : RnsPoly) => fPoly (o.extract 0 (k-1))) (do
            let r ← mkTool n qs t; let tb ← mkTablesAll lg qs; r.modTAndDivideQLastNtt tb p),
          fR id spec)
  | "decrypt_mod_t", [n, qs, t, p] =>
    let n := pNat n; let qs := pList qs; let t := pNat t; let p := pPoly p
    let Q := Spec.prodL qs
    let amb := match (do let r ← mkTool n qs t
                         match r.qToT with
                         | none => pure false
                         | some c => do
                           let l ← (List.range n).mapM (fun j => do let tt ← c.scaled (col p j).toArray; pure (exactRoundAmbiguous c tt))
                           pure (l.any id)) with
      | .ok b => b
      | .error _ => false
    let spec := fList ((List.range n).map fun j => Spec.imod (Spec.centred (Spec.crt qs (col p j)) Q) t)
    some (if amb then "ANY" else fR (fun (o : Poly) => fList o.toList) (do let r ← mkTool n qs t; r.decryptModT p),
          if amb then "ANY" else spec)
  | _, _ => none
where
  dT : NTTTables := ⟨0, ⟨0,0,0,0,0⟩, 0, #[], #[], ⟨0,0⟩⟩

end Drv.C10
