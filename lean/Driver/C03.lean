import Driver.Scheme
import Heathcliff.Model.Evaluator
namespace Drv.C03
open HC Drv Drv.Sch

def splitBar (l : List String) : List (List String) :=
  l.foldr (fun tok acc => if tok == "|" then [] :: acc else match acc with
    | [] => [[tok]]
    | h :: t => (tok :: h) :: t) [[]]

def pCase : List String → Option Parsed
  | [sc, n, qs, t, sk, ntt, cf, polys] => some (parseCt sc n qs t sk ntt cf polys)
  | _ => none

def centredPoly (ph : Spec.ZPoly) (Q : Nat) : Spec.ZPoly := ph.map fun x => Spec.centred (Spec.imod x Q) Q

/-- one evaluator operation on dumped operands: model = bit-exact recomputation of the result ciphertext,
    spec = exact relation between the phases (scheme independent) and the IEEE scale bookkeeping -/
def handle (fn : String) : Handler := fun a _impl =>
  match fn, a with
  | "ct_op", op :: sa :: sb :: sr :: "|" :: rest =>
    match splitBar rest with
    | [ca, cb, cr] =>
      match pCase ca, pCase cb, pCase cr with
      | some A, some B, some Rr =>
        match mkLevel A.scheme A.n A.qs A.t with
        | .error e => some ("ERR:" ++ e.toStr, "ERR:" ++ e.toStr)
        | .ok l =>
          let Q := Spec.prodL A.qs
          let N := A.n
          let phA := exactPhase l A.qs A.sk A.ct
          let phB := if B.ct.polys.size ≥ 2 then exactPhase l B.qs B.sk B.ct
                     else -- a plaintext: single RNS polynomial (coefficient or NTT form as flagged)
                       let p := B.ct.polys.getD 0 #[]
                       (Spec.crtPoly A.qs (if B.ct.ntt then rnsIntt l p else p) N).map (fun x => Spec.centred x.toNat Q)
          let phR := exactPhase l Rr.qs Rr.sk Rr.ct
          let plainB := B.ct.polys.getD 0 #[]
          let fa := Float.ofBits (pNat sa).toUInt64; let fb := Float.ofBits (pNat sb).toUInt64
          let model : R Ct := match op with
            | "add" => ctTranslateBalanced l A.ct B.ct false
            | "sub" => ctTranslateBalanced l A.ct B.ct true
            | "negate" => ctNegate l A.ct
            | "multiply" =>
              match A.scheme with
              | .ckks => ctMultiplyDyadic l A.ct B.ct
              | .bgv => bgvMultiply l A.ct B.ct
              | .bfv => do
                let bt ← Drv.C10.mkTablesAll l.k (l.tool.baseBsk.base.toList.map (·.value))
                bfvMultiply l bt A.ct B.ct
            | "square" =>      -- the code's squaring routines have their OWN model (size-2 fast path, fallback to the product)
              match A.scheme with
              | .ckks => ckksSquare l A.ct
              | .bgv => bgvSquare l A.ct
              | .bfv => do
                let bt ← Drv.C10.mkTablesAll l.k (l.tool.baseBsk.base.toList.map (·.value))
                bfvSquare l bt A.ct
            | "multiply_plain" => ctMultiplyPlainNtt l A.ct plainB
            | "add_plain" => do let c0 ← rnsAdd l (A.ct.polys.getD 0 #[]) plainB; pure { A.ct with polys := A.ct.polys.set! 0 c0 }
            | "sub_plain" => do let c0 ← rnsSub l (A.ct.polys.getD 0 #[]) plainB; pure { A.ct with polys := A.ct.polys.set! 0 c0 }
            | _ => .error .other
          let modelS := match model with
            | .ok c => if c.polys == Rr.ct.polys ∧ c.cf = Rr.ct.cf then "ok" else s!"model-differs(cf {c.cf} vs {Rr.ct.cf}):" ++ (fPolys c.polys).take 160
            | .error .other => "ANY"
            | .error e => "ERR:" ++ e.toStr
          let (e1, e2) : Int × Int :=
            if A.ct.cf = B.ct.cf ∨ B.ct.polys.size < 2 then (1, 1) else
              match balanceCorrectionFactors A.ct.cf B.ct.cf l.t with
              | .ok (_, x, y) => ((x : Int), (y : Int))
              | .error _ => (1, 1)
          let want : Option Spec.ZPoly := match op with
            | "add" => some (Spec.zAdd (phA.map (· * e1)) (phB.map (· * e2)) Q)
            | "sub" => some (Spec.zAdd (phA.map (· * e1)) (phB.map (fun x => -(x * e2))) Q)
            | "add_plain" => some (Spec.zAdd phA phB Q)
            | "sub_plain" => some (Spec.zAdd phA (phB.map (fun x => -x)) Q)
            | "negate" => some (phA.map (fun x => (-x) % (Q : Int)))
            | "multiply" | "multiply_plain" => some (Spec.zNegMul phA phB Q)
            | "square" => some (Spec.zNegMul phA phA Q)
            | _ => none
          let okPhase := match want with
            | some w => (A.scheme = .bfv ∧ (op == "multiply" ∨ op == "square")) ||   -- BEHZ product is rounded: semantics via `prog` lines
                        (List.range N).all fun j => Spec.imod (w.getD j 0 - phR.getD j 0) Q = 0
            | none => -- relinearize: key-switch noise only
              let k := A.qs.length; let qmax := A.qs.foldl max 0
              let P := pNat sb   -- for relinearize the special prime travels in the second scale slot
              let Bks := 21 * N * k * ((qmax + P - 1) / (max P 1)) + N + 2
              (List.range N).all fun j => (Spec.centred (Spec.imod (phR.getD j 0 - phA.getD j 0) Q) Q).natAbs ≤ Bks
          let wantScale : Float := match op with
            | "multiply" | "multiply_plain" => fa * fb
            | "square" => fa * fa
            | _ => fa
          let okScale := A.scheme ≠ .ckks ∨ wantScale.toBits.toNat = pNat sr
          let okLevel := Rr.qs = A.qs
          some (modelS, relSpec "ok" (okPhase && decide okScale && decide okLevel) s!"phase={okPhase} scale={decide okScale} level={decide okLevel}")
      | _, _, _ => none
    | _ => none
  | "ckks_scale_ok", [bits, totalBits] =>
    -- refusal rule of `is_scale_within_bounds`
    let s := Float.ofBits (pNat bits).toUInt64
    let ok := ckksScaleOk s (pNat totalBits)
    some (fBool ok, fBool ok)
  | "ckks_scales_close", [b1, b2] =>
    -- `are_close_f64` on two scales given by their IEEE bit patterns: model = the exact dyadic rule `areCloseDy`;
    -- spec: bit-identical scales agree, scales at least 2^-45 apart (relative) disagree, in between no claim
    let dy (b : Nat) : Option (Int × Int) :=
      let ex : Nat := b / 2^52 % 2048; let fr : Nat := b % 2^52
      if b / 2^63 % 2 = 1 ∨ ex = 2047 then none else some (if ex = 0 then ((fr : Int), -1074) else (((fr + 2^52 : Nat) : Int), (ex : Int) - 1075))
    match dy (pNat b1), dy (pNat b2) with
    | some (m1, e1), some (m2, e2) =>
      let e := min (min e1 e2) 0
      let a := m1 * 2 ^ (e1 - e).toNat; let b := m2 * 2 ^ (e2 - e).toNat; let one : Int := 2 ^ (-e).toNat
      let far := decide (max (max a b) one ≤ ((a - b).natAbs : Int) * 35184372088832)
      some (fBool (areCloseDy m1 e1 m2 e2), if pNat b1 = pNat b2 then "1" else if far then "0" else "ANY")
    | _, _ => some ("ANY", "ANY")
  | _, _ => none

end Drv.C03
