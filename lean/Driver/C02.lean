import Driver.Scheme
import Heathcliff.Model.Evaluator
namespace Drv.C02
open HC Drv Drv.Sch

/-- `prog`: result of an operation program with the plaintext the shadow program predicts.
    The spec claims exact decryption when the predicted worst-case budget is ≥ 4 bits (the exact budget of the result is reported for diagnosis only: it is relative to the nearest plaintext, not to the expected one). -/
def handle (fn : String) : Handler := fun a _impl =>
  match fn, a with
  | "prog", [scheme, n, qs, t, sk, ntt, cf, polys, pred, expected] =>
    let p := parseCt scheme n qs t sk ntt cf polys
    let model := modelDec p
    match mkLevel p.scheme p.n p.qs p.t with
    | .error e => some (model, "ERR:" ++ e.toStr)
    | .ok l =>
      if p.ct.polys.size < 2 then some (model, "ERR:refused") else
      let Q := Spec.prodL p.qs
      let ph := exactPhase l p.qs p.sk p.ct
      let want := pList expected
      let bfv := p.scheme = .bfv
      let b := Spec.budget bfv p.t Q ph
      let claim := pInt pred ≥ 4
      let dec := if bfv then (Spec.trim (Spec.bfvDecode p.t Q ph)).toList else (Spec.trim (Spec.bgvDecode p.t p.ct.cf ph)).toList
      let spec :=
        if !claim then "ANY"
        else if dec = want then fList want
        else s!"RELFAIL(exact decryption {fList dec} differs from the program value; exact budget {b}, predicted {pred})"
      some (model, spec)
  | "balance", [f1, f2, t] =>
    let f1 := pNat f1; let f2 := pNat f2; let t := pNat t
    let model := fR (fun (r : Nat × Nat × Nat) => s!"{r.1},{r.2.1},{r.2.2}") (do let m ← Modulus.mk? t; balanceCorrectionFactors f1 f2 m)
    -- relational spec: e1·f1 ≡ e2·f2 ≡ f (mod t), e1 a unit
    let spec := match (pList _impl) with
      | [f, e1, e2] => relSpec _impl ((e1 * f1) % t = f ∧ (e2 * f2) % t = f ∧ Nat.gcd e1 t = 1 ∧ f < t) "balanced factors"
      | _ => if Nat.gcd f1 t = 1 then "RELFAIL(balance must succeed for an invertible factor)" else "ERR:refused"
    some (model, spec)
  | _, _ => none

end Drv.C02
