/- Shared driver code of C14 / C15: token parsing, canonical dumps, type-tag -> codec dispatch. -/
import Driver.Util
import Driver.C09
import Heathcliff.Model.CodecGen
namespace Drv.CodecU
open HC HC.Codec Drv

def hexVal (c : Char) : Nat :=
  if c.isDigit then c.toNat - '0'.toNat else if 'a' ≤ c ∧ c ≤ 'f' then c.toNat - 'a'.toNat + 10 else 0

def pHex (s : String) : Bytes :=
  if s == "-" then [] else
  let rec go : List Char → List Nat
    | a :: b :: r => (hexVal a * 16 + hexVal b) :: go r
    | _ => []
  go s.toList

def hexDigit (n : Nat) : Char := if n < 10 then Char.ofNat (48 + n) else Char.ofNat (87 + n)
def fHex (b : Bytes) : String :=
  if b.isEmpty then "-" else String.ofList (b.flatMap fun x => [hexDigit (x / 16 % 16), hexDigit (x % 16)])

def pDots (s : String) : List Nat := if s == "-" || s.isEmpty then [] else (s.splitOn ".").map pNat
def fDots (l : List Nat) : String := if l.isEmpty then "-" else ".".intercalate (l.map toString)

/-- `p0.p1.p2.p3:scheme:n:q.q.q` -/
def pLevel (s : String) : Level :=
  match s.splitOn ":" with
  | [pid, sc, n, qs] => ⟨pDots pid, pNat sc, pNat n, pDots qs⟩
  | _ => noLevel

/-- `<t>:<firstN>/<level>/<level>…` -/
def pCtx (s : String) : Ctx :=
  match s.splitOn "/" with
  | hd :: lv =>
    let (t, n) := match hd.splitOn ":" with
      | [t, n] => (pNat t, pNat n)
      | _ => (0, 0)
    ⟨lv.map pLevel, t, n⟩
  | [] => ⟨[], 0, 0⟩

/-- seed-expansion table `w.w.…:c,c,…;…` (seed words : flat polynomial) -/
def pExpand (s : String) : List (List Nat × List Nat) :=
  if s == "-" || s.isEmpty then [] else
  (s.splitOn ";").map fun e => match e.splitOn ":" with
    | [a, b] => (pDots a, pList b)
    | _ => ([], [])

def chunkN {α} (n : Nat) : Nat → List α → List (List α)
  | 0, _ => []
  | c+1, l => l.take n :: chunkN n c (l.drop n)

def expandFlat (tbl : List (List Nat × List Nat)) (seed : List Nat) (_ : Level) : List Nat :=
  match tbl.find? (fun e => e.1 == seed) with
  | some e => e.2
  | none => []

def expandPoly (tbl : List (List Nat × List Nat)) (seed : List Nat) (lv : Level) : Poly :=
  chunkN lv.n lv.moduli.length (expandFlat tbl seed lv)

/-- identity "expansion" for the raw full-format view: leaves flag, seed and padding in place -/
def expandKeep (seed : List Nat) (lv : Level) : List Nat :=
  seedFlag :: seed ++ List.replicate (lv.moduli.length * lv.n - 1 - seedWords) 0

/-- NTT of one RNS component through the C09 model (tables rebuilt per call; sizes are small) -/
def nttOf (forward : Bool) (lv : Level) (j : Nat) (v : List Nat) : List Nat :=
  let q := lv.moduli.getD j 0
  let k := Nat.log2 lv.n
  match Drv.C09.mkTables k q with
  | .ok t => ((if forward then HC.ntt t v.toArray else HC.intt t v.toArray)).toList
  | .error _ => v

/-! canonical dumps (must equal the harness's) -/

def dPid (p : List Nat) : String := fDots p
def dParams (p : Params) : String := s!"P:{p.scheme}:{p.n}:{fDots p.coeffMod}:{p.plainMod}:{fBool p.special}"
def dPlain (p : Plain) : String := s!"T:{dPid p.pid}:{p.scale}:{fList p.data}"
def dCt (c : Ct) : String :=
  s!"C:{dPid c.pid}:{c.size}:{fBool c.ntt}:{c.scale}:{c.cf}:{fList (c.polys.flatten.flatten)}"
def dCtFull (c : CtFull) : String := s!"C:{dPid c.pid}:{c.size}:{fBool c.ntt}:{c.scale}:{c.cf}:{fList c.data}"
def dVec {α} (d : α → String) (l : List α) : String := "V[" ++ "+".intercalate (l.map d) ++ "]"
def dKs {α} (d : α → String) (k : KSwitch α) : String :=
  s!"K:{dPid k.pid}:" ++ (if k.keys.isEmpty then "-" else ";".intercalate (k.keys.map fun row =>
    if row.isEmpty then "_" else "+".intercalate (row.map d)))
def dPolySer (p : List Nat × Poly) : String := s!"Y:{dPid p.1}:{fList p.2.flatten}"

/-- what the handlers need from a codec, with the object type hidden -/
structure Dyn where
  /-- decode (with seed expansion etc.): dump of the restored object, rest of the stream -/
  decDump : Bytes → Except DErr (String × Bytes)
  /-- raw decode (what is on the wire): the scalar I/O calls that write it back, and `serialized_size` -/
  rawChunks : Bytes → Except DErr (List Chunk × Nat × Bytes)

def mkDyn {α} (c craw : Codec α) (dump : α → String) : Dyn where
  decDump bs := match c.dec bs with
    | .error e => .error e
    | .ok (x, r) => .ok (dump x, r)
  rawChunks bs := match craw.dec bs with
    | .error e => .error e
    | .ok (x, r) => .ok (craw.chunks x, craw.size x, r)

def dynOf (ty : String) (ctxS expS termsS : String) : Option Dyn :=
  let tbl := pExpand expS
  let terms := pList termsS
  let ctxs := (ctxS.splitOn "~").map pCtx
  let ctx := ctxs.headD ⟨[], 0, 0⟩
  let ct (cx : Ctx) := ctC cx (expandPoly tbl)
  let ctT (cx : Ctx) := ctTermsC cx (expandPoly tbl) (nttOf true) (nttOf false) terms
  let ctTR (cx : Ctx) := ctTermsRawC cx (nttOf true) (nttOf false) terms
  match ty with
  | "u64" => some (mkDyn u64C u64C toString)
  | "usize" => some (mkDyn usizeC usizeC toString)
  | "u8" => some (mkDyn u8C u8C toString)
  | "bool" => some (mkDyn boolC boolC fBool)
  | "f64" => some (mkDyn f64C f64C toString)
  | "modulus" => some (mkDyn modulusC modulusC toString)
  | "scheme" => some (mkDyn schemeC schemeC toString)
  | "pid" => some (mkDyn pidC pidC dPid)
  | "vecu64" => some (mkDyn (vecC u64C) (vecC u64C) fList)
  | "vecmod" => some (mkDyn (vecC modulusC) (vecC modulusC) fList)
  | "params" => some (mkDyn paramsC paramsC dParams)
  | "plain" => some (mkDyn plainC plainC dPlain)
  | "ct" => some (mkDyn (ct ctx) (ctRawC ctx) dCt)
  | "ctterms" => some (mkDyn (ctT ctx) (ctTR ctx) dCt)
  | "ctfull" => some (mkDyn (ctFullC ctx (expandFlat tbl)) (ctFullC ctx expandKeep) dCtFull)
  | "ksk" => some (mkDyn (kswitchC (ct ctx)) (kswitchC (ctRawC ctx)) (dKs dCt))
  | "c1d" => some (mkDyn (c1dC (ct ctx)) (c1dC (ctRawC ctx)) (dVec dCt))
  | "c2d" => some (mkDyn (c2dC (ct ctx)) (c2dC (ctRawC ctx)) (dVec (dVec dCt)))
  | "c3d" => some (mkDyn (c3dC (ct ctx)) (c3dC (ctRawC ctx)) (dVec (dVec (dVec dCt))))
  | "c1dt" => some (mkDyn (c1dC (ctT ctx)) (c1dC (ctTR ctx)) (dVec dCt))
  | "c2dt" => some (mkDyn (c2dC (ctT ctx)) (c2dC (ctTR ctx)) (dVec (dVec dCt)))
  | "c3dt" => some (mkDyn (c3dC (ctT ctx)) (c3dC (ctTR ctx)) (dVec (dVec (dVec dCt))))
  | "p1d" => some (mkDyn (c1dC plainC) (c1dC plainC) (dVec dPlain))
  | "p2d" => some (mkDyn (c2dC plainC) (c2dC plainC) (dVec (dVec dPlain)))
  | "p3d" => some (mkDyn (c3dC plainC) (c3dC plainC) (dVec (dVec (dVec dPlain))))
  | "polyser" => some (mkDyn (polySerC ctx) (polySerC ctx) dPolySer)
  | "rnspct" => some (mkDyn (rnspC (ctxs.map ct)) (rnspC (ctxs.map ctRawC)) (dVec dCt))
  | "rnspctt" => some (mkDyn (rnspC (ctxs.map ctT)) (rnspC (ctxs.map ctTR)) (dVec dCt))
  | "rnspksk" => some (mkDyn (rnspC (ctxs.map fun cx => kswitchC (ct cx))) (rnspC (ctxs.map fun cx => kswitchC (ctRawC cx))) (dVec (dKs dCt)))
  | _ => none

def perfectSink : Sink := ⟨[], none, 0, []⟩   -- accepts everything (limit 8 = the largest scalar)

end Drv.CodecU
