import Driver.Util
import Heathcliff.Model.Rng
namespace Drv.C16
open HC HC.Rng Drv

/-! parsing: bytes travel as lower-case hex, `-` = empty -/

def hexVal (c : Char) : Nat :=
  if '0' ≤ c ∧ c ≤ '9' then c.toNat - '0'.toNat
  else if 'a' ≤ c ∧ c ≤ 'f' then c.toNat - 'a'.toNat + 10
  else if 'A' ≤ c ∧ c ≤ 'F' then c.toNat - 'A'.toNat + 10 else 0

def unhexAux : List Char → List Nat → List Nat
  | a :: b :: r, acc => unhexAux r ((hexVal a * 16 + hexVal b) :: acc)
  | _, acc => acc.reverse

def unhex (s : String) : List Nat := if s == "-" then [] else unhexAux s.toList []

def hexDigit (n : Nat) : Char := if n < 10 then Char.ofNat (48 + n) else Char.ofNat (87 + n)
def hex (l : List Nat) : String :=
  if l.isEmpty then "-" else String.ofList (l.foldr (fun b acc => hexDigit (b / 16 % 16) :: hexDigit (b % 16) :: acc) [])

/-- `seedhex:blk;blk/seedhex:blk…` -/
def pXofData (s : String) : List (Seed × Array (Array Nat)) :=
  (s.splitOn "/").map fun e =>
    match e.splitOn ":" with
    | [sd, blks] => (unhex sd, ((blks.splitOn ";").map fun b => (unhex b).toArray).toArray)
    | _ => ([], #[])

/-- the block function instantiated with the real BLAKE3 blocks shipped on the case line -/
def xofOf (d : List (Seed × Array (Array Nat))) : Xof := fun seed c =>
  match d.find? (fun e => e.1 == seed) with
  | some e => e.2.getD c #[]
  | none => #[]

def firstSeed (d : List (Seed × Array (Array Nat))) : Seed := match d with | e :: _ => e.1 | [] => []

def pOps (s : String) : List Op :=
  if s == "-" then [] else (s.splitOn ",").map fun t =>
    if t == "u32" then .u32 else if t == "u64" then .u64 else .fill (pNat (t.drop 1).toString)

def fOut : Out → String
  | .bytes l => "x" ++ hex l
  | .word v => toString v

def fOuts (l : List Out) : String := ",".intercalate (l.map fOut)

def popcount : Nat → Nat → Nat
  | 0, _ => 0
  | f + 1, x => if x = 0 then 0 else x % 2 + popcount f (x / 2)

def fComps (c : List (List Nat)) : String := fList2 c

/-- exists v with |v| ≤ B and comp_j[i] = v mod q_j for every component -/
def rnsConsistent (B : Nat) (moduli : List Nat) (c : List (List Nat)) (n : Nat) : Bool :=
  c.length == moduli.length && c.all (fun p => p.length == n) &&
  (List.range n).all fun i =>
    let col := c.map fun p => p.getD i 0
    (List.range (2 * B + 1)).any fun t =>
      let v : Int := (t : Int) - B
      (List.zip moduli col).all fun (q, x) => x < q && ((v % (q : Int)).toNat == x)

def belowModuli (moduli : List Nat) (c : List (List Nat)) (n : Nat) : Bool :=
  c.length == moduli.length && (List.zip moduli c).all fun (q, p) => p.length == n && p.all (· < q)

def pComps (s : String) : List (List Nat) := pList2 s

def fRes (r : R String) : String := match r with | .ok s => s | .error e => "ERR:" ++ e.toStr

def samplerModel (kind : String) (xof : Xof) (s : St) (n : Nat) (moduli : List Nat) : R (List (List Nat) × St) :=
  if kind == "sample_ternary" then ternary randUniform xof s n moduli
  else if kind == "sample_cbd" then centeredBinomial xof s n moduli
  else uniformPoly randUniform xof s n moduli

def handle (fn : String) : Handler := fun a impl =>
  match fn, a with
  | "hamming_weight", [x] =>
    let x := pNat x
    some (toString (hammingWeight x), toString (popcount 8 x))
  | "rng_ops", [xd, ops] =>
    let d := pXofData xd; let xof := xofOf d; let seed := firstSeed d
    let ops := pOps ops ++ [.fill 16]
    some (fOuts (run xof (fromSeed seed) ops).1, fOuts (cursorRun xof seed 0 ops).1)
  | kind, [xd, pre, n, moduli] =>
    if kind != "sample_ternary" && kind != "sample_cbd" && kind != "sample_uniform" then none else
    let d := pXofData xd; let xof := xofOf d; let seed := firstSeed d
    let pre := pNat pre; let n := pNat n; let moduli := pList moduli
    let s0 := (fillBytes xof (fromSeed seed) pre).2
    let model := fRes do
      let (c, s1) ← samplerModel kind xof s0 n moduli
      pure (fComps c ++ "~" ++ hex (fillBytes xof s1 8).1)
    -- the property's clause on sampled polynomials, checked on what the implementation returned
    let c := pComps ((impl.splitOn "~").headD "")
    let spec :=
      if kind == "sample_ternary" then
        if moduli.all (· > 2) then relSpec impl (rnsConsistent 1 moduli c n) "ternary: same value in {-1,0,1} in every component" else "ANY"
      else if kind == "sample_cbd" then
        -- claimed for every modulus >= 2 (component = v mod q_j), also for moduli not above the error bound 21
        if moduli.all (· ≥ 2) then relSpec impl (rnsConsistent 21 moduli c n) "error: same value of magnitude <= 21 in every component" else "ANY"
      else relSpec impl (belowModuli moduli c n) "uniform: below each modulus"
    some (model, spec)
  | "hop", [xd, n, moduli, encSize, ent, op] =>
    let d := pXofData xd; let xof := xofOf d
    let n := pNat n; let moduli := pList moduli; let encSize := pNat encSize
    let entL : List Seed := if ent == "-" then [] else (ent.splitOn ",").map unhex
    let entF : Entropy := fun i => entL.getD i []
    let P : Parms := { n := n, moduli := moduli, encSize := encSize }
    let implF := impl.splitOn "~"
    let showSeed := implF.getD 1 "-" != "-"
    let fmt (used : Nat) (dr : Draw) (probe : Option St) : String := fRes do
      let m ← dr.mask
      let ns ← mapR id dr.noise
      let ps := match dr.publicSeed with | some s => if showSeed then hex s else "-" | none => "-"
      let pr := match probe with | some s => hex (fillBytes xof s 8).1 | none => "-"
      pure s!"{used}~{ps}~{fComps m}~{if ns.isEmpty then "-" else "/".intercalate (ns.map fComps)}~{pr}"
    let explicit (t : String) : St :=
      match t.splitOn ":" with
      | [_, g, pre] => (fillBytes xof (fromSeed (unhex g)) (pNat pre)).2
      | _ => fromSeed []
    let model :=
      if op == "K" then let r := hstep randUniform xof P Factory.new entF 0 .keygen; fmt r.2 r.1 none
      else if op == "S" then let r := hstep randUniform xof P Factory.new entF 0 .symmetric; fmt r.2 r.1 none
      else if op == "A" then let r := hstep randUniform xof P Factory.new entF 0 .asymmetric; fmt r.2 r.1 none
      else if op.startsWith "Sw:" then
        let g := explicit op
        let r := hstep randUniform xof P Factory.new entF 0 (.symmetricWith g)
        let boot := (Factory.new.getRng entF 0).1
        fmt r.2 r.1 (some (symCore randUniform xof P g boot []).2)
      else if op.startsWith "Aw:" then
        let g := explicit op
        let r := hstep randUniform xof P Factory.new entF 0 (.asymmetricWith g)
        let boot := (Factory.new.getRng entF 0).1
        fmt r.2 r.1 (some (asymCore randUniform xof P g boot []).2)
      else "BAD-OP"
    -- spec: number of fresh generators taken from the factory + form of every drawn polynomial
    let wantUsed := if op == "S" || op == "A" then 2 else 1
    let mask := pComps (implF.getD 2 "")
    let noises := let t := implF.getD 3 "-"; if t == "-" then [] else (t.splitOn "/").map pComps
    let maskOk :=
      if op == "K" || op == "A" || op.startsWith "Aw:" then rnsConsistent 1 moduli mask n else belowModuli moduli mask n
    let ok := pNat (implF.headD "") == wantUsed && maskOk && noises.all (fun c => rnsConsistent 21 moduli c n)
    some (model, relSpec impl ok "fresh generators per operation / form of the drawn polynomials")
  | _, _ => none

end Drv.C16
