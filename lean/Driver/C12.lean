/-
  Driver handlers for C12 (CKKS encoder).  Floating-point numbers travel as exact dyadic rationals `m:e`.

  ORACLE (spec side): the exact canonical embedding in big-integer fixed point (P = 320 fractional bits).  Roots of unity come
  from repeated half-angle square roots of i (integer square roots; no libm): psi = exp(2πi/2N).
    inverse embedding of a vector v (slot i ↔ psi^(3^i)):  c_j = (2·scale/N) · Re Σ_i v_i · psi^(-3^i·j)
    embedding of a real coefficient vector r:                slot_i = Σ_j r_j · psi^(3^i·j)
  MODEL side: the same maps computed the way the code does it: scatter through `Ckks.indexMap`, the butterfly network
  `transformFromRev` / `transformToRev` of Model/NTT.lean instantiated with fixed-point complex arithmetic, root tables chosen
  by `Ckks.rootPowerSel` / `invRootPowerSel` from the exact octant values; the integer → RNS paths of Model/CkksEncoder.lean run on
  the rounded coefficients the cfg(verif) tap recorded; decode = `Ckks.decodeCoeffs` (model iNTT, CRT compose, lift + fold).
  Model and spec embeddings are compared with each other on every case (they must agree to 2^-250 relative).

  TOLERANCES (derived; u = 2^-53, k = log2 N, L = number of limbs):
    * each butterfly layer perturbs a path product by ≤ (1+u)(1+√5u)(1+6u) ≤ 1+10u (complex add, complex mul, stored root:
      libm cos/sin ≤ 1 ulp each and the angle 2πi/m carries ≤ 4u relative error); k layers and the final scaling by
      fix = scale/N (division + 2 real products): ≤ (10k+3)u relative on every term of an output, hence
        |fl(c_j) - c_j| ≤ (10k+3)·u·scale·(Σ_p |x_p|)/N,  Σ_p |x_p| ≤ 2 Σ_i (|re v_i| + |im v_i|)
      encode vec / cplx:  tolEnc = 1/2 (round) + 1 (saturating cast at exactly 2^64 / 2^128) + that bound
      encode real / poly: tolEnc = 1/2 + 1 + 2u·|v·scale|;     encode int: 0
    * decode: the fold of coefficient j has error ≤ (L+4)·u·S_j/scale (S_j = Σ_limbs |term|, as the code forms them: for
      negative coefficients the limb differences x_l - Q_l have mixed signs), the forward transform (10k+2)·u·Σ_j |r_j|.
  Everything here is exact integer arithmetic; only the oracle's own truncation (≤ 2^-280 relative) is added to the bounds.
-/
import Driver.Util
import Driver.C10
import Heathcliff.Model.CkksEncoder
import Heathcliff.Spec.RNS
namespace Drv.C12
open HC Drv

def P : Nat := 320
def one : Int := 2 ^ P

/-! ### dyadic numbers -/
inductive FV where
  | fin (m e : Int)
  | inf (neg : Bool)
  | nan
  deriving Inhabited, BEq

def pFV (s : String) : FV :=
  if s == "inf" then .inf false else if s == "-inf" then .inf true else if s == "nan" then .nan else
  match s.splitOn ":" with
  | [m, e] => .fin (pInt m) (pInt e)
  | _ => .nan
def pFVList (s : String) : Array FV := if s == "-" || s.isEmpty then #[] else ((s.splitOn ",").map pFV).toArray

def FV.isFin : FV → Bool | .fin _ _ => true | _ => false
/-- fixed point (2^P scaling), floor -/
def dyFix (m e : Int) : Int :=
  let s := e + P
  if s ≥ 0 then m * 2 ^ s.toNat else m >>> (-s).toNat
def FV.fix : FV → Int | .fin m e => dyFix m e | _ => 0
def FV.sign : FV → Int | .fin m _ => m | .inf n => if n then -1 else 1 | .nan => 0

/-- IEEE-754 binary64 bit pattern ↦ dyadic -/
def bitsFV (b : Nat) : FV :=
  let neg := b / 2^63 % 2 = 1
  let ex : Nat := b / 2^52 % 2048
  let fr : Nat := b % 2^52
  if ex = 2047 then (if fr = 0 then .inf neg else .nan) else
  let (m, e) : Nat × Int := if ex = 0 then (fr, -1074) else (fr + 2^52, (ex : Int) - 1075)
  .fin (if neg then -(m : Int) else m) e

/-! ### fixed-point complex numbers -/
structure FC where
  re : Int
  im : Int
  deriving Inhabited
def FC.add (a b : FC) : FC := ⟨a.re + b.re, a.im + b.im⟩
def FC.sub (a b : FC) : FC := ⟨a.re - b.re, a.im - b.im⟩
def FC.mul (a b : FC) : FC := ⟨(a.re * b.re - a.im * b.im) >>> P, (a.re * b.im + a.im * b.re) >>> P⟩
def FC.conj (a : FC) : FC := ⟨a.re, -a.im⟩
def FC.zero : FC := ⟨0, 0⟩
def fcArith : Arith FC FC := ⟨FC.add, FC.sub, FC.mul, id⟩

/-- (cos, sin)(2π / 2^j) in fixed point, j ≥ 2, by half-angle steps from i -/
def cosSin : Nat → Int × Int
  | 0 => (one, 0) | 1 => (-one, 0) | 2 => (0, one)
  | j+1 =>
    let (c, s) := cosSin j
    let c' : Int := Nat.sqrt (((one + c) / 2).toNat * one.toNat)
    (c', s * one / (2 * c'))

/-- psi^t for t = 0 .. 2N-1, psi = exp(2πi/2N), N = 2^k -/
def psiPowers (k : Nat) : Array FC :=
  let (c, s) := cosSin (k + 1)
  let psi : FC := ⟨c, s⟩
  let m := 2 * 2^k
  ((List.range (m - 1)).foldl (fun (acc : Array FC × FC) _ => let nx := acc.2.mul psi; (acc.1.push nx, nx)) (#[⟨one, 0⟩], ⟨one, 0⟩)).1

def slotExpLo (k i : Nat) : Nat := powModNat 3 i (2 * 2^k)

/-! ### spec embeddings (naive sums) -/
/-- c_j·N/(2·scale) … returns the real parts Σ_i Re(v_i psi^(-e_i j)) scaled by `fix2 = 2·scale/N` (fixed point) -/
def specInverse (k : Nat) (pw : Array FC) (vals : Array FC) (fix2 : Int) : Array Int :=
  let n := 2^k; let m := 2 * n
  let es := (Array.range vals.size).map (slotExpLo k)
  Array.ofFn (n := n) fun j =>
    let acc := (List.range vals.size).foldl (fun (a : Int) i =>
      let w := pw.getD ((m - (es.getD i 0 * j.val) % m) % m) default
      let v := vals.getD i default
      a + (v.re * w.re - v.im * w.im)) 0
    ((acc >>> P) * fix2) >>> P

/-- slot_i = Σ_j r_j psi^(e_i j) for i < N/2 -/
def specForward (k : Nat) (pw : Array FC) (r : Array Int) : Array FC :=
  let n := 2^k; let m := 2 * n
  Array.ofFn (n := n / 2) fun i =>
    let e := slotExpLo k i.val
    let (a, b) := (List.range n).foldl (fun (acc : Int × Int) j =>
      let w := pw.getD ((e * j) % m) default
      let x := r.getD j 0
      (acc.1 + x * w.re, acc.2 + x * w.im)) (0, 0)
    ⟨a >>> P, b >>> P⟩

/-! ### model embeddings (the code's route) -/
def selApply (table : Array FC) (s : Ckks.RootSel) : FC :=
  let (x, y) := Ckks.RootSel.apply (fun (z : Int) => -z) (fun i => let t := table.getD i default; (t.re, t.im)) s
  ⟨x, y⟩

/-- `root_powers` / `inv_root_powers` from exact octant values -/
def modelRootTables (k : Nat) (pw : Array FC) : Array FC × Array FC :=
  let n := 2^k
  if n = 2 then (#[FC.zero, ⟨0, one⟩], #[FC.zero, ⟨0, -one⟩]) else
  let rp := Array.ofFn (n := n) fun i => if i.val = 0 then FC.zero else
    match Ckks.rootPowerSel k i.val with | .ok s => selApply pw s | .error _ => FC.zero
  let irp := Array.ofFn (n := n) fun i => if i.val = 0 then FC.zero else
    match Ckks.invRootPowerSel k i.val with | .ok s => selApply pw s | .error _ => FC.zero
  (rp, irp)

/-- encode: scatter values and conjugates through the index map, inverse network, scalar fix = scale/N; real parts -/
def modelInverse (k : Nat) (irp : Array FC) (vals : Array FC) (fix : Int) : Array Int :=
  let n := 2^k; let slots := n / 2
  let map := Ckks.indexMap k
  let conj := (List.range vals.size).foldl (fun (a : Array FC) i =>
    let v := vals.getD i default
    (a.setIfInBounds (map.getD i 0) v).setIfInBounds (map.getD (i + slots) 0) v.conj) (Array.replicate n FC.zero)
  let out := transformFromRev fcArith k (arrFn irp) ⟨fix, 0⟩ conj
  out.map (·.re)

/-- decode: forward network on the coefficient values, gather through the index map -/
def modelForward (k : Nat) (rp : Array FC) (r : Array Int) : Array FC :=
  let n := 2^k
  let res := transformToRev fcArith k (arrFn rp) (Array.ofFn (n := n) fun j => (⟨r.getD j.val 0, 0⟩ : FC))
  let map := Ckks.indexMap k
  Array.ofFn (n := n / 2) fun i => res.getD (map.getD i.val 0) default

/-! ### helpers -/
def iabs (x : Int) : Int := if x < 0 then -x else x
def sumAbs (a : Array Int) : Int := a.foldl (fun s x => s + iabs x) 0
def maxAbs (a : Array Int) : Int := a.foldl (fun s x => if iabs x > s then iabs x else s) 0
/-- a · 2^-53 -/
def u53 (a : Int) : Int := a >>> 53
def close (a b tol : Int) : Bool := iabs (a - b) ≤ tol

structure Ctx where
  k : Nat
  qs : List Nat
  lv : Ckks.Level
  pw : Array FC
  rp : Array FC
  irp : Array FC

def mkCtx (k : Nat) (qs : List Nat) : R Ctx := do
  let base ← Drv.C10.mkBase qs
  let tables ← Drv.C10.mkTablesAll k qs
  let pw := psiPowers k
  let (rp, irp) := modelRootTables k pw
  pure ⟨k, qs, ⟨k, base, tables⟩, pw, rp, irp⟩

def Ctx.n (c : Ctx) : Nat := 2 ^ c.k
def Ctx.Q (c : Ctx) : Nat := c.lv.base.prod
def Ctx.B (c : Ctx) : Nat := c.lv.totalBits
def Ctx.L (c : Ctx) : Nat := c.qs.length

/-- spec-side coefficients of a plaintext given in NTT form: model iNTT (C09), exact CRT, centred representative -/
def specCoeffs (c : Ctx) (p : RnsPoly) : Array Int :=
  let coef := Array.ofFn (n := c.L) fun j => intt (c.lv.tables.getD j.val default) (p.getD j.val #[])
  Array.ofFn (n := c.n) fun i =>
    let x := Spec.crt c.qs ((List.range c.L).map fun j => (coef.getD j #[]).getD i.val 0)
    -- CKKS lift: x ≥ (Q+1)/2 ↦ x − Q
    if 2 * x ≥ c.Q + 1 then (x : Int) - c.Q else x

def validPlain (c : Ctx) (p : RnsPoly) : Bool :=
  p.size = c.L && (List.range c.L).all fun j => (p.getD j #[]).size = c.n && (p.getD j #[]).all (· < c.qs.getD j 0)

structure DecOut where
  slots : Array FC        -- expected decode() values (fixed point)
  coefs : Array Int       -- expected decode_polynomial() values (fixed point)
  tolSlot : Int
  tolCoef : Array Int
  huge : Bool             -- beyond the f64 range: no claim

/-- expected decode outputs from numerators / fold sums; `fwd` = the embedding used (model network or naive sum) -/
def decodeExpect (c : Ctx) (scaleFix : Int) (nums : Array Int) (sums : Array Nat) (fwd : Array Int → Array FC) : DecOut :=
  let r := nums.map fun x => x * 2 ^ (2 * P) / scaleFix           -- r_j = num_j / scale in fixed point
  let sr := sums.map fun (s : Nat) => (s : Int) * 2 ^ (2 * P) / scaleFix
  let tolCoef := sr.map fun s => u53 (((c.L : Int) + 4) * s) + (s >>> 280) + 2
  let total := sumAbs r
  let tolSlot := sumAbs tolCoef + u53 ((10 * (c.k : Int) + 2) * total) + (total >>> 280) + 2
  ⟨fwd r, r, tolSlot, tolCoef, decide (maxAbs (sr.push total) ≥ 2 ^ (P + 1000))⟩

def pComplexList (s : String) : Array (FV × FV) :=
  let a := pFVList s
  Array.ofFn (n := a.size / 2) fun i => (a.getD (2 * i.val) default, a.getD (2 * i.val + 1) default)

/-- are the implementation's decode outputs within tolerance of the expectation? -/
def decodeMatches (e : DecOut) (d1 : Array (FV × FV)) (d2 : Array FV) : Option String :=
  if e.huge then none else
  if d1.size ≠ e.slots.size then some "decode: wrong slot count" else
  if d2.size ≠ e.coefs.size then some "decode_polynomial: wrong length" else
  match (List.range d1.size).find? (fun i =>
      let (a, b) := d1.getD i default; let x := e.slots.getD i default
      !(a.isFin && b.isFin && close a.fix x.re e.tolSlot && close b.fix x.im e.tolSlot)) with
  | some i => some s!"decode slot {i} off by more than tol (tol*2^64={e.tolSlot >>> (P - 64)})"
  | none =>
    match (List.range d2.size).find? (fun j =>
        let a := d2.getD j default
        !(a.isFin && close a.fix (e.coefs.getD j 0) (e.tolCoef.getD j 0))) with
    | some j => some s!"decode_polynomial coefficient {j} off by more than tol"
    | none => none

def modelDecode (c : Ctx) (scaleFix : Int) (p : RnsPoly) : R DecOut := do
  let cs ← Ckks.decodeCoeffs c.lv p
  pure (decodeExpect c scaleFix (cs.map (·.1)) (cs.map (·.2)) (modelForward c.k c.rp))

def specDecode (c : Ctx) (scaleFix : Int) (p : RnsPoly) : DecOut :=
  let cs := specCoeffs c p
  -- the fold sums S_j are a property of the code's limb loop: taken from the model's fold of the same integer
  let sums := cs.map fun (x : Int) => (Ckks.decodeFold c.L c.Q (Ckks.upperHalfThreshold c.Q) (if x < 0 then (x + c.Q).toNat else x.toNat)).2
  decodeExpect c scaleFix cs sums (specForward c.k c.pw)

/-- model and spec embeddings must agree with each other far below the floating-point tolerance -/
def agree (a b : Array FC) (mag : Int) : Bool :=
  a.size = b.size && (List.range a.size).all fun i =>
    let x := a.getD i default; let y := b.getD i default
    close x.re y.re ((mag >>> 250) + 2^40) && close x.im y.im ((mag >>> 250) + 2^40)

/-! ### encode -/
structure Tap where
  bits : Nat
  coeffs : Array FV

def pTap (s : String) : Option Tap :=
  match s.splitOn "/" with
  | [b, cs] => some ⟨pNat b, pFVList cs⟩
  | _ => none

def fComps (p : RnsPoly) : String := Drv.C10.fPoly p

def toFC (v : FV × FV) : FC := ⟨v.1.fix, v.2.fix⟩

/-- the model's plaintext from the tap (or its refusal) -/
def modelEncode (c : Ctx) (entry : String) (scale : FV) (nvals : Nat) (iv : Int) (tap : Option Tap) : R RnsPoly := do
  let n := c.n
  if entry == "int" then Ckks.encodeI64Single c.lv iv else
  if entry == "vec" && nvals > n / 2 then .error .refused else
  if entry == "poly" && nvals > n then .error .refused else
  let okScale := match scale with
    | .fin m e => Ckks.scaleOk m e c.B
    | _ => false
  if !okScale then .error .refused else
  if entry == "poly" && nvals = 0 then .error .other else      -- `reduce(f64::max).unwrap()` on an empty list
  match tap with
  | none => .error .refused
  | some t =>
    if !(t.coeffs.all FV.isFin) then .error .refused else
    let cs := t.coeffs.map fun v => match v with | .fin m e => Ckks.roundDyadic m e | _ => 0
    if entry == "real" then Ckks.encodeSingleRns c.lv t.bits (cs.getD 0 0)
    else Ckks.encodeArrayRns c.lv t.bits cs

structure EncExpect where
  coeffs : Array Int     -- exact (unrounded) coefficients, fixed point
  tol : Array Int        -- per coefficient, fixed point
  slotVals : Array FC    -- what decode() must return (inputs, padded)
  polyVals : Array Int   -- for the coefficient-list entry: what decode_polynomial() must return

def handleEnc (entry : String) (k : Nat) (qs : List Nat) (scaleS valsS tapS impl : String) : String × String :=
  match mkCtx k qs with
  | .error e => ("ERR:" ++ e.toStr, "ANY")
  | .ok c =>
  let n := c.n; let slots := n / 2
  let scale := pFV scaleS
  let tap := pTap tapS
  let cvals : Array (FV × FV) := if entry == "vec" || entry == "cplx" then pComplexList valsS else #[]
  let rvals : Array FV := if entry == "real" || entry == "poly" then pFVList valsS else #[]
  let iv : Int := if entry == "int" then pInt valsS else 0
  let nvals := if entry == "vec" then cvals.size else if entry == "poly" then rvals.size else 1
  let scaleFix := scale.fix
  -- implementation output
  let implToks := impl.splitOn " "
  let implErr := impl.startsWith "ERR"
  let (iScale, iP, iD1, iD2) : String × RnsPoly × Array (FV × FV) × Array FV := match implToks with
    | [s, p, d1, d2] => (s, Drv.C10.pPoly p, pComplexList d1, pFVList d2)
    | _ => ("", #[], #[], #[])
  let decTail := match implToks with | [_, _, d1, d2] => d1 ++ " " ++ d2 | _ => ""
  -- ---------------- model
  let model : String := match modelEncode c entry scale nvals iv tap with
    | .error e => "ERR:" ++ e.toStr
    | .ok mp =>
      let head := scaleS ++ " " ++ fComps mp
      if implErr then head else
      match modelDecode c scaleFix mp with
      | .error e => head ++ " DECODE-ERR:" ++ e.toStr
      | .ok ex =>
        let sp := specDecode c scaleFix mp
        if !(ex.huge || agree ex.slots sp.slots (sumAbs ex.coefs)) then head ++ " MODEL-SPEC-EMBEDDING-MISMATCH" else
        match decodeMatches ex iD1 iD2 with
        | none => head ++ " " ++ decTail
        | some why => head ++ " DECFAIL(" ++ why ++ ")"
  -- ---------------- spec
  let structural : Bool := (entry == "vec" && nvals > slots) || (entry == "poly" && nvals > n)
  let spec : String :=
    if structural then "ERR:refused" else
    if entry == "poly" && nvals = 0 then "ANY" else
    if entry != "int" && scale == .nan then "ANY" else
    let scaleBad := entry != "int" && (match scale with
      | .fin m e => !(Ckks.scaleOk m e c.B)
      | _ => true)
    if scaleBad then "ERR:refused" else
    let inputsFinite := cvals.all (fun v => v.1.isFin && v.2.isFin) && rvals.all FV.isFin
    if !inputsFinite then "ANY" else
    -- exact coefficients
    let vfc := cvals.map toFC
    let vfull : Array FC := if entry == "cplx" then Array.replicate slots (vfc.getD 0 default) else vfc
    let inAbs : Int := vfull.foldl (fun s v => s + iabs v.re + iabs v.im) 0
    let ex : EncExpect :=
      if entry == "vec" || entry == "cplx" then
        let fix2 := 2 * scaleFix / n
        let cs := specInverse k c.pw vfull fix2
        let mag := (scaleFix * (2 * inAbs)) >>> P
        let tol := one / 2 + one + u53 ((10 * (k : Int) + 3) * mag / n) + (mag >>> 280) + 2
        ⟨cs, Array.replicate n tol, Array.ofFn (n := slots) fun i => vfull.getD i.val FC.zero, #[]⟩
      else if entry == "real" then
        let x := (rvals.getD 0 default).fix
        let c0 := (x * scaleFix) >>> P
        let tol := one / 2 + one + (iabs c0 >>> 52) + 2
        ⟨Array.ofFn (n := n) fun j => if j.val = 0 then c0 else 0, Array.ofFn (n := n) fun j => if j.val = 0 then tol else 0,
         Array.replicate slots ⟨x, 0⟩, #[]⟩
      else if entry == "int" then
        ⟨Array.ofFn (n := n) fun j => if j.val = 0 then iv * one else 0, Array.replicate n 0, Array.replicate slots ⟨iv * one, 0⟩, #[]⟩
      else
        let cs := Array.ofFn (n := n) fun j => ((rvals.getD j.val (.fin 0 0)).fix * scaleFix) >>> P
        ⟨cs, cs.map fun x => one / 2 + one + (iabs x >>> 52) + 2, #[], Array.ofFn (n := n) fun j => (rvals.getD j.val (.fin 0 0)).fix⟩
    -- model embedding vs spec embedding (vector entry points)
    let embedOk := if entry == "vec" || entry == "cplx" then
        let mi := modelInverse k c.irp vfull (scaleFix / n)
        let mag := (scaleFix * (2 * inAbs + one)) >>> P
        (List.range n).all fun j => close (mi.getD j 0) (ex.coeffs.getD j 0) ((mag >>> 250) + 2^40)
      else true
    if !embedOk then "RELFAIL(model embedding (index map, get_root selection, butterfly network) differs from the naive inverse embedding)" else
    let M := maxAbs ex.coeffs
    let tolM := ex.tol.foldl (fun s x => if x > s then x else s) 0
    if M ≥ 2 ^ (P + 1000) then "ANY" else                       -- beyond the f64 range
    let mustRefuse := 2 * (M - tolM) > (c.Q : Int) * one          -- does not fit (-Q/2, Q/2)
    let mustAccept := M + tolM < 2 ^ (c.B - 3) * one ∧ 3 ≤ c.B
    if implErr then
      if mustAccept then "RELFAIL(refused an input whose scaled magnitude fits with the documented 2-bit margin)" else impl
    else if mustRefuse then "ERR:refused"                        -- accepted a magnitude that does not fit the modulus
    else
      if iScale != scaleS then "RELFAIL(plaintext scale differs from the requested one)" else
      if !validPlain c iP then "RELFAIL(plaintext is not a canonical RNS polynomial of this level)" else
      let cs' := specCoeffs c iP
      -- ONE integer vector c' with these residues and |c' - c| ≤ tol: the representative nearest to c
      let bad := (List.range n).find? fun j =>
        let cj := ex.coeffs.getD j 0
        let rnd : Int := (cj + one / 2) >>> P
        let d := Spec.centred ((cs'.getD j 0 - rnd) % (c.Q : Int)).toNat c.Q
        !(close ((rnd + d) * one) cj (ex.tol.getD j 0))
      match bad with
      | some j => s!"RELFAIL(coefficient {j}: residues are not those of an integer within tol of the exact scaled preimage; tol*2^20={(ex.tol.getD j 0) >>> (P - 20)})"
      | none =>
        -- decoding the implementation's own plaintext
        let sd := specDecode c scaleFix iP
        match decodeMatches sd iD1 iD2 with
        | some why => "RELFAIL(" ++ why ++ ")"
        | none =>
          if sd.huge then impl else
          -- and decoding returns the input within rounding + double-precision bound
          let rtSlot := sd.tolSlot + (n : Int) * (tolM * one / scaleFix)
          let rtOk := if entry == "poly" then
              (List.range n).all fun j => close ((iD2.getD j default).fix) (ex.polyVals.getD j 0) (sd.tolCoef.getD j 0 + tolM * one / scaleFix)
            else
              2 * M ≥ (c.Q : Int) * one ||     -- boundary band of the lenient zone: the centred lift is not determined
              (List.range slots).all fun i =>
                let (a, b) := iD1.getD i default; let v := ex.slotVals.getD i FC.zero
                close a.fix v.re rtSlot && close b.fix v.im rtSlot
          if rtOk then impl else "RELFAIL(decode(encode(v)) differs from v by more than rounding + double-precision bound)"
  (model, spec)

/-! ### decode of arbitrary plaintexts -/
def handleDec (k : Nat) (qs : List Nat) (scaleS dataS impl : String) : String × String :=
  match mkCtx k qs with
  | .error e => ("ERR:" ++ e.toStr, "ANY")
  | .ok c =>
  let scale := pFV scaleS
  if dataS.startsWith "coeff:" then ("ERR:refused", "ERR:refused") else       -- not in NTT form
  let p := Drv.C10.pPoly dataS
  if !validPlain c p then ("ERR:refused", "ERR:refused") else
  let ok := match scale with | .fin m e => Ckks.scaleDecOk m e c.B | _ => false
  if scale == .nan then ("ANY", "ANY") else
  if !ok then ("ERR:refused", "ERR:refused") else
  let (d1, d2) : Array (FV × FV) × Array FV := match impl.splitOn " " with
    | [a, b] => (pComplexList a, pFVList b)
    | _ => (#[], #[])
  let sd := specDecode c scale.fix p
  let spec := match decodeMatches sd d1 d2 with | none => impl | some why => "RELFAIL(" ++ why ++ ")"
  let model := match modelDecode c scale.fix p with
    | .error e => "ERR:" ++ e.toStr
    | .ok ex =>
      if !(ex.huge || agree ex.slots sd.slots (sumAbs ex.coefs)) then "MODEL-SPEC-EMBEDDING-MISMATCH" else
      if !(ex.coefs == sd.coefs) then "MODEL-SPEC-LIFT-MISMATCH" else
      match decodeMatches ex d1 d2 with | none => impl | some why => "DECFAIL(" ++ why ++ ")"
  (model, spec)

/-! ### tables -/
def pBitsList (s : String) : Array (Nat × Nat) :=
  if s == "-" || s.isEmpty then #[] else ((s.splitOn ",").map fun t => match t.splitOn ":" with
    | [a, b] => (pNat a, pNat b) | _ => (0, 0)).toArray
def fBitsList (a : Array (Nat × Nat)) : String :=
  if a.isEmpty then "-" else ",".intercalate (a.toList.map fun (x, y) => s!"{x}:{y}")
/-- IEEE negation: flip the sign bit -/
def negBits (b : Nat) : Nat := if b ≥ 2^63 then b - 2^63 else b + 2^63
def selBits (table : Array (Nat × Nat)) (s : Ckks.RootSel) : Nat × Nat :=
  Ckks.RootSel.apply negBits (fun i => table.getD i (0, 0)) s

def nearRoot (b : Nat × Nat) (w : FC) : Bool :=
  match bitsFV b.1, bitsFV b.2 with
  | .fin m1 e1, .fin m2 e2 => close (dyFix m1 e1) w.re (2 ^ (P - 50)) && close (dyFix m2 e2) w.im (2 ^ (P - 50))
  | _, _ => false

def handle (fn : String) : Handler := fun a impl =>
  match fn, a with
  | "ckks_index_map", [k] =>
    let k := pNat k; let n := 2^k; let m := 2 * n; let slots := n / 2
    let spec := (List.range n).map fun i =>
      if i < slots then brev k ((powModNat 3 i m - 1) / 2) else brev k ((m - powModNat 3 (i - slots) m - 1) / 2)
    some (fList (Ckks.indexMap k).toList, fList spec)
  | "ckks_get_root", [m, oct, js] =>
    let m := pNat m; let oct := pBitsList oct; let js := pList js
    let model := js.map fun j => match Ckks.getRootSel m 3 j with | .ok s => selBits oct s | .error _ => (0, 0)
    let out := pBitsList impl
    let pw := psiPowers (Nat.log2 m - 1)
    let ok := out.size = js.length && (List.range js.length).all fun i => nearRoot (out.getD i (0, 0)) (pw.getD (js.getD i 0 % m) default)
    some (fBitsList model.toArray, relSpec impl ok "get_root(j) is not exp(2πi j/m) to 2^-50")
  | "ckks_root_tables", [k, oct] =>
    let k := pNat k; let n := 2^k; let oct := pBitsList oct
    let one64 := 4607182418800017408
    let (rp, irp) : Array (Nat × Nat) × Array (Nat × Nat) :=
      if n = 2 then (#[(0, 0), (0, one64)], #[(0, 0), (0, negBits one64)]) else
      (Array.ofFn (n := n) fun i => if i.val = 0 then (0, 0) else match Ckks.rootPowerSel k i.val with | .ok s => selBits oct s | .error _ => (0, 0),
       Array.ofFn (n := n) fun i => if i.val = 0 then (0, 0) else match Ckks.invRootPowerSel k i.val with | .ok s => selBits oct s | .error _ => (0, 0))
    let pw := psiPowers k; let m := 2 * n
    let ok := match impl.splitOn " " with
      | [a, b] =>
        let a := pBitsList a; let b := pBitsList b
        a.size = n && b.size = n && (List.range n).all fun i => i = 0 ||
          (nearRoot (a.getD i (0, 0)) (pw.getD (brev k i) default) &&
           nearRoot (b.getD i (0, 0)) (pw.getD ((m - (brev k (i - 1) + 1)) % m) default))
      | _ => false
    some (fBitsList rp ++ " " ++ fBitsList irp, relSpec impl ok "root tables are not psi^brev(i), psi^-(brev(i-1)+1) to 2^-50")
  | "ckks_enc", [entry, k, qs, scale, vals, tap] =>
    -- a `.gap` suffix of the entry token is a harness-side LABEL (known_findings.json); the oracle ignores it
    some (handleEnc ((entry.splitOn ".").headD entry) (pNat k) (pList qs) scale vals tap impl)
  | "ckks_dec", [k, qs, scale, data] => some (handleDec (pNat k) (pList qs) scale data impl)
  | _, _ => none

end Drv.C12
