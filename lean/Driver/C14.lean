/- C14: round trips — the model decoder applied to the implementation's bytes must yield the object the
   implementation restored (canonical dump), consume what the implementation consumed, and the model
   encoder applied to the (raw) decoded object must give back the implementation's bytes; announced size =
   written = consumed. -/
import Driver.CodecUtil
namespace Drv.C14
open HC HC.Codec Drv Drv.CodecU

def handle (fn : String) : Handler := fun a impl =>
  match fn, a with
  | "c14", [ty, ctx, exp, terms, hex, tail] =>
    match dynOf ty ctx exp terms with
    | none => none
    | some d =>
      let bytes := pHex hex
      let encLen := bytes.length - pNat tail
      match d.decDump bytes, d.rawChunks bytes with
      | .ok (dump, rest), .ok (chunks, size, _) =>
        let consumed := bytes.length - rest.length
        let written := match serialize genWMode chunks perfectSink with
          | (.ok n, _) => toString n
          | (.error _, _) => "Err"
        let model := s!"{dump};c={consumed};a={size};w={written}"
        let ok := flat chunks == bytes.take encLen && consumed == encLen && size == encLen && written == toString encLen
        some (model, relSpec impl (ok && impl == model) "model enc(dec bytes) != bytes, or announced/written/consumed sizes differ")
      | _, _ => some ("ERR:other", "ERR:other")
  | _, _ => none

end Drv.C14
