import Driver.Util
namespace Drv.C08
open HC Drv

def withMod (q : Nat) (f : Modulus → String) : String :=
  match Modulus.mk? q with
  | .ok m => f m
  | .error e => "ERR:" ++ e.toStr

/-- spec-side modular power (square and multiply on the binary expansion of `e`) -/
def powMod (x e q : Nat) : Nat :=
  let rec go : Nat → Nat → Nat → Nat → Nat
    | 0, _, _, acc => acc
    | f+1, b, e, acc => if e = 0 then acc else
        go f (b * b % q) (e / 2) (if e % 2 = 1 then acc * b % q else acc)
  go 64 (x % q) e (1 % q)

def specIf (c : Bool) (s : String) : String := if c then s else "ANY"

def handle (fn : String) : Handler := fun a impl =>
  match fn, a with
  | "modulus_new", [q] =>
    let q := pNat q
    some (fR (fun m => s!"{m.cr0},{m.cr1},{m.cr2},{m.bits}") (Modulus.mk? q),
          if q = 0 then "0,0,0,0" else if q = 1 ∨ q ≥ 2^61 then "ERR:refused"
          else s!"{(2^128 / q) % 2^64},{2^128 / q / 2^64},{2^128 % q},{Nat.log2 q + 1}")
  | "increment_u64_mod", [x, q] =>
    let x := pNat x; let q := pNat q
    some (withMod q fun m => fR toString (incrementMod x m), specIf (x ≤ 2*q-2) s!"{(x+1) % q}")
  | "decrement_u64_mod", [x, q] =>
    let x := pNat x; let q := pNat q
    some (withMod q fun m => fR toString (decrementMod x m), specIf (x < q) s!"{(x + q - 1) % q}")
  | "negate_u64_mod", [x, q] =>
    let x := pNat x; let q := pNat q
    some (withMod q fun m => fR toString (negateMod x m), specIf (x < q) s!"{(q - x) % q}")
  | "div2_u64_mod", [x, q] =>
    let x := pNat x; let q := pNat q
    -- spec: the y < q with 2y ≡ x (mod q), for odd q and x < q
    some (withMod q fun m => fR toString (div2Mod x m),
          specIf (x < q ∧ q % 2 = 1) s!"{(x * ((q+1)/2)) % q}")
  | "add_u64_carry", [a, b, c] =>
    let a := pNat a; let b := pNat b; let c := pNat c
    let (r, co) := addU64Carry a b c
    some (s!"{r}/{co}", s!"{(a + b + c) % 2^64}/{(a + b + c) / 2^64}")
  | "sub_u64_borrow", [a, b, c] =>
    let a := pNat a; let b := pNat b; let c := pNat c
    let (r, bo) := subU64Borrow a b c
    some (s!"{r}/{bo}", s!"{(a + 2^64 - b - c) % 2^64}/{if a < b + c then 1 else 0}")
  | "multiply_u64_u64", [a, b] =>
    let a := pNat a; let b := pNat b
    some (s!"{mulLo a b}/{mulHi a b}", s!"{(a * b) % 2^64}/{(a * b) / 2^64}")
  | "add_u64_mod", [x, y, q] =>
    let x := pNat x; let y := pNat y; let q := pNat q
    some (withMod q fun m => fR toString (addMod x y m), specIf (x < q ∧ y < q) s!"{(x+y) % q}")
  | "sub_u64_mod", [x, y, q] =>
    let x := pNat x; let y := pNat y; let q := pNat q
    some (withMod q fun m => fR toString (subMod x y m), specIf (x < q ∧ y < q) s!"{(x + q - y) % q}")
  | "barrett_reduce_u128", [x0, x1, q] =>
    let x0 := pNat x0; let x1 := pNat x1; let q := pNat q
    some (withMod q fun m => fR toString (barrett128 x0 x1 m), s!"{(x0 + x1 * 2^64) % q}")
  | "barrett_reduce_u64", [x, q] =>
    let x := pNat x; let q := pNat q
    some (withMod q fun m => fR toString (barrett64 x m), s!"{x % q}")
  | "multiply_u64_mod", [x, y, q] =>
    let x := pNat x; let y := pNat y; let q := pNat q
    some (withMod q fun m => fR toString (mulMod x y m), s!"{(x * y) % q}")
  | "mulop_new", [y, q] =>
    let y := pNat y; let q := pNat q
    some (withMod q fun m => fR (fun o => toString o.quotient) (MulOperand.new y m),
          specIf (y < q) s!"{y * 2^64 / q}")
  | "multiply_u64operand_mod", [x, y, q] =>
    let x := pNat x; let y := pNat y; let q := pNat q
    some (withMod q fun m => fR toString (do let o ← MulOperand.new y m; mulOperandMod x o m),
          specIf (y < q) s!"{(x * y) % q}")
  | "multiply_u64operand_mod_lazy", [x, y, q] =>
    let x := pNat x; let y := pNat y; let q := pNat q
    -- spec is a relation: congruent and < 2q ; printed as "residue,inrange"
    some (withMod q fun m => fR (fun (r : Nat) => s!"{r % q},{fBool (r < 2*q)}")
            (do let o ← MulOperand.new y m; pure (mulOperandModLazy x o m)),
          specIf (y < q) s!"{(x * y) % q},1")
  | "multiply_add_u64_mod", [x, y, z, q] =>
    let x := pNat x; let y := pNat y; let z := pNat z; let q := pNat q
    some (withMod q fun m => fR toString (mulAddMod x y z m), s!"{(x * y + z) % q}")
  | "multiply_u64operand_add_u64_mod", [x, y, z, q] =>
    let x := pNat x; let y := pNat y; let z := pNat z; let q := pNat q
    some (withMod q fun m => fR toString (do let o ← MulOperand.new y m; mulOperandAddMod x o z m),
          specIf (y < q) s!"{(x * y + z) % q}")
  | "exponentiate_u64_mod", [x, e, q] =>
    let x := pNat x; let e := pNat e; let q := pNat q
    -- documented quirk: exponent 1 returns the operand unreduced
    some (withMod q fun m => fR toString (exponentiateMod x e m),
          if e = 1 then s!"{x}" else s!"{powMod x e q}")
  | "dot_product_mod", [xs, ys, q] =>
    let xs := pList xs; let ys := pList ys; let q := pNat q
    let s := (xs.zip ys).foldl (fun acc p => acc + p.1 * p.2) 0
    some (withMod q fun m => fR toString (dotProductMod xs ys m), specIf (s < 2^128) s!"{s % q}")
  | "modulo_uint", [v, q] =>
    let v := pList v; let q := pNat q
    some (withMod q fun m => fR toString (moduloUint v m), s!"{toNat v % q}")
  | "gcd", [x, y] =>
    let x := pNat x; let y := pNat y
    some (s!"{gcdU64 x y}", s!"{Nat.gcd x y}")
  | "try_invert", [v, q] =>
    let v := pNat v; let q := pNat q
    -- spec: inverse in [0,q) iff gcd = 1 (and v ≠ 0)
    let spec := if v ≠ 0 ∧ Nat.gcd v q = 1 then
        match impl.splitOn "," with
        | ["1", r] => relSpec impl (pNat r < q ∧ (pNat r * v) % q = 1 % q) "not the inverse"
        | _ => "RELFAIL(inverse exists)"
      else "0"
    some (fR (fun o => match o with | some r => s!"1,{r}" | none => "0") (tryInvert v q), spec)
  | "naf", [v] =>
    let v := pInt v
    -- spec is a relation checked on the model/impl output by `naf_ok`; here: digits sum
    let ds := pIntList impl
    let pow2 (d : Int) : Bool := d ≠ 0 ∧ (d.natAbs &&& (d.natAbs - 1)) = 0
    let rec nonadj : List Int → Bool
      | a :: b :: r => (b.natAbs ≥ 4 * a.natAbs) && nonadj (b :: r)
      | _ => true
    some (fR fIntList (naf v),
          relSpec impl (ds.foldl (· + ·) 0 = v ∧ ds.all pow2 ∧ nonadj ds) "naf digits")
  | "add_uint", [x, y, n] =>
    let x := pList x; let y := pList y; let n := pNat n
    let s := toNat (x.take n) + toNat (y.take n)
    some (fR (fun (r : List Nat × Nat) => s!"{fList r.1}/{r.2}") (addUint x y n),
          s!"{fList (fromNat n s)}/{s / 2^(64*n)}")
  | "sub_uint", [x, y, n] =>
    let x := pList x; let y := pList y; let n := pNat n
    let a := toNat (x.take n); let b := toNat (y.take n)
    let d := (a + 2^(64*n) - b) % 2^(64*n)
    some (fR (fun (r : List Nat × Nat) => s!"{fList r.1}/{r.2}") (subUint x y n),
          s!"{fList (fromNat n d)}/{if b > a then 1 else 0}")
  | "add_uint_carry", [x, y, c, n] =>
    -- `add_uint_carry(_inplace)`: operands shorter than the result are zero-extended, carry-in 0/1
    let x := pList x; let y := pList y; let c := pNat c; let n := pNat n
    let s := toNat (x.take n) + toNat (y.take n) + c
    let r := addLimbs n x y c
    some (s!"{fList r.1}/{r.2}", specIf (c ≤ 1) s!"{fList (fromNat n s)}/{s / 2^(64*n)}")
  | "sub_uint_borrow", [x, y, c, n] =>
    let x := pList x; let y := pList y; let c := pNat c; let n := pNat n
    let a := toNat (x.take n); let b := toNat (y.take n) + c
    let r := subLimbs n x y c
    some (s!"{fList r.1}/{r.2}", specIf (c ≤ 1) s!"{fList (fromNat n ((a + 2^(64*n) - b) % 2^(64*n)))}/{if b > a then 1 else 0}")
  | "uint_pred", [k, x, y] =>
    -- comparison predicates (`is_less_than_uint` …): the shorter operand is zero-extended
    let x := pList x; let y := pList y
    let c := compareUint x y; let a := toNat x; let b := toNat y
    let pick (lt eq gt : Bool) : Bool := match k with
      | "lt" => lt | "le" => lt || eq | "gt" => gt | "ge" => gt || eq | _ => eq
    some (fBool (pick (c < 0) (c == 0) (c > 0)), fBool (pick (a < b) (a == b) (a > b)))
  | "add_uint_u64", [x, y, n] =>
    let x := pList x; let y := pNat y; let n := pNat n
    let s := toNat (x.take n) + y
    some (fR (fun (r : List Nat × Nat) => s!"{fList r.1}/{r.2}") (addUintU64 x y n),
          s!"{fList (fromNat n s)}/{s / 2^(64*n)}")
  | "sub_uint_u64", [x, y, n] =>
    let x := pList x; let y := pNat y; let n := pNat n
    let a := toNat (x.take n)
    let d := (a + 2^(64*n) - y) % 2^(64*n)
    some (fR (fun (r : List Nat × Nat) => s!"{fList r.1}/{r.2}") (subUintU64 x y n),
          s!"{fList (fromNat n d)}/{if y > a then 1 else 0}")
  | "negate_uint", [x, n] =>
    let x := pList x; let n := pNat n
    let a := toNat (x.take n)
    some (fR fList (negateUint x n), s!"{fList (fromNat n ((2^(64*n) - a) % 2^(64*n)))}")
  | "multiply_uint_u64", [x, w, n] =>
    let x := pList x; let w := pNat w; let n := pNat n
    some (fR fList (multiplyUintU64 x w n), s!"{fList (fromNat n (toNat x * w))}")
  | "multiply_uint", [x, y, n] =>
    let x := pList x; let y := pList y; let n := pNat n
    some (fR fList (multiplyUint x y n), s!"{fList (fromNat n (toNat x * toNat y))}")
  | "left_shift_uint", [x, s, c] =>
    let x := pList x; let s := pNat s; let c := pNat c
    some (fR fList (leftShiftUint x s c), specIf (s < 64*c) s!"{fList (fromNat c (toNat (x.take c) * 2^s))}")
  | "right_shift_uint", [x, s, c] =>
    let x := pList x; let s := pNat s; let c := pNat c
    some (fR fList (rightShiftUint x s c), specIf (s < 64*c) s!"{fList (fromNat c (toNat (x.take c) / 2^s))}")
  | "left_shift_u192", [x, s] =>
    let x := pList x; let s := pNat s
    some (fR fList (leftShiftU192 x s), specIf (s < 192) s!"{fList (fromNat 3 (toNat (x.take 3) * 2^s))}")
  | "right_shift_u192", [x, s] =>
    let x := pList x; let s := pNat s
    some (fR fList (rightShiftU192 x s), specIf (s < 192) s!"{fList (fromNat 3 (toNat (x.take 3) / 2^s))}")
  | "half_round_up_uint", [x, n] =>
    let x := pList x; let n := pNat n
    some (fR fList (halfRoundUp x n), s!"{fList (fromNat n ((toNat (x.take n) + 1) / 2))}")
  | "compare_uint", [x, y] =>
    let x := pList x; let y := pList y
    let a := toNat x; let b := toNat y
    some (s!"{compareUint x y}", s!"{if a < b then (-1 : Int) else if a > b then 1 else 0}")
  | "multiply_many_u64", [ops, n] =>
    let ops := pList ops; let n := pNat n
    some (fR fList (multiplyManyU64 ops n), s!"{fList (fromNat n (ops.foldl (· * ·) 1))}")
  | "add_uint_mod", [x, y, m] =>
    let x := pList x; let y := pList y; let m := pList m
    let M := toNat m
    some (fR fList (addUintMod x y m), specIf (toNat x < M ∧ toNat y < M)
      s!"{fList (fromNat m.length ((toNat x + toNat y) % M))}")
  | "sub_uint_mod", [x, y, m] =>
    let x := pList x; let y := pList y; let m := pList m
    let M := toNat m
    some (fR fList (subUintMod x y m), specIf (toNat x < M ∧ toNat y < M)
      s!"{fList (fromNat m.length ((toNat x + M - toNat y) % M))}")
  | "negate_uint_mod", [x, m] =>
    let x := pList x; let m := pList m
    let M := toNat m
    some (fR fList (negateUintMod x m), specIf (toNat x < M)
      s!"{fList (fromNat m.length ((M - toNat x) % M))}")
  | "divide_uint", [x, y, n] =>
    let x := pList x; let y := pList y; let n := pNat n
    let a := toNat x; let b := toNat y
    some (fR (fun (r : List Nat × List Nat) => s!"{fList (r.1.take n)}/{fList r.2}") (divideUint x y n),
          specIf (b ≠ 0) s!"{fList (fromNat n (a % b))}/{fList (fromNat n (a / b))}")
  | _, _ => none

end Drv.C08
