import Driver.Scheme
import Heathcliff.Model.KeySwitch
namespace Drv.KS
open HC Drv Drv.Sch

def mkKeyLevel (n : Nat) (keyQs : List Nat) (t : Nat) : R KeyLevel := do
  let k := Nat.log2 n
  let ms ← Drv.C10.mkMods keyQs
  let tb ← Drv.C10.mkTablesAll k keyQs
  let tm ← Modulus.mk? t
  let P := keyQs.getLastD 1
  let inv ← (List.range (keyQs.length - 1)).mapM fun j => do
    let m := ms.getD j default
    match ← tryInvert (P % m.value) m.value with
    | none => .error .refused
    | some iv => MulOperand.new iv m
  let invT ← if t = 0 then pure 1 else do
    match ← tryInvert (P % t) t with
    | none => .error .refused
    | some iv => pure iv
  pure ⟨n, ms.toArray, tb, inv.toArray, invT, tm⟩

/-- key dump: polynomials j-major, two per decomposition index -/
def pKey (s : String) : KSKey :=
  let ps := pPolys s
  Array.ofFn (n := ps.size / 2) fun j => #[ps.getD (2 * j.val) #[], ps.getD (2 * j.val + 1) #[]]

def splitBar (l : List String) : List (List String) :=
  l.foldr (fun tok acc => if tok == "|" then [] :: acc else match acc with
    | [] => [[tok]]
    | h :: t => (tok :: h) :: t) [[]]

/-- `ks_op relin|galois <g> <key-level moduli> | src ct_case | key polys | result ct_case`: bit-exact model of
    relinearize / apply_galois through `switch_key_inplace_internal` -/
def handle (fn : String) : Handler := fun a _impl =>
  match fn, a with
  | "ks_op", op :: g :: keyQs :: "|" :: rest =>
    match splitBar rest with
    | [[sc, n, qs, t, sk, ntt, cf, polys], [keyS], [sc2, n2, qs2, t2, sk2, ntt2, cf2, polys2]] =>
      let A := parseCt sc n qs t sk ntt cf polys
      let Rr := parseCt sc2 n2 qs2 t2 sk2 ntt2 cf2 polys2
      let key := pKey keyS
      let model : R Ct := do
        let kl ← mkKeyLevel A.n (pList keyQs) A.t
        let l ← mkLevel A.scheme A.n A.qs A.t
        if op == "relin" then relinearize kl A.scheme A.qs.length (fun i => if i = 2 then some key else none) 8 A.ct
        else applyGalois kl l A.scheme A.ct (pNat g) key
      let ms := match model with
        | .ok c => if c.polys == Rr.ct.polys ∧ c.cf = Rr.ct.cf then "ok" else "model-differs:" ++ (fPolys c.polys).take 200
        | .error e => "ERR:" ++ e.toStr
      -- the semantic spec of these operations is checked by the `prog` / `ct_op` / `galois_ckks` lines of the same step
      some (ms, "ANY")
    | _ => none
  | _, _ => none

end Drv.KS
