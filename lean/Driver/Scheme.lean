/- Shared driver helpers for ciphertext-level properties (parsing of levels / ciphertexts, model and exact decryption). -/
import Driver.Util
import Driver.C10
import Heathcliff.Spec.Scheme
namespace Drv.Sch
open HC Drv

def pScheme (s : String) : Scheme := if s == "bfv" then .bfv else if s == "bgv" then .bgv else .ckks

/-- polys separated by `|`, components by `;`, coefficients by `,` -/
def pPolys (s : String) : Array RnsPoly :=
  if s == "-" || s.isEmpty then #[] else ((s.splitOn "|").map Drv.C10.pPoly).toArray
def fPolys (p : Array RnsPoly) : String :=
  if p.isEmpty then "-" else "|".intercalate (p.toList.map Drv.C10.fPoly)
def pSk (s : String) : Array Int := (pIntList s).toArray

def mkLevel (scheme : Scheme) (n : Nat) (qs : List Nat) (t : Nat) : R Level := do
  let k := Nat.log2 n
  let ms ← Drv.C10.mkMods qs
  let tm ← Modulus.mk? t
  let tb ← Drv.C10.mkTablesAll k qs
  let tool ← Drv.C10.mkTool n qs t
  pure ⟨scheme, n, k, ms.toArray, tm, tb, tool⟩

/-- coefficient-form view of a ciphertext's polynomials (through the model's inverse NTT, C09) -/
def coeffPolys (l : Level) (ct : Ct) : List RnsPoly :=
  ct.polys.toList.map (fun p => if ct.ntt then rnsIntt l p else p)

def exactPhase (l : Level) (qs : List Nat) (sk : Array Int) (ct : Ct) : Spec.ZPoly :=
  Spec.phase qs l.n sk (coeffPolys l ct)

/-- BFV: is every coefficient of t·x̃/Q at least 2^-40 away from a rounding boundary? (else decryption is not determined) -/
def bfvSafe (t Q : Nat) (ph : Spec.ZPoly) : Bool :=
  ph.all fun x => Spec.roundMargin (t * x) Q * 2^40 > 2 * Q

structure Parsed where
  scheme : Scheme
  n : Nat
  qs : List Nat
  t : Nat
  sk : Array Int
  ct : Ct

def parseCt (scheme n qs t sk ntt cf polys : String) : Parsed :=
  ⟨pScheme scheme, pNat n, pList qs, pNat t, pSk sk, ⟨pPolys polys, ntt == "1", pNat cf⟩⟩

/-- model decryption as a string: BFV/BGV trimmed coefficient list, CKKS the RNS phase in NTT form -/
def modelDec (p : Parsed) : String :=
  match mkLevel p.scheme p.n p.qs p.t with
  | .error e => "ERR:" ++ e.toStr
  | .ok l =>
    match p.scheme with
    | .bfv => fR (fun (o : Poly) => fList o.toList) (bfvDecrypt l p.sk p.ct)
    | .bgv => fR (fun (o : Poly) => fList o.toList) (bgvDecrypt l p.sk p.ct)
    | .ckks => fR Drv.C10.fPoly (ckksDecrypt l p.sk p.ct)

/-- exact decryption as a string (`ANY` when BFV rounding is not determined, i.e. noise at the threshold) -/
def exactDec (p : Parsed) : String :=
  match mkLevel p.scheme p.n p.qs p.t with
  | .error e => "ERR:" ++ e.toStr
  | .ok l =>
    let Q := Spec.prodL p.qs
    if p.ct.polys.size < 2 then "ERR:refused" else
    let ph := exactPhase l p.qs p.sk p.ct
    match p.scheme with
    | .bfv => if p.ct.ntt then "ERR:refused" else
              if bfvSafe p.t Q ph then fList (Spec.trim (Spec.bfvDecode p.t Q ph)).toList else "ANY"
    | .bgv => if !p.ct.ntt then "ERR:refused" else
              -- exact_convey rounds a sum of doubles: undetermined when x/Q is within 2^-40 of 1/2
              if ph.all (fun x => (Q - 2 * x.natAbs) * 2^40 > Q) then fList (Spec.trim (Spec.bgvDecode p.t p.ct.cf ph)).toList else "ANY"
    | .ckks => if !p.ct.ntt then "ERR:refused" else
              Drv.C10.fPoly (Array.ofFn (n := l.size) fun i =>
                let q := (l.q i.val).value
                ntt (l.tbl i.val) (ph.map fun x => Spec.imod x q))

def handle (fn : String) : Handler := fun a _impl =>
  match fn, a with
  | "dec", [scheme, n, qs, t, sk, ntt, cf, polys] =>
    let p := parseCt scheme n qs t sk ntt cf polys
    some (modelDec p, exactDec p)
  | "budget", [scheme, n, qs, t, sk, ntt, cf, polys] =>
    let p := parseCt scheme n qs t sk ntt cf polys
    match mkLevel p.scheme p.n p.qs p.t with
    | .error e => some ("ERR:" ++ e.toStr, "ERR:" ++ e.toStr)
    | .ok l =>
      let Q := Spec.prodL p.qs
      let spec := if p.ct.ntt ∨ p.scheme = .ckks ∨ p.ct.polys.size < 2 then "ERR:refused"
                  else toString (Spec.budget (p.scheme = .bfv) p.t Q (exactPhase l p.qs p.sk p.ct))
      some (fR toString (noiseBudget l p.sk p.ct), spec)
  | _, _ => none

end Drv.Sch
