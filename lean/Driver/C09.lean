import Driver.Util
import Heathcliff.Spec.Poly
namespace Drv.C09
open HC Drv

def fArr (a : Array Nat) : String := fList a.toList
def pArr (s : String) : Array Nat := (pList s).toArray

def mkTables (k q : Nat) : R NTTTables := do
  let m ← Modulus.mk? q
  match Spec.somePrimitiveRoot (2^k) q with
  | none => .error .refused
  | some g => NTTTables.new k m (Spec.isPrimeMR q) g

def fTables (t : NTTTables) : String :=
  let ops (a : Array MulOperand) := ";".intercalate (a.toList.map fun o => s!"{o.operand}:{o.quotient}")
  s!"{t.root}/{ops t.rootPowers}/{ops t.invRootPowers}/{t.invDegree.operand}:{t.invDegree.quotient}"

/-- tables straight from the documentation: rootPowers[brev i] = psi^i, invRootPowers[brev(i-1)+1] = psi^-i -/
def specTables (k q : Nat) : String :=
  let n := 2^k
  match Spec.minimalRoot n q with
  | none => "ERR:refused"
  | some psi =>
    let inv := Spec.powMod psi (2*n - 1) q
    let op (v : Nat) := s!"{v}:{v * 2^64 / q}"
    let rp := (List.range n).map fun j =>   -- entry j holds psi^(brev k j)
      if j = 0 then op 1 else op (Spec.powMod psi (brev k j) q)
    -- entry p (p ≥ 1) holds psi^-(i) with brev k (i-1) + 1 = p, i.e. i = brev k (p-1) + 1
    let irp := (List.range n).map fun p =>
      if p = 0 then op 1 else op (Spec.powMod inv (brev k (p-1) + 1) q)
    let dinv := Spec.powMod n ((q - 1) / 1 - 1) q   -- n^(q-2) for prime q
    let dinv := if (dinv * n) % q = 1 % q then dinv else 0
    s!"{psi}/{";".intercalate rp}/{";".intercalate irp}/{op dinv}"

def handle (fn : String) : Handler := fun a impl =>
  match fn, a with
  | "ntt_tables", [k, q] =>
    let k := pNat k; let q := pNat q
    -- composite moduli: the library must refuse (root would not be a function of (N, q))
    let spec := if q ≥ 2^40 || Spec.isPrimeNat q then specTables k q else "ERR:refused"
    some (fR fTables (mkTables k q), spec)
  | "ntt", [k, q, v] =>
    let k := pNat k; let q := pNat q; let v := pArr v
    some (fR (fun t => fArr (ntt t v)) (mkTables k q),
          match Spec.minimalRoot (2^k) q with
          | some psi => fArr (Spec.nttSpec k psi q v)
          | none => "ERR:refused")
  | "ntt_lazy", [k, q, v] =>
    let k := pNat k; let q := pNat q; let v := pArr v
    let out := pArr impl
    let spec := match Spec.minimalRoot (2^k) q with
      | some psi =>
        let want := Spec.nttSpec k psi q v
        relSpec impl (out.size = want.size ∧ (List.range out.size).all (fun i => out.getD i 0 % q = want.getD i 0 ∧ out.getD i 0 < 4*q)) "lazy ntt: congruent and < 4q"
      | none => "ERR:refused"
    some (fR (fun t => fArr (nttLazy t v)) (mkTables k q), spec)
  | "intt", [k, q, v] =>
    -- spec: the unique vector whose forward evaluation is v, i.e. nttSpec(out) = v (checked on impl output)
    let k := pNat k; let q := pNat q; let v := pArr v
    let out := pArr impl
    let spec := match Spec.minimalRoot (2^k) q with
      | some psi => relSpec impl (out.all (· < q) ∧ Spec.nttSpec k psi q out == v.map (· % q)) "intt: ntt(out) = input, canonical"
      | none => "ERR:refused"
    some (fR (fun t => fArr (intt t v)) (mkTables k q), spec)
  | "intt_lazy", [k, q, v] =>
    let k := pNat k; let q := pNat q; let v := pArr v
    let out := pArr impl
    let spec := match Spec.minimalRoot (2^k) q with
      | some psi => relSpec impl (out.all (· < 2*q) ∧ Spec.nttSpec k psi q (out.map (· % q)) == v.map (· % q)) "intt lazy: congruent, < 2q"
      | none => "ERR:refused"
    some (fR (fun t => fArr (inttLazy t v)) (mkTables k q), spec)
  | "dyadic_product", [q, x, y] =>
    let q := pNat q; let x := pArr x; let y := pArr y
    some (fR fArr (do let m ← Modulus.mk? q; dyadicProduct x y m),
          fArr (Array.ofFn (n := x.size) fun i => (x.getD i 0 * y.getD i 0) % q))
  | "ntt_conv", [k, q, x, y] =>
    -- intt(ntt x ⊙ ntt y) must be the negacyclic product
    let k := pNat k; let q := pNat q; let x := pArr x; let y := pArr y
    some (fR fArr (do
            let t ← mkTables k q
            let p ← dyadicProduct (ntt t x) (ntt t y) t.modulus
            pure (intt t p)),
          fArr (Spec.negMul (x.map (· % q)) (y.map (· % q)) q))
  | "negacyclic_shift", [q, s, x] =>
    let q := pNat q; let s := pNat s; let x := pArr x
    let n := x.size
    -- spec: multiplication by X^s modulo X^n + 1
    let mono := (Array.replicate n 0).setIfInBounds (s % n) (if (s / n) % 2 = 0 then 1 else q - 1)
    some (fR fArr (do let m ← Modulus.mk? q; pure (negacyclicShift x s m)),
          specIfShift (s < 2*n) (fArr (Spec.negMul x mono q)))
  | "negacyclic_monomial", [q, c, s, x] =>
    -- `negacyclic_multiply_mononomial(_inplace)`: x * (c X^s) modulo (X^n + 1, q); model = scalar multiplication (`mulMod`, the kernel of
    -- `multiply_scalar`) followed by the model of `negacyclic_shift`
    let q := pNat q; let c := pNat c; let s := pNat s; let x := pArr x
    let n := x.size
    let cq := c % q
    let mono := (Array.replicate n 0).setIfInBounds (s % n) (if (s / n) % 2 = 0 then cq else (q - cq) % q)
    some (fR fArr (do
            let m ← Modulus.mk? q
            let t ← x.foldlM (fun (acc : Array Nat) v => do let r ← mulMod v c m; pure (acc.push r)) #[]
            pure (negacyclicShift t s m)),
          specIfShift (s < 2*n ∧ x.all (· < q)) (fArr (Spec.negMul x mono q)))
  | _, _ => none
where
  specIfShift (c : Bool) (s : String) : String := if c then s else "ANY"

end Drv.C09
