import Driver.Scheme
import Heathcliff.Model.Evaluator
namespace Drv.C01
open HC Drv Drv.Sch

/-- deterministic worst-case bound on the fresh noise polynomial v (public-key mode is the largest):
    |e·u| ≤ 21N, |e0| ≤ 21, |e1·s| ≤ 21N; a modulus switch inside public-key encryption only shrinks it
    (v/q_last + (N+1)/2 ≤ 21(2N+1)) -/
def freshBound (n : Nat) : Nat := 21 * (2 * n + 1) + n

def handle (fn : String) : Handler := fun a _impl =>
  match fn, a with
  | "fresh", [scheme, n, qs, t, sk, ntt, cf, polys, _mode, plain] =>
    let p := parseCt scheme n qs t sk ntt cf polys
    let model := modelDec p
    match mkLevel p.scheme p.n p.qs p.t with
    | .error e => some (model, "ERR:" ++ e.toStr)
    | .ok l =>
      let Q := Spec.prodL p.qs
      let ph := exactPhase l p.qs p.sk p.ct
      let B := freshBound p.n
      match p.scheme with
      | .bfv =>
        let want := pList plain
        let dec := (Spec.trim (Spec.bfvDecode p.t Q ph)).toList
        -- noise: ‖[t·phase]_Q‖ ≤ t·(B+1)
        let norm := ph.foldl (fun acc x => max acc (Spec.centred (Spec.imod (p.t * x) Q) Q).natAbs) 0
        let okN := norm ≤ p.t * (B + 1)
        let okSafe := 2 * p.t * (B + 1) < Q   -- parameter set large enough for fresh decryption (else no claim)
        some (model, if !okSafe then "ANY" else if dec = want ∧ okN then fList want
                     else s!"RELFAIL(exact decryption {fList dec} noise-ok={decide okN})")
      | .bgv =>
        let want := pList plain
        let dec := (Spec.trim (Spec.bgvDecode p.t p.ct.cf ph)).toList
        let norm := ph.foldl (fun acc x => max acc x.natAbs) 0
        let okN := norm ≤ p.t * (B + 1)
        let okSafe := 2 * p.t * (B + 1) < Q
        some (model, if !okSafe then "ANY" else if dec = want ∧ okN then fList want
                     else s!"RELFAIL(exact decryption {fList dec} noise-ok={decide okN})")
      | .ckks =>
        -- plaintext given as RNS polynomial in NTT form: exact phase minus plaintext must be small
        let pl := Drv.C10.pPoly plain
        let plc := Spec.crtPoly p.qs (rnsIntt l pl) p.n
        let okN := (List.range p.n).all fun j =>
          (Spec.centred (Spec.imod (ph.getD j 0 - plc.getD j 0) Q) Q).natAbs ≤ B
        some (model, if okN then exactDec p else "RELFAIL(fresh CKKS noise above the deterministic bound)")
  | "multiply_add_plain", [sub, n, qs, t, plain, dest] =>
    -- model: the word arithmetic of multiply_add_plain with the context constants computed from their definitions;
    -- spec: dest ± round(Q·m/t) mod q_j
    let sub := sub == "1"; let n := pNat n; let qs := pList qs; let t := pNat t
    let plain := (pList plain).toArray; let dest := Drv.C10.pPoly dest
    let Q := Spec.prodL qs
    let model : R RnsPoly := do
      let l ← mkLevel .bfv n qs t
      let cdp ← (List.range qs.length).mapM fun j => MulOperand.new ((Q / t) % qs.getD j 1) (l.q j)
      if sub then multiplySubPlain l cdp.toArray (Q % t) ((t + 1) / 2) plain dest    -- same scaled value, subtracted
      else multiplyAddPlain l cdp.toArray (Q % t) ((t + 1) / 2) plain dest
    let spec := Drv.C10.fPoly (Array.ofFn (n := qs.length) fun j =>
      let q := qs.getD j.val 1
      Array.ofFn (n := n) fun i =>
        let d := (dest.getD j.val #[]).getD i.val 0
        if i.val < plain.size then
          let dm := (Q * plain.getD i.val 0 + (t + 1) / 2) / t
          if sub then (d + q - dm % q) % q else (d + dm) % q
        else d)
    some (fR Drv.C10.fPoly model, spec)
  | "fresh_budget", [scheme, n, qs, t, sk, ntt, cf, polys] =>
    -- exact budget by definition, and the lower bound implied by the deterministic fresh-noise bound
    let p := parseCt scheme n qs t sk ntt cf polys
    match mkLevel p.scheme p.n p.qs p.t with
    | .error e => some ("ERR:" ++ e.toStr, "ERR:" ++ e.toStr)
    | .ok l =>
      let Q := Spec.prodL p.qs
      let ph := exactPhase l p.qs p.sk p.ct
      let b := Spec.budget (p.scheme = .bfv) p.t Q ph
      let lower : Int := (bitCount Q : Int) - (bitCount (p.t * (freshBound p.n + 1)) : Int) - 1
      some (fR toString (noiseBudget l p.sk p.ct),
            if (b : Int) ≥ lower then toString b else s!"RELFAIL(fresh budget {b} below the worst-case bound {lower})")
  | _, _ => none

end Drv.C01
