/- C15: serialization under I/O faults — model = `serialize` over a faulty `Sink` with the scalar write
   primitives extracted from the source (Gen), readers over truncated streams with the extracted
   error treatment; spec = the property (complete encoding or error; truncated stream => Err, no panic). -/
import Driver.CodecUtil
namespace Drv.C15
open HC HC.Codec Drv Drv.CodecU

def fWrite (r : Except IOErr Nat × Sink) : String :=
  match r with
  | (.ok n, s) => s!"Ok:{n}:{fHex s.out}"
  | (.error _, s) => s!"Err:{fHex s.out}"

def handle (fn : String) : Handler := fun a impl =>
  match fn, a with
  | "c15w", [ty, ctx, terms, hex, limits, failAt] =>
    match dynOf ty ctx "-" terms with
    | none => none
    | some d =>
      let bytes := pHex hex
      let sink : Sink := ⟨pList limits, if failAt == "-" then none else some (pNat failAt), 0, []⟩
      let model := match d.rawChunks bytes with
        | .ok (chunks, _, _) => fWrite (serialize genWMode chunks sink)
        | .error _ => "ERR:other"
      -- the property: an error, or exactly the complete encoding with its exact length
      let ok := impl.startsWith "Err:" || impl == s!"Ok:{bytes.length}:{fHex bytes}"
      some (model, relSpec impl ok "neither an error nor the complete encoding")
  | "c15wi", [ty, ctx, terms, hex, limits, failAt, intr] =>
    match dynOf ty ctx "-" terms with
    | none => none
    | some d =>
      let bytes := pHex hex
      let sink : Sink := ⟨pList limits, if failAt == "-" then none else some (pNat failAt), 0, []⟩
      match d.rawChunks bytes with
      | .ok (chunks, _, _) =>
        -- model: the serializer over the interrupting stream; spec: the same stream without the interruptions (`serializeI_erase`)
        let (r, w) := serializeI genWMode chunks ⟨sink, pList intr, 0⟩
        let model := match r with | .ok n => s!"Ok:{n}:{fHex w.s.out}" | .error _ => s!"Err:{fHex w.s.out}"
        some (model, fWrite (serialize genWMode chunks sink))
      | .error _ => some ("ERR:other", "ERR:other")
  | "c15r", [ty, ctx, terms, hex, k] =>
    match dynOf ty ctx "-" terms with
    | none => none
    | some d =>
      let bytes := pHex hex
      let k := pNat k
      let model := match readOutcome genRMode (d.decDump (bytes.take k)) with
        | .ok _ _ => "OK"
        | .err => "IOERR"
        | .panic => "ERR:other"
        | .refused => "ERR:refused"
      some (model, if k < bytes.length then "IOERR" else "OK")
  | _, _ => none

end Drv.C15
