/- Parsing / printing helpers for the line protocol (DESIGN.md §3.3). -/
import Heathcliff.Model.Word
namespace Drv
open HC

def pNat (s : String) : Nat := s.toNat?.getD 0
def pInt (s : String) : Int := s.toInt?.getD 0
/-- comma list; "-" is the empty list -/
def pList (s : String) : List Nat :=
  if s == "-" || s.isEmpty then [] else (s.splitOn ",").map pNat
def pIntList (s : String) : List Int :=
  if s == "-" || s.isEmpty then [] else (s.splitOn ",").map pInt
/-- semicolon-separated list of comma lists; "-" empty outer list; "_" an empty inner list -/
def pList2 (s : String) : List (List Nat) :=
  if s == "-" || s.isEmpty then [] else (s.splitOn ";").map (fun t => if t == "_" then [] else pList t)

def fList (l : List Nat) : String := if l.isEmpty then "-" else ",".intercalate (l.map toString)
def fIntList (l : List Int) : String := if l.isEmpty then "-" else ",".intercalate (l.map toString)
def fList2 (l : List (List Nat)) : String :=
  if l.isEmpty then "-" else ";".intercalate (l.map (fun t => if t.isEmpty then "_" else fList t))
def fBool (b : Bool) : String := if b then "1" else "0"

def fR {α} (f : α → String) : R α → String
  | .ok v => f v
  | .error e => "ERR:" ++ e.toStr

/-- a handler maps the argument tokens and the implementation's output to (model output, spec output) -/
abbrev Handler := List String → String → Option (String × String)

/-- relational spec: echo the implementation's output when the relation holds on it -/
def relSpec (impl : String) (ok : Bool) (why : String := "") : String :=
  if ok then impl else "RELFAIL(" ++ why ++ ")"

end Drv
