import Driver.Scheme
import Heathcliff.Model.Galois
namespace Drv.C04
open HC Drv

/-- a(X^g) mod (X^n + 1, q) by explicit substitution -/
def substSpec (n q g : Nat) (a : Array Nat) : Array Nat :=
  (List.range n).foldl (fun (res : Array Nat) i =>
    let e := (i * g) % (2 * n)
    let x := a.getD i 0 % q
    if e < n then res.modify e (fun y => (y + x) % q) else res.modify (e - n) (fun y => (y + q - x) % q)) (Array.replicate n 0)

def slotSpec (k : Nat) (psi t : Nat) (plain : Array Nat) : Array Nat :=
  -- slot i (i < N/2) = plain(psi^(3^i)), slot i + N/2 = plain(psi^(-3^i)); exponents taken mod 2N
  let n := 2^k; let m := 2 * n; let row := n / 2
  let padded := Array.ofFn (n := n) fun i => plain.getD i.val 0
  Array.ofFn (n := n) fun i =>
    let j := if i.val < row then i.val else i.val - row
    let e := Spec.powMod 3 j m
    let e := if i.val < row then e else m - e
    Spec.evalAt padded (Spec.powMod psi e t) t

def handle (fn : String) : Handler := fun a impl =>
  match fn, a with
  | "galois_apply", [k, q, g, v] =>
    let k := pNat k; let q := pNat q; let g := pNat g; let v := (pList v).toArray
    some (fR (fun (o : Array Nat) => fList o.toList) (do let m ← Modulus.mk? q; galoisApply k v g m),
          fList (substSpec (2^k) q g v).toList)
  | "galois_table", [k, g] =>
    let k := pNat k; let g := pNat g; let n := 2^k
    -- documented meaning: NTT slot i holds the evaluation at psi^(2 brev(i) + 1); sigma_g moves the evaluation at
    -- psi^(g (2 brev(i)+1)) there, which sits at index brev(((g (2 brev i + 1)) mod 2N - 1)/2)
    let spec := (List.range n).map fun i => brev k ((((g * (2 * brev k i + 1)) % (2 * n)) - 1) / 2)
    some (fList (galoisTableNtt k g).toList, fList spec)
  | "galois_apply_ntt", [k, q, g, v] =>
    -- spec: NTT(sigma_g(a)) where a = INTT(v): checked through the model transforms of C09
    let k := pNat k; let q := pNat q; let g := pNat g; let v := (pList v).toArray
    let spec := match Drv.C09.mkTables k q with
      | .ok t => fList (ntt t (substSpec (2^k) q g (intt t v))).toList
      | .error _ => "ERR:refused"
    some (fList (galoisApplyNtt k v g).toList, spec)
  | "elt_from_step", [k, s] =>
    let k := pNat k; let s := pInt s; let n := 2^k; let m := 2 * n
    let spec := if s = 0 then toString (m - 1)
                else if s.natAbs ≥ n / 2 then "ERR:refused"
                else toString (Spec.powMod 3 (if s < 0 then n / 2 - s.natAbs else s.natAbs) m)
    some (fR toString (eltFromStep k s), spec)
  | "elts_all", [k] =>
    let k := pNat k; let m := 2 * 2^k
    let inv3 := Spec.invMod 3 m
    let spec := [m - 1] ++ ((List.range (k - 1)).map fun i => [Spec.powMod 3 (2^i) m, Spec.powMod inv3 (2^i) m]).flatten
    some (fR fList (eltsAll k), fList spec)
  | "batch_decode", [k, t, p] =>
    let k := pNat k; let t := pNat t; let p := (pList p).toArray
    let spec := match Spec.minimalRoot (2^k) t with
      | some psi => fList (slotSpec k psi t p).toList
      | none => "ERR:refused"
    some (fR (fun tb => fList (batchDecode tb p).toList) (Drv.C09.mkTables k t), spec)
  | "batch_encode", [k, t, v] =>
    let k := pNat k; let t := pNat t; let v := (pList v).toArray; let n := 2^k
    let out := (pList impl).toArray
    let spec := match Spec.minimalRoot n t with
      | some psi =>
        let padded := Array.ofFn (n := n) fun i => v.getD i.val 0
        relSpec impl (out.size = n ∧ out.all (· < t) ∧ slotSpec k psi t out == padded) "slots of the encoding are the input (zero padded)"
      | none => "ERR:refused"
    some (fR (fun (o : Array Nat) => fList o.toList) (do let tb ← Drv.C09.mkTables k t; batchEncode tb v), spec)
  | "galois_ckks", g :: pSpecial :: sc :: n :: qs :: t :: sk :: ntt :: cf :: polys :: "|" ::
      sc2 :: n2 :: qs2 :: t2 :: sk2 :: ntt2 :: cf2 :: polys2 :: [] =>
    -- CKKS rotation / conjugation at the integer level: phase(result) = sigma_g(phase(source)) + key-switch noise
    let src := Drv.Sch.parseCt sc n qs t sk ntt cf polys
    let dst := Drv.Sch.parseCt sc2 n2 qs2 t2 sk2 ntt2 cf2 polys2
    let g := pNat g; let P := pNat pSpecial
    match Drv.Sch.mkLevel src.scheme src.n src.qs src.t, Drv.Sch.mkLevel dst.scheme dst.n dst.qs dst.t with
    | .ok ls, .ok ld =>
      let Q := Spec.prodL src.qs
      let N := src.n
      let phs := Drv.Sch.exactPhase ls src.qs src.sk src.ct
      let phd := Drv.Sch.exactPhase ld dst.qs dst.sk dst.ct
      -- sigma_g on a centred integer polynomial
      let sig : Array Int := (List.range N).foldl (fun (res : Array Int) i =>
          let e := (i * g) % (2 * N)
          if e < N then res.modify e (· + phs.getD i 0) else res.modify (e - N) (· - phs.getD i 0)) (Array.replicate N 0)
      -- key-switch noise: sum over the k digits of (digit < q_max) * (error <= 21), N terms each, divided by P, plus rounding;
      -- a NAF-composed rotation applies at most log2 N + 1 switches
      let k := src.qs.length
      let qmax := src.qs.foldl max 0
      let B := (21 * N * k * ((qmax + P - 1) / P) + N + 2) * (Nat.log2 N + 2)
      let ok := (List.range N).all fun j => (Spec.centred (Spec.imod (phd.getD j 0 - sig.getD j 0) Q) Q).natAbs ≤ B
      some ("ok", relSpec "ok" (dst.qs = src.qs ∧ ok) "phase(result) = sigma_g(phase(source)) + key-switch noise")
    | _, _ => some ("ok", "ERR:refused")
  | _, _ => none

end Drv.C04
