import Driver.Scheme
import Heathcliff.Model.Evaluator
namespace Drv.C05
open HC Drv Drv.Sch

/-- apply `k` down-steps of the model, rebuilding the level tools from the shrinking modulus list -/
def stepsModel (scale : Bool) (scheme : Scheme) (n : Nat) (t : Nat) : Nat → List Nat → Ct → R Ct
  | 0, _, ct => pure ct
  | k+1, qs, ct => do
    let l ← mkLevel scheme n qs t
    let ct' ← if scale then modSwitchScaleNext l ct else modSwitchDropNext l ct
    stepsModel scale scheme n t k qs.dropLast ct'

def floatDivChain (s : Float) (qs : List Nat) : Nat → Float
  | 0 => s
  | k+1 => floatDivChain (s / Float.ofNat (qs.getLastD 1)) qs.dropLast k

def handle (fn : String) : Handler := fun a _impl =>
  match fn, a with
  | "ckks_switch", mode :: s0 :: s1 :: steps :: sc :: n :: qs :: t :: sk :: ntt :: cf :: polys :: "|" ::
      sc2 :: n2 :: qs2 :: t2 :: sk2 :: ntt2 :: cf2 :: polys2 :: [] =>
    let src := parseCt sc n qs t sk ntt cf polys
    let dst := parseCt sc2 n2 qs2 t2 sk2 ntt2 cf2 polys2
    let k := pNat steps
    let rescale := mode == "rescale"
    -- model: recompute the destination ciphertext from the source, bit for bit
    let model := match stepsModel rescale src.scheme src.n src.t k src.qs src.ct with
      | .ok c => if c.polys == dst.ct.polys then "ok" else "model-differs:" ++ (fPolys c.polys).take 200
      | .error e => "ERR:" ++ e.toStr
    match mkLevel src.scheme src.n src.qs src.t, mkLevel dst.scheme dst.n dst.qs dst.t with
    | .ok ls, .ok ld =>
      let Qd := Spec.prodL dst.qs
      let phs := exactPhase ls src.qs src.sk src.ct
      let phd := exactPhase ld dst.qs dst.sk dst.ct
      let dropped := (src.qs.drop dst.qs.length)
      let D := Spec.prodL dropped
      let okLevel := dst.qs = src.qs.take dst.qs.length ∧ src.qs.length = dst.qs.length + k
      let m := src.ct.polys.size
      let N := src.n
      let E := (List.range m).foldl (fun acc i => acc + N^i) 0   -- Σ ‖s^i‖₁ bound
      let okPhase :=
        if rescale then (List.range N).all fun j => ((phd.getD j 0) * D - phs.getD j 0).natAbs ≤ D * (E + 1)
        else (List.range N).all fun j => Spec.imod (phs.getD j 0 - phd.getD j 0) Qd = 0
      let sb0 := Float.ofBits (pNat s0).toUInt64
      let want := if rescale then floatDivChain sb0 src.qs k else sb0
      let okScale := want.toBits.toNat = pNat s1
      some (model, relSpec "ok" (okLevel ∧ okPhase ∧ okScale) s!"level={decide okLevel} phase={okPhase} scale={decide okScale}")
    | _, _ => some (model, "ERR:refused")
  -- NTT-form plaintext to a target level: `plain_switch_to <valid> <ntt> <cur> <tgt> <n> <kc by chain index> <data>` => `<level>:<data>`
  -- model: the plan of `mod_switch_plain_to_inplace` (the generated code equals it: GenEval3) run with `plainWalkData`;
  -- spec (definition): the same polynomial modulo the target's primes = the first n·kc(tgt) words, on level tgt
  | "plain_switch_to", [valid, ntt, cur, tgt, n, kcs, data] =>
    let valid := valid == "1"; let ntt := ntt == "1"
    let cur := pNat cur; let tgt := pNat tgt; let n := pNat n
    let kcl := pList kcs; let d := pList data
    let kc := fun i => kcl.getD i 0
    let model := fR (fun (st : List Nat) => s!"{st.getLastD cur}:{fList (plainWalkData kc n d st)}") (plainSwitchToPlan valid ntt cur tgt)
    let spec := if !ntt ∨ cur < tgt ∨ (cur ≠ tgt ∧ !valid) then "ERR:refused" else s!"{tgt}:{fList (d.take (n * kc tgt))}"
    some (model, spec)
  | _, _ => none

end Drv.C05
