/- C17 driver handler: replays an observed schedule in the transition systems of `Model/Conc.lean`.

   case lines (harness/src/c17.rs):
     skcache  <obj> <n0> <wants> <schedule>            => <trace>;eq=<0|1>
     galcache <obj> <n> <prefilled> <programs> <schedule> => <trace>;eq=<0|1>
     skspace  <obj> <n0> <wants>                       => schedules=S,states=X,transitions=Y
     galspace <obj> <n> <prefilled> <programs>         => schedules=S,states=X,transitions=Y
   trace = comma list of `thread:phase:observation` (one entry per scheduling step; phase gets a `!` when the
   thread ended in a panic in that step); observation = cache length, resp. `+`-joined filled table indices
   (`_` = none).  `eq` = every thread finished and returned byte for byte the result of the sequential run.
   model column = the model's own trace and verdict for the same schedule;
   spec column  = the property evaluated on the implementation's trace (relational): observations never
   shrink, every use step sees what it asked for, every call completed with the sequential result. -/
import Driver.Util
import Heathcliff.Model.Conc
import Std.Data.HashSet
namespace Drv.C17
open HC HC.Conc Drv

def alg : Alg Nat := { mul := fun a b => (a * b) % 2147483647, s := 7 }
def tgen (i : Nat) : Nat := 2 * i + 1

/-! ### power cache -/

def skTrace : List Nat → St Nat → List String
  | [], _ => []
  | i :: is, σ =>
    let σ' := step true alg i σ
    let ph := match σ.thr[i]? with | some t => t.pc.toStr | none => "?"
    let bang := match σ'.thr[i]? with | some t => if t.pc == PC.panicked then "!" else "" | none => ""
    s!"{i}:{ph}{bang}:{σ'.cache.length}" :: skTrace is σ'

/-- all calls completed and returned what the sequential execution (call order) returns -/
def skEq (n0 : Nat) (wants sched : List Nat) : Bool :=
  let σ := run true alg sched (init alg n0 wants)
  let τ := run true alg (seqSchedule wants.length) (init alg n0 wants)
  σ.thr.all (fun t => t.pc == .done) && τ.thr.all (fun t => t.pc == .done)
    && σ.thr.map (·.result) == τ.thr.map (·.result)

structure Ent where
  t : Nat
  ph : String
  obs : String

def parseTrace (impl : String) : List Ent × String :=
  match impl.splitOn ";eq=" with
  | [tr, e] =>
    let ents := if tr.isEmpty then [] else (tr.splitOn ",").map fun x =>
      match x.splitOn ":" with
      | [a, b, c] => { t := pNat a, ph := b, obs := c : Ent }
      | _ => { t := 0, ph := "?", obs := "" }
    (ents, e)
  | _ => ([], "?")

def monotone : List Nat → Bool
  | a :: b :: r => a ≤ b && monotone (b :: r)
  | _ => true

def skSpec (impl : String) (n0 : Nat) (wants : List Nat) : String :=
  if impl.startsWith "ERR" then "RELFAIL(the run did not complete: deadlock or crash)" else
  let (ents, e) := parseTrace impl
  let lens := ents.map fun x => pNat x.obs
  let okMono := monotone (n0 :: lens)
  let okUse := ents.all fun x => x.ph != "U" || decide (wants.getD x.t 0 ≤ pNat x.obs)
  let okNoPanic := ents.all fun x => !x.ph.endsWith "!"
  let okDone := (List.range wants.length).all fun i => (ents.filter fun x => x.t == i && x.ph == "U").length == 1
  let okFinal := lens.getLast?.getD n0 == wants.foldl max n0
  if !okMono then "RELFAIL(cache length decreased)"
  else if !okNoPanic then "RELFAIL(a call panicked)"
  else if !okUse then "RELFAIL(use phase saw fewer powers than requested)"
  else if !okDone then "RELFAIL(a call did not complete exactly once)"
  else if !okFinal then "RELFAIL(final cache length is not max(initial, requests))"
  else if e != "1" then "RELFAIL(a result differs from the sequential result)"
  else impl

/-! ### state-space exploration (evidence: states, transitions, number of maximal schedules) -/

def pcCode : PC → Nat
  | .R => 1 | .C => 2 | .W => 3 | .U => 4 | .done => 5 | .panicked => 5

def skProj (σ : St Nat) : Nat := σ.thr.foldl (fun acc t => acc * 8 + pcCode t.pc) σ.cache.length

def skLive (σ : St Nat) : List Nat := (List.range σ.thr.length).filter fun i =>
  match σ.thr[i]? with | some t => t.pc.live | none => false

structure Acc where
  leaves : Nat := 0
  states : Std.HashSet Nat := {}
  trans : Std.HashSet (Nat × Nat) := {}

/-- depth-first over ALL maximal schedules, exactly like the harness enumerates them -/
def skExplore : Nat → St Nat → Acc → Acc
  | 0, _, acc => acc
  | fuel + 1, σ, acc =>
    let acc := { acc with states := acc.states.insert (skProj σ) }
    match skLive σ with
    | [] => { acc with leaves := acc.leaves + 1 }
    | live => live.foldl (fun acc i =>
        skExplore fuel (step true alg i σ) { acc with trans := acc.trans.insert (skProj σ, i) }) acc

def fAcc (a : Acc) : String := s!"schedules={a.leaves},states={a.states.size},transitions={a.trans.size}"

/-! ### Galois table cache -/

def fFilled (l : List Nat) : String := if l.isEmpty then "_" else "+".intercalate (l.map toString)

def galTrace : List Nat → GSt Nat → List String
  | [], _ => []
  | i :: is, σ =>
    let σ' := gstep tgen i σ
    let ph := match σ.thr[i]? with | some t => t.pc.toStr | none => "?"
    let bang := match σ'.thr[i]? with | some t => if t.pc == GPC.panicked then "!" else "" | none => ""
    s!"{i}:{ph}{bang}:{fFilled (filled σ'.tables)}" :: galTrace is σ'

def galSeq (progs : List (List Nat)) : List Nat :=
  (List.range progs.length).flatMap fun i => List.replicate (3 * (progs.getD i []).length) i

def galEq (n : Nat) (pre : List Nat) (progs : List (List Nat)) (sched : List Nat) : Bool :=
  let σ := grun tgen sched (ginit tgen n pre progs)
  let τ := grun tgen (galSeq progs) (ginit tgen n pre progs)
  σ.thr.all (fun t => t.pc == .done) && τ.thr.all (fun t => t.pc == .done)
    && σ.thr.map (·.seen) == τ.thr.map (·.seen)

def pFilled (s : String) : List Nat := if s == "_" || s.isEmpty then [] else (s.splitOn "+").map pNat

def subsetChain : List (List Nat) → Bool
  | a :: b :: r => a.all (b.contains ·) && subsetChain (b :: r)
  | _ => true

def galSpec (impl : String) (n : Nat) (pre : List Nat) (progs : List (List Nat)) : String :=
  if impl.startsWith "ERR" then "RELFAIL(the run did not complete: deadlock or crash)" else
  let (ents, e) := parseTrace impl
  let obs := ents.map fun x => pFilled x.obs
  let okMono := subsetChain (pre.filter (· < n) :: obs)
  let okNoPanic := ents.all fun x => !x.ph.endsWith "!"
  -- the k-th use step of thread t must find table progs[t][k] generated
  let okUse := (List.range progs.length).all fun i =>
    let uses := ents.filter fun x => x.t == i && x.ph == "U"
    let prog := progs.getD i []
    uses.length == prog.length &&
      (List.range prog.length).all fun k => (pFilled ((uses.getD k { t := 0, ph := "", obs := "_" }).obs)).contains (prog.getD k 0)
  let want := (List.range n).filter fun i => pre.contains i || progs.any (·.contains i)
  let okFinal := (obs.getLast?.getD (pre.filter (· < n))) == want || ents.isEmpty
  if !okMono then "RELFAIL(a generated table disappeared)"
  else if !okNoPanic then "RELFAIL(a call panicked)"
  else if !okUse then "RELFAIL(a use phase ran without its table / a call did not complete)"
  else if !okFinal then "RELFAIL(final set of tables is not prefilled + requested)"
  else if e != "1" then "RELFAIL(a result differs from the sequential result)"
  else impl

def gpcCode : GPC → Nat
  | .chk => 1 | .gen => 2 | .use => 3 | .done => 4 | .panicked => 4

def galProj (σ : GSt Nat) : Nat :=
  let f := (filled σ.tables).foldl (fun acc i => acc + 2 ^ i) 0
  σ.thr.foldl (fun acc t => (acc * 8 + gpcCode t.pc) * 64 + t.pos) f

def galLive (σ : GSt Nat) : List Nat := (List.range σ.thr.length).filter fun i =>
  match σ.thr[i]? with | some t => t.pc.live | none => false

def galExplore : Nat → GSt Nat → Acc → Acc
  | 0, _, acc => acc
  | fuel + 1, σ, acc =>
    let acc := { acc with states := acc.states.insert (galProj σ) }
    match galLive σ with
    | [] => { acc with leaves := acc.leaves + 1 }
    | live => live.foldl (fun acc i =>
        galExplore fuel (gstep tgen i σ) { acc with trans := acc.trans.insert (galProj σ, i) }) acc

def handle (fn : String) : Handler := fun a impl =>
  match fn, a with
  | "skcache", [_obj, n0, wants, sched] =>
    let n0 := pNat n0; let wants := pList wants; let sched := pList sched
    let tr := ",".intercalate (skTrace sched (init alg n0 wants))
    some (tr ++ ";eq=" ++ fBool (skEq n0 wants sched), skSpec impl n0 wants)
  | "skspace", [_obj, n0, wants] =>
    let n0 := pNat n0; let wants := pList wants
    some (fAcc (skExplore (4 * wants.length + 2) (init alg n0 wants) {}), "ANY")
  | "galcache", [_obj, n, pre, progs, sched] =>
    let n := pNat n; let pre := pList pre; let progs := pList2 progs; let sched := pList sched
    let tr := ",".intercalate (galTrace sched (ginit tgen n pre progs))
    some (tr ++ ";eq=" ++ fBool (galEq n pre progs sched), galSpec impl n pre progs)
  | "galspace", [_obj, n, pre, progs] =>
    let n := pNat n; let pre := pList pre; let progs := pList2 progs
    let fuel := 3 * (progs.foldl (fun acc p => acc + p.length) 0) + 2
    some (fAcc (galExplore fuel (ginit tgen n pre progs) {}), "ANY")
  | _, _ => none

end Drv.C17
