import Driver.Util
import Heathcliff.Spec.Poly
import Heathcliff.Spec.Context
namespace Drv.C13
open HC HC.Ctx HC.Gen Drv

/-- the driver's stand-in for the cached `Modulus::is_prime` flag (deterministic Miller–Rabin, 12 bases) -/
def isP : Nat → Bool := Spec.isPrimeMR

def pScheme (s : String) : Scheme := match pNat s with | 1 => .BFV | 2 => .CKKS | 3 => .BGV | _ => .None
def pSec (s : String) : SecLevel := match pNat s with | 128 => .Tc128 | 192 => .Tc192 | 256 => .Tc256 | _ => .None
def pQ (s : String) : Option (List Nat) := if s == "-" then none else if s == "_" then some [] else some (pList s)

def fOps (l : List MulOperand) : String :=
  if l.isEmpty then "-" else ",".intercalate (l.map fun o => s!"{o.operand}:{o.quotient}")

def fLevel (x : Context) (i : Nat) (c : ContextData) : String :=
  let p := c.parms
  let n := x.levels.length
  let flags := "".intercalate ([c.fft, c.ntt, c.batching, c.fastLift, c.descending].map fBool)
  let prev := if i = 0 then "-" else toString (i - 1)
  let next := if i + 1 < n then toString (i + 1) else "-"
  "/".intercalate [toString c.err.code, flags, toString c.sec.code,
    s!"{p.scheme.code},{p.n},{p.t},{fBool p.special}", fList p.q, fList c.total, toString c.totalBits, fOps c.coeffDivPlain,
    toString c.qModT, toString c.plainUpperHalfThreshold, fList c.plainUpperHalfIncrement, fList c.upperHalfThreshold,
    toString (x.chainIndex i), prev, next, toString i, fList p.preimage ++ ":1"]

def fContext (x : Context) : String :=
  let first := x.levels.getD x.firstIdx { parms := Params.new .None }
  let head := ",".intercalate [fBool x.usingKeyswitching, "0", toString x.firstIdx, toString x.lastIdx, toString x.sec.code,
    toString x.levels.length, fBool first.valid, "1", "1"]
  "!".intercalate (head :: (List.range x.levels.length).map fun i =>
    fLevel x i (x.levels.getD i { parms := Params.new .None }))

/-! relational oracle on the implementation's answer -/

structure ImplLevel where
  err : Int
  flags : String
  sec : Nat
  scheme : Nat
  n : Nat
  t : Nat
  special : Bool
  q : List Nat
  total : List Nat
  bits : Nat
  cdp : String
  qModT : Nat
  puht : Nat
  puhi : List Nat
  uht : List Nat
  chainIndex : Nat
  prev : String
  next : String
  own : String
  pre : List Nat
  preOk : Bool

def parseLevel (s : String) : Option ImplLevel :=
  match s.splitOn "/" with
  | [err, flags, sec, pr, q, total, bits, cdp, qmt, puht, puhi, uht, ci, prev, next, own, pre] =>
    match pr.splitOn ",", pre.splitOn ":" with
    | [sc, n, t, sp], [prl, ok] =>
      some { err := pInt err, flags, sec := pNat sec, scheme := pNat sc, n := pNat n, t := pNat t, special := sp == "1",
             q := pList q, total := pList total, bits := pNat bits, cdp, qModT := pNat qmt, puht := pNat puht, puhi := pList puhi,
             uht := pList uht, chainIndex := pNat ci, prev, next, own, pre := pList prl, preOk := ok == "1" }
    | _, _ => none
  | _ => none

def schemeOfCode (c : Nat) : Scheme := match c with | 1 => .BFV | 2 => .CKKS | 3 => .BGV | _ => .None

/-- first failed clause of the property on the implementation's answer ("" = all hold) -/
def checkImpl (p : Params) (expand : Bool) (sec : SecLevel) (impl : String) : String :=
  match impl.splitOn "!" with
  | [] => "empty"
  | head :: lv =>
    match head.splitOn ",", lv.mapM parseLevel with
    | [ks, key, first, last, secS, nl, pset, mapOk, agree], some levels =>
      let L := levels.length
      let (wantL, wantFirst) := Spec.Ctx.chainShape isP p expand sec
      let valid := Spec.Ctx.validParams isP p sec
      if pNat nl ≠ L ∨ L = 0 then "level count" else
      if mapOk ≠ "1" then "context_data_map does not return the chain objects" else
      if agree ≠ "1" then "two independently built contexts disagree on an id" else
      if key ≠ "0" ∨ pNat last ≠ L - 1 ∨ pNat secS ≠ sec.code then "key/last/security" else
      if decide ((levels.headD default).err = 0) != valid then "accept/reject differs from the mathematical preconditions" else
      if L ≠ wantL then s!"chain length {L}, expected {wantL}" else
      if pNat first ≠ wantFirst ∨ (ks == "1") != (wantFirst == 1) then "first level / using_keyswitching" else
      if (pset == "1") != valid then "parameters_set" else
      let per := (List.range L).findSome? fun i =>
        let l := levels.getD i default
        let pi : Params := { p with q := p.q.take (p.q.length - i) }
        if l.q ≠ pi.q ∨ l.n ≠ p.n ∨ l.t ≠ p.t ∨ l.scheme ≠ p.scheme.code ∨ l.special ≠ p.special then some s!"level {i}: parameters are not the prefix"
        else if l.chainIndex ≠ L - 1 - i then some s!"level {i}: chain_index"
        else if l.own ≠ toString i ∨ l.prev ≠ (if i = 0 then "-" else toString (i-1)) ∨ l.next ≠ (if i + 1 < L then toString (i+1) else "-") then some s!"level {i}: links"
        else if !l.preOk ∨ l.pre ≠ pi.preimage then some s!"level {i}: id is not the hash of (scheme, N, moduli, t)"
        else if i > 0 ∧ l.err ≠ 0 then some s!"level {i}: invalid level in the chain"
        else if l.err = 0 then
          let c := Spec.Ctx.levelConsts isP pi sec
          let cdp := if c.cdp.isEmpty then "-" else ",".intercalate (c.cdp.map fun o => s!"{o.1}:{o.2}")
          if l.total ≠ c.total ∨ l.bits ≠ c.bits then some s!"level {i}: total_coeff_modulus"
          else if l.cdp ≠ cdp then some s!"level {i}: coeff_div_plain_modulus"
          else if l.qModT ≠ c.qModT then some s!"level {i}: coeff_modulus_mod_plain_modulus"
          else if l.puht ≠ c.puht ∨ l.puhi ≠ c.puhi then some s!"level {i}: plain_upper_half_threshold/increment"
          else if l.uht ≠ c.uht then some s!"level {i}: upper_half_threshold"
          else if l.flags ≠ "".intercalate (c.flags.map fBool) ∨ l.sec ≠ c.sec.code then some s!"level {i}: qualifiers"
          else none
        else none
      per.getD ""
    | _, _ => "unparsable"
where
  default : ImplLevel := ⟨-1, "", 0, 0, 0, 0, false, [], [], 0, "", 0, 0, [], [], 0, "", "", "", [], false⟩

/-- `get_primes` contract on the implementation's list -/
def checkPrimes (factor bits count : Nat) (l : List Nat) : String :=
  if l.length ≠ count then "count"
  else if !l.all (fun v => bitCount v = bits) then "bit size"
  else if !l.all (fun v => v % factor = 1 % factor) then "not 1 mod factor"
  else if !l.all isP then "not prime"
  else if !(l.zip l.tail).all (fun ab => ab.1 > ab.2) then "not strictly descending"
  else
    -- no accepted value was skipped: every candidate above the smallest returned one that is not in the list is composite
    let start := (2^bits - 1) / factor * factor + 1
    let stop := l.getLastD start
    let steps := (start - stop) / factor + 1
    if steps > 200000 then "" else
    let rec go : Nat → Nat → Bool
      | 0, _ => true
      | f+1, v => if v < stop then true else if !l.contains v && isP v && v > 2^(bits-1) then false else go f (v - factor)
    if count > 0 ∧ !go steps start then "skipped a prime" else ""

def witnesses (v : Nat) (i : Nat) : Nat := 3 + (i * 7919 + v / 3) % (v - 3)

def handle (fn : String) : Handler := fun a impl =>
  match fn, a with
  | "ctx", [sc, n, q, t, sec, ex, sp] =>
    let sec := pSec sec; let ex := ex == "1"
    match Params.build (pScheme sc) (pNat n) (pQ q) (pNat t) (sp == "1") with
    | .error e => some ("ERR:" ++ e.toStr, "ERR:refused")
    | .ok p =>
      let model := fR fContext (Context.new isP p ex sec)
      let spec := if impl.startsWith "ERR" then "no-panic-expected" else
        let why := checkImpl p ex sec impl
        relSpec impl (why == "") why
      some (model, spec)
  | "ctx_word", [sc, n, q, t] =>
    let qs := pList q; let t := pNat t; let sc := pNat sc; let k := qs.length
    let Q := prodL qs
    let fastB := qs.all (fun x => x > t)
    let model := fR (fun (w : WordConsts) =>
      "/".intercalate [fList w.total, toString w.totalBits, if sc == 2 then "-" else fList w.quotDec, toString w.qModT,
        if sc != 2 && !fastB then fList w.puhiSlow else "x", if sc == 2 then fList w.uht else "-"]) (wordConsts qs t)
    let spec := "/".intercalate [fList (fromNat k Q), toString (bitCount Q),
        if sc == 2 then "-" else fList (qs.map fun x => Q / t % x), toString (if sc == 2 then 0 else Q % t),
        if sc != 2 && !fastB then fList (fromNat k (Q - t)) else "x", if sc == 2 then fList (fromNat k ((Q + 1) / 2)) else "-"]
    let _ := n
    some (model, spec)
  | "get_primes", [f, b, c] =>
    let f := pNat f; let b := pNat b; let c := pNat c
    let model := getPrimes isP f b c
    -- documented domain: bit sizes 2..61 and a non-zero factor (`CoeffModulus::create` only asks for 2..60 and factor 2N)
    let spec := if b < 2 ∨ b > 61 ∨ f = 0 then "ANY"
      else if impl.startsWith "ERR" then (match model with | .error _ => "ERR:refused" | .ok _ => "primes exist") else
      let why := checkPrimes f b c (pList impl); relSpec impl (why == "") why
    some (fR fList model, spec)
  | "create", [n, sizes] =>
    let n := pNat n; let sizes := pList sizes
    let model := create isP n sizes
    let l := pList impl
    let spec := if impl.startsWith "ERR" then (match model with | .error _ => "ERR:refused" | .ok _ => "primes exist") else
      relSpec impl (l.length = sizes.length ∧ (l.zip sizes).all (fun vb => bitCount vb.1 = vb.2) ∧ l.all isP ∧
        l.all (fun v => v % (2*n) = 1) ∧ l.eraseDups.length = l.length) "distinct primes of the requested sizes, 1 mod 2N"
    some (fR fList model, spec)
  | "batching", [n, b] =>
    let n := pNat n; let b := pNat b
    let model := batching isP n b
    let v := pNat impl
    let spec := if impl.startsWith "ERR" then (match model with | .error _ => "ERR:refused" | .ok _ => "a prime exists") else
      relSpec impl (bitCount v = b ∧ isP v ∧ v % (2*n) = 1) "prime of the requested size, 1 mod 2N"
    some (fR toString model, spec)
  | "max_bit_count", [n, sec] =>
    -- model: the table regenerated from the source; spec: the published standard (Spec.Ctx.heStandardTernary)
    some (toString (maxBitCount (pNat n) (pSec sec)), toString (Spec.Ctx.heStandardTernary (pSec sec) (pNat n)))
  | "bfv_default", [n, sec] =>
    let n := pNat n; let sec := pSec sec
    let model := bfvDefault n sec
    let l := pList impl
    let spec := if impl.startsWith "ERR" then (match model with | .error _ => "ERR:refused" | .ok _ => "table entry exists") else
      relSpec impl (l.all isP ∧ l.all (fun v => v % (2*n) = 1) ∧ l.eraseDups.length = l.length ∧ l.all (fun v => bitCount v ≤ 60) ∧
        bitCount (prodL l) ≤ maxBitCount n sec) "distinct NTT-friendly primes within the standard's bit budget"
    some (fR fList model, spec)
  | "is_prime", [v] =>
    let v := pNat v
    let model : R Bool := do
      let m ← Modulus.mk? v
      isPrimeW m (witnesses v)
    some (fR fBool model, if v = 1 ∨ v ≥ 2^61 then "ERR:refused" else fBool (if v < 2^32 then Spec.isPrimeNat v else isP v))
  | _, _ => none

end Drv.C13
