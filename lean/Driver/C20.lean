/- Driver handlers for property C20 (matrix products, convolutions, RNS plaintexts).
   model column = the Lean model of the helper (Heathcliff/Model/Matmul.lean) run at the plaintext level;
   spec column  = independent definitions: gather-form index maps, the matrix product / valid cross-correlation
                  modulo t, the value modulo the product of the plain moduli. -/
import Driver.Util
import Heathcliff.Model.Matmul
import Heathcliff.Spec.Poly
import Heathcliff.Spec.RNS
namespace Drv.C20
open HC HC.MM Drv

/-- rows `|`, polynomials `;`, coefficients `,` ; `-` empty, `_` empty row -/
def pP2 (s : String) : List (List (Array Nat)) :=
  if s == "-" || s.isEmpty then [] else
  (s.splitOn "|").map fun row => if row == "_" then [] else (row.splitOn ";").map fun p => (pList p).toArray
def fP2 (l : List (List (Array Nat))) : String :=
  if l.isEmpty then "-" else
  "|".intercalate (l.map fun row => if row.isEmpty then "_" else ";".intercalate (row.map fun p => fList p.toList))

def pObj (s : String) : Objective := match s with | "0" => .cipherPlain | "1" => .plainCipher | _ => .cpAddPc

def modP2 (t : Nat) (l : List (List (Array Nat))) : List (List (Array Nat)) := l.map (·.map (·.map (· % t)))
/-- flat matrix access (the array is built once by the caller: FRAMEWORK.md pitfall on closures) -/
def accA (a : Array Nat) (i : Nat) : Nat := a.getD i 0

def padTo (n : Nat) (a : Array Nat) : Array Nat := Array.ofFn (n := n) fun i => a.getD i.val 0
def addPoly (t : Nat) (a b : Array Nat) : Array Nat := Array.ofFn (n := a.size) fun i => (a.getD i.val 0 + b.getD i.val 0) % t
def zipP2 (t : Nat) (a b : List (List (Array Nat))) : R (List (List (Array Nat))) :=
  if a.length ≠ b.length then .error .other else
  (a.zip b).mapM fun rr => if rr.1.length ≠ rr.2.length then .error .other else pure ((rr.1.zip rr.2).map fun pq => addPoly t pq.1 pq.2)

/-- Σ over the list of products, coefficient-wise mod t -/
def sumPolys (n t : Nat) (l : List (Array Nat)) : Array Nat := l.foldl (addPoly t) (Array.replicate n 0)

def getP (l : List (List (Array Nat))) (i j : Nat) : Array Nat := ((l.getD i []).getD j #[])

/-! ### coefficient packing -/

def mmRun (h : Helper) (t : Nat) (tr : Bool) (X W S : List Nat) : R (Array Nat) := do
  let xe := modP2 t (← encodeInputs h 0 (accA X.toArray) X.length)
  let we := modP2 t (← encodeWeights h 0 (accA W.toArray) W.length)
  let nb := ceilDiv h.bs h.bb
  if xe.length ≠ nb ∨ we.length ≠ ceilDiv h.id h.ib then .error .other else
  -- `matmul`: out[b][j] = Σ_i x[b][i]·w[i][j]
  let prod : List (List (Array Nat)) := (List.range nb).map fun b => (List.range (ceilDiv h.od h.ob)).map fun j =>
    sumPolys h.n t ((List.range we.length).map fun i => Spec.negMul (getP xe b i) (padTo h.n (getP we i j)) t)
  let y := if h.pack then [packPlain h 0 prod.flatten] else prod
  let y ← if S.isEmpty then pure y else do
    let se := modP2 t (← encodeOutputs h 0 (accA S.toArray) S.length)
    zipP2 t y se
  -- selected-terms transport keeps exactly the coefficients listed by `output_terms`
  let terms := outputTerms h
  let y := if tr && !h.pack then y.map (·.map fun p => Array.ofFn (n := p.size) fun i => if terms.contains i.val then p.getD i.val 0 else 0) else y
  decodeOutputs h 0 y

def specMatmul (t bs id od : Nat) (X W S : List Nat) : List Nat :=
  let xa := X.toArray; let wa := W.toArray; let sa := S.toArray
  let x := accA xa; let w := accA wa; let s := accA sa
  (List.range (bs * od)).map fun k =>
    let i := k / od; let j := k % od
    ((List.range id).foldl (fun a l => a + (x (i * id + l) % t) * (w (l * od + j) % t)) (if S.isEmpty then 0 else s k % t)) % t

/-- gather form of `encode_inputs`: coefficient p of polynomial (bi, ii) -/
def specEncX (h : Helper) (t : Nat) (X : List Nat) : List (List (Array Nat)) :=
  let xa := X.toArray
  let x := accA xa
  (List.range (ceilDiv h.bs h.bb)).map fun bi => (List.range (ceilDiv h.id h.ib)).map fun ii =>
    Array.ofFn (n := h.n) fun p =>
      let db := p.val / (h.ib * h.ob); let j := p.val % (h.ib * h.ob)
      if j < h.ib ∧ db < h.bb ∧ bi * h.bb + db < h.bs ∧ ii * h.ib + j < h.id then x ((bi * h.bb + db) * h.id + ii * h.ib + j) % t else 0

def specEncW (h : Helper) (t : Nat) (W : List Nat) : List (List (Array Nat)) :=
  let wa := W.toArray
  let w := accA wa
  (List.range (ceilDiv h.id h.ib)).map fun ii => (List.range (ceilDiv h.od h.ob)).map fun oi =>
    Array.ofFn (n := h.ib * h.ob) fun p =>
      let k := p.val / h.ib; let j := h.ib - 1 - p.val % h.ib
      if ii * h.ib + j < h.id ∧ oi * h.ob + k < h.od then w ((ii * h.ib + j) * h.od + oi * h.ob + k) % t else 0

def specEncO (h : Helper) (t : Nat) (Y : List Nat) : List (List (Array Nat)) :=
  let ya := Y.toArray
  let y := accA ya
  let obc := ceilDiv h.od h.ob
  if !h.pack then
    (List.range (ceilDiv h.bs h.bb)).map fun bi => (List.range obc).map fun oi =>
      Array.ofFn (n := h.n) fun p =>
        let db := p.val / (h.ib * h.ob); let rem := p.val % (h.ib * h.ob); let k := rem / h.ib
        if rem % h.ib = h.ib - 1 ∧ db < h.bb ∧ bi * h.bb + db < h.bs ∧ oi * h.ob + k < h.od then y ((bi * h.bb + db) * h.od + oi * h.ob + k) % t else 0
  else
    [(List.range (ceilDiv (ceilDiv h.bs h.bb * obc) h.ib)).map fun pid =>
      Array.ofFn (n := h.n) fun p =>
        let db := p.val / (h.ib * h.ob); let rem := p.val % (h.ib * h.ob); let k := rem / h.ib
        let cid := pid * h.ib + rem % h.ib
        let bi := cid / obc; let oi := cid % obc
        if db < h.bb ∧ bi * h.bb + db < h.bs ∧ oi * h.ob + k < h.od ∧ bi < ceilDiv h.bs h.bb then y ((bi * h.bb + db) * h.od + oi * h.ob + k) % t else 0]

def specDec (h : Helper) (bufs : List (List (Array Nat))) : List Nat :=
  let obc := ceilDiv h.od h.ob
  (List.range (h.bs * h.od)).map fun k =>
    let i := k / h.od; let j := k % h.od
    let cid := (i / h.bb) * obc + j / h.ob
    if !h.pack then (getP bufs (i / h.bb) (j / h.ob)).getD ((i % h.bb) * h.ib * h.ob + (j % h.ob) * h.ib + h.ib - 1) 0
    else (getP bufs 0 (cid / h.ib)).getD ((i % h.bb) * h.ib * h.ob + (j % h.ob) * h.ib + cid % h.ib) 0

def blocksOk (N bs id od : Nat) (pack : Bool) (b i o : Nat) : Bool :=
  1 ≤ b ∧ b ≤ bs ∧ 1 ≤ i ∧ 1 ≤ o ∧ o ≤ od ∧ b * i * o ≤ N ∧ (if pack then i = packI N id ∧ N % i = 0 else i ≤ id)

/-! ### convolution -/

def pShape (a : List String) : ConvShape :=
  match a.map pNat with
  | [b, ci, co, h, w, kh, kw] => ⟨b, ci, co, h, w, kh, kw⟩
  | _ => default

def cvRun (h : CHelper) (t : Nat) (tr : Bool) (X W S : List Nat) : R (Array Nat) := do
  let xe := modP2 t (← cvEncodeInputs h 0 (accA X.toArray) X.length)
  let we := modP2 t (← cvEncodeWeights h 0 (accA W.toArray) W.length)
  if xe.length ≠ h.totalBatch then .error .other else
  let groups := ceilDiv h.S.co h.cob
  if we.length ≠ groups then .error .oob else
  let prod : List (List (Array Nat)) := xe.map fun row => (List.range groups).map fun oc =>
    sumPolys h.n t ((List.range row.length).map fun i => Spec.negMul (row.getD i #[]) (padTo h.n (getP we oc i)) t)
  let y ← if S.isEmpty then pure prod else do
    let se := modP2 t (← cvEncodeOutputs h 0 (accA S.toArray) S.length)
    zipP2 t prod se
  let terms := cvOutputTerms h
  let y := if tr then y.map (·.map fun p => Array.ofFn (n := p.size) fun i => if terms.contains i.val then p.getD i.val 0 else 0) else y
  cvDecodeOutputs h 0 y

def specConv (t : Nat) (S : ConvShape) (X W B : List Nat) : List Nat :=
  let xa := X.toArray; let wa := W.toArray; let sa := B.toArray
  let x := accA xa; let w := accA wa; let s := accA sa
  let oh := S.h - S.kh + 1; let ow := S.w - S.kw + 1
  (List.range (S.b * S.co * oh * ow)).map fun k =>
    let j := k % ow; let i := (k / ow) % oh; let oc := (k / (ow * oh)) % S.co; let b := k / (ow * oh * S.co)
    ((List.range S.ci).foldl (fun a ic => (List.range S.kh).foldl (fun a ki => (List.range S.kw).foldl (fun a kj =>
        a + (x (((b * S.ci + ic) * S.h + i + ki) * S.w + j + kj) % t) * (w (((oc * S.ci + ic) * S.kh + ki) * S.kw + kj) % t)) a) a)
      (if B.isEmpty then 0 else s k % t)) % t

def cvSpecEncX (h : CHelper) (t : Nat) (X : List Nat) : List (List (Array Nat)) :=
  let xa := X.toArray
  let x := accA xa
  let B := h.blockSize
  let imsz := h.S.h * h.S.w
  (List.range h.totalBatch).map fun eb => (List.range (ceilDiv h.S.ci h.cib)).map fun gi =>
    let lb := eb / (h.sh * h.sw) * h.bb
    let si := (eb % (h.sh * h.sw)) / h.sw * (h.hb - (h.S.kh - 1))
    let sj := eb % h.sw * (h.wb - (h.S.kw - 1))
    Array.ofFn (n := h.n) fun p =>
      let db := p.val / (h.cib * h.cob * B); let r1 := p.val % (h.cib * h.cob * B)
      let dc := r1 / B; let r2 := r1 % B
      let ti := r2 / h.wb; let tj := r2 % h.wb
      if db < h.bb ∧ lb + db < h.S.b ∧ dc < h.cib ∧ gi * h.cib + dc < h.S.ci ∧ si + ti < h.S.h ∧ sj + tj < h.S.w
      then x ((lb + db) * h.S.ci * imsz + (gi * h.cib + dc) * imsz + (si + ti) * h.S.w + (sj + tj)) % t else 0

def cvSpecEncW (h : CHelper) (t : Nat) (W : List Nat) : List (List (Array Nat)) :=
  let wa := W.toArray
  let w := accA wa
  let B := h.blockSize
  (List.range (ceilDiv h.S.co h.cob)).map fun go => (List.range (ceilDiv h.S.ci h.cib)).map fun gi =>
    Array.ofFn (n := h.cib * h.cob * h.wb * h.hb) fun p =>
      let doc := p.val / (h.cib * B); let r1 := p.val % (h.cib * B)
      let dic := h.cib - 1 - r1 / B; let r2 := r1 % B
      let ki := r2 / h.wb; let kj := r2 % h.wb
      if go * h.cob + doc < h.S.co ∧ gi * h.cib + dic < h.S.ci ∧ ki < h.S.kh ∧ kj < h.S.kw
      then w (((go * h.cob + doc) * h.S.ci + gi * h.cib + dic) * (h.S.kh * h.S.kw) + (h.S.kh - 1 - ki) * h.S.kw + (h.S.kw - 1 - kj)) % t else 0

def cvSpecEncO (h : CHelper) (t : Nat) (Y : List Nat) : List (List (Array Nat)) :=
  let ya := Y.toArray
  let y := accA ya
  let B := h.blockSize
  let yh := h.hb - h.S.kh + 1; let yw := h.wb - h.S.kw + 1
  let oyh := h.S.h - h.S.kh + 1; let oyw := h.S.w - h.S.kw + 1
  (List.range h.totalBatch).map fun eb => (List.range (ceilDiv h.S.co h.cob)).map fun go =>
    let lb := eb / (h.sh * h.sw) * h.bb
    let si := (eb % (h.sh * h.sw)) / h.sw
    let sj := eb % h.sw
    Array.ofFn (n := h.n) fun p =>
      let q := p.val / B; let r := p.val % B
      let db := q / (h.cib * h.cob); let q2 := q % (h.cib * h.cob)
      let dc := q2 / h.cib
      let ri := r / h.wb; let rj := r % h.wb
      if q2 % h.cib = h.cib - 1 ∧ db < h.bb ∧ lb + db < h.S.b ∧ go * h.cob + dc < h.S.co ∧ h.S.kh - 1 ≤ ri ∧ h.S.kw - 1 ≤ rj
         ∧ si * yh + (ri - (h.S.kh - 1)) < oyh ∧ sj * yw + (rj - (h.S.kw - 1)) < oyw
      then y ((lb + db) * h.S.co * oyh * oyw + (go * h.cob + dc) * oyh * oyw + (si * yh + (ri - (h.S.kh - 1))) * oyw + (sj * yw + (rj - (h.S.kw - 1)))) % t else 0

/-- gather form of the convolution decode map: output (b, c, i, j) is read from tile (i / yh, j / yw) -/
def cvSpecDec (h : CHelper) (bufs : List (List (Array Nat))) : List Nat :=
  let yh := h.hb - h.S.kh + 1; let yw := h.wb - h.S.kw + 1
  let oyh := h.S.h - h.S.kh + 1; let oyw := h.S.w - h.S.kw + 1
  (List.range (h.S.b * h.S.co * oyh * oyw)).map fun k =>
    let j := k % oyw; let i := (k / oyw) % oyh; let c := (k / (oyw * oyh)) % h.S.co; let b := k / (oyw * oyh * h.S.co)
    let eb := (b / h.bb) * (h.sh * h.sw) + (i / yh) * h.sw + j / yw
    (getP bufs eb (c / h.cob)).getD
      ((((b % h.bb) * h.cib * h.cob + (c % h.cob) * h.cib + h.cib - 1) * h.blockSize)
        + (h.S.kh - 1 + i % yh) * h.wb + (h.S.kw - 1 + j % yw)) 0

def cvBlocksOk (S : ConvShape) (N : Nat) (v : List Nat) : Bool :=
  match v with
  | [b, h, w, ci, co] =>
    1 ≤ b ∧ b ≤ S.b ∧ S.kh ≤ h ∧ h ≤ S.h ∧ S.kw ≤ w ∧ w ≤ S.w ∧ 1 ≤ ci ∧ ci ≤ S.ci ∧ 1 ≤ co ∧ co ≤ S.co ∧ b * ci * co * h * w ≤ N
  | _ => false

/-! ### RNS plaintext -/

def mkBase (ts : List Nat) : R RNSBase := do
  let ms ← ts.mapM Modulus.mk?
  RNSBase.new ms

def chunkVals (k : Nat) (n : Nat) (ws : List Nat) : List Nat :=
  let a := ws.toArray
  (List.range n).map fun j => toNat ((List.range k).map fun l => a.getD (j * k + l) 0)

def wordsOf (k : Nat) (vals : List Nat) : List Nat := vals.flatMap fun v => fromNat k v

def prodL (l : List Nat) : Nat := l.foldl (· * ·) 1

/-- the operation on one plaintext ring Z_m[X]/(X^n+1) (coefficient mode) or Z_m^n (slot mode) -/
def ringOp (op : String) (poly : Bool) (m : Nat) (a b : List Nat) : List Nat :=
  let n := a.length
  let pw (f : Nat → Nat → Nat) : List Nat := (a.zip b).map fun xy => f (xy.1 % m) (xy.2 % m) % m
  let mul (u v : List Nat) : List Nat := if poly then (Spec.negMul (u.map (· % m)).toArray (v.map (· % m)).toArray m).toList else (u.zip v).map fun xy => (xy.1 % m) * (xy.2 % m) % m
  match op with
  | "add" | "addplain" => pw (· + ·)
  | "sub" | "subplain" => pw fun x y => x + m - y
  | "neg" => a.map fun x => (m - x % m) % m
  | "mul" | "mulplain" => mul a b
  | _ => if n = 0 then [] else mul a a


/-! ### BOLT slot packing -/

def addT (t : Nat) (a b : Nat) : Nat := (a + b) % t
def mulT (t : Nat) (a b : Nat) : Nat := (a * b) % t

/-- gather form of the column-major layout shared by `bolt_cp` / `bolt_cc_cr` inputs and `bolt_cp` / `bolt_cc_dc` outputs:
    slot `p` of polynomial `i` of row part `q` holds entry (row `q·m + p mod gap`, column `i·s + p / gap`) -/
def specColMajor (N gap s m mAll width : Nat) (X : List Nat) : List (List (Array Nat)) :=
  let xa := X.toArray
  (List.range (ceilDiv mAll m)).map fun q => (List.range (ceilDiv width s)).map fun i =>
    Array.ofFn (n := N) fun p =>
      let j := p.val % gap; let c := i * s + p.val / gap
      if j < m ∧ q * m + j < mAll ∧ p.val / gap < s ∧ c < width then xa.getD ((q * m + j) * width + c) 0 else 0

def boltCpRun (h : BoltCp) (t : Nat) (X W : List Nat) : R (Array Nat) := do
  let xe ← boltCpEncodeInputs h 0 (accA X.toArray) X.length
  let we ← boltCpEncodeWeights h 0 (accA W.toArray) W.length
  let y ← boltCpMultiply h (addT t) (mulT t) 0 xe we
  boltCpDecodeOutputs h 0 y

def boltCrRun (h : BoltCc) (t : Nat) (X W : List Nat) : R (Array Nat) := do
  let xe ← boltCrEncodeInputs h 0 (accA X.toArray) X.length
  let we ← boltCrEncodeWeights h 0 (accA W.toArray) W.length
  let y ← boltCrMultiply h (addT t) (mulT t) 0 xe we
  boltCrDecodeOutputs h 0 y

def boltDcRun (h : BoltCc) (t : Nat) (X W : List Nat) : R (Array Nat) := do
  let xe ← boltDcEncodeInputs h 0 (accA X.toArray) X.length
  let we ← boltDcEncodeWeights h 0 (accA W.toArray) W.length
  let y ← boltDcMultiply h (addT t) (mulT t) 0 xe we
  boltDcDecodeOutputs h 0 y

def handle (fn : String) : Handler := fun a impl =>
  match fn, a with
  | "mm_blocks", [N, bs, id, od, obj, pack] =>
    let N := pNat N; let bs := pNat bs; let id := pNat id; let od := pNat od; let pack := pack == "1"
    let spec := match pList impl with
      | [b, i, o] => relSpec impl (blocksOk N bs id od pack b i o) "blocks violate the side conditions"
      | _ => "RELFAIL(no blocks)"
    some (fR (fun h => s!"{h.bb},{h.ib},{h.ob}") (Helper.new bs id od N (pObj obj) pack), spec)
  | "mm_encx", [N, t, bs, id, od, obj, pack, X] =>
    let t := pNat t; let X := pList X
    let h := Helper.new (pNat bs) (pNat id) (pNat od) (pNat N) (pObj obj) (pack == "1")
    some (fR fP2 (do let h ← h; pure (modP2 t (← encodeInputs h 0 (accA X.toArray) X.length))), fR (fun h => fP2 (specEncX h t X)) h)
  | "mm_encw", [N, t, bs, id, od, obj, pack, W] =>
    let t := pNat t; let W := pList W
    let h := Helper.new (pNat bs) (pNat id) (pNat od) (pNat N) (pObj obj) (pack == "1")
    some (fR fP2 (do let h ← h; pure (modP2 t (← encodeWeights h 0 (accA W.toArray) W.length))), fR (fun h => fP2 (specEncW h t W)) h)
  | "mm_enco", [N, t, bs, id, od, obj, pack, Y] =>
    let t := pNat t; let Y := pList Y
    let h := Helper.new (pNat bs) (pNat id) (pNat od) (pNat N) (pObj obj) (pack == "1")
    some (fR fP2 (do let h ← h; pure (modP2 t (← encodeOutputs h 0 (accA Y.toArray) Y.length))), fR (fun h => fP2 (specEncO h t Y)) h)
  | "mm_dec", [N, _t, bs, id, od, obj, pack, P] =>
    let bufs := pP2 P
    let h := Helper.new (pNat bs) (pNat id) (pNat od) (pNat N) (pObj obj) (pack == "1")
    some (fR (fun (r : Array Nat) => fList r.toList) (do let h ← h; decodeOutputs h 0 bufs), fR (fun h => fList (specDec h bufs)) h)
  | "mm_run", [N, t, bs, id, od, obj, pack, _dir, tr, X, W, S] =>
    let t := pNat t; let X := pList X; let W := pList W; let S := pList S
    let bs := pNat bs; let id := pNat id; let od := pNat od
    some (fR (fun (r : Array Nat) => fList r.toList) (do let h ← Helper.new bs id od (pNat N) (pObj obj) (pack == "1"); mmRun h t (tr == "1") X W S),
          fList (specMatmul t bs id od X W S))
  | "cv_blocks", [N, b, ci, co, h, w, kh, kw, obj] =>
    let S := pShape [b, ci, co, h, w, kh, kw]; let N := pNat N
    let st := CHelper.new S N (pObj obj)
    some (s!"{st.bb},{st.hb},{st.wb},{st.cib},{st.cob}", relSpec impl (cvBlocksOk S N (pList impl)) "blocks violate the side conditions")
  | "cv_encx", [N, t, b, ci, co, h, w, kh, kw, obj, X] =>
    let t := pNat t; let X := pList X
    let hp := CHelper.new (pShape [b, ci, co, h, w, kh, kw]) (pNat N) (pObj obj)
    some (fR fP2 (do pure (modP2 t (← cvEncodeInputs hp 0 (accA X.toArray) X.length))), fP2 (cvSpecEncX hp t X))
  | "cv_encw", [N, t, b, ci, co, h, w, kh, kw, obj, W] =>
    let t := pNat t; let W := pList W
    let hp := CHelper.new (pShape [b, ci, co, h, w, kh, kw]) (pNat N) (pObj obj)
    some (fR fP2 (do pure (modP2 t (← cvEncodeWeights hp 0 (accA W.toArray) W.length))), fP2 (cvSpecEncW hp t W))
  | "cv_enco", [N, t, b, ci, co, h, w, kh, kw, obj, Y] =>
    let t := pNat t; let Y := pList Y
    let hp := CHelper.new (pShape [b, ci, co, h, w, kh, kw]) (pNat N) (pObj obj)
    some (fR fP2 (do pure (modP2 t (← cvEncodeOutputs hp 0 (accA Y.toArray) Y.length))), fP2 (cvSpecEncO hp t Y))
  | "cv_dec", [N, _t, b, ci, co, h, w, kh, kw, obj, P] =>
    let bufs := pP2 P
    let hp := CHelper.new (pShape [b, ci, co, h, w, kh, kw]) (pNat N) (pObj obj)
    some (fR (fun (r : Array Nat) => fList r.toList) (cvDecodeOutputs hp 0 bufs), fList (cvSpecDec hp bufs))
  | "cv_run", [N, t, b, ci, co, h, w, kh, kw, obj, _dir, tr, X, W, S] =>
    let t := pNat t; let X := pList X; let W := pList W; let S := pList S
    let sh := pShape [b, ci, co, h, w, kh, kw]
    let hp := CHelper.new sh (pNat N) (pObj obj)
    some (fR (fun (r : Array Nat) => fList r.toList) (cvRun hp t (tr == "1") X W S), fList (specConv t sh X W S))
  | "rnsp_split", [ts, n, _poly, vals] =>
    let ts := pList ts; let n := pNat n; let k := ts.length
    let vs := chunkVals k n (pList vals)
    some (fR fList2 (do let b ← mkBase ts; rnsSplit b vs),
          fList2 (ts.map fun t => vs.map fun v => if k = 1 then v else v % t))
  | "rnsp_roundtrip", [ts, n, _poly, vals] =>
    let ts := pList ts; let n := pNat n; let k := ts.length
    let vs := chunkVals k n (pList vals)
    let T := prodL ts
    some (fR (fun r => fList (wordsOf k r)) (do let b ← mkBase ts; let c ← rnsSplit b vs; rnsMerge b c n),
          fList (wordsOf k (vs.map fun v => if k = 1 then v else v % T)))
  | "rnsp_eval", [ts, n, poly, op, A, B] =>
    let ts := pList ts; let n := pNat n; let k := ts.length; let poly := poly == "1"
    let va := chunkVals k n (pList A); let vb := chunkVals k n (pList B)
    let T := prodL ts
    some (fR (fun r => fList (wordsOf k r)) (do
            let b ← mkBase ts
            let ca ← rnsSplit b va; let cb ← rnsSplit b vb
            let cc := (List.range k).map fun i => ringOp op poly (ts.getD i 1) (ca.getD i []) (cb.getD i [])
            rnsMerge b cc n),
          fList (wordsOf k (ringOp op poly T va vb)))
  | "bolt_cp_encx", [N, _t, m, r, n, X] =>
    let X := pList X
    let h := BoltCp.new (pNat m) (pNat r) (pNat n) (pNat N)
    some (fR fP2 (do let h ← h; boltCpEncodeInputs h 0 (accA X.toArray) X.length),
          fR (fun h => fP2 (specColMajor h.N h.gap h.s h.m h.mAll h.r X)) h)
  | "bolt_cp_enco", [N, _t, m, r, n, Y] =>
    let Y := pList Y
    let h := BoltCp.new (pNat m) (pNat r) (pNat n) (pNat N)
    some (fR fP2 (do let h ← h; boltCpEncodeOutputs h 0 (accA Y.toArray) Y.length),
          fR (fun h => fP2 (specColMajor h.N h.gap h.s h.m h.mAll h.n Y)) h)
  | "bolt_cp_encw", [N, _t, m, r, n, W] =>
    let W := pList W
    some (fR fP2 (do let h ← BoltCp.new (pNat m) (pNat r) (pNat n) (pNat N); boltCpEncodeWeights h 0 (accA W.toArray) W.length), impl)
  | "bolt_cp_run", [N, t, m, r, n, X, W] =>
    let t := pNat t; let X := pList X; let W := pList W
    some (fR (fun (r : Array Nat) => fList r.toList) (do let h ← BoltCp.new (pNat m) (pNat r) (pNat n) (pNat N); boltCpRun h t X W),
          fList (specMatmul t (pNat m) (pNat r) (pNat n) X W []))
  | "bolt_cccr_encx", [N, _t, m, r, n, X] =>
    let X := pList X
    let h := BoltCc.newCr (pNat m) (pNat r) (pNat n) (pNat N)
    some (fR fP2 (do let h ← h; boltCrEncodeInputs h 0 (accA X.toArray) X.length),
          fR (fun h => fP2 (specColMajor h.N h.gap h.gsc h.m h.mAll h.r X)) h)
  | "bolt_cccr_encw", [N, _t, m, r, n, W] =>
    let W := pList W
    some (fR fP2 (do let h ← BoltCc.newCr (pNat m) (pNat r) (pNat n) (pNat N); boltCrEncodeWeights h 0 (accA W.toArray) W.length), impl)
  | "bolt_cccr_enco", [N, _t, m, r, n, Y] =>
    let Y := pList Y
    some (fR fP2 (do let h ← BoltCc.newCr (pNat m) (pNat r) (pNat n) (pNat N); boltCrEncodeOutputs h 0 (accA Y.toArray) Y.length), impl)
  | "bolt_cccr_run", [N, t, m, r, n, X, W] =>
    let t := pNat t; let X := pList X; let W := pList W
    some (fR (fun (r : Array Nat) => fList r.toList) (do let h ← BoltCc.newCr (pNat m) (pNat r) (pNat n) (pNat N); boltCrRun h t X W),
          fList (specMatmul t (pNat m) (pNat r) (pNat n) X W []))
  | "bolt_ccdc_encx", [N, _t, m, r, n, X] =>
    let X := pList X
    some (fR fP2 (do let h ← BoltCc.newDc (pNat m) (pNat r) (pNat n) (pNat N); boltDcEncodeInputs h 0 (accA X.toArray) X.length), impl)
  | "bolt_ccdc_encw", [N, _t, m, r, n, W] =>
    let W := pList W
    some (fR fP2 (do let h ← BoltCc.newDc (pNat m) (pNat r) (pNat n) (pNat N); boltDcEncodeWeights h 0 (accA W.toArray) W.length), impl)
  | "bolt_ccdc_enco", [N, _t, m, r, n, Y] =>
    let Y := pList Y
    let h := BoltCc.newDc (pNat m) (pNat r) (pNat n) (pNat N)
    some (fR fP2 (do let h ← h; boltDcEncodeOutputs h 0 (accA Y.toArray) Y.length),
          fR (fun h => fP2 (specColMajor h.N h.gap h.gsc h.m h.mAll h.nAll Y)) h)
  | "bolt_ccdc_run", [N, t, m, r, n, X, W] =>
    let t := pNat t; let X := pList X; let W := pList W
    some (fR (fun (r : Array Nat) => fList r.toList) (do let h ← BoltCc.newDc (pNat m) (pNat r) (pNat n) (pNat N); boltDcRun h t X W),
          fList (specMatmul t (pNat m) (pNat r) (pNat n) X W []))
  | "bolt_ccdc_r0", [N, t, m, n] =>
    -- degenerate inner dimension r = 0: the constructor accepts, `multiply` must refuse (no block product to unwrap)
    let t := pNat t
    some (fR (fun (r : Array Nat) => fList r.toList) (do let h ← BoltCc.newDc (pNat m) 0 (pNat n) (pNat N); boltDcRun h t [] []),
          relSpec impl (impl.startsWith "ERR:") "r = 0 is outside the domain of MatmulBoltCcDc: multiply must refuse")
  | _, _ => none

end Drv.C20
