/- `enc_op` lines (C01): the model of ENCRYPTION (Heathcliff/Model/Encrypt.lean) recomputes the ciphertext from the dumped key material
   and the polynomials the library drew; the spec column checks the MEANING of the implementation's ciphertext with exact big-integer
   arithmetic (phase = message + noise recomputed from the tape). -/
import Driver.Scheme
import Driver.C16
import Heathcliff.Model.Encrypt
namespace Drv.C01E
open HC Drv Drv.Sch

/-- negacyclic product over ℤ (no modulus) -/
def zmul (n : Nat) (a b : Array Int) : Array Int :=
  (List.range n).foldl (fun (acc : Array Int) i =>
    (List.range n).foldl (fun (acc : Array Int) j =>
      let k := i + j
      let t := a.getD i 0 * b.getD j 0
      if k < n then acc.modify k (· + t) else acc.modify (k - n) (· - t)) acc) (Array.replicate n (0 : Int))

/-- signed coefficients of a sampled polynomial (same small value in every component: read off component 0) -/
def signed (p : RnsPoly) (q0 : Nat) : Array Int := (p.getD 0 #[]).map (fun x => Spec.centred x q0)

def fCt (ct : Ct) : String := s!"{fBool ct.ntt} {ct.cf} {fPolys ct.polys}"

/-- context constants of the first level, from their definitions -/
def bfvConsts (l : Level) (qs : List Nat) (t : Nat) : R (Array MulOperand) := do
  let Q := Spec.prodL qs
  let cdp ← (List.range qs.length).mapM fun j => MulOperand.new ((Q / t) % qs.getD j 1) (l.q j)
  pure cdp.toArray

def bgvIncr (qs : List Nat) (t : Nat) : Bool × Array Nat :=
  let fast := qs.all (fun q => !(q ≤ t))
  (fast, if fast then (qs.map (fun q => q - t)).toArray else (fromNat qs.length (Spec.prodL qs - t)).toArray)

def handle (fn : String) : Handler := fun a impl =>
  match fn, a with
  | "enc_op", [scheme, n, _keyqs, t, sk, lqs, pqs, mode, pk, drawn, plain, seedinfo] =>
    let sch := pScheme scheme; let n := pNat n; let t := pNat t; let sk := pSk sk
    let lqs := pList lqs; let pqs := pList pqs
    let pk := pPolys pk; let drawn := pPolys drawn
    let Q := Spec.prodL lqs
    let model : R Ct := do
      let l ← mkLevel sch n lqs t
      let em ← if mode == "pk" then do
          let prev ← if pqs.isEmpty then pure none else do let pl ← mkLevel sch n pqs t; pure (some pl)
          pure (EncMode.asym prev pk (drawn.getD 0 #[]) #[drawn.getD 1 #[], drawn.getD 2 #[]])
        else pure (EncMode.sym sk (drawn.getD 0 #[]) (drawn.getD 1 #[]) (mode == "seed"))
      let ct ← if plain == "-" then encryptZeroInternal l em else
        match sch with
        | .bfv => do
          let cdp ← bfvConsts l lqs t
          bfvEncrypt l cdp (Q % t) ((t + 1) / 2) em (pList plain).toArray
        | .bgv =>
          let (fast, incr) := bgvIncr lqs t
          bgvEncrypt l fast ((t + 1) / 2) incr em (pList plain).toArray
        | .ckks => ckksEncrypt l em (Drv.C10.pPoly plain)
      -- a saved seed: the stored object is (c0, seed); the implementation's output is its expansion
      if mode == "seed" && seedSaved l true then
        match seedinfo.splitOn "@" with
        | [sd, xd] => expandSeed Rng.randUniform (Drv.C16.xofOf (Drv.C16.pXofData xd)) l (ct.toSeeded (Drv.C16.unhex sd))
        | _ => .error .other          -- the model stores a seed, the implementation did not
      else if seedinfo != "-" then .error .other else pure ct
    -- spec: exact phase of the implementation's ciphertext = message + noise recomputed from the tape
    let spec : String :=
      match mkLevel sch n lqs t, (if pqs.isEmpty then mkLevel sch n lqs t else mkLevel sch n pqs t) with
      | .ok l, .ok dl =>
        match impl.splitOn " " with
        | [inttS, icf, ipolys] =>
          let ict : Ct := ⟨pPolys ipolys, inttS == "1", pNat icf⟩
          let dqs := if pqs.isEmpty then lqs else pqs
          let q0 := dqs.getD 0 1
          let s : Array Int := sk
          let ph := exactPhase l lqs sk ict
          let tt : Int := if sch = .bgv then (t : Int) else 1
          -- message polynomial over ℤ
          let M : Array Int :=
            if plain == "-" then Array.replicate n 0 else
            match sch with
            | .bfv => Array.ofFn (n := n) fun j => (((Q * (pList plain).getD j.val 0 + (t + 1) / 2) / t : Nat) : Int)
            | .bgv => Array.ofFn (n := n) fun j => let m := (pList plain).getD j.val 0; if m ≥ (t + 1) / 2 then (m : Int) - t else m
            | .ckks => (Spec.crtPoly lqs (rnsIntt l (Drv.C10.pPoly plain)) n).map (fun x => Spec.centred x.toNat Q)
          -- noise over ℤ
          let v : Array Int :=
            if mode == "pk" then
              let w := exactPhase dl dqs sk ⟨pk, true, 1⟩                 -- pk0 + pk1·s = −e_pk (BGV: −t·e_pk), centred
              let u := signed (drawn.getD 0 #[]) q0
              let e0 := signed (drawn.getD 1 #[]) q0
              let e1 := signed (drawn.getD 2 #[]) q0
              let uw := zmul n u w
              let e1s := zmul n e1 s
              Array.ofFn (n := n) fun j => uw.getD j.val 0 + tt * e0.getD j.val 0 + tt * e1s.getD j.val 0
            else
              let e := signed (drawn.getD 1 #[]) q0
              Array.ofFn (n := n) fun j => - tt * e.getD j.val 0
          let metaOk := ict.cf == 1 && ict.ntt == sch.encNtt && ict.polys.size == 2
          let ok :=
            if mode == "pk" && !pqs.isEmpty then
              -- divided by the last prime of the previous level: q_last·(phase − M) = v − ρ, ρ = ρ0 + ρ1·s with small ρ_k
              let qlast := dqs.getLastD 1
              let Qd := Spec.prodL dqs
              let B : Nat := if sch = .bgv then qlast * t * (1 + n) else qlast * (1 + n) / 2 + (1 + n)
              (List.range n).all fun j =>
                (Spec.centred (Spec.imod ((qlast : Int) * (ph.getD j 0 - M.getD j 0) - v.getD j 0) Qd) Qd).natAbs ≤ B
            else
              (List.range n).all fun j => Spec.imod (ph.getD j 0 - M.getD j 0 - v.getD j 0) Q == 0
          relSpec impl (metaOk && ok) "phase of the ciphertext ≠ message + noise recomputed from the drawn polynomials (or wrong metadata)"
        | _ => "ERR:refused"
      | _, _ => "ERR:refused"
    some (fR fCt model, spec)
  | "keygen_op", [scheme, n, keyqs, t, mode, tern, drawn, seedinfo] =>
    -- KEY GENERATION: the stored secret key from the ternary sample, the public key from (a, e); impl = `skpolys ntt cf polys`
    let sch := pScheme scheme; let n := pNat n; let t := pNat t
    let kqs := pList keyqs
    let tern := (pPolys tern).getD 0 #[]; let drawn := pPolys drawn
    let q0 := kqs.getD 0 1
    let sk : Array Int := signed tern q0
    let model : R (RnsPoly × Ct) := do
      let l ← mkLevel sch n kqs t
      let ct ← genPublicKey l sk (drawn.getD 0 #[]) (drawn.getD 1 #[]) (mode == "seed")
      let ct ← if mode == "seed" && seedSaved l true then
          match seedinfo.splitOn "@" with
          | [sd, xd] => expandSeed Rng.randUniform (Drv.C16.xofOf (Drv.C16.pXofData xd)) l (ct.toSeeded (Drv.C16.unhex sd))
          | _ => .error .other
        else if seedinfo != "-" then .error .other else pure ct
      pure (genSecretKey l tern, ct)
    -- spec: the secret is ternary and encoded consistently in every component; the implementation's public key is an encryption of
    -- zero under it: pk0 + pk1·s = −tt·e exactly modulo Q, with the drawn error, |e| ≤ 21
    let spec : String :=
      match mkLevel sch n kqs t with
      | .ok l =>
        match impl.splitOn " " with
        | [skS, inttS, icf, ipolys] =>
          let ict : Ct := ⟨pPolys ipolys, inttS == "1", pNat icf⟩
          let Q := Spec.prodL kqs
          let tt : Int := if sch = .bgv then (t : Int) else 1
          let e := signed (drawn.getD 1 #[]) q0
          let ph := exactPhase l kqs sk ict
          let skOk := tern.size == kqs.length && (List.range n).all (fun j => (sk.getD j 0).natAbs ≤ 1) &&
            (List.range kqs.length).all (fun i => (List.range n).all fun j => (tern.getD i #[]).getD j 0 == Spec.imod (sk.getD j 0) (kqs.getD i 1)) &&
            (pPolys skS).getD 0 #[] == rnsNtt l tern
          let eOk := (List.range n).all (fun j => (e.getD j 0).natAbs ≤ 21)
          let metaOk := ict.cf == 1 && ict.ntt && ict.polys.size == 2
          let ok := (List.range n).all fun j => Spec.imod (ph.getD j 0 + tt * e.getD j 0) Q == 0
          relSpec impl (skOk && eOk && metaOk && ok) "key generation: secret not ternary / public key is not an encryption of zero with the drawn error"
        | _ => "ERR:refused"
      | _ => "ERR:refused"
    some (fR (fun (x : RnsPoly × Ct) => s!"{fPolys #[x.1]} {fCt x.2}") model, spec)
  | _, _ => none

end Drv.C01E
