/- C18 driver: multiparty protocols — `mp_finish` (revelation protocol in delivery order), `mp_share` (round functions),
   `mp_decode` (final decoding of the summed phase).  `prog` / `dec` lines of this property are answered by Driver/C02, Driver/Scheme. -/
import Driver.Scheme
import Heathcliff.Model.Multiparty
import Heathcliff.Spec.Poly
namespace Drv.C18
open HC HC.MP Drv Drv.Sch

/-- a level without the BEHZ tool (enough for ring operations); `tables` only when NTTs are needed -/
def mkLevelLite (scheme : Scheme) (n : Nat) (qs : List Nat) (t : Nat) (withTables : Bool) : R Level := do
  let k := Nat.log2 n
  let ms ← Drv.C10.mkMods qs
  let tm ← Modulus.mk? t
  let tb ← if withTables then Drv.C10.mkTablesAll k qs else pure #[]
  pure ⟨scheme, n, k, ms.toArray, tm, tb, default⟩

/-- deliveries `s:poly/s:poly/…` in arrival order -/
def pDeliveries (s : String) : List (Nat × RnsPoly) :=
  if s == "-" || s.isEmpty then [] else
  (s.splitOn "/").map fun d => match d.splitOn ":" with
    | [a, b] => (pNat a, Drv.C10.pPoly b)
    | _ => (0, #[])

/-- exact schoolbook arithmetic in Π Z_q[X]/(X^N+1) on coefficient-form polynomials: the independent oracle for round functions -/
def specOps (l : Level) : Ops RnsPoly :=
  let q (i : Nat) : Nat := (l.q i).value
  let zip (a b : RnsPoly) (f : Nat → Nat → Nat → Nat) : R RnsPoly :=
    .ok (Array.ofFn (n := l.size) fun i => Array.ofFn (n := l.n) fun j =>
      f ((a.getD i.val #[]).getD j.val 0) ((b.getD i.val #[]).getD j.val 0) (q i.val))
  { add := fun a b => zip a b (fun x y m => (x + y) % m)
    sub := fun a b => zip a b (fun x y m => (x + m - y % m) % m)
    mul := fun a b => .ok (Array.ofFn (n := l.size) fun i => Spec.negMul (a.getD i.val #[]) (b.getD i.val #[]) (q i.val))
    neg := fun a => zip a a (fun x _ m => (m - x % m) % m)
    scale := fun t a => zip a a (fun x _ m => (x * t) % m)
    toNtt := id
    fromNtt := id }

def fOut (r : R RnsPoly) : String := fR Drv.C10.fPoly r
def fOut2 (r : R (RnsPoly × RnsPoly)) : String := fR (fun (p : RnsPoly × RnsPoly) => Drv.C10.fPoly p.1 ++ "|" ++ Drv.C10.fPoly p.2) r

/-- order-free reference for `finish`: refuse unless every other party's message arrived, else own + Σ (last message per sender) -/
def finishSpec (qs : List Nat) (n count id : Nat) (own : RnsPoly) (ds : List (Nat × RnsPoly)) : String :=
  if ds.any (fun d => d.1 ≥ count) then "ERR:oob" else
  let last (j : Nat) : Option RnsPoly := (ds.reverse.find? (fun d => d.1 = j)).map (·.2)
  if (List.range count).any (fun j => j ≠ id ∧ (last j).isNone) then "ERR:refused" else
  let present := (List.range count).filterMap last
  let k := qs.length
  Drv.C10.fPoly (Array.ofFn (n := k) fun i => Array.ofFn (n := n) fun c =>
    let q := qs.getD i.val 1
    (present.foldl (fun acc p => acc + (p.getD i.val #[]).getD c.val 0) ((own.getD i.val #[]).getD c.val 0)) % q)

def handle (fn : String) : Handler := fun a _impl =>
  match fn, a with
  | "mp_finish", [qs, count, id, own, dels] =>
    let qs := pList qs; let count := pNat count; let id := pNat id
    let own := Drv.C10.pPoly own; let ds := pDeliveries dels
    let n := (own.getD 0 #[]).size
    match mkLevelLite .bfv n qs 0 false with
    | .error e => some ("ERR:" ++ e.toStr, "ERR:" ++ e.toStr)
    | .ok l => some (fOut (revealRun (rnsOps l) count id own ds), finishSpec qs n count id own ds)
  | "mp_share", kind :: scheme :: n :: qs :: t :: rest =>
    let sch := pScheme scheme; let n := pNat n; let qs := pList qs; let t := pNat t
    match mkLevelLite sch n qs t true with
    | .error e => some ("ERR:" ++ e.toStr, "ERR:" ++ e.toStr)
    | .ok l =>
      let o := rnsOps l; let so := specOps l
      let P := Drv.C10.pPoly
      let cI (p : RnsPoly) := rnsIntt l p          -- NTT form -> coefficients (C09)
      let cN (ntt : Bool) (p : RnsPoly) := if ntt then rnsIntt l p else p
      let back (ntt : Bool) (r : R RnsPoly) : R RnsPoly := r.map (fun p => if ntt then rnsNtt l p else p)
      let back2 (ntt : Bool) (r : R (RnsPoly × RnsPoly)) := r.map (fun p => if ntt then (rnsNtt l p.1, rnsNtt l p.2) else p)
      match kind, rest with
      | "pk", [_ntt, s, a, e] =>
        some (fOut (pkShare o sch t (P s) (P a) (P e)), fOut (back true (pkShare so sch t (cI (P s)) (cI (P a)) (P e))))
      | "rlk1", [j, s, a, u, e0, e1] =>
        let w := rlkW l (pNat j)
        -- the constant polynomial P mod q_j (component j only) in coefficient form
        let wc : RnsPoly := Array.ofFn (n := l.size) fun i =>
          (Array.replicate l.n 0).set! 0 (if i.val = pNat j then (l.q (l.size - 1)).value % (l.q (pNat j)).value else 0)
        some (fOut2 (rlkRound1 o sch t (P s) (P a) (P u) (P e0) (P e1) w),
              fOut2 (back2 true (rlkRound1 so sch t (cI (P s)) (cI (P a)) (P u) (P e0) (P e1) wc)))
      | "rlk2", [_j, s, u, h0, h1, e2, e3] =>
        some (fOut2 (rlkRound2 o sch t (P s) (P u) (P h0) (P h1) (P e2) (P e3)),
              fOut2 (back2 true (rlkRound2 so sch t (cI (P s)) (P u) (cI (P h0)) (cI (P h1)) (P e2) (P e3))))
      | "ks", [ntt, s, s', c1, e] =>
        let ntt := ntt == "1"
        some (fOut (ksShare o sch t ntt (P s) (P s') (P c1) (P e)),
              fOut (back ntt (ksShare so sch t true (cI (P s)) (cI (P s')) (cN ntt (P c1)) (P e))))
      | "dec", [ntt, s, c1, e] =>
        let ntt := ntt == "1"
        some (fOut (decShare o sch t ntt (P s) (P c1) (P e)),
              fOut (back ntt (decShare so sch t true (cI (P s)) (cN ntt (P c1)) (P e))))
      | "pks", [ntt, s, c1, p0, p1, u, e0, e1] =>
        let ntt := ntt == "1"
        some (fOut2 (pksShare o sch t ntt (P s) (P c1) (P p0) (P p1) (P u) (P e0) (P e1)),
              fOut2 (back2 ntt (pksShare so sch t true (cI (P s)) (cN ntt (P c1)) (cI (P p0)) (cI (P p1)) (P u) (P e0) (P e1))))
      | "c2s", [ntt, id, s, c1, e, np] =>
        let ntt := ntt == "1"
        some (fOut (c2sShare o sch t ntt (pNat id) (P s) (P c1) (P e) (P np)),
              fOut (back ntt (c2sShare so sch t true (pNat id) (cI (P s)) (cN ntt (P c1)) (P e) (cN ntt (P np)))))
      | "s2c", [ntt, id, s, a, e, pl] =>
        let ntt := ntt == "1"
        some (fOut (s2cShare o sch t ntt (pNat id) (P s) (P a) (P e) (P pl)),
              fOut (back ntt (s2cShare so sch t true (pNat id) (cI (P s)) (cN ntt (P a)) (P e) (cN ntt (P pl)))))
      | _, _ => none
  | "mp_decode", [scheme, n, qs, t, ntt, cf, phase] =>
    let sch := pScheme scheme; let n := pNat n; let qs := pList qs; let t := pNat t
    let ntt := ntt == "1"; let cf := pNat cf; let ph := Drv.C10.pPoly phase
    match mkLevel sch n qs t with
    | .error e => some ("ERR:" ++ e.toStr, "ERR:" ++ e.toStr)
    | .ok l =>
      let model := match decryptPolynomial l ntt cf ph with
        | .ok (.coeffs p) => fList p.toList
        | .ok (.rns p) => Drv.C10.fPoly p
        | .error e => "ERR:" ++ e.toStr
      let Q := Spec.prodL qs
      let coef := if ntt then rnsIntt l ph else ph
      let z : Spec.ZPoly := (Spec.crtPoly qs coef n).map (fun x => Spec.centred x.toNat Q)
      let spec := match sch with
        | .bfv => if bfvSafe t Q z then fList (Spec.trim (Spec.bfvDecode t Q z)).toList else "ANY"
        | .bgv => if z.all (fun x => (Q - 2 * x.natAbs) * 2^40 > Q) then fList (Spec.trim (Spec.bgvDecode t cf z)).toList else "ANY"
        | .ckks => Drv.C10.fPoly ph
      some (model, spec)
  | _, _ => none

end Drv.C18
