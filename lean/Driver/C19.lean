/- C19 driver: LWE extraction / assembly (bit exact), division by N (bit exact), field trace and PackLWEs
   (phase-level polynomial programs over exact integers against the dumped result ciphertexts). -/
import Driver.Scheme
import Driver.C09
import Heathcliff.Model.Lwe
namespace Drv.C19
open HC Drv Drv.Sch

/-- `c0/c1/cf` -/
def fLwe (w : Lwe) : String := s!"{fList w.c0.toList}/{Drv.C10.fPoly w.c1}/{w.cf}"
def pLwe (s : String) : Lwe :=
  match s.splitOn "/" with
  | [c0, c1, cf] => ⟨Drv.C10.pPoly c1, (pList c0).toArray, pNat cf⟩
  | _ => default
/-- `ntt/cf/polys` -/
def fCt (c : Ct) : String := s!"{fBool c.ntt}/{c.cf}/{fPolys c.polys}"
def pCt (s : String) : Ct :=
  match s.splitOn "/" with
  | [ntt, cf, polys] => ⟨pPolys polys, ntt == "1", pNat cf⟩
  | _ => default

/-- centred representative of an integer modulo Q -/
def cmod (x : Int) (Q : Nat) : Int := Spec.centred (Spec.imod x Q) Q
def cmodPoly (a : Array Int) (Q : Nat) : Array Int := a.map (cmod · Q)

/-- decoding of an exact phase to a plaintext (coefficient list, length N) -/
def decode (scheme : Scheme) (t Q cf : Nat) (ph : Array Int) : Array Nat :=
  match scheme with
  | .bfv => Spec.bfvDecode t Q ph
  | _ => Spec.bgvDecode t cf ph

/-- the result ciphertext is in the representation the scheme's evaluator works in -/
def nativeForm (scheme : Scheme) (c : Ct) : Bool := (scheme = .bfv) = !c.ntt

/-- key-switch noise of one `apply_galois` (oracle parameter, same estimate as C04's `galois_ckks`):
    k digits below q_max times an error of at most 21 per coefficient, N terms each, divided by the special prime P, plus rounding -/
def ksNoise (n : Nat) (qs : List Nat) (P : Nat) : Nat :=
  let qmax := qs.foldl max 0
  21 * n * qs.length * ((qmax + P - 1) / P) + n + 2

def within (a b : Array Int) (Q B : Nat) : Bool :=
  (List.range (max a.size b.size)).all fun j => (cmod (a.getD j 0 - b.getD j 0) Q).natAbs ≤ B

/-- closed form of the field trace on a coefficient vector: multiples of N/2^l are multiplied by N/2^l, the rest vanish -/
def traceClosed (n l : Nat) (a : Array Int) : Array Int :=
  let st := n / 2^l
  Array.ofFn (n := n) fun j => if j.val % st = 0 then (st : Int) * a.getD j.val 0 else 0

/-- closed form of PackLWEs: value r at index r·N/2^l, zero elsewhere -/
def packClosed (n l : Nat) (vals : Array Int) : Array Int :=
  let st := n / 2^l
  Array.ofFn (n := n) fun j => if j.val % st = 0 ∧ j.val / st < vals.size then vals.getD (j.val / st) 0 else 0

/-- verdict of a phase-level check on a dumped result.
    BFV/BGV: the plaintext the given phase decodes to; CKKS: "ok" when the result's exact phase is within the noise bound -/
def verdict (scheme : Scheme) (t Q cf B : Nat) (resPhase want : Array Int) : String :=
  match scheme with
  | .ckks => if within resPhase want Q B then "ok" else "phase-differs"
  | _ => fList (Spec.trim (decode scheme t Q cf (cmodPoly want Q))).toList

def handle (fn : String) : Handler := fun a impl =>
  match fn, a with
  | "lwe_shift", [q, s, v] =>
    -- code / value-level model: negacyclic_shift; spec: the phase-level `shiftPoly` on integers, reduced
    let q := pNat q; let s := pNat s; let v := Drv.C09.pArr v; let n := v.size
    let sp := (shiftPoly n (v.map fun (x : Nat) => (x : Int)) s).map fun x => Spec.imod x q
    some (fR Drv.C09.fArr (do let m ← Modulus.mk? q; pure (negacyclicShift v s m)),
          if s < 2 * n then Drv.C09.fArr sp else "ANY")
  | "lwe_sigma", [k, q, g, v] =>
    -- code / value-level model: GaloisTool::apply (`galoisApply`); spec: the phase-level `sigmaPoly` on integers, reduced
    let k := pNat k; let q := pNat q; let g := pNat g; let v := Drv.C09.pArr v; let n := 2^k
    let sp := (sigmaPoly n (v.map fun (x : Nat) => (x : Int)) g).map fun x => Spec.imod x q
    some (fR Drv.C09.fArr (do let m ← Modulus.mk? q; galoisApply k v g m), Drv.C09.fArr sp)
  | "lwe_extract", [sc, n, qs, t, sk, ntt, cf, polys, term] =>
    -- impl: `c0/c1/cf/ntt/cf/polys` (the LWE ciphertext and its re-assembly)
    let p := parseCt sc n qs t sk ntt cf polys; let term := pNat term
    match mkLevel p.scheme p.n p.qs p.t with
    | .error e => some ("ERR:" ++ e.toStr, "ERR:" ++ e.toStr)
    | .ok l =>
      let model := fR (fun (w : Lwe) => fLwe w ++ "/" ++ fCt (assembleLwe l w)) (extractLwe l p.ct term)
      let spec :=
        if term ≥ p.n ∨ p.ct.polys.size ≠ 2 then "ERR:refused" else
        match impl.splitOn "/" with
        | [_, _, _, antt, acf, apolys] =>
          let asm : Ct := ⟨pPolys apolys, antt == "1", pNat acf⟩
          let Q := Spec.prodL p.qs
          let src := exactPhase l p.qs p.sk p.ct
          let got := exactPhase l p.qs p.sk asm
          relSpec impl (asm.polys.size = 2 ∧ !asm.ntt ∧ asm.cf = p.ct.cf ∧
                        cmod (got.getD 0 0 - src.getD term 0) Q = 0)
            "constant coefficient of the assembled phase = coefficient `term` of the source phase (mod Q)"
        | _ => "RELFAIL(unparsable)"
      some (model, spec)
  | "lwe_divn", [sc, n, qs, t, ntt, cf, polys, mul] =>
    let p := parseCt sc n qs t "-" ntt cf polys
    let mul := if mul == "-" then none else some (pNat mul)
    match mkLevel p.scheme p.n p.qs p.t with
    | .error e => some ("ERR:" ++ e.toStr, "ERR:" ++ e.toStr)
    | .ok l =>
      let model := fR (fun (c : Ct) => fPolys c.polys) (divideByDegree l p.ct mul)
      let spec : Array RnsPoly := p.ct.polys.map fun poly =>
        Array.ofFn (n := p.qs.length) fun i =>
          let q := p.qs.getD i.val 1
          let f := (Spec.invMod (p.n % q) q * ((mul.getD 1) % q)) % q
          (poly.getD i.val #[]).map fun x => (x * f) % q
      some (model, fPolys spec)
  | "lwe_trace", [sc, n, qs, t, sk, pSpecial, pred, logn, src, res] =>
    -- impl: BFV/BGV the library's decryption of the result, CKKS "ok"
    let s := pCt src; let r := pCt res
    let p := parseCt sc n qs t sk "0" "1" "-"
    let logn := pNat logn
    match mkLevel p.scheme p.n p.qs p.t with
    | .error e => some ("ERR:" ++ e.toStr, "ERR:" ++ e.toStr)
    | .ok l =>
      -- the loop body runs only for logn < log2 N; it refuses operands that are not in the scheme's working representation
      if logn < l.k ∧ !nativeForm p.scheme s then some ("ERR:refused", "ERR:refused") else
      let Q := Spec.prodL p.qs
      let phs := exactPhase l p.qs p.sk s
      let phr := exactPhase l p.qs p.sk r
      let B := ksNoise p.n p.qs (pNat pSpecial) * p.n
      let prog := fieldTracePoly l.k logn phs
      -- BFV/BGV: no claim (model or spec) when the predicted budget leaves no room for exact decoding
      let model := if p.scheme ≠ .ckks ∧ pInt pred < 4 then "ANY" else verdict p.scheme p.t Q r.cf B phr prog
      let spec :=
        if p.scheme = .ckks then relSpec impl (within phr (traceClosed p.n (min logn l.k) phs) Q B) "phase(result) = closed form of the trace on phase(source) + key-switch noise"
        else if pInt pred < 4 then "ANY" else
          let m := decode p.scheme p.t Q s.cf (cmodPoly phs Q)
          let want := (traceClosed p.n (min logn l.k) (m.map fun (x : Nat) => (x : Int))).map fun x => Spec.imod x p.t
          let got := decode p.scheme p.t Q r.cf phr
          if got == want then fList (Spec.trim want).toList
          else s!"RELFAIL(exact decryption {fList (Spec.trim got).toList} is not the closed form {fList (Spec.trim want).toList})"
      some (model, spec)
  | "lwe_pack", [sc, n, qs, t, sk, pSpecial, pred, lwes, res] =>
    let r := pCt res
    let p := parseCt sc n qs t sk "0" "1" "-"
    let ws := if lwes == "-" then #[] else ((lwes.splitOn "|").map pLwe).toArray
    match mkLevel p.scheme p.n p.qs p.t with
    | .error e => some ("ERR:" ++ e.toStr, "ERR:" ++ e.toStr)
    | .ok l =>
      let Q := Spec.prodL p.qs
      let count := ws.size
      if !packAccepts count p.n then some ("ERR:refused", if count = 0 ∨ count > p.n then "ERR:refused" else "RELFAIL(refused a valid count)") else
      -- exact phases of the assembled inputs (value-level model of assemble_lwe, exact-integer phase)
      let ins : Array (Array Int) := ws.map fun w => exactPhase l p.qs p.sk (assembleLwe l w)
      let ninv : Int := Spec.invMod (p.n % Q) Q
      let lg := packLog count
      let phr := exactPhase l p.qs p.sk r
      let B := ksNoise p.n p.qs (pNat pSpecial) * p.n * (2^lg + 1)
      let prog := packPoly l.k ninv ins
      let cf0 := (ws.getD 0 default).cf
      let model := if !nativeForm p.scheme r then "wrong-representation"
                   else if p.scheme ≠ .ckks ∧ pInt pred < 4 then "ANY" else verdict p.scheme p.t Q r.cf B phr prog
      let vals : Array Int := ins.map fun a => a.getD 0 0
      let spec :=
        if p.scheme = .ckks then relSpec impl (nativeForm p.scheme r ∧ within phr (packClosed p.n lg vals) Q B) "phase(result) = values at stride N/2^l, zero elsewhere, + key-switch noise"
        else if pInt pred < 4 then "ANY" else
          let mvals : Array Int := ins.map fun a => ((decode p.scheme p.t Q cf0 (cmodPoly a Q)).getD 0 0 : Nat)
          let want := (packClosed p.n lg mvals).map fun x => Spec.imod x p.t
          let got := decode p.scheme p.t Q r.cf phr
          if got == want then fList (Spec.trim want).toList
          else s!"RELFAIL(exact decryption {fList (Spec.trim got).toList} is not the packed layout {fList (Spec.trim want).toList})"
      some (model, spec)
  | _, _ => none

end Drv.C19
