import Driver.Scheme
import Heathcliff.Model.Evaluator
namespace Drv.C06
open HC Drv Drv.Sch

def handle (fn : String) : Handler := fun a _impl =>
  match fn, a with
  | "valid", [scheme, n, qs, t, sk, ntt, cf, polys, scaleBits, kind] =>
    -- kind = "r": result of a public operation on valid inputs (must be valid); "c": deliberately corrupted object (no claim)
    let p := parseCt scheme n qs t sk ntt cf polys
    let sb := pNat scaleBits
    let one := sb = 4607182418800017408          -- bit pattern of 1.0f64
    let zero := sb = 0 ∨ sb = 9223372036854775808
    match mkLevel p.scheme p.n p.qs p.t with
    | .error e => some ("ERR:" ++ e.toStr, "ERR:" ++ e.toStr)
    | .ok l => some (fBool (ctValid l p.ct one zero), if kind == "r" then "1" else "ANY")
  | _, _ => none

end Drv.C06
