import Heathcliff.Model.Evaluator
import Heathcliff.Proofs.C07L
namespace HC.C05
/-- the level walk of `mod_switch_to` / `rescale_to` refuses upward targets -/
theorem switch_up_refused {cur tgt : Nat} (h : cur < tgt) : switchSteps cur tgt = .error .refused := by
  unfold switchSteps; simp [h]

/-- the level walk visits exactly the levels cur-1, …, tgt (so it ends on the requested level) and has cur - tgt steps:
    termination is by construction (structural recursion over `List.range`) -/
theorem switch_steps {cur tgt : Nat} (h : tgt ≤ cur) :
    ∃ l, switchSteps cur tgt = .ok l ∧ l.length = cur - tgt ∧ (cur ≠ tgt → l.getLast? = some tgt) := by
  refine ⟨(List.range (cur - tgt)).map (fun i => cur - 1 - i), ?_, by simp, ?_⟩
  · unfold switchSteps; rw [if_neg (by omega)]; rfl
  · intro hne
    have hpos : 0 < cur - tgt := by omega
    obtain ⟨k, hk⟩ : ∃ k, cur - tgt = k + 1 := ⟨cur - tgt - 1, by omega⟩
    rw [hk, List.range_succ, List.map_append, List.map_singleton, List.getLast?_append, List.getLast?_singleton]
    simp; omega


/-- BFV: dividing the phase by q_L with rounding keeps round(t·x/Q): if t·x = Q·m + ν with Q = Q'·q_L and
    x' = (x + δ)/q_L·… precisely x' = x/q_L + ε with 2|ε|·… we state it on integers: x = q_L·x' + ρ, |ρ| ≤ q_L·E
    (E bounds the accumulated rounding of the ciphertext polynomials), then t·x' = Q'·m + ν' with |ν'| ≤ |ν|/q_L + t·E + 1 -/
theorem bfv_switch_noise {t Q' qL : Nat} (hq : 0 < qL) {x x' m ν ρ : Int} {E : Nat}
    (h : t * x = (Q' * qL : Nat) * m + ν) (hx : x = qL * x' + ρ) (hρ : ρ.natAbs ≤ qL * E) :
    ∃ ν' : Int, t * x' = Q' * m + ν' ∧ ν'.natAbs * qL ≤ ν.natAbs + t * qL * E := HC.bfv_switch_noise hq h hx hρ

/-- hence the decrypted message is unchanged as long as the new noise is below the new threshold -/
theorem bfv_switch_message {t Q' qL : Nat} (hq : 0 < qL) (hQ' : 0 < Q') {x x' m ν ρ : Int} {E : Nat}
    (h : t * x = (Q' * qL : Nat) * m + ν) (hx : x = qL * x' + ρ) (hρ : ρ.natAbs ≤ qL * E)
    (hsmall : 2 * (ν.natAbs + t * qL * E) < Q' * qL) :
    Spec.roundDiv (t * x') Q' = m := HC.bfv_switch_message hq hQ' h hx hρ hsmall

/-- BGV: x' = (x + δ)/q_L with δ ≡ −x (mod q_L), δ ≡ 0 (mod t) gives x' ≡ q_L^{-1}·x (mod t); with the new correction
    factor f' = f·q_L^{-1} the decoded message f'^{-1}·x' ≡ f^{-1}·x is unchanged -/
theorem bgv_switch_message {t qL : Nat} {x x' δ f f' m iq : Int}
    (hδt : δ ≡ 0 [ZMOD t]) (hdiv : x + δ = qL * x') (hiq : iq * qL ≡ 1 [ZMOD t])
    (hf' : f' ≡ f * iq [ZMOD t]) (hm : x ≡ f * m [ZMOD t]) :
    x' ≡ f' * m [ZMOD t] := HC.bgv_switch_message hδt hdiv hiq hf' hm

/-- CKKS drop: the residues are a prefix, so the phase is the same integer polynomial modulo the smaller product -/
theorem ckks_drop_phase {Q' qL : Nat} (x : Int) : (x % ((Q' * qL : Nat) : Int)) % (Q' : Int) = x % (Q' : Int) := HC.ckks_drop_phase x

/-- CKKS rescale: |x' − x/q_L| ≤ E when x = q_L·x' + ρ, |ρ| ≤ q_L·E (exact integers) -/
theorem ckks_rescale_error {qL : Nat} (hq : 0 < qL) {x x' ρ : Int} {E : Nat} (hx : x = qL * x' + ρ) (hρ : ρ.natAbs ≤ qL * E) :
    (x' * qL - x).natAbs ≤ qL * E := HC.ckks_rescale_error hq hx hρ


end HC.C05
