import Heathcliff.Proofs.C05U
import Heathcliff.Model.Evaluator
import Heathcliff.Proofs.C07L
import Heathcliff.Proofs.GenEval
import Heathcliff.Proofs.GenRns2
import Heathcliff.Proofs.GenRns3
import Heathcliff.Proofs.GenEval2
import Heathcliff.Proofs.GenEval3
namespace HC.C05
/-- the level walk of `mod_switch_to` / `rescale_to` refuses upward targets -/
theorem switch_up_refused {cur tgt : Nat} (h : cur < tgt) : switchSteps cur tgt = .error .refused := by
  unfold switchSteps; simp [h]

/-- the level walk visits exactly the levels cur-1, …, tgt (so it ends on the requested level) and has cur - tgt steps:
    termination is by construction (structural recursion over `List.range`) -/
theorem switch_steps {cur tgt : Nat} (h : tgt ≤ cur) :
    ∃ l, switchSteps cur tgt = .ok l ∧ l.length = cur - tgt ∧ (cur ≠ tgt → l.getLast? = some tgt) := by
  refine ⟨(List.range (cur - tgt)).map (fun i => cur - 1 - i), ?_, by simp, ?_⟩
  · unfold switchSteps; rw [if_neg (by omega)]; rfl
  · intro hne
    have hpos : 0 < cur - tgt := by omega
    obtain ⟨k, hk⟩ : ∃ k, cur - tgt = k + 1 := ⟨cur - tgt - 1, by omega⟩
    rw [hk, List.range_succ, List.map_append, List.map_singleton, List.getLast?_append, List.getLast?_singleton]
    simp; omega


/-- BFV: dividing the phase by q_L with rounding keeps round(t·x/Q): if t·x = Q·m + ν with Q = Q'·q_L and
    x' = (x + δ)/q_L·… precisely x' = x/q_L + ε with 2|ε|·… we state it on integers: x = q_L·x' + ρ, |ρ| ≤ q_L·E
    (E bounds the accumulated rounding of the ciphertext polynomials), then t·x' = Q'·m + ν' with |ν'| ≤ |ν|/q_L + t·E + 1 -/
theorem bfv_switch_noise {t Q' qL : Nat} (hq : 0 < qL) {x x' m ν ρ : Int} {E : Nat}
    (h : t * x = (Q' * qL : Nat) * m + ν) (hx : x = qL * x' + ρ) (hρ : ρ.natAbs ≤ qL * E) :
    ∃ ν' : Int, t * x' = Q' * m + ν' ∧ ν'.natAbs * qL ≤ ν.natAbs + t * qL * E := HC.bfv_switch_noise hq h hx hρ

/-- hence the decrypted message is unchanged as long as the new noise is below the new threshold -/
theorem bfv_switch_message {t Q' qL : Nat} (hq : 0 < qL) (hQ' : 0 < Q') {x x' m ν ρ : Int} {E : Nat}
    (h : t * x = (Q' * qL : Nat) * m + ν) (hx : x = qL * x' + ρ) (hρ : ρ.natAbs ≤ qL * E)
    (hsmall : 2 * (ν.natAbs + t * qL * E) < Q' * qL) :
    Spec.roundDiv (t * x') Q' = m := HC.bfv_switch_message hq hQ' h hx hρ hsmall

/-- BGV: x' = (x + δ)/q_L with δ ≡ −x (mod q_L), δ ≡ 0 (mod t) gives x' ≡ q_L^{-1}·x (mod t); with the new correction
    factor f' = f·q_L^{-1} the decoded message f'^{-1}·x' ≡ f^{-1}·x is unchanged -/
theorem bgv_switch_message {t qL : Nat} {x x' δ f f' m iq : Int}
    (hδt : δ ≡ 0 [ZMOD t]) (hdiv : x + δ = qL * x') (hiq : iq * qL ≡ 1 [ZMOD t])
    (hf' : f' ≡ f * iq [ZMOD t]) (hm : x ≡ f * m [ZMOD t]) :
    x' ≡ f' * m [ZMOD t] := HC.bgv_switch_message hδt hdiv hiq hf' hm

/-- CKKS drop: the residues are a prefix, so the phase is the same integer polynomial modulo the smaller product -/
theorem ckks_drop_phase {Q' qL : Nat} (x : Int) : (x % ((Q' * qL : Nat) : Int)) % (Q' : Int) = x % (Q' : Int) := HC.ckks_drop_phase x

/-- CKKS rescale: |x' − x/q_L| ≤ E when x = q_L·x' + ρ, |ρ| ≤ q_L·E (exact integers) -/
theorem ckks_rescale_error {qL : Nat} (hq : 0 < qL) {x x' ρ : Int} {E : Nat} (hx : x = qL * x' + ρ) (hρ : ρ.natAbs ≤ qL * E) :
    (x' * qL - x).natAbs ≤ qL * E := HC.ckks_rescale_error hq hx hρ



/-! ### modulus switching / rescaling of the model at ciphertext level (rounding division per coefficient, BGV correction, drop), phase consequences, level walk
    (statements, hypothesis bundles and non-vacuity instances: Heathcliff/Proofs/C05U.lean, section "Property theorems") -/

/-- U1 (BFV `mod_switch_to_next`): for a canonical coefficient-form ciphertext at a level with ≥ 2 moduli the model returns a
    ciphertext with the same number of polynomials, coefficient form, same correction factor, `l.size - 1` components of `l.n`
    coefficients, and coefficient j of component i of polynomial k equals ⌊(X + q_L/2)/q_L⌋ mod q_i for the CRT value X of the
    source coefficient (`c05u_RoundDivOf`); a CRT value exists and is unique (`c05u_crt_exists`, `c05u_crt_unique`) -/
theorem modSwitchScaleNext_bfv_spec : type_of% @HC.modSwitchScaleNext_bfv_spec := @HC.modSwitchScaleNext_bfv_spec

/-- U1 (CKKS `rescale_to_next`): NTT-form input and output; the output is canonical and its coefficient form (INTT) is the rounding
    division of the CRT value of the input's coefficient form (`c05u_RoundDivOfNtt`) -/
theorem modSwitchScaleNext_ckks_spec : type_of% @HC.modSwitchScaleNext_ckks_spec := @HC.modSwitchScaleNext_ckks_spec

/-- U2 (BGV `mod_switch_to_next`): NTT-form input and output, new correction factor cf·q_L^{-1} mod t, the output is canonical and
    its coefficient form is Y mod q_i, Y = (X − [X]_{q_L})/q_L − [−X·q_L^{-1}]_t (`c05u_BgvDivOfNtt`, `c05u_bgvY`) -/
theorem modSwitchScaleNext_bgv_spec : type_of% @HC.modSwitchScaleNext_bgv_spec := @HC.modSwitchScaleNext_bgv_spec

/-- the results of the three divisions are canonical ciphertexts of the next level -/
theorem modSwitchScaleNext_next_canon : type_of% @HC.modSwitchScaleNext_next_canon := @HC.modSwitchScaleNext_next_canon

/-- U1, phase level (size 2, integer polynomials, any secret s): q_L·phase(ct') = phase(ct) + ρ, 2‖ρ‖∞ ≤ q_L·(1 + ‖s‖₁) -/
theorem modSwitchScaleNext_round_phase : type_of% @HC.modSwitchScaleNext_round_phase := @HC.modSwitchScaleNext_round_phase

/-- U2, phase level (size 2): q_L·phase(ct') = phase(ct) + δ with t ∣ δ, ‖δ‖∞ ≤ q_L·t·(1 + ‖s‖₁) -/
theorem modSwitchScaleNext_bgv_phase : type_of% @HC.modSwitchScaleNext_bgv_phase := @HC.modSwitchScaleNext_bgv_phase

/-- U2, message preservation: phase ≡ cf·m (mod t) before ⇒ phase' ≡ cf'·m (mod t) after, cf' the model's new correction factor -/
theorem modSwitchScaleNext_bgv_message : type_of% @HC.modSwitchScaleNext_bgv_message := @HC.modSwitchScaleNext_bgv_message

/-- REFUSALS of `modSwitchScaleNext`: last level; BFV in NTT form; CKKS / BGV in coefficient form -/
theorem modSwitchScaleNext_refusals : type_of% @HC.modSwitchScaleNext_refusals := @HC.modSwitchScaleNext_refusals

/-- U3 (`mod_switch_drop_to_next`): succeeds (for CKKS: on NTT form), same number of polynomials, representation and correction
    factor, one component fewer, every remaining residue unchanged, canonical at the next level -/
theorem modSwitchDropNext_spec : type_of% @HC.modSwitchDropNext_spec := @HC.modSwitchDropNext_spec

/-- U3, value: the CRT value of every coefficient after the drop is the old one modulo Q' = Q/q_L, so the phase is unchanged mod Q' -/
theorem modSwitchDropNext_crt : type_of% @HC.modSwitchDropNext_crt := @HC.modSwitchDropNext_crt

/-- REFUSALS of `modSwitchDropNext`: last level; CKKS in coefficient form -/
theorem modSwitchDropNext_refusals : type_of% @HC.modSwitchDropNext_refusals := @HC.modSwitchDropNext_refusals

/-- U4: the level walk along `switchSteps` refuses upward targets, is the identity on the current level, and otherwise is one
    step at the current level followed by the walk from the level below (iterating "next") -/
theorem switchTo_walk : type_of% @HC.switchTo_walk := @HC.switchTo_walk

/-- U4: on a well-formed chain every downward walk succeeds and ends exactly on the target level (canonical there), for the plain
    drop and for the three scheme-specific switches -/
theorem switchTo_ends_on_target : type_of% @HC.switchTo_ends_on_target := @HC.switchTo_ends_on_target

/-! ### translator tie (phase 3): the decision skeleton of `Evaluator::mod_switch_to_inplace` (src/evaluator.rs) generated into
     Gen/EvalFns.lean equals `switchSteps` (Proofs/GenEval.lean).  The ciphertext / context objects are opaque to the translator; the
     table of `tools/rs2lean.py` spells out the TRUSTED reading of the accessors (levels are identified by their chain index; one
     `mod_switch_to_next_inplace` moves the ciphertext exactly one chain index down or panics).  Tied by the proof: the guard and its
     direction (`cur < tgt` refused), the loop condition, one step per iteration, the visited indices and the final level.
     `cur < 2^64`: a chain index is a `usize` (the fuel of the generated loop). -/
theorem gen_mod_switch_to_inplace_eq (cur tgt : Nat) (hc : cur < 2^64) :
    HC.GenE.mod_switch_to_inplace cur tgt = HC.switchSteps cur tgt := HC.gy_mod_switch_to_inplace_eq cur tgt hc

/-- translator tie, phase 4c: the routine behind BFV `mod_switch_to_next` (division by the dropped prime with rounding), generated from
    src/util/rns.rs, equals the hand model on flat buffers -/
theorem gen_divide_and_round_q_last_inplace_eq : type_of% @HC.gr_divide_and_round_q_last_inplace_eq := @HC.gr_divide_and_round_q_last_inplace_eq
/-- … and the routine behind BGV `mod_switch_to_next` (NTT form; the (i)NTT calls are abstract inputs instantiated with the model's transforms) -/
theorem gen_mod_t_and_divide_q_last_ntt_inplace_eq : type_of% @HC.gr_mod_t_and_divide_q_last_ntt_inplace_eq :=
  @HC.gr_mod_t_and_divide_q_last_ntt_inplace_eq

/-- the routine behind CKKS `rescale_to_next` / NTT-form division with rounding, generated from the source, equals the hand model -/
theorem gen_divide_and_round_q_last_ntt_inplace_eq : type_of% @HC.gr_divide_and_round_q_last_ntt_inplace_eq := @HC.gr_divide_and_round_q_last_ntt_inplace_eq
/-- END TO END (BGV `mod_switch_to_next`): on a well-formed BGV level the function generated from the Rust source returns the flat buffer of a polynomial
    whose first size−1 components are the BGV division by the dropped prime of the input (`c05u_BgvDivOfNtt`), and y·q_L ≡ X (mod t) -/
theorem gen_mod_t_and_divide_q_last_ntt_inplace_bgv : type_of% @HC.gr_mod_t_and_divide_q_last_ntt_inplace_bgv := @HC.gr_mod_t_and_divide_q_last_ntt_inplace_bgv

/-! ### translator tie (phase 4g): decision skeletons of `Evaluator::mod_switch_to_next`, `rescale_to_next`, `rescale_to` and of the refusals of
     `mod_switch_drop_to_next_internal` (src/evaluator.rs; Gen/EvalFns.lean) = the decision functions of Model/Evaluator.lean
     (Proofs/GenEval2.lean).  TRUSTED table reading: levels are chain indices, the last level has index 0, one internal routine moves one
     index down.  Tied by the proofs: validity check first, last level refused, the scheme dispatch (BFV / BGV: dividing routine, CKKS: drop;
     rescale: CKKS only - ALSO when the target is the current level), direction guard, loop condition, one step per iteration, and that the
     scale of a dropped CKKS ciphertext is checked against the level it ARRIVES at. -/
theorem gen_mod_switch_to_next_eq : type_of% @HC.gl_mod_switch_to_next_eq := @HC.gl_mod_switch_to_next_eq
theorem gen_rescale_to_next_eq : type_of% @HC.gl_rescale_to_next_eq := @HC.gl_rescale_to_next_eq
theorem gen_rescale_to_eq : type_of% @HC.gl_rescale_to_eq := @HC.gl_rescale_to_eq
theorem gen_mod_switch_drop_decision_eq : type_of% @HC.gl_mod_switch_drop_decision_eq := @HC.gl_mod_switch_drop_decision_eq
theorem gen_mod_switch_drop_decision_bits : type_of% @HC.gl_mod_switch_drop_decision_bits := @HC.gl_mod_switch_drop_decision_bits
theorem gen_modSwitchDropDecision_model : type_of% @HC.gl_modSwitchDropDecision_model := @HC.gl_modSwitchDropDecision_model
theorem gen_mod_switch_drop_refuses_unfit : type_of% @HC.gl_mod_switch_drop_refuses_unfit := @HC.gl_mod_switch_drop_refuses_unfit
/-- non-vacuity: a CKKS ciphertext on level 2 walks 2 -> 1 -> 0; a BFV "rescale" to the level it is on is refused -/
example : HC.GenE.rescale_to true 2 0 .ckks = .ok [1, 0] := by rw [HC.gl_rescale_to_eq _ _ _ _ (by norm_num)]; rfl
example : HC.GenE.rescale_to true 2 2 .bfv = .error .refused := by rw [HC.gl_rescale_to_eq _ _ _ _ (by norm_num)]; rfl

/-! ### NTT-form plaintexts down the chain (translator phase 4l; `Proofs/GenEval3.lean`) -/

/-- TRANSLATOR TIE: `Evaluator::mod_switch_drop_to_next_plain_internal` (regenerated from src/evaluator.rs on every run) = `plainDropNextWords`:
    a coefficient-form plaintext, the last level and a scale that does not fit the NEXT level are refused, otherwise the buffer has
    degree × (prime count of the next level) words -/
theorem gen_plain_drop_next_eq : type_of% @HC.gq_plain_drop_next_eq := @HC.gq_plain_drop_next_eq
/-- TRANSLATOR TIE: `Evaluator::mod_switch_plain_to_inplace` = `plainSwitchToPlan` (coefficient form and upward targets refused, same
    level = identity, otherwise the walk cur − 1, …, tgt of valid objects) -/
theorem gen_mod_switch_plain_to_eq : type_of% @HC.gq_mod_switch_plain_to_eq := @HC.gq_mod_switch_plain_to_eq
/-- on EVERY chain whose prime counts do not grow downwards (short BFV / BGV chains included: no relation between the chain index and the
    prime count is assumed) a walk of j levels truncates the buffer to the j-th lower level's components -/
theorem plain_walk_data : type_of% @HC.gq_plain_walk_data := @HC.gq_plain_walk_data
/-- END TO END: whenever the plan succeeds, the walk ends exactly on the target after cur − tgt steps and the data is the source truncated
    to the target level's RNS components (= the same polynomial modulo the remaining primes) -/
theorem plain_switch_to_data : type_of% @HC.gq_plain_switch_to_data := @HC.gq_plain_switch_to_data
/-- non-vacuity: a SHORT chain (levels 2, 1, 0 hold 4, 3, 2 primes: chain index ≠ prime count − 1), N = 2; the generated walk from level 2 to
    level 0 visits 1, 0 and leaves the first 2·2 words; an upward request, a coefficient-form plaintext and the last level are refused -/
example : HC.GenE.mod_switch_plain_to_inplace true true 2 0 = .ok [1, 0] := by rw [HC.gq_mod_switch_plain_to_eq _ _ _ _ (by norm_num)]; rfl
example : HC.plainWalkData (fun i => i + 2) 2 [1, 2, 3, 4, 5, 6, 7, 8] [1, 0] = [1, 2, 3, 4] := by decide
example : HC.GenE.mod_switch_plain_to_inplace true true 0 1 = .error .refused := by rw [HC.gq_mod_switch_plain_to_eq _ _ _ _ (by norm_num)]; rfl
example : HC.GenE.mod_switch_plain_to_inplace true false 2 0 = .error .refused := by rw [HC.gq_mod_switch_plain_to_eq _ _ _ _ (by norm_num)]; rfl
example : HC.GenE.mod_switch_drop_to_next_plain_internal true false true 2 3 = .error .refused := by rw [HC.gq_plain_drop_next_eq]; rfl
example : HC.GenE.mod_switch_drop_to_next_plain_internal true true true 2 3 = .ok 6 := by rw [HC.gq_plain_drop_next_eq]; rfl

end HC.C05
