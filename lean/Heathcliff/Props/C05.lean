import Heathcliff.Model.Evaluator
namespace HC.C05
/-- the level walk of `mod_switch_to` / `rescale_to` refuses upward targets -/
theorem switch_up_refused {cur tgt : Nat} (h : cur < tgt) : switchSteps cur tgt = .error .refused := by
  unfold switchSteps; simp [h]
end HC.C05
