import Heathcliff.Proofs.C20B
import Heathcliff.Proofs.C20C
import Heathcliff.Proofs.C20D
import Heathcliff.Proofs.C20F
import Heathcliff.Proofs.C20G
import Heathcliff.Proofs.C20H
import Heathcliff.Proofs.C20I
import Heathcliff.Proofs.C20J
import Heathcliff.Proofs.C20K
import Heathcliff.Proofs.C20M
import Heathcliff.Proofs.C20N
import Heathcliff.Proofs.C20O
import Heathcliff.Proofs.GenAppC20
import Heathcliff.Proofs.GenAppEnc

/- Property C20: homomorphic matrix products and convolutions equal plaintext ones, all shapes.
   Property theorems only (proofs are the helper lemmas of Heathcliff/Proofs/C20*.lean). -/
namespace HC.C20
open HC HC.MM Finset

/-- **coefficient packing, one block pair** (all shapes, all blocks with `b·i·o ≤ N`, any commutative ring): the coefficient of
    the negacyclic product of the encoded input block (batch rows `li..ui`, input columns `lj..uj`) and the encoded weight block
    (rows `lj..uj`, output columns `lk..uk`) read at the output position of entry (`db`, `dk`) is the partial dot product
    `Σ_j x[li+db][lj+j]·w[lj+j][lk+dk]`.  No other pair of coefficients and no wrap-around term contributes; a partial last block
    (`uj − lj < i` etc.) behaves as zero padding (the sum ranges over the entries that exist). -/
theorem cheetah_coeff {R : Type} [CommRing R] (h : Helper) (x w : Nat → R) (hfit : h.bb * h.ib * h.ob ≤ h.n)
    (li ui lj uj lk uk : Nat) (hb : ui - li ≤ h.bb) (hi : uj - lj ≤ h.ib) (ho : uk - lk ≤ h.ob)
    (db dk : Nat) (hdb : db < ui - li) (hdk : dk < uk - lk) :
    ∃ px pw, encInputBlock h 0 x li ui lj uj = .ok px ∧ encWeightSmall h 0 w lj uj lk uk = .ok pw ∧
      negMulR h.n (fun p => px.getD p 0) (fun p => pw.getD p 0) (outPos h db dk)
        = ∑ j ∈ range (uj - lj), x ((li + db) * h.id + (lj + j)) * w ((lj + j) * h.od + (lk + dk)) :=
  HC.c20_cheetah_coeff h x w hfit li ui lj uj lk uk hb hi ho db dk hdb hdk

/-- summing the block results over the input blocks `[ii·i, min(input_dims, ii·i + i))` (what `matmul` does with `add_inplace`)
    gives the entry of the matrix product -/
theorem cheetah_matmul {R : Type} [CommRing R] (x w : Nat → R) (id od ib row col : Nat) (hib : 0 < ib) :
    ∑ ii ∈ range (ceilDiv id ib), ∑ j ∈ range (min id (ii * ib + ib) - ii * ib),
        x (row * id + (ii * ib + j)) * w ((ii * ib + j) * od + col)
      = ∑ j ∈ range id, x (row * id + j) * w (j * od + col) :=
  HC.c20_sum_blocks (fun j => x (row * id + j) * w (j * od + col)) ib id hib

/-- the position functions the encoders write to and the decoder reads from, as block-local (row, column) digits -/
theorem encoded_input_block {R : Type} (zero : R) (h : Helper) (x : Nat → R) (hfit : h.bb * h.ib * h.ob ≤ h.n) (hob : 0 < h.ob)
    (li ui lj uj : Nat) (hb : ui - li ≤ h.bb) (hi : uj - lj ≤ h.ib) :
    ∃ px, encInputBlock h zero x li ui lj uj = .ok px ∧ px.size = h.n ∧
      (∀ q, (∀ db dj, db < ui - li → dj < uj - lj → inPos h db dj ≠ q) → px.getD q zero = zero) ∧
      (∀ db dj, db < ui - li → dj < uj - lj → px.getD (inPos h db dj) zero = x ((li + db) * h.id + (lj + dj))) :=
  HC.c20_encInput_spec zero h x hfit hob li ui lj uj hb hi

theorem encoded_weight_block {R : Type} (zero : R) (h : Helper) (w : Nat → R) (hfit : h.ib * h.ob ≤ h.n)
    (li ui lk uk : Nat) (hi : ui - li ≤ h.ib) (ho : uk - lk ≤ h.ob) :
    ∃ pw, encWeightSmall h zero w li ui lk uk = .ok pw ∧ pw.size = h.ib * h.ob ∧
      (∀ q, (∀ dk di, dk < uk - lk → di < ui - li → wPos h dk di ≠ q) → pw.getD q zero = zero) ∧
      (∀ dk di, dk < uk - lk → di < ui - li → pw.getD (wPos h dk di) zero = w ((li + di) * h.od + (lk + dk))) :=
  HC.c20_encWeight_spec zero h w hfit li ui lk uk hi ho

/-- **block search, coefficient packing**: for every admissible shape (positive dimensions below 2^20, `N ≥ 2`) and objective the
    returned blocks are non-zero, within the matrix and satisfy `b·i·o ≤ N` -/
theorem block_search_sound (N bs id od : Nat) (obj : Objective) (hN : 2 ≤ N) (hbs : 1 ≤ bs) (hid : 1 ≤ id) (hod : 1 ≤ od)
    (hsz : bs < 2^20 ∧ id < 2^20 ∧ od < 2^20) :
    let st := mmSearch N bs id od obj
    1 ≤ st.b ∧ st.b ≤ bs ∧ 1 ≤ st.i ∧ st.i ≤ id ∧ 1 ≤ st.o ∧ st.o ≤ od ∧ st.b * st.i * st.o ≤ N :=
  HC.c20_mmSearch_sound N bs id od obj hN hbs hid hod hsz

/-- with LWE packing the input block is the fixed power of two `packI` (it may exceed `input_dims`: zero padding) -/
theorem block_search_sound_pack (N bs id od : Nat) (obj : Objective) (hN : 1 ≤ N) (hbs : 1 ≤ bs) (hod : 1 ≤ od)
    (hsz : bs < 2^20 ∧ id < 2^20 ∧ od < 2^20) :
    let st := mmPackSearch N bs id od obj
    1 ≤ st.b ∧ st.b ≤ bs ∧ st.i = packI N id ∧ 1 ≤ st.i ∧ 1 ≤ st.o ∧ st.o ≤ od ∧ st.b * st.i * st.o ≤ N :=
  HC.c20_mmPackSearch_sound N bs id od obj hN hbs hod hsz

/-- **block search, convolution**: for every admissible shape (kernel inside the image, `kh·kw ≤ N`, dimensions ≤ 2^15) the returned
    blocks are non-zero, contain the kernel, lie within the tensor and satisfy `b·ci·co·h·w ≤ N` -/
theorem conv_block_search_sound (S : ConvShape) (N : Nat) (obj : Objective) (hb : 1 ≤ S.b) (hci : 1 ≤ S.ci) (hco : 1 ≤ S.co)
    (hkh : 1 ≤ S.kh) (hkw : 1 ≤ S.kw) (hh : S.kh ≤ S.h) (hw : S.kw ≤ S.w) (hN : S.kh * S.kw ≤ N)
    (hsz : S.b ≤ 2^15 ∧ S.ci ≤ 2^15 ∧ S.co ≤ 2^15 ∧ S.h ≤ 2^15 ∧ S.w ≤ 2^15) :
    let st := cvSearch S N obj
    1 ≤ st.b ∧ st.b ≤ S.b ∧ S.kh ≤ st.h ∧ st.h ≤ S.h ∧ S.kw ≤ st.w ∧ st.w ≤ S.w ∧ 1 ≤ st.ci ∧ st.ci ≤ S.ci ∧ 1 ≤ st.co ∧ st.co ≤ S.co
      ∧ st.ci * st.co * st.w * st.h * st.b ≤ N :=
  HC.c20_cvSearch_sound S N obj hb hci hco hkh hkw hh hw hN hsz

/-- **the weight buffer fits**: for the blocks the search returns, the buffer `spread` written by `encode_weights_*` (sized with the
    height *block*) has at most `N` entries, as `encode_polynomial` requires; so has a whole encoded input polynomial -/
theorem spread_fits (S : ConvShape) (N : Nat) (obj : Objective) (hb : 1 ≤ S.b) (hci : 1 ≤ S.ci) (hco : 1 ≤ S.co)
    (hkh : 1 ≤ S.kh) (hkw : 1 ≤ S.kw) (hh : S.kh ≤ S.h) (hw : S.kw ≤ S.w) (hN : S.kh * S.kw ≤ N)
    (hsz : S.b ≤ 2^15 ∧ S.ci ≤ 2^15 ∧ S.co ≤ 2^15 ∧ S.h ≤ 2^15 ∧ S.w ≤ 2^15) :
    (CHelper.new S N obj).spreadSize ≤ N ∧
    (CHelper.new S N obj).bb * (CHelper.new S N obj).cib * (CHelper.new S N obj).cob * (CHelper.new S N obj).blockSize ≤ N :=
  HC.c20_spread_fits S N obj (HC.c20_cvSearch_sound S N obj hb hci hco hkh hkw hh hw hN hsz)

/-- the sizing of the pinned code (`image_height` instead of `image_height_block`) violates that obligation: batch 1, 1→1
    channels, image 40×4, kernel 3×3, N = 64 picks the blocks (1, 16, 4, 1, 1) and builds a 160-entry buffer -/
theorem spread_overflow_pinned :
    let h := CHelper.new ⟨1, 1, 1, 40, 4, 3, 3⟩ 64 .cipherPlain
    (h.bb, h.hb, h.wb, h.cib, h.cob) = (1, 16, 4, 1, 1) ∧ h.pinnedSpreadSize = 160 ∧ h.n < h.pinnedSpreadSize ∧ h.spreadSize = 64 := by
  decide +kernel

/-- **RNS plaintexts compute modulo Π t_i** (any operation compatible with reduction: `+`, `·`, ...; inputs need not be reduced) -/
theorem rnsp_crt {b : RNSBase} (hb : b.WF) (hk : 1 < b.size) (op : Nat → Nat → Nat)
    (hop : ∀ m x y, 0 < m → op (x % m) (y % m) % m = op x y % m)
    {u v : Nat} (hu : u < 2^(64 * b.size)) (hv : v < 2^(64 * b.size)) :
    ∃ ru rv, b.decompose u = .ok ru ∧ b.decompose v = .ok rv ∧
      ∀ rs : Array Nat, rs.size = b.size →
        (∀ i, i < b.size → rs.getD i 0 = op (ru.getD i 0) (rv.getD i 0) % (b.q i).value) →
        b.compose rs = .ok (op u v % b.prod) := HC.c20_rnsp_crt hb hk op hop hu hv

theorem rnsp_split_merge {b : RNSBase} (hb : b.WF) (hk : 1 < b.size) {u : Nat} (hu : u < 2^(64 * b.size)) :
    ∃ ru, b.decompose u = .ok ru ∧ b.compose ru = .ok (u % b.prod) := HC.c20_rnsp_split_merge hb hk hu

/-- `+` and `·` satisfy the compatibility hypothesis of `rnsp_crt` -/
example : ∀ m x y, 0 < m → (x % m + y % m) % m = (x + y) % m := fun m x y _ => (Nat.add_mod x y m).symm
example : ∀ m x y, 0 < m → (x % m * (y % m)) % m = (x * y) % m := fun m x y _ => (Nat.mul_mod x y m).symm

/-- **convolution, one (tile, input-channel block, output-channel block)** (all shapes, all blocks with `b·ci·co·h·w ≤ N`, any
    commutative ring): the coefficient of the negacyclic product of the encoded input tile (batch rows `lb..ub`, input channels
    `lci..uci`, image rows `si..ui`, columns `sj..uj`) and the encoded weight block (output channels `loc..uoc`, the same input
    channels; kernel stored flipped, channels reversed) read at the output position of (`db`, `dc`, `i`, `j`) is the valid
    cross-correlation `Σ_ic Σ_ki Σ_kj x[lb+db][lci+ic][si+i+ki][sj+j+kj]·w[loc+dc][lci+ic][ki][kj]` for every output entry whose
    window lies inside the tile.  No other pair of coefficients and no wrap-around term contributes. -/
theorem conv2d_coeff {R : Type} [CommRing R] (h : CHelper) (x w : Nat → R)
    (hfit : h.bb * (h.cib * h.cob) * (h.hb * h.wb) ≤ h.n)
    (hkh : 1 ≤ h.S.kh) (hkw : 1 ≤ h.S.kw) (hkhb : h.S.kh ≤ h.hb) (hkwb : h.S.kw ≤ h.wb)
    (lb ub lci uci si ui sj uj loc uoc : Nat)
    (hb : ub - lb ≤ h.bb) (hc : uci - lci ≤ h.cib) (hr : ui - si ≤ h.hb) (hs : uj - sj ≤ h.wb) (ho : uoc - loc ≤ h.cob)
    (db dc i j : Nat) (hdb : db < ub - lb) (hdc : dc < uoc - loc) (hi : i + h.S.kh ≤ ui - si) (hj : j + h.S.kw ≤ uj - sj) :
    ∃ px pw, cvEncInputBlock h 0 x lb ub lci uci si ui sj uj = .ok px ∧ cvEncWeightBlock h 0 w loc uoc lci uci = .ok pw ∧
      negMulR h.n (fun p => px.getD p 0) (fun p => pw.getD p 0) (cyPos h db dc i j)
        = ∑ ic ∈ range (uci - lci), ∑ ki ∈ range h.S.kh, ∑ kj ∈ range h.S.kw,
            x ((lb + db) * h.S.ci * (h.S.h * h.S.w) + (lci + ic) * (h.S.h * h.S.w) + (si + (i + ki)) * h.S.w + (sj + (j + kj)))
              * w (((loc + dc) * h.S.ci + (lci + ic)) * (h.S.kh * h.S.kw) + ki * h.S.kw + kj) :=
  HC.c20_conv2d_coeff h x w hfit hkh hkw hkhb hkwb lb ub lci uci si ui sj uj loc uoc hb hc hr hs ho db dc i j hdb hdc hi hj

/-- summing the block results over the input-channel blocks (what `conv2d` does with `add_inplace`) gives the full sum over the
    input channels -/
theorem conv2d_sum_channels {R : Type} [CommRing R] (f : Nat → R) (ci cib : Nat) (hcib : 0 < cib) :
    ∑ g ∈ range (ceilDiv ci cib), ∑ ic ∈ range (min ci (g * cib + cib) - g * cib), f (g * cib + ic) = ∑ ic ∈ range ci, f ic :=
  HC.c20_sum_blocks f cib ci hcib

/-- **2-D convolution, whole tensor** (any commutative ring, ALL shapes with the kernel inside the image, ALL block tuples with positive
    blocks, kernel inside the tile and `b·ci·co·h·w ≤ n` — the bundle `c20_CvOK`): encode the image tiles (`cvEncodeInputs`: batch
    blocks × overlapping tiles × input-channel blocks, flattened as in the code) and the weights (`cvEncodeWeights`), multiply and
    accumulate over the input-channel blocks in S[X]/(X^n + 1) (`c20_cvEval`), decode (`cvDecodeOutputs`): the result is the VALID
    cross-correlation `y[b][c][i][j] = Σ_ic Σ_ki Σ_kj x[b][ic][i+ki][j+kj]·w[c][ic][ki][kj]` (`c20_xcorr`), row major.  Includes the
    tile / flatten index arithmetic (group index ↔ (batch block, tile row, tile column)) and the coverage of every output entry. -/
theorem conv2d_whole : type_of% @HC.c20_conv2d_whole := @HC.c20_conv2d_whole

/-- ... for the block tuple the model's search returns: every admissible shape (positive dimensions ≤ 2^15, kernel inside the image,
    `kh·kw ≤ N`), every objective -/
theorem conv2d_search : type_of% @HC.c20_conv2d_search := @HC.c20_conv2d_search

/-- the index map of `decrypt_outputs_*` (conv2d) over ALL groups and output-channel blocks, for any family of decoded polynomials -/
theorem conv2d_decode_whole : type_of% @HC.c20_cvDecode_spec := @HC.c20_cvDecode_spec

/-- `encode_inputs_*` / `encode_weights_*` (conv2d) over ALL blocks are total; the input groups are the flattened grid -/
theorem conv2d_encode_inputs_whole : type_of% @HC.c20_cvEncodeInputs_ok := @HC.c20_cvEncodeInputs_ok
theorem conv2d_encode_weights_whole : type_of% @HC.c20_cvEncodeWeights_ok := @HC.c20_cvEncodeWeights_ok

/-- **output re-encoding is the inverse of output decoding** (block level, both for any coefficient type): `encode_outputs_*` writes
    entry (db, dj) of a block exactly at the position `decrypt_outputs_*` reads for it, distinct entries go to distinct positions
    inside the polynomial, and every other coefficient is zero -/
theorem outputs_encode_decode_block {R : Type} (zero : R) (h : Helper) (y : Nat → R) (hfit : h.bb * h.ib * h.ob ≤ h.n) (hib : 0 < h.ib)
    (li ui lj uj : Nat) (hb : ui - li ≤ h.bb) (ho : uj - lj ≤ h.ob) :
    ∃ p, encOutputBlock h zero y li ui lj uj = .ok p ∧ p.size = h.n ∧
      (∀ q, (∀ db dj, db < ui - li → dj < uj - lj → outPos h db dj ≠ q) → p.getD q zero = zero) ∧
      (∀ db dj, db < ui - li → dj < uj - lj → readAt p (outPos h db dj) = .ok (y ((li + db) * h.od + (lj + dj)))) :=
  HC.c20_encOutput_spec zero h y hfit hib li ui lj uj hb ho

/-- **Cheetah matrix product, whole matrix** (any commutative ring, ALL shapes, ALL positive block triples with `b·i·o ≤ n`, no LWE
    packing): encode the inputs (`encodeInputs`) and the weights (`encodeWeights`) with the model's encoders, multiply every
    (batch block, input block) polynomial with the (input block, output block) polynomial in S[X]/(X^n + 1) and accumulate over the
    input blocks (`c20_mmEval`: `multiply_plain` + `add_inplace` of `matmul`), decode with the model's decoder (`decodeOutputs`):
    the result is the plaintext matrix product `x · w`, row major `bs × od`. -/
theorem cheetah_matmul_whole : type_of% @HC.c20_cheetah_matmul_whole := @HC.c20_cheetah_matmul_whole

/-- ... for the block triple the model's block search returns: every admissible shape (positive dimensions below 2^20, `N ≥ 2`), every
    objective — `Helper.new` succeeds and the pipeline computes the matrix product -/
theorem cheetah_matmul_search : type_of% @HC.c20_cheetah_matmul_search := @HC.c20_cheetah_matmul_search

/-- ... modulo t (S = ZMod t): for integer matrices, the decoded result is the matrix product reduced modulo the plain modulus -/
theorem cheetah_matmul_mod_t : type_of% @HC.c20_cheetah_matmul_mod_t := @HC.c20_cheetah_matmul_mod_t

/-- the index map of `decrypt_outputs_*` over ALL blocks (no LWE packing), for any family of decoded polynomials carrying `F row col`
    at the read position of every entry: the result is the `bs × od` matrix `F` -/
theorem decode_outputs_whole : type_of% @HC.c20_decodeOutputs_spec := @HC.c20_decodeOutputs_spec

/-- `encode_inputs_*` / `encode_weights_*` over ALL blocks are total (incl. the `encode_polynomial` size check of the weights) -/
theorem encode_inputs_whole : type_of% @HC.c20_encodeInputs_ok := @HC.c20_encodeInputs_ok
theorem encode_weights_whole : type_of% @HC.c20_encodeWeights_ok := @HC.c20_encodeWeights_ok

/-- **outputs: decode ∘ encode = id over the whole matrix** (no LWE packing; every shape, every positive block triple with
    `b·i·o ≤ n`, any coefficient type) -/
theorem outputs_encode_decode_whole : type_of% @HC.c20_outputs_encode_decode := @HC.c20_outputs_encode_decode

/-- **outputs: decode ∘ encode = id over the whole matrix WITH LWE packing** (`h.pack = true`): output block `c = d1·obc + d2` is written
    into packed polynomial `c / ib` at slot offset `c mod ib` and read back from there; every shape, every positive block triple with
    `b·i·o ≤ n`, any coefficient type -/
theorem outputs_encode_decode_packed : type_of% @HC.c20_outputs_encode_decode_packed := @HC.c20_outputs_encode_decode_packed

/-- one packed output polynomial as a function of the position (total; reading at the decoder's position returns the entry) -/
theorem packed_poly_spec : type_of% @HC.c20_packedPoly_spec := @HC.c20_packedPoly_spec

/-- the index map of `decrypt_outputs_*` over ALL blocks in BOTH packing modes -/
theorem decode_outputs_gen : type_of% @HC.c20_decodeOutputs_gen := @HC.c20_decodeOutputs_gen

/-- the whole-matrix form for BOTH packing modes (all blocks, through `encodeOutputs` / `decodeOutputs`) -/
def OutputsEncodeDecodeStatement : Prop :=
  ∀ (h : Helper) (y : Nat → Nat), 0 < h.bb → 0 < h.ib → 0 < h.ob → h.bb * h.ib * h.ob ≤ h.n → (h.pack = true → h.n % h.ib = 0) →
    ∃ polys dec, encodeOutputs h 0 y (h.bs * h.od) = .ok polys ∧ decodeOutputs h 0 polys = .ok dec ∧
      ∀ k, k < h.bs * h.od → dec.getD k 0 = y k

/-- ... PROVED (formerly a statement only); the divisibility hypothesis is not needed -/
theorem OutputsEncodeDecodeStatement_proof : OutputsEncodeDecodeStatement := by
  intro h y hbb hib hob hfit _
  obtain ⟨polys, dec, h1, h2, _, h4⟩ := HC.c20_outputs_encode_decode_both (0 : Nat) h y hbb hib hob hfit
  exact ⟨polys, dec, h1, h2, h4⟩

/-- selected-terms transport: the transported coefficient set (`output_terms`) contains every position the decoder reads -/
theorem terms_transport (h : Helper) (db dj : Nat) (hdb : db < h.bb) (hdj : dj < h.ob) : outPos h db dj ∈ outputTerms h :=
  HC.c20_terms_superset h db dj hdb hdj

/-! ### BOLT slot-packing variants: the rotation algebra they rest on (the end-to-end statement is `BoltStatement`) -/

/-- rotations of a slot row compose additively modulo the row length -/
theorem bolt_rot_add {α : Type} (n a b : Nat) (v : Nat → α) (i : Nat) :
    c20_rot n b (c20_rot n a v) i = c20_rot n (a + b) v i := HC.c20_rot_add n a b v i

/-- baby-step / giant-step: `rot(x, g·a + b) = rot(rot(x, b), g·a)` -/
theorem bolt_rot_bsgs {α : Type} (n g a b : Nat) (v : Nat → α) (i : Nat) :
    c20_rot n (g * a) (c20_rot n b v) i = c20_rot n (g * a + b) v i := HC.c20_rot_bsgs n g a b v i

theorem bolt_rot_mod {α : Type} (n s : Nat) (v : Nat → α) (i : Nat) : c20_rot n (s % n) v i = c20_rot n s v i :=
  HC.c20_rot_mod n s v i

/-! ### BOLT: the MODEL of the three helpers (`Model/Matmul.lean`: encode maps, rotation schedules on slot vectors, decode maps) is
     compared with the code bit for bit (`bolt_*_encx/encw/enco/run` lines).  Proved about the model: the slot actions, the
     baby-step / giant-step algebra and the end-to-end statements below (they replace the former schema `BoltStatement`). -/

/-- `rotate_rows` by `a` whole columns, read at column `c`, entry `j` (slot = column·gap + entry, N = 2·half·gap) -/
theorem bolt_rotRows_col : type_of% @HC.c20_rotRows_col := @HC.c20_rotRows_col
/-- `rotate_columns`, read at column `c` -/
theorem bolt_swapRows_col : type_of% @HC.c20_swapRows_col := @HC.c20_swapRows_col

/-- **baby steps of `bolt_cp`**: after `ir` steps of the model's input-rotation loop, column `c` of the rotated input polynomial
    holds the original column `boltShift half c ir` (the index `a_shift_index` that `encode_weights` assumes) -/
theorem bolt_cp_baby_steps : type_of% @HC.c20_boltCpRotIn_col := @HC.c20_boltCpRotIn_col

/-- **baby-step / giant-step re-indexing**: as the total rotation runs over all `s = 2·half` values, the column read at column `k`
    runs over all columns exactly once: `Σ_rot f(boltShift half k rot) = Σ_c f(c)` -/
theorem bolt_bsgs_sum : type_of% @HC.c20_bolt_bsgs_sum := @HC.c20_bolt_bsgs_sum

theorem bolt_shift_lt : type_of% @HC.c20_boltShift_lt := @HC.c20_boltShift_lt
theorem bolt_shift_split : type_of% @HC.c20_boltShift_split := @HC.c20_boltShift_split
theorem bolt_shift_step : type_of% @HC.c20_shift_step := @HC.c20_shift_step

/-- End-to-end statement for `MatmulBoltCp` over the MODEL, any commutative ring (S = ZMod t: the product modulo t), for every helper
    the model's constructor accepts, with the baby-step / giant-step split its search returns.  `N < 2^64` is the `usize` range (the
    model's `ceilTwoPower` makes at most 64 doublings, as the code's arithmetic lives in `usize`); it was missing in the first
    version of this statement. -/
def BoltCpStatement : Prop :=
  ∀ (S : Type) [CommRing S] (m r n N : Nat) (h : BoltCp) (x w : Nat → S), BoltCp.new m r n N = .ok h → (∃ e, N = 2^e) → N < 2^64 →
    ∃ X W Y out, boltCpEncodeInputs h 0 x (m * r) = .ok X ∧ boltCpEncodeWeights h 0 w (r * n) = .ok W ∧
      boltCpMultiply h (· + ·) (· * ·) 0 X W = .ok Y ∧ boltCpDecodeOutputs h 0 Y = .ok out ∧
      ∀ i j, i < m → j < n → out.getD (i * n + j) 0 = ∑ k ∈ range r, x (i * r + k) * w (k * n + j)

/-- ... PROVED -/
theorem BoltCpStatement_proof : BoltCpStatement := by
  intro S _ m r n N h x w hnew hpow hN
  obtain ⟨X, W, Y, out, h1, h2, h3, h4, _, h6⟩ := HC.c20_boltCp_new hnew hpow hN x w
  exact ⟨X, W, Y, out, h1, h2, h3, h4, h6⟩

/-- **`MatmulBoltCp`, whole pipeline** for EVERY helper with `N = s·gap`, `s = irc·orc = 2·half`, `orc` even, `0 < m ≤ gap`
    (the bundle `c20_CpOK`: any shape, any such split, not only the searched one): encode inputs → encode weights → the
    rotate-multiply-accumulate schedule of `multiply` (baby steps on the inputs, one product per rotation class and polynomial pair,
    optional accumulators, giant-step tail with the half sum) → decode  =  `x · w` -/
theorem bolt_cp_whole : type_of% @HC.c20_boltCp_whole := @HC.c20_boltCp_whole
/-- ... for the helpers `MatmulBoltCp::new` returns (the split search returns a power of two below `s`) -/
theorem bolt_cp_new : type_of% @HC.c20_boltCp_new := @HC.c20_boltCp_new
/-- `MatmulBoltCp::new` establishes `c20_CpOK` -/
theorem bolt_cp_new_ok : type_of% @HC.c20_boltCpNew_ok := @HC.c20_boltCpNew_ok
/-- `MatmulBoltCpSmall::multiply` on arbitrary input / weight polynomials -/
theorem bolt_cp_multiply_spec : type_of% @HC.c20_cpMulPart_spec := @HC.c20_cpMulPart_spec
/-- the giant-step tail of `multiply` -/
theorem bolt_cp_tail_spec : type_of% @HC.c20_cpTail_spec := @HC.c20_cpTail_spec

/-- non-vacuity: the constructor accepts, e.g., 3×9·9×9 at N = 32 with (gap, s, irc, orc) = (4, 8, 2, 4) (baby steps, rotating giant
    steps and the half sum all occur); the hypotheses of `bolt_cp_new` are satisfiable -/
example : BoltCp.new 3 9 9 32 = .ok ⟨32, 3, 3, 9, 9, 4, 8, 2, 4⟩ := by rfl
example (x w : Nat → ℤ) := bolt_cp_new (show BoltCp.new 3 9 9 32 = .ok ⟨32, 3, 3, 9, 9, 4, 8, 2, 4⟩ by rfl) ⟨5, rfl⟩
  (by decide) x w
/-- ... over ℤ/t (slot vectors of a BFV plaintext): the product modulo the plain modulus -/
example (t : Nat) (x w : Nat → ZMod t) := bolt_cp_new (show BoltCp.new 3 9 9 32 = .ok ⟨32, 3, 3, 9, 9, 4, 8, 2, 4⟩ by rfl) ⟨5, rfl⟩
  (by decide) x w
/-- ... and the model's pipeline on that shape over ℤ/97 (x[i] = 7i + 3, w[i] = 11i + 5): entry (2, 8) is Σ_k x[2·9 + k]·w[9k + 8] -/
example : (do
    let h ← BoltCp.new 3 9 9 32
    let X ← boltCpEncodeInputs h 0 (fun i => (7 * i + 3) % 97) 27
    let W ← boltCpEncodeWeights h 0 (fun i => (11 * i + 5) % 97) 81
    let Y ← boltCpMultiply h (fun a b => (a + b) % 97) (fun a b => (a * b) % 97) 0 X W
    let out ← boltCpDecodeOutputs h 0 Y
    pure (out.getD 26 0)) = .ok (((List.range 9).map fun k => ((7 * (18 + k) + 3) % 97) * ((11 * (9 * k + 8) + 5) % 97)).sum % 97) := by
  decide +kernel

/-- ... for `MatmulBoltCcCr` (LHS column-major, RHS row-major, product collected by diagonals); `N < 2^64` added as for `bolt_cp` -/
def BoltCcCrStatement : Prop :=
  ∀ (S : Type) [CommRing S] (m r n N : Nat) (h : BoltCc) (x w : Nat → S), BoltCc.newCr m r n N = .ok h → (∃ e, N = 2^e) → N < 2^64 →
    ∃ X W Y out, boltCrEncodeInputs h 0 x (m * r) = .ok X ∧ boltCrEncodeWeights h 0 w (r * n) = .ok W ∧
      boltCrMultiply h (· + ·) (· * ·) 0 X W = .ok Y ∧ boltCrDecodeOutputs h 0 Y = .ok out ∧
      ∀ i j, i < m → j < n → out.getD (i * n + j) 0 = ∑ k ∈ range r, x (i * r + k) * w (k * n + j)

/-- ... PROVED -/
theorem BoltCcCrStatement_proof : BoltCcCrStatement := by
  intro S _ m r n N h x w hnew hpow hN
  obtain ⟨X, W, Y, out, h1, h2, h3, h4, _, h6⟩ := HC.c20_boltCr_new hnew hpow hN x w
  exact ⟨X, W, Y, out, h1, h2, h3, h4, h6⟩

/-- **`MatmulBoltCcCr`, whole pipeline** for EVERY helper with `N = gsc·gap`, `gsc = 2^(g+1)`, `0 < m ≤ gap` (the bundle `c20_CcOK`)
    and `r > 0`: all block pairs, `multiply` of the small helper (rotate the RHS by the shift, multiply, `sum_inplace`, mask the
    diagonal segment, optional accumulators; the wrapped part of a diagonal from the rotation by `shift − m`), decode by diagonals -/
theorem bolt_cc_cr_whole : type_of% @HC.c20_boltCr_whole := @HC.c20_boltCr_whole
theorem bolt_cc_cr_new : type_of% @HC.c20_boltCr_new := @HC.c20_boltCr_new
theorem bolt_cc_cr_new_ok : type_of% @HC.c20_boltCrNew_ok := @HC.c20_boltCrNew_ok
/-- `sum_inplace`: after log-many rotations (the last one across the rows) every column holds the sum of all columns -/
theorem bolt_sum_all_spec : type_of% @HC.c20_boltSumAll_spec := @HC.c20_boltSumAll_spec
/-- `MatmulBoltCcCrSmall::multiply` on arbitrary polynomials: diagonal `sh` at polynomial `sh / gsc`, column `sh mod gsc` -/
theorem bolt_cc_cr_multiply_spec : type_of% @HC.c20_crMulSmall_spec := @HC.c20_crMulSmall_spec
/-- the index map of `decode_outputs` (cc_cr) over all blocks -/
theorem bolt_cc_cr_decode_spec : type_of% @HC.c20_boltCrDecode_spec := @HC.c20_boltCrDecode_spec

/-- non-vacuity: the constructor accepts 5×7·7×3 at N = 16 (block side 5, gap 8, two columns per polynomial) and 3×5·5×3 at N = 32
    (gap 4, eight columns: three rotations in `sum_inplace`); the hypotheses of `bolt_cc_cr_new` are satisfiable -/
example : BoltCc.newCr 5 7 3 16 = .ok ⟨16, 5, 7, 3, 5, 8, 2⟩ := by rfl
example : BoltCc.newCr 3 5 3 32 = .ok ⟨32, 3, 5, 3, 3, 4, 8⟩ := by rfl
example (x w : Nat → ℤ) := bolt_cc_cr_new (show BoltCc.newCr 3 5 3 32 = .ok ⟨32, 3, 5, 3, 3, 4, 8⟩ by rfl) ⟨5, rfl⟩ (by decide) x w
/-- ... and the model's pipeline on 3×5·5×3 at N = 32 over ℤ/97: entry (2, 1) -/
example : (do
    let h ← BoltCc.newCr 3 5 3 32
    let X ← boltCrEncodeInputs h 0 (fun i => (7 * i + 3) % 97) 15
    let W ← boltCrEncodeWeights h 0 (fun i => (11 * i + 5) % 97) 15
    let Y ← boltCrMultiply h (fun a b => (a + b) % 97) (fun a b => (a * b) % 97) 0 X W
    let out ← boltCrDecodeOutputs h 0 Y
    pure (out.getD 7 0)) = .ok (((List.range 5).map fun k => ((7 * (10 + k) + 3) % 97) * ((11 * (3 * k + 1) + 5) % 97)).sum % 97) := by
  decide +kernel

/-- ... for `MatmulBoltCcDc` (LHS by diagonals, RHS column-major).  Two hypotheses were missing in the first version of this statement:
    `N < 2^64` (as above) and `0 < r`: the constructor accepts `r = 0` but `multiply` fails on the empty list of block products
    (`bolt_cc_dc_r0_refused` below; the code panics in the same place, `item.unwrap()` — harness line `bolt_ccdc_r0`) -/
def BoltCcDcStatement : Prop :=
  ∀ (S : Type) [CommRing S] (m r n N : Nat) (h : BoltCc) (x w : Nat → S), BoltCc.newDc m r n N = .ok h → (∃ e, N = 2^e) → N < 2^64 →
    0 < r →
    ∃ X W Y out, boltDcEncodeInputs h 0 x (m * r) = .ok X ∧ boltDcEncodeWeights h 0 w (r * n) = .ok W ∧
      boltDcMultiply h (· + ·) (· * ·) 0 X W = .ok Y ∧ boltDcDecodeOutputs h 0 Y = .ok out ∧
      ∀ i j, i < m → j < n → out.getD (i * n + j) 0 = ∑ k ∈ range r, x (i * r + k) * w (k * n + j)

/-- ... PROVED -/
theorem BoltCcDcStatement_proof : BoltCcDcStatement := by
  intro S _ m r n N h x w hnew hpow hN hr
  obtain ⟨X, W, Y, out, h1, h2, h3, h4, _, h6⟩ := HC.c20_boltDc_new hnew hpow hN hr x w
  exact ⟨X, W, Y, out, h1, h2, h3, h4, h6⟩

/-- the witness against the first version of the statement: m = 1, r = 0, n = 1, N = 2 is accepted by the constructor and the
    model's `multiply` refuses (over ℕ with arithmetic modulo 17) -/
theorem bolt_cc_dc_r0_refused :
    (BoltCc.newDc 1 0 1 2).toOption.isSome = true ∧
    (do let h ← BoltCc.newDc 1 0 1 2
        let X ← boltDcEncodeInputs h 0 (fun _ => 0) 0
        let W ← boltDcEncodeWeights h 0 (fun _ => 0) 0
        boltDcMultiply h (fun a b => (a + b) % 17) (fun a b => (a * b) % 17) 0 X W) = .error .other := by
  decide +kernel

/-- **`MatmulBoltCcDc`, whole pipeline** for EVERY helper with `N = gsc·gap`, `gsc = 2^(g+1)`, `0 < m ≤ gap` (`c20_CcOK`) and `r > 0`:
    all block pairs, `multiply` of the small helper (left shifts, then right shifts of the RHS; `spread_inputs` of the masked diagonal
    segment; optional accumulators), `add_inplace` of the block products, column-major decode -/
theorem bolt_cc_dc_whole : type_of% @HC.c20_boltDc_whole := @HC.c20_boltDc_whole
theorem bolt_cc_dc_new : type_of% @HC.c20_boltDc_new := @HC.c20_boltDc_new
theorem bolt_cc_dc_new_ok : type_of% @HC.c20_boltDcNew_ok := @HC.c20_boltDcNew_ok
/-- `spread_inputs`: the masked segment of one column is copied onto every column -/
theorem bolt_spread_spec : type_of% @HC.c20_boltSpread_spec := @HC.c20_boltSpread_spec
/-- `MatmulBoltCcDcSmall::multiply` on arbitrary polynomials -/
theorem bolt_cc_dc_multiply_spec : type_of% @HC.c20_dcMulSmall_spec := @HC.c20_dcMulSmall_spec
/-- the column-major encoder / decoder shared by the helpers -/
theorem bolt_col_major_encode_spec : type_of% @HC.c20_boltColMajor_spec := @HC.c20_boltColMajor_spec
theorem bolt_col_major_decode_spec : type_of% @HC.c20_boltColMajorDecode_spec := @HC.c20_boltColMajorDecode_spec

/-- non-vacuity: the constructor accepts 3×5·5×3 at N = 32 (block side 5, gap 8, four columns: two doublings in `spread_inputs`) and
    5×3·3×7 at N = 16 (block side 5, gap 8, two columns, one block); the hypotheses of `bolt_cc_dc_new` are satisfiable -/
example : BoltCc.newDc 3 5 3 32 = .ok ⟨32, 3, 5, 3, 5, 8, 4⟩ := by rfl
example : BoltCc.newDc 5 3 7 16 = .ok ⟨16, 5, 3, 7, 5, 8, 2⟩ := by rfl
example (x w : Nat → ℤ) := bolt_cc_dc_new (show BoltCc.newDc 3 5 3 32 = .ok ⟨32, 3, 5, 3, 5, 8, 4⟩ by rfl) ⟨5, rfl⟩ (by decide)
  (by decide) x w
/-- ... and the model's pipeline on 3×5·5×3 at N = 32 over ℤ/97: entry (2, 1) -/
example : (do
    let h ← BoltCc.newDc 3 5 3 32
    let X ← boltDcEncodeInputs h 0 (fun i => (7 * i + 3) % 97) 15
    let W ← boltDcEncodeWeights h 0 (fun i => (11 * i + 5) % 97) 15
    let Y ← boltDcMultiply h (fun a b => (a + b) % 97) (fun a b => (a * b) % 97) 0 X W
    let out ← boltDcDecodeOutputs h 0 Y
    pure (out.getD 7 0)) = .ok (((List.range 5).map fun k => ((7 * (10 + k) + 3) % 97) * ((11 * (3 * k + 1) + 5) % 97)).sum % 97) := by
  decide +kernel

/-- the model's `bolt_cp` pipeline on a concrete instance (N = 8, 3×2·2×3 over ℤ/17): the schedule computes the product -/
example : (do
    let h ← BoltCp.new 3 2 3 8
    let X ← boltCpEncodeInputs h 0 (fun i => [1, 2, 3, 4, 5, 6].getD i 0) 6
    let W ← boltCpEncodeWeights h 0 (fun i => [7, 8, 9, 10, 11, 12].getD i 0) 6
    let Y ← boltCpMultiply h (fun a b => (a + b) % 17) (fun a b => (a * b) % 17) 0 X W
    boltCpDecodeOutputs h 0 Y) = .ok #[27 % 17, 30 % 17, 33 % 17, 61 % 17, 68 % 17, 75 % 17, 95 % 17, 106 % 17, 117 % 17] := by
  decide +kernel

/-! ### translator tie (phase 4h, app mode): the block searches and term lists are REGENERATED from src/app/matmul/cheetah.rs and
    src/app/conv2d.rs on every run (`Gen/AppFns.lean`, namespace `HC.GenApp`) and proved equal to the hand model -/

/-- `ceil_div` (cheetah.rs): the checked `(a + b - 1) / b` is `ceilDiv` whenever it does not trap -/
theorem gen_ceil_div_eq {a b : Nat} (hb : 1 ≤ b) (h : a + b < 2^64) : GenApp.mm_ceil_div a b = .ok (ceilDiv a b) :=
  HC.ga_mm_ceil_div hb h
/-- `ceil_div` (conv2d.rs, a second copy of the function) -/
theorem gen_cv_ceil_div_eq {a b : Nat} (hb : 1 ≤ b) (h : a + b < 2^64) : GenApp.cv_ceil_div a b = .ok (ceilDiv a b) :=
  HC.ga_cv_ceil_div hb h

/-- **`MatmulHelper::new` (no LWE packing), generated = model**: every shape below 2^20 (zero dimensions included: both refuse), every
    degree, every objective; the struct the code builds is the model's `Helper` (+ the objective) -/
theorem gen_mm_new_eq : type_of% @HC.ga_mm_new_eq := @HC.ga_mm_new_eq
/-- ... with LWE packing, at the exact values of the two `f64` expressions (inputs of the generated function) -/
theorem gen_mm_new_pack_eq : type_of% @HC.ga_mm_new_pack_eq := @HC.ga_mm_new_pack_eq
/-- **`Conv2dHelper::new`, generated = model** (dimensions ≤ 2^15 — above, the cost products can overflow a word —, non-empty kernel) -/
theorem gen_cv_new_eq : type_of% @HC.ga_cv_new_eq := @HC.ga_cv_new_eq
/-- `MatmulHelper::output_terms` / `input_terms`, generated = model -/
theorem gen_mm_output_terms_eq : type_of% @HC.ga_mm_output_terms_eq := @HC.ga_mm_output_terms_eq
theorem gen_mm_input_terms_eq : type_of% @HC.ga_mm_input_terms_eq := @HC.ga_mm_input_terms_eq

/-- `Conv2dHelper::output_terms`, generated = model (blocks contain a non-empty kernel, non-zero channel / batch blocks, product fits a word) -/
theorem gen_cv_output_terms_eq : type_of% @HC.ga_cv_output_terms_eq := @HC.ga_cv_output_terms_eq
/-- ... for the helper the generated conv2d search returns -/
theorem gen_cv_terms_of_new : type_of% @HC.ga_cv_terms_of_new := @HC.ga_cv_terms_of_new

/-- `Conv2dHelper::get_total_batch_size`, generated = `CHelper.totalBatch` (the group count `encode_inputs_*` / `decrypt_outputs_*` iterate over) -/
theorem gen_cv_total_batch_eq : type_of% @HC.ga_cv_total_batch_eq := @HC.ga_cv_total_batch_eq

/-- second round — positions written by the encoders (fragments of `encode_weight_small_bfv` / `encode_inputs_bfv`; plan = position, source
    index, …): generated = `wPos` / `inPos` with the model's source indices -/
theorem gen_mm_weight_positions_eq : type_of% @HC.ga_mm_weight_positions_eq := @HC.ga_mm_weight_positions_eq
theorem gen_mm_input_positions_eq : type_of% @HC.ga_mm_input_positions_eq := @HC.ga_mm_input_positions_eq
/-- positions READ by `decrypt_outputs_bfv` (non-packed branch, one polynomial): generated (destination, position) pairs = `outPos` -/
theorem gen_mm_output_positions_eq : type_of% @HC.ga_mm_output_positions_eq := @HC.ga_mm_output_positions_eq
/-- ... and the model's block encoders (the ones `gen_cheetah_matmul_search` runs) ARE the scatter of the generated plan -/
theorem gen_encWeightSmall_plan : type_of% @HC.ga_encWeightSmall_plan := @HC.ga_encWeightSmall_plan
theorem gen_encInputBlock_plan : type_of% @HC.ga_encInputBlock_plan := @HC.ga_encInputBlock_plan

/-- **composed with `block_search_sound`**: the GENERATED search returns admissible blocks for every admissible shape -/
theorem gen_mm_new_sound : type_of% @HC.ga_mm_new_sound := @HC.ga_mm_new_sound
theorem gen_mm_new_pack_sound : type_of% @HC.ga_mm_new_pack_sound := @HC.ga_mm_new_pack_sound
theorem gen_cv_new_sound : type_of% @HC.ga_cv_new_sound := @HC.ga_cv_new_sound
/-- **one statement from source to mathematics**: generated search → encode → multiply-accumulate → decode = `x · w` -/
theorem gen_cheetah_matmul_search : type_of% @HC.ga_cheetah_matmul_search := @HC.ga_cheetah_matmul_search
/-- ... and for the convolution: generated search → … = valid cross-correlation -/
theorem gen_conv2d_search : type_of% @HC.ga_conv2d_search := @HC.ga_conv2d_search
/-- the term lists of the helper the generated search returns (composed with `terms_transport`) -/
theorem gen_mm_terms_of_new : type_of% @HC.ga_mm_terms_of_new := @HC.ga_mm_terms_of_new

/-! non-vacuity of the ties: the generated functions run on concrete shapes and return what the model returns -/
example : (GenApp.mm_new 3 4 2 8 .cipherPlain false 0 0).map ga_toHelper = .ok ⟨3, 4, 2, 3, 1, 2, 8, false⟩ := by rfl
example : (GenApp.mm_new 4 3 2 32 .cipherPlain true (packExp 32) 2).map ga_toHelper = .ok ⟨4, 3, 2, 4, 2, 2, 32, true⟩ := by rfl
example : (GenApp.cv_new 1 1 1 40 4 3 3 64 .cipherPlain).map ga_toCHelper = .ok ⟨⟨1, 1, 1, 40, 4, 3, 3⟩, 1, 16, 4, 1, 1, 64⟩ := by
  rfl
example : GenApp.mm_output_terms ⟨3, 4, 2, 3, 1, 2, 8, .cipherPlain, false⟩ = .ok [0, 1, 2, 3, 4, 5] := by rfl
example : GenApp.cv_output_terms ⟨1, 1, 1, 4, 4, 3, 3, 16, 1, 1, 1, 4, 4, .cipherPlain⟩ = .ok [10, 11, 14, 15] := by rfl
example : GenApp.cv_total_batch ⟨1, 1, 1, 40, 4, 3, 3, 64, 1, 1, 1, 16, 4, .cipherPlain⟩ = .ok 3 := by rfl
example : GenApp.mm_weight_positions ⟨3, 4, 2, 3, 1, 2, 8, .cipherPlain, false⟩ 1 2 0 2 = .ok [0, 2, 1, 3] := by rfl
example : GenApp.mm_input_positions ⟨3, 4, 2, 3, 1, 2, 8, .cipherPlain, false⟩ 0 3 1 2 = .ok [0, 1, 2, 5, 4, 9] := by rfl
example (x w : Nat → ℤ) := gen_cheetah_matmul_search 3 4 2 8 .cipherPlain 0 0 (by decide) (by decide) (by decide) (by decide)
  (by decide) x w
example (x w : Nat → ℤ) := gen_conv2d_search ⟨2, 3, 2, 6, 5, 3, 2⟩ 64 .cipherPlain (by decide) (by decide) (by decide) (by decide)
  (by decide) (by decide) (by decide) (by decide) (by decide) x w
example := gen_mm_new_pack_sound 4 3 2 32 .cipherPlain (packExp 32) 2 (by decide) (by decide) (by decide) (by decide) (by decide)
  (by decide) rfl (by decide)

/-! non-vacuity: concrete shapes satisfy the hypotheses and the searches return the blocks the code returns -/
example : mmSearch 8 3 4 2 .cipherPlain = ⟨3, 1, 2, 5⟩ := by decide
example : (mmPackSearch 32 4 3 2 .cipherPlain).b = 4 ∧ (mmPackSearch 32 4 3 2 .cipherPlain).i = 2 ∧ (mmPackSearch 32 4 3 2 .cipherPlain).o = 2 := by decide

/-- the hypotheses of `cheetah_coeff` are satisfiable: the blocks (3,1,2) the search returns for a 3×4·4×2 product at N = 8,
    full first blocks, entry (2,1) -/
example (x w : Nat → ℤ) := cheetah_coeff ⟨3, 4, 2, 3, 1, 2, 8, false⟩ x w (by decide) 0 3 0 1 0 2 (by decide) (by decide) (by decide)
  2 1 (by decide) (by decide)
/-- ... and a partial last input block (columns 3..4 of 4 with input block 3 would be `lj = 3, uj = 4`) -/
example (x w : Nat → ℤ) := cheetah_coeff ⟨2, 4, 2, 1, 3, 2, 8, false⟩ x w (by decide) 1 2 3 4 0 2 (by decide) (by decide) (by decide)
  0 1 (by decide) (by decide)
/-- the hypotheses of `cheetah_matmul_whole` are satisfiable (the blocks (3,1,2) of the 3×4·4×2 product at N = 8), and so are those of
    `cheetah_matmul_search` -/
example (x w : Nat → ℤ) := cheetah_matmul_whole ⟨3, 4, 2, 3, 1, 2, 8, false⟩ x w (by decide) (by decide) (by decide)
  (by decide) rfl
example (x w : Nat → ℤ) := cheetah_matmul_search 3 4 2 8 .cipherPlain (by decide) (by decide) (by decide) (by decide)
  (by decide) x w
/-- the hypotheses of `conv2d_whole` are satisfiable (the witness shape of the pinned defect with its searched blocks (1,16,4,1,1):
    three overlapping tiles in height) -/
example (x w : Nat → ℤ) := conv2d_whole ⟨⟨1, 1, 1, 40, 4, 3, 3⟩, 1, 16, 4, 1, 1, 64⟩ x w
  ⟨by decide, by decide, by decide, by decide, by decide, by decide, by decide, by decide⟩ (by decide) (by decide)
example (x w : Nat → ℤ) := conv2d_search ⟨2, 3, 2, 6, 5, 3, 2⟩ 64 .cipherPlain (by decide) (by decide) (by decide) (by decide)
  (by decide) (by decide) (by decide) (by decide) (by decide) x w
/-- the hypotheses of `conv2d_coeff` are satisfiable: the witness shape of the pinned defect (image 40×4, kernel 3×3, N = 64,
    blocks (1,16,4,1,1)), first tile, last output row / column of the tile -/
example (x w : Nat → ℤ) := conv2d_coeff ⟨⟨1, 1, 1, 40, 4, 3, 3⟩, 1, 16, 4, 1, 1, 64⟩ x w (by decide) (by decide) (by decide) (by decide)
  (by decide) 0 1 0 1 0 16 0 4 0 1 (by decide) (by decide) (by decide) (by decide) (by decide) 0 0 13 1 (by decide) (by decide)
  (by decide) (by decide)

end HC.C20
