import Heathcliff.Proofs.C16B
import Heathcliff.Proofs.C16C
import Heathcliff.Proofs.GenRng6

/- C16: seeded expansion is reproducible, draws are fresh, samples are well-formed.
   Property theorems only; proofs are the helper lemmas of Heathcliff/Proofs/C16*.lean.
   `xof` (BLAKE3 block function), `ent` (OS entropy) and `U` (rand's Uniform) are parameters; what the property says about
   the QUALITY of BLAKE3 / OS entropy (no repetition, different seeds give different streams) is outside the model and is
   checked empirically by the harness (labelled as tests) -- see `stored_seeds_fresh` for where such a hypothesis enters. -/
namespace HC.C16
open HC HC.Rng

/-! ## (a) the byte stream is a function of the seed alone and independent of chunking -/

/-- chunking law from ANY state (any buffer position, crossing any number of refills): reading `a+b` bytes at once gives
    the same bytes and the same final state as reading `a` then `b` -/
theorem fill_bytes_split (xof : Xof) (s : St) (a b : Nat) :
    fillBytes xof s (a + b) =
      ((fillBytes xof s a).1 ++ (fillBytes xof (fillBytes xof s a).2 b).1, (fillBytes xof (fillBytes xof s a).2 b).2) :=
  fillBytes_add s a b

/-- for EVERY list of chunk lengths: the concatenation of the successive `fill_bytes` outputs and the state afterwards are
    those of one read of the total length (so both depend on the total only) -/
theorem fill_bytes_chunking (xof : Xof) (s : St) (chunks : List Nat) :
    ((runFills xof s chunks).1.flatten, (runFills xof s chunks).2) = fillBytes xof s chunks.sum :=
  runFills_eq s chunks

/-- ... and from a freshly seeded generator that concatenation is the prefix of `xof seed 0 ++ xof seed 1 ++ …`
    (`byteAt xof seed i` = byte `i mod 4096` of block `i / 4096`) of the total length -/
theorem fill_bytes_stream (xof : Xof) (seed : Seed) (chunks : List Nat) :
    (runFills xof (fromSeed seed) chunks).1.flatten = streamSlice xof seed 0 chunks.sum := by
  have h := runFills_eq (xof := xof) (fromSeed seed) chunks
  have h2 := (rep_fillBytes (rep_fromSeed (xof := xof) seed) chunks.sum).1
  rw [← h] at h2
  exact h2

/-- the same, literally as in the property text: with 4096-byte blocks the concatenated outputs are the prefix of
    `xof seed 0 ++ xof seed 1 ++ … ++ xof seed (k-1)` (any `k ≤ 2^64` blocks that cover the total) -/
theorem fill_bytes_prefix_of_blocks (xof : Xof) (seed : Seed) (hsz : ∀ c, (xof seed c).size = BUF) (chunks : List Nat)
    (k : Nat) (hk : k ≤ B64) (hn : chunks.sum ≤ k * BUF) :
    (runFills xof (fromSeed seed) chunks).1.flatten = (blocksConcat xof seed k).take chunks.sum := by
  rw [fill_bytes_stream]
  exact streamSlice_eq_take seed hsz k hk _ hn

example : ∀ c, ((fun (_ : Seed) (_ : Nat) => Array.replicate BUF 7) [] c).size = BUF := fun _ => by simp

/-- two chunkings with the same total: same bytes, same state -/
theorem chunking_irrelevant (xof : Xof) (s : St) (c1 c2 : List Nat) (h : c1.sum = c2.sum) :
    (runFills xof s c1).1.flatten = (runFills xof s c2).1.flatten ∧ (runFills xof s c1).2 = (runFills xof s c2).2 := by
  have h1 := runFills_eq (xof := xof) s c1
  have h2 := runFills_eq (xof := xof) s c2
  rw [h, ← h2] at h1
  simp only [Prod.mk.injEq] at h1
  exact h1

/-- every interleaving of `fill_bytes`, `next_u32`, `next_u64` on a freshly seeded generator is the cursor semantics over
    the stream: `fill_bytes` takes the next bytes, `next_u32` / `next_u64` first round the cursor up to a multiple of 4 / 8
    (these are, by design, not chunking invariant) and read little endian -/
theorem generator_is_stream_cursor (xof : Xof) (seed : Seed) (ops : List Op) :
    (run xof (fromSeed seed) ops).1 = (cursorRun xof seed 0 ops).1 :=
  (rep_run (rep_fromSeed (xof := xof) seed) ops).1

/-- the alignment statements as coded (`(pos + 3) & !3`, `(pos + 7) & !7` on a 64-bit `usize`) are the roundings used in
    the model (`nextWord`) -/
theorem alignment_as_coded (x : Nat) (hx : x < 2^64) :
    x &&& (2^64 - 1 - Gen.U32_ALIGN_MASK) = x / (Gen.U32_ALIGN_MASK + 1) * (Gen.U32_ALIGN_MASK + 1) ∧
    x &&& (2^64 - 1 - Gen.U64_ALIGN_MASK) = x / (Gen.U64_ALIGN_MASK + 1) * (Gen.U64_ALIGN_MASK + 1) :=
  ⟨align4_as_coded x hx, align8_as_coded x hx⟩

/-! ## (b) hamming weight, bound of the error samples -/

theorem hamming_weight_popcount : ∀ x, x < 256 → hammingWeight x = popcount8 x := hammingWeight_eq_popcount

/-- `|cbd(bytes)| ≤ 21` for all 2^48 inputs -/
theorem cbd_bound (bytes : List Nat) (hl : bytes.length = Gen.CBD_BYTES) (hb : ∀ b ∈ bytes, b < 256) :
    -21 ≤ cbdValue bytes ∧ cbdValue bytes ≤ 21 := cbdValue_bound bytes hl hb

example : cbdValue [255, 255, 255, 0, 0, 0] = 21 := by decide
example : cbdValue [0, 0, 0, 255, 255, 255] = -21 := by decide

/-- exact distribution of the error sample: of the 2^48 possible 6-byte draws exactly `64·C(42, v+21)` give the value `v`
    (`cbdCount v` = nested sum over all six bytes of `[cbdValue bytes = v]`), i.e. the push-forward of the uniform
    distribution is Bin(21,½) − Bin(21,½) -/
theorem cbd_distribution (v : Int) :
    cbdCount v = if -21 ≤ v ∧ v ≤ 21 then 64 * binom 42 (v + 21).toNat else 0 := cbdCount_eq v

/-- hence mean 0 (symmetry) and variance 21/2 = 10.5 (standard deviation ≈ 3.24, the 3.2 the code asks for) -/
theorem cbd_moments :
    (∀ v, cbdCount v = cbdCount (-v)) ∧
    sumL (List.range 43) (fun j => cbdCount ((j : Int) - 21)) = 2 ^ 48 ∧
    2 * sumL (List.range 43) (fun j => ((j : Int) - 21).natAbs ^ 2 * cbdCount ((j : Int) - 21)) = 21 * 2 ^ 48 :=
  ⟨cbdCount_symm, cbdCount_total, cbdCount_second_moment⟩

example : binom 42 21 = 538257874440 := by decide

/-! ## (c) sampled polynomials are well-formed -/

/-- rand 0.8.5's `UniformInt::sample` as modelled meets the contract assumed of `Uniform` -/
theorem rand_uniform_contract : randUniform.Contract := randUniform_contract

/-- ternary samples: one value `v_i ∈ {-1,0,1}` per coefficient, component `j` holds `v_i mod q_j` -/
theorem ternary_rns_consistent (U : Uniform) (hU : U.Contract) {xof : Xof} (hx : ByteXof xof) {s s' : St} (hs : ByteSt s)
    {n : Nat} {moduli : List Nat} {c : List (List Nat)} (hq : ∀ q ∈ moduli, 2 ≤ q)
    (h : ternary U xof s n moduli = .ok (c, s')) :
    ∃ vs : List Int, vs.length = n ∧ (∀ v ∈ vs, -1 ≤ v ∧ v ≤ 1) ∧
      c = moduli.map (fun (q : Nat) => vs.map fun v => (v % (q : Int)).toNat) ∧ ByteSt s' :=
  ternary_spec U hU hx hs hq h

/-- error samples (after the repair of the small-modulus underflow): one value `|v_i| ≤ 21` per coefficient, component `j`
    holds `v_i mod q_j` -- for EVERY modulus `q_j ≥ 2`, also those not above the error bound -/
theorem error_rns_consistent {xof : Xof} (hx : ByteXof xof) {s s' : St} (hs : ByteSt s)
    {n : Nat} {moduli : List Nat} {c : List (List Nat)} (hq : ∀ q ∈ moduli, 2 ≤ q)
    (h : centeredBinomial xof s n moduli = .ok (c, s')) :
    ∃ vs : List Int, vs.length = n ∧ (∀ v ∈ vs, -21 ≤ v ∧ v ≤ 21) ∧
      c = moduli.map (fun (q : Nat) => vs.map fun v => (v % (q : Int)).toNat) ∧ ByteSt s' :=
  centeredBinomial_spec hx hs hq h

/-- the encoding never refuses and is the canonical residue, whatever the value and the modulus `q ≥ 1` -/
theorem error_encoding_total {q : Nat} (hq : 0 < q) (v : Int) : encError q v = .ok (v % (q : Int)).toNat :=
  encError_eq hq v

example : encError 5 (-7) = .ok 3 := by rfl
example : encError 5 (-10) = .ok 0 := by rfl
example : encError 2 21 = .ok 1 := by rfl

/-- uniform samples: component `j` has `n` coefficients below `q_j` (under the `Uniform` contract) -/
theorem uniform_below_modulus (U : Uniform) (hU : U.Contract) {xof : Xof} (hx : ByteXof xof) {s s' : St} (hs : ByteSt s)
    {n : Nat} {moduli : List Nat} {c : List (List Nat)} (hq : ∀ q ∈ moduli, q ≤ 2^64)
    (h : uniformPoly U xof s n moduli = .ok (c, s')) : AllBelow n moduli c ∧ ByteSt s' :=
  uniformPoly_spec U hU hx moduli s s' c hs hq h

-- non-vacuity of the hypotheses
example : ByteXof (fun _ _ => #[]) := fun _ _ i => by simp [Array.getD_eq_getD_getElem?]
example (seed : Seed) : ByteSt (fromSeed seed) := byteSt_fromSeed seed

/-! ## (d) freshness (history theorems over the factory) and determinism -/

/-- the factory stored in every context creates generators from fresh entropy -/
theorem context_factory_uses_entropy :
    Gen.CONTEXT_FACTORY_IS_NEW = true ∧ Gen.GET_RNG_FRESH_ENTROPY_PER_CALL = true ∧ Factory.new.useRandomSeed = true :=
  ⟨rfl, rfl, rfl⟩

/-- over ANY history of key generations / encryptions on one context: the entropy index advances by exactly the number of
    generators created (key generation 1; symmetric 2: c1 generator, then noise generator; asymmetric 2: u generator, then
    noise generator; 1 when the caller supplies the mask generator) and the generators are seeded with consecutive entropy
    outputs, none reused -/
theorem draws_consume_fresh_entropy (U : Uniform) (xof : Xof) (P : Parms) (ent : Entropy) (ops : List HOp) (w : Nat) :
    (hrun U xof P Factory.new ent w ops).2 = w + totalCnt ops ∧
      allFactorySeeds (hrun U xof P Factory.new ent w ops).1 = (List.range (totalCnt ops)).map fun i => ent (w + i) :=
  hrun_fresh U P ent ops w

/-- with an injective entropy source no two generators of a history share a seed (in particular the mask generator and
    the noise generator of one encryption are different generators) -/
theorem draws_fresh (U : Uniform) (xof : Xof) (P : Parms) (ent : Entropy) (hent : Function.Injective ent)
    (ops : List HOp) (w : Nat) : (allFactorySeeds (hrun U xof P Factory.new ent w ops).1).Nodup :=
  hrun_seeds_nodup U P ent hent ops w

example : Function.Injective (fun i : Nat => [i]) := fun a b h => by simpa using h

/-- stored seeds: the seed saved in a symmetric ciphertext / key is the first 64 stream bytes of a fresh generator; if
    BLAKE3 maps the entropy outputs in use to different first blocks (assumption on BLAKE3 + entropy, outside the model),
    no two seeded objects of a history share their stored seed -/
theorem stored_seeds_fresh (U : Uniform) (xof : Xof) (P : Parms) (ent : Entropy)
    (hinj : Function.Injective fun i => firstBytes xof (ent i)) (ops : List HOp) (w : Nat) :
    (symPublicSeeds ops (hrun U xof P Factory.new ent w ops).1).Nodup := by
  rw [symPublicSeeds_eq]
  exact nodup_map_of_injective _ hinj _ (symIdx_nodup ops w)

-- non-vacuity of `hinj`: a block function whose first bytes repeat the seed, entropy outputs `[i]`
example : Function.Injective fun i : Nat => firstBytes (fun seed _ => seed.toArray) ((fun i => [i]) i) := by
  intro a b h
  have ha := (rep_fillBytes (rep_fromSeed (xof := fun seed _ => seed.toArray) [a]) Gen.PRNG_SEED_BYTES).1
  have hb := (rep_fillBytes (rep_fromSeed (xof := fun seed _ => seed.toArray) [b]) Gen.PRNG_SEED_BYTES).1
  simp only [firstBytes] at h
  rw [ha, hb] at h
  have e : Gen.PRNG_SEED_BYTES = 63 + 1 := rfl
  rw [e, streamSlice_succ, streamSlice_succ] at h
  injection h

/-- determinism: operations handed the same explicit mask-generator state derive exactly the same stored seed and mask,
    whatever the factory / entropy / history position -/
theorem mask_deterministic (U : Uniform) (xof : Xof) (P : Parms) (f f' : Factory) (ent ent' : Entropy) (w w' : Nat) (g : St) :
    (hstep U xof P f ent w (.symmetricWith g)).1.mask = (hstep U xof P f' ent' w' (.symmetricWith g)).1.mask ∧
    (hstep U xof P f ent w (.symmetricWith g)).1.publicSeed = (hstep U xof P f' ent' w' (.symmetricWith g)).1.publicSeed ∧
    (hstep U xof P f ent w (.asymmetricWith g)).1.mask = (hstep U xof P f' ent' w' (.asymmetricWith g)).1.mask :=
  ⟨rfl, rfl, rfl⟩

/-- a factory built with `from_seed` (not what contexts use) hands out the SAME seed every time: freshness rests entirely
    on `use_random_seed = true` -/
theorem fixed_seed_factory_repeats (seed : Seed) (ent : Entropy) (w w' : Nat) :
    ((Factory.fromSeed seed).getRng ent w).1.seed = ((Factory.fromSeed seed).getRng ent w').1.seed := rfl


/-! ## (e) THE CODE ITSELF (translator phase 4j): `Gen/RngFns.lean` is generated on every run from src/util/random_generator.rs
    (`BlakeRNG::refill_buffer`, `next_u32`, `next_u64`, `fill_bytes`), src/util/basic.rs (`hamming_weight`) and src/util/rlwe.rs
    (`sample::centered_binomial`, `ternary`, `uniform`) by tools/rs2lean_rng.py; the generated functions equal the model the theorems
    above are about.  `ofSt s` = the model state as the generated `struct BlakeRNG`, `xofL xof` = the block function as byte lists.
    `SizedXof` / `SizedSt`: the buffer is a `[u8; BUFFER_SIZE]` (facts of the Rust types, not of values). -/
section generated
open HC.GenRng

/-- `refill_buffer` = `refill` (every state) -/
theorem gen_refill_buffer_eq (xof : Xof) (s : St) : GenRng.refill_buffer (xofL xof) (ofSt s) = .ok (ofSt (refill xof s)) :=
  gn_refill_buffer_eq xof s

/-- `next_u32` = `nextU32` for every state with `pos ≤ BUFFER_SIZE`: the checked `usize` additions do not trap, the raw-pointer read
    (rendered as a bounds-checked little-endian read: out of bounds would be undefined behaviour) stays inside the buffer -/
theorem gen_next_u32_eq {xof : Xof} (hx : SizedXof xof) (s : St) (hs : SizedSt s) (hp : s.pos ≤ BUF) :
    GenRng.next_u32 (xofL xof) (ofSt s) = .ok (ofSt (nextU32 xof s).2, (nextU32 xof s).1) := gn_next_u32_eq hx s hs hp

theorem gen_next_u64_eq {xof : Xof} (hx : SizedXof xof) (s : St) (hs : SizedSt s) (hp : s.pos ≤ BUF) :
    GenRng.next_u64 (xofL xof) (ofSt s) = .ok (ofSt (nextU64 xof s).2, (nextU64 xof s).1) := gn_next_u64_eq hx s hs hp

/-- `fill_bytes(dest)` = `fillBytes` for `dest.len()` bytes, from EVERY state (any cursor, also beyond the buffer), whatever `dest` held;
    the `while` loop needs at most `dest.len()` iterations (the fuel `dest.len() + 1` of the translation is never exhausted) -/
theorem gen_fill_bytes_eq {xof : Xof} (hx : SizedXof xof) (s : St) (hs : SizedSt s) (dest : List Nat) (hd : dest.length < 2^64) :
    GenRng.fill_bytes (xofL xof) (ofSt s) dest = .ok (ofSt (fillBytes xof s dest.length).2, (fillBytes xof s dest.length).1) :=
  gn_fill_bytes_eq hx s hs dest hd

/-- the invariants are kept by every operation (so the equalities chain over any sequence of calls) -/
theorem gen_invariants_kept {xof : Xof} (hx : SizedXof xof) (s : St) (hs : GenInv s) (o : Op) (ho : OpOK o) :
    GenInv (step xof s o).2 := (gs_genStep_eq hx s hs o ho).2

example (seed : Seed) : GenInv (fromSeed seed) := genInv_fromSeed seed
example : SizedXof (fun _ _ => Array.replicate BUF 7) := fun _ _ => by simp

/-- `util::hamming_weight` (checked `i32` arithmetic) = `hammingWeight` on every byte -/
theorem gen_hamming_weight_eq : ∀ x, x < 256 → GenRng.hamming_weight x = .ok (Int.ofNat (hammingWeight x)) := gn_hamming_weight_eq

/-- SOURCE TO MATHEMATICS, generator: every interleaving of the three GENERATED functions on a freshly seeded generator returns the
    cursor semantics over the stream `xof seed 0 ++ xof seed 1 ++ …` (composition with `generator_is_stream_cursor`) -/
theorem gen_generator_is_stream_cursor {xof : Xof} (hx : SizedXof xof) (seed : Seed) (ops : List Op) (hops : ∀ o ∈ ops, OpOK o) :
    ∃ g, gs_genRun (xofL xof) (ofSt (fromSeed seed)) ops = .ok ((cursorRun xof seed 0 ops).1, g) := gs_genRun_cursor hx seed ops hops

/-- … and from ANY reachable state they return what the model's `run` returns -/
theorem gen_run_eq {xof : Xof} (hx : SizedXof xof) (ops : List Op) (s : St) (hs : GenInv s) (hops : ∀ o ∈ ops, OpOK o) :
    gs_genRun (xofL xof) (ofSt s) ops = .ok ((run xof s ops).1, ofSt (run xof s ops).2) := gs_genRun_eq hx ops s hs hops

example : ∀ o ∈ [Op.fill 5, Op.u32, Op.fill 4090, Op.u64], OpOK o := by
  intro o ho
  simp only [List.mem_cons, List.not_mem_nil, or_false] at ho
  rcases ho with rfl | rfl | rfl | rfl <;> simp [OpOK]

/-- chunking law on the GENERATED `fill_bytes` (composition with `fill_bytes_split`) -/
theorem gen_fill_bytes_split {xof : Xof} (hx : SizedXof xof) (s : St) (hs : SizedSt s) (d1 d2 : List Nat) (hd : (d1 ++ d2).length < 2^64) :
    ∃ g1 o1 g2 o2, GenRng.fill_bytes (xofL xof) (ofSt s) d1 = .ok (g1, o1) ∧ GenRng.fill_bytes (xofL xof) g1 d2 = .ok (g2, o2) ∧
      GenRng.fill_bytes (xofL xof) (ofSt s) (d1 ++ d2) = .ok (g2, o1 ++ o2) := gs_fill_bytes_split hx s hs d1 d2 hd

/-- from a fresh seed the generated `fill_bytes` writes the prefix of the stream (composition with `fill_bytes_stream`) -/
theorem gen_fill_bytes_stream {xof : Xof} (hx : SizedXof xof) (seed : Seed) (dest : List Nat) (hd : dest.length < 2^64) :
    ∃ g, GenRng.fill_bytes (xofL xof) (ofSt (fromSeed seed)) dest = .ok (g, streamSlice xof seed 0 dest.length) :=
  gs_fill_bytes_stream hx seed dest hd

/-- the `cbd` closure of `centered_binomial` run on the generated `BlakeRNG` (6 bytes from the generated `fill_bytes`, the masks, six
    generated `hamming_weight`s, five checked `i32` operations) = `cbdValue` of the model's draw … -/
theorem gen_cbd_closure_eq (U : Uniform) {xof : Xof} (hx : SizedXof xof) (hbx : ByteXof xof) (s : St) (hs : SizedSt s) (hbs : ByteSt s) :
    GenRng.centered_binomial_closure1 (blakeOps U xof) (ofSt s) = .ok (ofSt (fillBytes xof s 6).2, cbdValue (fillBytes xof s 6).1) :=
  gs_cbd_closure U hx hbx s hs hbs

/-- … hence lies in `[-21, 21]` (composition with `cbd_bound`) -/
theorem gen_cbd_bound (U : Uniform) {xof : Xof} (hx : SizedXof xof) (hbx : ByteXof xof) (s : St) (hs : SizedSt s) (hbs : ByteSt s) :
    ∃ g v, GenRng.centered_binomial_closure1 (blakeOps U xof) (ofSt s) = .ok (g, v) ∧ -21 ≤ v ∧ v ≤ 21 :=
  gs_cbd_closure_bound U hx hbx s hs hbs

/-- generated `centered_binomial` = model, laid out flat (position `i + j·n`), for ANY old contents of the destination -/
theorem gen_centered_binomial_eq (U : Uniform) {xof : Xof} (hx : SizedXof xof) (hbx : ByteXof xof) (s : St) (hs : SizedSt s) (hbs : ByteSt s)
    (n : Nat) (moduli dest : List Nat) (hd : dest.length = moduli.length * n) (hB : moduli.length * n < B64)
    (c : List (List Nat)) (s' : St) (h : centeredBinomial xof s n moduli = .ok (c, s')) :
    GenRng.centered_binomial (blakeOps U xof) (ofSt s) moduli n dest = .ok (ofSt s', flatCM moduli.length n c) :=
  gs_centered_binomial_fwd U hx hbx s hs hbs n moduli dest hd hB c s' h

/-- SOURCE TO MATHEMATICS, error samples: on moduli `q_j ≥ 2` the generated `centered_binomial` NEVER PANICS, and there are `n` values
    `|v_i| ≤ 21` with `v_i mod q_j` at position `i + j·n` of the destination (composition with `error_rns_consistent`, `cbd_bound`) -/
theorem gen_centered_binomial_source_to_math (U : Uniform) {xof : Xof} (hx : SizedXof xof) (hbx : ByteXof xof) (s : St) (hs : SizedSt s)
    (hbs : ByteSt s) (n : Nat) (moduli dest : List Nat) (hd : dest.length = moduli.length * n) (hB : moduli.length * n < B64)
    (hq : ∀ q ∈ moduli, 2 ≤ q) :
    ∃ (vs : List Int) (s' : St), vs.length = n ∧ (∀ v ∈ vs, -21 ≤ v ∧ v ≤ 21) ∧ ByteSt s' ∧
      centeredBinomial xof s n moduli = .ok (moduli.map (fun (q : Nat) => vs.map fun v => (v % (q : Int)).toNat), s') ∧
      GenRng.centered_binomial (blakeOps U xof) (ofSt s) moduli n dest =
        .ok (ofSt s', flatCM moduli.length n (moduli.map fun (q : Nat) => vs.map fun v => (v % (q : Int)).toNat)) :=
  gs_centered_binomial_math U hx hbx s hs hbs n moduli dest hd hB hq

/-- the layout: component `j`, coefficient `i` at `i + j·n` -/
theorem flat_layout (k n : Nat) (c : List (List Nat)) {i j : Nat} (hi : i < n) (hj : j < k) :
    (flatCM k n c).getD (i + j * n) 0 = (c.getD j []).getD i 0 := gs_flatCM_get k n c hi hj

-- non-vacuity of the shape hypotheses: two moduli (one below the error bound), degree 2, a dirty destination
example : ([9, 9, 9, 9] : List Nat).length = ([5, 13] : List Nat).length * 2 ∧ ([5, 13] : List Nat).length * 2 < B64 ∧ ∀ q ∈ ([5, 13] : List Nat), 2 ≤ q := by
  decide

/-- generated `ternary` = model (whenever the model's draws succeed), hence `v_i mod q_j`, `v_i ∈ {-1,0,1}` (composition with `ternary_rns_consistent`) -/
theorem gen_ternary_source_to_math (U : Uniform) (hU : U.Contract) {xof : Xof} (hbx : ByteXof xof) (s : St) (hbs : ByteSt s)
    (n : Nat) (moduli dest : List Nat) (hd : dest.length = moduli.length * n) (hB : moduli.length * n < B64) (hq : ∀ q ∈ moduli, 2 ≤ q)
    (c : List (List Nat)) (s' : St) (h : Rng.ternary U xof s n moduli = .ok (c, s')) :
    ∃ vs : List Int, vs.length = n ∧ (∀ v ∈ vs, -1 ≤ v ∧ v ≤ 1) ∧
      GenRng.ternary (blakeOps U xof) (ofSt s) moduli n dest =
        .ok (ofSt s', flatCM moduli.length n (moduli.map fun (q : Nat) => vs.map fun v => (v % (q : Int)).toNat)) :=
  gs_ternary_math U hU hbx s hbs n moduli dest hd hB hq c s' h

/-- … without any assumption on `Uniform` or the moduli: whatever the model returns, the generated code returns -/
theorem gen_ternary_eq (U : Uniform) (xof : Xof) (s : St) (n : Nat) (moduli dest : List Nat)
    (hd : dest.length = moduli.length * n) (hB : moduli.length * n < B64)
    (c : List (List Nat)) (s' : St) (h : Rng.ternary U xof s n moduli = .ok (c, s')) :
    GenRng.ternary (blakeOps U xof) (ofSt s) moduli n dest = .ok (ofSt s', flatCM moduli.length n c) :=
  gs_ternary_fwd U xof s n moduli dest hd hB c s' h

/-- generated `uniform` = model (whenever the model's draws succeed), coefficients of component `j` below `q_j` (composition with `uniform_below_modulus`) -/
theorem gen_uniform_source_to_math (U : Uniform) (hU : U.Contract) {xof : Xof} (hbx : ByteXof xof) (s : St) (hbs : ByteSt s)
    (n : Nat) (moduli dest : List Nat) (hd : dest.length = moduli.length * n) (hB : moduli.length * n < B64) (hq : ∀ q ∈ moduli, q ≤ 2^64)
    (c : List (List Nat)) (s' : St) (h : uniformPoly U xof s n moduli = .ok (c, s')) :
    GenRng.uniform (blakeOps U xof) (ofSt s) moduli n dest = .ok (ofSt s', flatCM moduli.length n c) ∧ AllBelow n moduli c :=
  gs_uniform_math U hU hbx s hbs n moduli dest hd hB hq c s' h

/-- `SeedableRng::from_seed` = `fromSeed` (so "a freshly seeded generator" in the statements above is the generated constructor's result) -/
theorem gen_from_seed_eq (seed : Seed) : GenRng.from_seed seed = .ok (ofSt (fromSeed seed)) := gn_from_seed_eq seed

/-- EQUALITY ON SUCCESS, both directions: the generated `centered_binomial` returns `(g', d')` iff the model returns a polynomial `c` and a
    state `s'` with `g' = ofSt s'`, `d' = flat c` — generated code and model succeed on exactly the same inputs, with the same result
    (in particular: whenever one of them fails, so does the other) -/
theorem gen_centered_binomial_iff (U : Uniform) {xof : Xof} (hx : SizedXof xof) (hbx : ByteXof xof) (s : St) (hs : SizedSt s) (hbs : ByteSt s)
    (n : Nat) (moduli dest : List Nat) (hd : dest.length = moduli.length * n) (hB : moduli.length * n < B64) (g' : BlakeRNG) (d' : List Nat) :
    GenRng.centered_binomial (blakeOps U xof) (ofSt s) moduli n dest = .ok (g', d') ↔
      ∃ c s', centeredBinomial xof s n moduli = .ok (c, s') ∧ g' = ofSt s' ∧ d' = flatCM moduli.length n c :=
  gs_centered_binomial_iff U hx hbx s hs hbs n moduli dest hd hB g' d'

/-- the same for `ternary`: no assumption on `Uniform`, the moduli or the generator state (the code draws and encodes coefficient by
    coefficient, the model draws first and encodes afterwards: they still succeed together) -/
theorem gen_ternary_iff (U : Uniform) (xof : Xof) (s : St) (n : Nat) (moduli dest : List Nat)
    (hd : dest.length = moduli.length * n) (hB : moduli.length * n < B64) (g' : BlakeRNG) (d' : List Nat) :
    GenRng.ternary (blakeOps U xof) (ofSt s) moduli n dest = .ok (g', d') ↔
      ∃ c s', Rng.ternary U xof s n moduli = .ok (c, s') ∧ g' = ofSt s' ∧ d' = flatCM moduli.length n c :=
  gs_ternary_iff U xof s n moduli dest hd hB g' d'

/-- the same for `uniform` -/
theorem gen_uniform_iff (U : Uniform) (xof : Xof) (s : St) (n : Nat) (moduli dest : List Nat)
    (hd : dest.length = moduli.length * n) (hB : moduli.length * n < B64) (g' : BlakeRNG) (d' : List Nat) :
    GenRng.uniform (blakeOps U xof) (ofSt s) moduli n dest = .ok (g', d') ↔
      ∃ c s', uniformPoly U xof s n moduli = .ok (c, s') ∧ g' = ofSt s' ∧ d' = flatCM moduli.length n c :=
  gs_uniform_iff U xof s n moduli dest hd hB g' d'

/-- `Ciphertext::contains_seed` (skeleton over the flat buffer `data` = c0 ++ c1; `n` = degree, `k` = number of moduli of the ciphertext):
    `size == 2 && c1[0] == CIPHERTEXT_SEED_FLAG` -/
theorem gen_contains_seed_eq (data : List Nat) (n k : Nat) (hn : 0 < n) (hk : 0 < k) (hlen : data.length = 2 * (n * k)) (hB : 2 * (n * k) < B64) :
    GenRng.contains_seed data 2 n k = .ok (decide (data.getD (n * k) 0 = gs_FLAG)) ∧
    (∀ size, size ≠ 2 → GenRng.contains_seed data size n k = .ok false) :=
  ⟨gs_contains_seed_eq data n k hn hk hlen hB, fun size hs => gs_contains_seed_size data size n k hs⟩

example : gs_FLAG = Gen.CIPHERTEXT_SEED_FLAG := rfl

/-- `Ciphertext::expand_seed` (skeleton; `seedBytes` = little-endian bytes of the 8 words after the flag word `data[n·k]`): on a flagged
    size-2 ciphertext whose polynomials have AT LEAST 9 WORDS, c0 is kept and c1 becomes `sample::uniform` drawn from
    `BlakeRNG::from_seed(seedBytes)` -/
theorem gen_expand_seed_eq (U : Uniform) (xof : Xof) (data moduli : List Nat) (n k : Nat) (hk : moduli.length = k)
    (hlen : data.length = 2 * (n * k)) (hflag : data.getD (n * k) 0 = gs_FLAG) (h9 : 9 ≤ n * k) (hB : 2 * (n * k) < B64)
    (c : List (List Nat)) (s' : St) (h : uniformPoly U xof (fromSeed (gs_seedBytes data (n * k))) n moduli = .ok (c, s')) :
    GenRng.expand_seed (blakeOps U xof) data 2 n k moduli n = .ok (data.take (n * k) ++ flatCM k n c) :=
  gs_expand_seed_eq U xof data moduli n k hk hlen hflag h9 hB c s' h

/-- the hypothesis `9 ≤ n·k` of the previous theorem is NOT a technicality: below it (N = 4 or 8 with one prime, N = 4 with two, N = 2 with
    up to four) the raw-pointer read of the seed LEAVES THE BUFFER - `.error .oob` is the translation's rendering of undefined behaviour.
    (`symmetric_with_c1_prng` never stores a seed there, but `expand_seed` / `deserialize_full` do not check.  Observed on the real code,
    notes/work7-R.md: one byte string deserializes to different ciphertexts.) -/
theorem gen_expand_seed_oob (B : RngOps BlakeRNG) (data qs : List Nat) (pn n k : Nat) (hn : 0 < n) (hk : 0 < k)
    (hlen : data.length = 2 * (n * k)) (hflag : data.getD (n * k) 0 = gs_FLAG) (h9 : n * k < 9) :
    GenRng.expand_seed B data 2 n k qs pn = .error .oob := gs_expand_seed_oob B data qs pn n k hn hk hlen hflag h9

example : (0 : Nat) < 4 ∧ (0 : Nat) < 1 ∧ ([11, 12, 13, 14, 18446744073709551615, 1, 2, 3] : List Nat).length = 2 * (4 * 1) ∧
    ([11, 12, 13, 14, 18446744073709551615, 1, 2, 3] : List Nat).getD (4 * 1) 0 = gs_FLAG ∧ 4 * 1 < 9 := by decide

/-- a size-2 ciphertext that is not flagged is refused -/
theorem gen_expand_seed_refuses (B : RngOps BlakeRNG) (data qs : List Nat) (pn n k : Nat) (hn : 0 < n) (hk : 0 < k)
    (hlen : data.length = 2 * (n * k)) (hB : 2 * (n * k) < B64) (hflag : data.getD (n * k) 0 ≠ gs_FLAG) :
    GenRng.expand_seed B data 2 n k qs pn = .error .refused := gs_expand_seed_refuses B data qs pn n k hn hk hlen hB hflag

/-- tie to `Model/Encrypt.lean`: what `expandSeed` returns for the seeded ciphertext `(c0, seedBytes)` at level `l` is what the generated
    function writes over polynomial 1 -/
theorem gen_expand_seed_model (U : Uniform) (xof : Xof) (l : Level) (data : List Nat) (c0 : RnsPoly) (ntt : Bool) (cf : Nat)
    (hlen : data.length = 2 * (l.n * l.qs.size)) (hflag : data.getD (l.n * l.qs.size) 0 = gs_FLAG) (h9 : 9 ≤ l.n * l.qs.size)
    (hB : 2 * (l.n * l.qs.size) < B64) (ct : Ct)
    (h : expandSeed U xof l ⟨c0, gs_seedBytes data (l.n * l.qs.size), ntt, cf⟩ = .ok ct) :
    ∃ c : List (List Nat), ct.polys = #[c0, toRns c] ∧
      GenRng.expand_seed (blakeOps U xof) data 2 l.n l.qs.size (l.qs.toList.map (·.value)) l.n =
        .ok (data.take (l.n * l.qs.size) ++ flatCM l.qs.size l.n c) :=
  gs_expand_seed_model U xof l data c0 ntt cf hlen hflag h9 hB ct h

end generated

end HC.C16
